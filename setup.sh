#!/bin/sh
# Offline build of the whole framework: Coq development (full .vo), extraction, OCaml driver.
set -e
cd "$(dirname "$0")"
mkdir -p build evidence
( flock 9
  ./coq/build.sh > build/coq_build.log 2>&1 || { tail -30 build/coq_build.log; exit 1; }
  if [ ! -f build/driver ] || [ coq/model.ml -nt build/driver ] || [ ocaml/driver.ml -nt build/driver ]; then
    rm -rf build/ocaml && mkdir -p build/ocaml
    cp coq/model.ml coq/model.mli ocaml/driver.ml build/ocaml/
    ( cd build/ocaml && ocamlfind ocamlopt -O3 -w -a model.mli model.ml driver.ml -o ../driver.tmp 2>/dev/null \
        || ocamlfind ocamlopt -w -a model.mli model.ml driver.ml -o ../driver.tmp )
    mv build/driver.tmp build/driver
  fi
) 9> build/.lock
echo "setup ok"
