"""Shared helpers for the PUS properties (C02, C03, C04, C15): independent bitwise CRC,
independent layouts, packet generators."""

BND8 = [0, 1, 2, 127, 128, 254, 255]
BND11 = [0, 1, 2, 1023, 1024, 2046, 2047]
BND14 = [0, 1, 2, 8191, 8192, 16382, 16383]
BND16 = [0, 1, 2, 255, 256, 32767, 32768, 65534, 65535]


def crc16(data, state=0xFFFF):
    """CRC-16/CCITT-FALSE, bit by bit (independent of crcmod and of the Coq definition)."""
    s = state
    for b in data:
        s ^= b << 8
        for _ in range(8):
            s = ((s << 1) ^ 0x1021) & 0xFFFF if s & 0x8000 else (s << 1) & 0xFFFF
    return s


def sph_layout(v, t, s, ap, f, c, d):
    return [v * 32 + t * 16 + s * 8 + ap // 256, ap % 256, f * 64 + c // 256, c % 256, d // 256, d % 256]


def tc_layout(service, subservice, apid, seq, source_id, ack, app):
    body = sph_layout(0, 1, 1, apid, 3, seq, 5 + len(app) + 1) + [32 + ack, service, subservice, source_id // 256, source_id % 256] + list(app)
    c = crc16(body)
    return body + [c // 256, c % 256]


def tm_layout(service, subservice, apid, seq, msgcnt, ref, dest, version, stamp, src):
    body = sph_layout(version, 0, 1, apid, 3, seq, 7 + len(stamp) + len(src) + 1) + \
        [32 + ref, service, subservice, msgcnt // 256, msgcnt % 256, dest // 256, dest % 256] + list(stamp) + list(src)
    c = crc16(body)
    return body + [c // 256, c % 256]


def rbytes(rng, n):
    return [rng.randrange(256) for _ in range(n)]


def pick(rng, bnd, hi):
    return rng.choice(bnd) if rng.random() < 0.4 else rng.randrange(hi)


def rand_tc_args(rng, maxlen=40):
    n = rng.choice([0, 1, 2, 3, 7, 16]) if rng.random() < 0.5 else rng.randrange(maxlen)
    return [[pick(rng, BND8, 256), pick(rng, BND8, 256), pick(rng, BND11, 2048), pick(rng, BND14, 16384),
             pick(rng, BND16, 65536), rng.randrange(16)], rbytes(rng, n)]


def rand_tm_args(rng, maxlen=40, ts_len=None):
    n = rng.choice([0, 1, 2, 3, 7, 16]) if rng.random() < 0.5 else rng.randrange(maxlen)
    tl = rng.choice([0, 0, 1, 2, 7, 7, 7, 8, 16]) if ts_len is None else ts_len
    return [[pick(rng, BND8, 256), pick(rng, BND8, 256), pick(rng, BND11, 2048), pick(rng, BND14, 16384),
             pick(rng, BND16, 65536), rng.randrange(16), pick(rng, BND16, 65536), rng.randrange(8)],
            rbytes(rng, tl), rbytes(rng, n)]


def malformed(rng, pkt, hdr_octets, len_pos=(4, 5)):
    """Targeted malformed variants of a valid packet: every truncation, per-octet substitutions in
    the first `hdr_octets` octets, length-field rewrites, suffixes."""
    out = []
    for n in range(len(pkt)):
        out.append(pkt[:n])
    for i in range(min(hdr_octets, len(pkt))):
        v = pkt[i]
        for w in {0, 1, 0x7F, 0x80, 0xFF, (v + 1) & 0xFF, (v - 1) & 0xFF, v ^ 0x10, v ^ 0x20, v ^ 0x08}:
            if w != v:
                p = list(pkt); p[i] = w; out.append(p)
    true_len = pkt[len_pos[0]] * 256 + pkt[len_pos[1]]
    for l in {0, 1, 2, 3, 4, 5, 6, 7, 8, max(true_len - 1, 0), max(true_len - 2, 0), true_len + 1, true_len + 2, 65535}:
        if l != true_len:
            p = list(pkt); p[len_pos[0]] = l // 256; p[len_pos[1]] = l % 256; out.append(p)
            out.append(p + rbytes(rng, 12))
    for k in (1, 2, 6, 13):
        out.append(list(pkt) + rbytes(rng, k))
    out.append(list(pkt) + list(pkt))
    return out


def with_valid_crc_prefix(rng, dlen, first_octets, total):
    """An octet string of `total` octets whose first dlen+7 octets carry a valid CRC trailer and
    whose space packet length field is dlen (used to probe too-small declared lengths)."""
    n = dlen + 7
    p = list(first_octets) + rbytes(rng, max(0, total - len(first_octets)))
    p[4] = dlen // 256; p[5] = dlen % 256
    if n == 7:
        # the CRC's first octet is the low length octet: search a sequence count that makes it fit
        for _ in range(20000):
            p[2] = rng.randrange(256); p[3] = rng.randrange(256)
            c = crc16(p[:5])
            if c // 256 == p[5]:
                p[6] = c % 256
                return p
        return p
    c = crc16(p[:n - 2]); p[n - 2] = c // 256; p[n - 1] = c % 256
    return p
