"""Shared helpers for the PUS properties (C02, C03, C04, C15): independent bitwise CRC,
independent layouts, packet generators."""

BND8 = [0, 1, 2, 127, 128, 254, 255]
BND11 = [0, 1, 2, 1023, 1024, 2046, 2047]
BND14 = [0, 1, 2, 8191, 8192, 16382, 16383]
BND16 = [0, 1, 2, 255, 256, 32767, 32768, 65534, 65535]


def crc16(data, state=0xFFFF):
    """CRC-16/CCITT-FALSE, bit by bit (independent of crcmod and of the Coq definition)."""
    s = state
    for b in data:
        s ^= b << 8
        for _ in range(8):
            s = ((s << 1) ^ 0x1021) & 0xFFFF if s & 0x8000 else (s << 1) & 0xFFFF
    return s


def sph_layout(v, t, s, ap, f, c, d):
    return [v * 32 + t * 16 + s * 8 + ap // 256, ap % 256, f * 64 + c // 256, c % 256, d // 256, d % 256]


def tc_layout(service, subservice, apid, seq, source_id, ack, app):
    body = sph_layout(0, 1, 1, apid, 3, seq, 5 + len(app) + 1) + [32 + ack, service, subservice, source_id // 256, source_id % 256] + list(app)
    c = crc16(body)
    return body + [c // 256, c % 256]


def tm_layout(service, subservice, apid, seq, msgcnt, ref, dest, version, stamp, src):
    body = sph_layout(version, 0, 1, apid, 3, seq, 7 + len(stamp) + len(src) + 1) + \
        [32 + ref, service, subservice, msgcnt // 256, msgcnt % 256, dest // 256, dest % 256] + list(stamp) + list(src)
    c = crc16(body)
    return body + [c // 256, c % 256]


# ---- header fields pushed out of range on a live PUS object (C01's refusal clause, seen through PusTc / PusTm)
HDR_OUT_OF_RANGE = {3: [2048, 2049, 4095, 32768, 65535, 65536, 2 ** 32, -1],           # header field index -> values
                    5: [16384, 16385, 32768, 49152, 65535, 65536, 2 ** 64, -1],
                    6: [65536, 65537, 2 ** 32, -1]}
HDR_LIMIT = {3: 2048, 5: 16384, 6: 65536}
SERIALISERS = {0: "pack()", 1: "pack(recalc_crc=False)", 2: "calc_crc()", 7: "to_space_packet()", 26: "pack()", 27: "pack()"}


def hdr_range_ok(S):
    return 0 <= S["apid"] < 2048 and 0 <= S["count"] < 16384 and 0 <= S["dlen"] < 65536


def out_of_range_verdict(cls, k, where, S, st):
    """every serialisation route of a PUS packet packs the primary header first: with an APID / sequence count / data
    length out of range it must refuse with ValueError ('refused ... instead of being encoded'); st = [0] or
    [1, exception class]"""
    bad = {x: S[x] for x, hi in (("apid", 2048), ("count", 16384), ("dlen", 65536)) if not 0 <= S[x] < hi}
    if st[0] == 0:
        return ("C01/%s.%s/out-of-range-encoded" % (cls, SERIALISERS[k].split("(")[0]),
                "%s: primary header field(s) %s out of range, yet %s went through instead of raising ValueError" % (where, bad, SERIALISERS[k]))
    if len(st) < 2 or st[1] not in (1, 2, 3):
        return ("C01/%s.%s/out-of-range-wrong-error" % (cls, SERIALISERS[k].split("(")[0]),
                "%s: primary header field(s) %s out of range: %s raised exception class %s, the property prescribes ValueError" % (
                    where, bad, SERIALISERS[k], st[1:]))
    return None


def out_of_range_histories(rng, routes, heal, views=((0,), (1,), (2,), (7,), (26, 0), (27, 0)), primes=((), ((0,),), ((2,),), ((7,),))):
    """operation lists (setter op 30): a header field pushed out of range through every public route, then a serialiser
    (must refuse), a look at the object, another serialiser, the field healed by an in-range assignment, a serialiser
    and a look again.  routes: field -> number of routes; heal(f) -> an in-range value"""
    out, i = [], 0
    for f in (3, 5, 6):
        for route in range(routes[f]):
            for v in HDR_OUT_OF_RANGE[f]:
                a, b, c = views[i % len(views)], rng.choice(views), rng.choice(views)
                pr = primes[(i // len(views)) % len(primes)]
                out.append([list(x) for x in pr] + [[30, f, v, route], list(a), [8], list(b), [30, f, heal(f), route], list(c), [8]])
                i += 1
    for _ in range(40):                   # two fields out of range, healed one after the other
        f1, f2 = rng.sample([3, 5, 6], 2)
        ops = [[30, f1, rng.choice(HDR_OUT_OF_RANGE[f1]), rng.randrange(routes[f1])],
               [30, f2, rng.choice(HDR_OUT_OF_RANGE[f2]), rng.randrange(routes[f2])], list(rng.choice(views)),
               [30, f1, heal(f1), rng.randrange(routes[f1])], list(rng.choice(views)), [8],
               [30, f2, heal(f2), rng.randrange(routes[f2])], list(rng.choice(views)), [8]]
        out.append(ops)
    return out


def rbytes(rng, n):
    return [rng.randrange(256) for _ in range(n)]


def pick(rng, bnd, hi):
    return rng.choice(bnd) if rng.random() < 0.4 else rng.randrange(hi)


def rand_tc_args(rng, maxlen=40):
    n = rng.choice([0, 1, 2, 3, 7, 16]) if rng.random() < 0.5 else rng.randrange(maxlen)
    return [[pick(rng, BND8, 256), pick(rng, BND8, 256), pick(rng, BND11, 2048), pick(rng, BND14, 16384),
             pick(rng, BND16, 65536), rng.randrange(16)], rbytes(rng, n)]


def rand_tm_args(rng, maxlen=40, ts_len=None):
    n = rng.choice([0, 1, 2, 3, 7, 16]) if rng.random() < 0.5 else rng.randrange(maxlen)
    tl = rng.choice([0, 0, 1, 2, 7, 7, 7, 8, 16]) if ts_len is None else ts_len
    return [[pick(rng, BND8, 256), pick(rng, BND8, 256), pick(rng, BND11, 2048), pick(rng, BND14, 16384),
             pick(rng, BND16, 65536), rng.randrange(16), pick(rng, BND16, 65536), rng.randrange(8)],
            rbytes(rng, tl), rbytes(rng, n)]


def malformed(rng, pkt, hdr_octets, len_pos=(4, 5)):
    """Targeted malformed variants of a valid packet: every truncation, per-octet substitutions in
    the first `hdr_octets` octets, length-field rewrites, suffixes."""
    out = []
    for n in range(len(pkt)):
        out.append(pkt[:n])
    for i in range(min(hdr_octets, len(pkt))):
        v = pkt[i]
        for w in {0, 1, 0x7F, 0x80, 0xFF, (v + 1) & 0xFF, (v - 1) & 0xFF, v ^ 0x10, v ^ 0x20, v ^ 0x08}:
            if w != v:
                p = list(pkt); p[i] = w; out.append(p)
    true_len = pkt[len_pos[0]] * 256 + pkt[len_pos[1]]
    for l in {0, 1, 2, 3, 4, 5, 6, 7, 8, max(true_len - 1, 0), max(true_len - 2, 0), true_len + 1, true_len + 2, 65535}:
        if l != true_len:
            p = list(pkt); p[len_pos[0]] = l // 256; p[len_pos[1]] = l % 256; out.append(p)
            out.append(p + rbytes(rng, 12))
    for k in (1, 2, 6, 13):
        out.append(list(pkt) + rbytes(rng, k))
    out.append(list(pkt) + list(pkt))
    return out


def with_valid_crc_prefix(rng, dlen, first_octets, total):
    """An octet string of `total` octets whose first dlen+7 octets carry a valid CRC trailer and
    whose space packet length field is dlen (used to probe too-small declared lengths)."""
    n = dlen + 7
    p = list(first_octets) + rbytes(rng, max(0, total - len(first_octets)))
    p[4] = dlen // 256; p[5] = dlen % 256
    if n == 7:
        # the CRC's first octet is the low length octet: search a sequence count that makes it fit
        for _ in range(20000):
            p[2] = rng.randrange(256); p[3] = rng.randrange(256)
            c = crc16(p[:5])
            if c // 256 == p[5]:
                p[6] = c % 256
                return p
        return p
    c = crc16(p[:n - 2]); p[n - 2] = c // 256; p[n - 1] = c % 256
    return p


# ---------------------------------------------------------------- value coincidences of the running CRC
# A serialiser that chains a running CRC over the parts of a packet (primary header, secondary header, data,
# blocks of the data) can mistake an intermediate value for "nothing computed yet" (0x0000) or for the
# initial value (0xFFFF).  Such packets are 2^-16 events per boundary, so they are SEARCHED for: the CRC is
# a bijection of any 16-bit window of the message (everything else fixed), hence a free 16-bit field
# (sequence count with several APIDs, service/subservice, source ID, message counter, destination ID, two
# octets of timestamp / data) is solved for such that the CRC over a chosen prefix hits a chosen target.
# Everything here uses the harness's own table derived from the bitwise `crc16` above.
_TAB = [crc16([b], 0) for b in range(256)]
_LOW_INV = {t & 0xFF: j for j, t in enumerate(_TAB)}
assert len(_LOW_INV) == 256
CRC_TARGETS = (0x0000, 0xFFFF)


def fcrc(data, s=0xFFFF):
    for b in data:
        s = ((s << 8) & 0xFFFF) ^ _TAB[(s >> 8) ^ b]
    return s


def crc_back(data, s):
    """the state BEFORE feeding `data` that ends in state s"""
    for b in reversed(data):
        j = _LOW_INV[s & 0xFF]
        s = ((j ^ b) << 8) | (((s ^ _TAB[j]) >> 8) & 0xFF)
    return s


_G_INV = {}


def solve_window(prefix, suffix, target, state=0xFFFF):
    """the 16-bit word w with crc(prefix ++ w ++ suffix) == target (exists and is unique: the update is linear)"""
    if not _G_INV:
        for hi in range(256):
            s1 = _TAB[hi]
            for lo in range(256):
                _G_INV[((s1 << 8) & 0xFFFF) ^ _TAB[(s1 >> 8) ^ lo]] = hi * 256 + lo
        assert len(_G_INV) == 65536
    before = fcrc(prefix, state)
    after = crc_back(suffix, target)
    return _G_INV[after ^ fcrc([0, 0], before)]


assert all(fcrc(m) == crc16(m) for m in ([], [0], [0xFF] * 3, list(range(40)), [0x80, 0, 0xFF] * 9))
assert crc_back([1, 2, 3, 0xFF], fcrc([1, 2, 3, 0xFF], 0x1234)) == 0x1234


def _force_prefix(body, p, target, windows, fix_seq_flags=True):
    """rewrite one 16-bit window of `body` (first admissible of `windows`, all of which end at or before p) such
    that crc(body[:p]) == target; the sequence-control window (2, 3) is admissible only when the solved word keeps
    the two flag bits, which the caller retries with another APID.  Returns the new body or None."""
    for w in windows:
        if w + 2 > p or w < 0:
            continue
        x = solve_window(body[:w], body[w + 2:p], target)
        if w == 2 and fix_seq_flags and (x >> 14) != (body[2] >> 6):
            continue
        out = list(body)
        out[w] = x >> 8; out[w + 1] = x & 0xFF
        assert fcrc(out[:p]) == target
        return out
    return None


def tc_args_of_body(body):
    return [[body[7], body[8], (body[0] & 7) * 256 + body[1], (body[2] & 0x3F) * 256 + body[3], body[9] * 256 + body[10],
             body[6] & 15], list(body[11:])]


def tm_args_of_body(body, tl):
    return [[body[7], body[8], (body[0] & 7) * 256 + body[1], (body[2] & 0x3F) * 256 + body[3], body[9] * 256 + body[10],
             body[6] & 15, body[11] * 256 + body[12], body[0] >> 5], list(body[13:13 + tl]), list(body[13 + tl:])]


def boundaries(hdr_end, n_body):
    """prefix lengths a chained CRC could stop at: every octet boundary from the end of the primary header to the
    end of the headers, a few positions and block sizes inside the data, the whole packet (= the trailer itself)"""
    out = list(range(6, hdr_end + 1))
    for k in (1, 2, 3, 4, 8, 16, 32, 64, 128, 256, 512, 1024):
        if hdr_end + k < n_body:
            out.append(hdr_end + k)
    for b in (16, 32, 64, 128, 256, 512, 1024):          # absolute block sizes too
        if hdr_end < b < n_body:
            out.append(b)
    out.append(n_body)
    return sorted(set(out))


def tc_crc_coincidences(rng, targets=CRC_TARGETS, lens=(0, 1, 2, 3, 7, 40), fixed=()):
    """[(args, boundary, target)]: telecommands whose CRC over the first `boundary` octets is `target`.
    `fixed`: windows that must not be rewritten (e.g. (7,) when service / subservice are prescribed)."""
    out = []
    for n in lens:
        for p in boundaries(11, 11 + n):
            if n >= 200 and p <= 11:
                continue                 # header boundaries are covered by the short packets
            for t in targets:
                for _ in range(200):
                    a = rand_tc_args(rng, 1)
                    a[1] = rbytes(rng, n)
                    body = tc_layout(*a[0], a[1])[:-2]
                    wins = [w for w in ([p - 2] if p - 2 >= 11 else []) + [9, 7, 2] if w not in fixed]
                    if rng.random() < 0.5:
                        wins = [w for w in (2, 9, 7) if w not in fixed] + wins       # the same boundary through another field
                    b2 = _force_prefix(body, p, t, wins)
                    if b2 is not None:
                        out.append((tc_args_of_body(b2), p, t))
                        break
    return out


def tm_crc_coincidences(rng, targets=CRC_TARGETS, lens=(0, 1, 2, 3, 7, 40), stamps=(0, 1, 7, 16), fixed=(), service=None,
                        msgcnt=None):
    """[(args, boundary, target)] for telemetry; `service` / `msgcnt` prescribe values the wrappers fix"""
    out = []
    for tl in stamps:
        for n in lens:
            for p in boundaries(13 + tl, 13 + tl + n):
                if n >= 200 and p <= 13 + tl:
                    continue             # header boundaries are covered by the short packets
                for t in targets:
                    for _ in range(200):
                        a = rand_tm_args(rng, 1, tl)
                        a[2] = rbytes(rng, n)
                        if service is not None:
                            a[0][0] = service
                        if msgcnt is not None:
                            a[0][4] = msgcnt
                        body = tm_layout(*a[0], a[1], a[2])[:-2]
                        wins = [w for w in ([p - 2] if p - 2 >= 13 else []) + [11, 9, 7, 2] if w not in fixed]
                        if rng.random() < 0.5:
                            wins = [w for w in (2, 11, 9, 7) if w not in fixed] + wins
                        b2 = _force_prefix(body, p, t, wins)
                        if b2 is not None:
                            out.append((tm_args_of_body(b2, tl), p, t))
                            break
    return out


def repair_pus_crc(pkt, n=None):
    """the packet with the CRC trailer of its first n octets (default: the length it declares) recomputed; padded with
    zero octets when shorter than n"""
    p = list(pkt)
    if n is None:
        n = p[4] * 256 + p[5] + 7 if len(p) >= 6 else len(p)
    if n < 2:
        return p
    if len(p) < n:
        p += [0] * (n - len(p))
    c = fcrc(p[:n - 2])
    p[n - 2] = c >> 8; p[n - 1] = c & 0xFF
    return p
