"""Shared machinery of the cross-cutting checks C09 / C10: the registry of every decoder
entry point (taken from the DECODERS lists of the per-property modules) and routing of ops."""
import importlib

FAMILY_MODULE = {1: "c01", 2: "c20", 3: "c19", 4: "c14", 5: "c02", 6: "c03", 7: "c15", 8: "c16", 9: "c13",
                 10: "c08", 11: "c18", 12: "c05", 13: "c06", 14: "c07", 15: "c12", 16: "c17", 17: "c04"}
_MODS = {}


def module(fam):
    if fam not in _MODS:
        try:
            _MODS[fam] = importlib.import_module("harness.props." + FAMILY_MODULE[fam])
        except ModuleNotFoundError:
            _MODS[fam] = None
    return _MODS[fam]


def all_decoders():
    out = []
    for fam in sorted(FAMILY_MODULE):
        if fam == 17:
            continue
        m = module(fam)
        if m is None:
            continue
        for d in getattr(m, "DECODERS", []):
            out.append(dict(d, family=fam))
    return out


def impl(op, a):
    return module(op // 100).impl(op, a)


def enums():
    out, seen = [], set()
    for fam in sorted(FAMILY_MODULE):
        m = module(fam)
        if m is None or fam == 17:
            continue
        for e in getattr(m, "ENUMS", []):
            if e not in seen:
                seen.add(e); out.append(e)
    return out
