"""Shared machinery of the cross-cutting checks C09 / C10: the registry of every decoder
entry point (taken from the DECODERS lists of the per-property modules) and routing of ops."""
import importlib

FAMILY_MODULE = {1: "c01", 2: "c20", 3: "c19", 4: "c14", 5: "c02", 6: "c03", 7: "c15", 8: "c16", 9: "c13",
                 10: "c08", 11: "c18", 12: "c05", 13: "c06", 14: "c07", 15: "c12", 16: "c17", 17: "c04"}
_MODS = {}


def module(fam):
    if fam not in _MODS:
        try:
            _MODS[fam] = importlib.import_module("harness.props." + FAMILY_MODULE[fam])
        except ModuleNotFoundError:
            _MODS[fam] = None
    return _MODS[fam]


def all_decoders():
    out = []
    for fam in sorted(FAMILY_MODULE):
        if fam == 17:
            continue
        m = module(fam)
        if m is None:
            continue
        for d in getattr(m, "DECODERS", []):
            out.append(dict(d, family=fam))
    return out


def impl(op, a):
    return module(op // 100).impl(op, a)


def enums():
    out, seen = [], set()
    for fam in sorted(FAMILY_MODULE):
        m = module(fam)
        if m is None or fam == 17:
            continue
        for e in getattr(m, "ENUMS", []):
            if e not in seen:
                seen.add(e); out.append(e)
    return out


# ---------------------------------------------------------------- CRC-repairing mutations (C09 / C10)
# A mutation of a unit that ends in a CRC-16 trailer is refused by the checksum verification before it reaches the code
# behind it; recomputing the trailer lets length-field changes, truncations and substitutions through to that code.
def crc_kind(d, u):
    """how the checksum trailer of unit u of registry entry d is found: 'pus' (registry key "crc": trailer = last two
    octets of the declared length), 'cfdp' (families 13-15, CRC flag = bit 1 of octet 0 set), None"""
    if d.get("crc"):
        return d["crc"]
    if d.get("family") in (13, 14, 15) and d.get("declared_len") and len(u) >= 4 and u[0] & 2:
        return "cfdp"
    return None


def declared(d, data):
    try:
        n = d["declared_len"](data)
    except Exception:
        return None
    return n if isinstance(n, int) else None


def repair(d, data, fill=0, limit=70000):
    """(data', n): data with the trailer of the (mutated) unit at its head recomputed over the length n that unit now
    declares; padded with `fill` when n exceeds the data.  None when the unit declares no usable length."""
    from harness import pus_common as pc
    n = declared(d, data)
    if n is None or n < 2 or n > limit:
        return None
    p = list(data)
    if len(p) < n:
        p += [fill] * (n - len(p))
    c = pc.fcrc(p[:n - 2])
    p[n - 2] = c >> 8; p[n - 1] = c & 0xFF
    return p, n


def length_rewrites(d, u, kind, wide=False):
    """the unit with its length field set to values around the true one and around the smallest the decoder can take"""
    out = []
    if kind == "pus":
        true = u[4] * 256 + u[5]
        vals = set(range(0, 30 if wide else 24)) | {true + k for k in range(-4, 4)}
        pos = (4, 5)
    else:
        true = u[1] * 256 + u[2]
        vals = set(range(0, 12 if wide else 8)) | {true + k for k in range(-6, 4)}
        pos = (1, 2)
    for v in sorted(vals):
        if 0 <= v < 65536 and v != true:
            q = list(u); q[pos[0]] = v >> 8; q[pos[1]] = v & 0xFF
            out.append(q)
    return out
