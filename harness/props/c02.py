"""C02 — PUS-C telecommand encode/decode."""
import itertools
from spacepackets.ecss.tc import PusTc, PusTcDataFieldHeader
from spacepackets.ecss import check_pus_crc
from spacepackets.ccsds.spacepacket import SpacePacketHeader, PacketType, SequenceFlags
from harness import pus_common as pc
from harness import core

ID = "C02"
ENUMS = [
    ("spacepackets.ecss.defs:PusVersion.PUS_C", "SP.Model.PusTc.PUS_C"),
    ("spacepackets.ecss.tc:PusTcDataFieldHeader.PUS_C_SEC_HEADER_LEN", "SP.Model.PusTc.PUS_C_SEC_HEADER_LEN"),
    ("spacepackets.ccsds.spacepacket:CCSDS_HEADER_LEN", "SP.Model.SpacePacket.CCSDS_HEADER_LEN"),
    ("spacepackets.ccsds.spacepacket:PacketType.TC", "SP.Model.SpacePacket.PT_TC"),
    ("spacepackets.ccsds.spacepacket:SequenceFlags.UNSEGMENTED", "SP.Model.SpacePacket.SF_UNSEG"),
]
ASSUMPTIONS = [
    "crcmod's C implementation of crc-ccitt-false is outside the model; it is tied to the bitwise Coq definition by C04's exhaustive comparison of the byte-update function and here by every packed packet",
    "CPython int/bytes/struct semantics as modelled in Base/Bytes.v",
    "live-object histories (op 520): judged by design, not as defects: the telecommand keeps a reference to the caller's "
    "bytearray / header objects (no defensive copy; app_data returns internal state); from_sp_header overwrites type, flag "
    "and length of the caller's header and adopts it; from_composite_fields keeps the caller's data length; "
    "to_space_packet() omits the secondary header when sec_header_flag was cleared while pack() always writes it; "
    "pack(recalc_crc=False) after a field change carries the cached CRC (documented); the value of crc16 between a field "
    "change and the next pack is not judged by the oracle (only compared with the model)",
]
TRUSTED = []
ORACLE_LIMIT = {"quick": 6000, "thorough": 40000}


def _sph_fields(h):
    return [h.ccsds_version, int(h.packet_type), int(h.sec_header_flag), h.apid, int(h.seq_flags), h.seq_count, h.data_len]


def _fields(t):
    s = t.pus_tc_sec_header
    crc = t.crc16
    return [_sph_fields(t.sp_header), [s.service, s.subservice, s.source_id, s.ack_flags], list(t.app_data),
            [0] if crc is None else [1] + list(crc), [t.packet_len]]


def _new(a):
    # core.build: by keyword, and for every seventh case of a stream positionally in the documented order
    service, subservice, apid, seq, source_id, ack = a[0]
    return core.build(PusTc, service=service, subservice=subservice, apid=apid, app_data=bytes(a[1]), seq_count=seq,
                      source_id=source_id, ack_flags=ack)


def impl(op, a):
    if op == 500:
        return _fields(_new(a))
    if op == 501:
        t = _new(a); raw = t.pack(); return [list(raw), [t.packet_len]]
    if op == 502:
        return _fields(PusTc.unpack(bytes(a[0])))
    if op == 503:
        return [list(PusTc.unpack(bytes(a[0])).pack())]
    if op == 504:
        return [list(_new(a).to_space_packet().pack())]
    if op == 505:
        t = _new(a); raw = t.pack(); u = PusTc.unpack(bytes(raw))
        return [[int((u == t) and (t == u))]] + _fields(u)
    if op == 506:
        if sum(a[0]) % 3 == 0:
            return [[int(check_pus_crc(tc_packet=bytes(a[0])))]]
        return [[int(check_pus_crc(bytes(a[0])))]]
    if op == 507:
        t = _new(a); t.app_data = bytes(a[2]); raw = t.pack(); return [list(raw), [t.packet_len]]
    if op == 508:
        s = PusTcDataFieldHeader.unpack(bytes(a[0])); return [[s.service, s.subservice, s.source_id, s.ack_flags]]
    if op == 509:
        t = _new(a); t.pack(); return [list(t.pack(recalc_crc=False))]
    if op == 510:
        t = _new(a)
        for o in a[2:]:
            k = o[0]
            if k == 0: t.pack()
            elif k == 1: t.pack(recalc_crc=False)
            elif k == 2: t.calc_crc()
            elif k == 3: t.app_data = bytes(o[1:])
            elif k == 4: t.seq_count = o[1]
            elif k == 5: t.apid = o[1]
            elif k == 6: t.source_id = o[1]
        sp = t.to_space_packet().pack()
        raw = t.pack()
        return [list(sp), list(raw), [t.packet_len]]
    if op == 513:
        # decode from a buffer that may continue behind the packet, then EVERY observable of the decoded object
        u = PusTc.unpack(bytes(a[0]))
        first = _fields(u)
        p1 = u.pack(recalc_crc=False)          # "CRC previously calculated and no fields changed"
        p2 = u.pack()
        w = PusTc.unpack(bytes(a[0][:u.packet_len]))
        return first + [list(p1), list(p2), [int(u == w), int(w == u)]] + _fields(u)
    if op == 520:
        return _hist(a)
    raise RuntimeError("bad op")


# ---------------------------------------------------------------- extended histories (op 520)
# a[0] = [path, service, subservice, apid, count, source_id, ack, bufkind, ptype, shf, flags, version, dlen]
# a[1] = application data; a[2:] = operations [kind, ...] (kinds: see _hist_op)
def _canon(e):
    from harness import core
    return core.canon_code(core.classify_exception(e))


def _enum(cls, v):
    return core.enum_or_int(cls, v)


def _mk_sph(ptype, apid, count, dlen, shf, flags, version):
    return core.build(SpacePacketHeader, packet_type=_enum(PacketType, ptype), apid=apid, seq_count=count, data_len=dlen,
                      sec_header_flag=bool(shf) if shf in (0, 1) else shf, seq_flags=_enum(SequenceFlags, flags),
                      ccsds_version=version)


class _Owned:
    """buffers that belong to the caller: the library may read them, never change them"""
    def __init__(self):
        self.items = []

    def give(self, octets, kind):
        if kind == 0:
            return bytes(octets)
        b = bytearray(octets)
        self.items.append([b, bytes(b)])
        return b

    def refresh(self, b):
        for it in self.items:
            if it[0] is b:
                it[1] = bytes(b)

    def changed(self):
        return sum(1 for b, snap in self.items if bytes(b) != snap)

    def handed_out(self, b):
        """an octet string the library returned (pack result, parts of a generic view): later calls on the
        object must not change it"""
        if not hasattr(self, "out"):
            self.out = []
        if isinstance(b, (bytearray, memoryview)):
            self.out.append((b, bytes(b)))
        return b

    def out_changed(self):
        return sum(1 for b, snap in getattr(self, "out", []) if bytes(b) != snap)


def _sec_hdr(service, subservice, source_id, ack):
    return core.build(PusTcDataFieldHeader, service=service, subservice=subservice, source_id=source_id, ack_flags=ack)


def _make(p, app, owned):
    path, service, subservice, apid, count, source_id, ack, kind, ptype, shf, flags, version, dlen = p
    if path == 0:
        return core.build(PusTc, service=service, subservice=subservice, apid=apid, app_data=owned.give(app, kind),
                          seq_count=count, source_id=source_id, ack_flags=ack)
    if path == 1:
        h = _mk_sph(ptype, apid, count, dlen, shf, flags, version)
        return core.build(PusTc.from_sp_header, sp_header=h, service=service, subservice=subservice,
                          app_data=owned.give(app, kind), source_id=source_id, ack_flags=ack)
    if path == 2:
        h = _mk_sph(ptype, apid, count, dlen, shf, flags, version)
        return core.build(PusTc.from_composite_fields, sp_header=h, sec_header=_sec_hdr(service, subservice, source_id, ack),
                          app_data=owned.give(app, kind))
    if path == 3:
        raw = core.build(PusTc, service=service, subservice=subservice, apid=apid, app_data=bytes(app), seq_count=count,
                         source_id=source_id, ack_flags=ack).pack()
        buf = bytes(raw) if kind == 0 else bytearray(raw)
        t = PusTc.unpack(buf)
        if kind != 0:
            # the receive buffer is reused by the caller: the decoded telecommand must not depend on it
            for i in range(len(buf)):
                buf[i] ^= 0xFF
            buf.extend(b"\x5a" * 7)
        return t
    if path == 4:
        return PusTc.empty()
    if path == 5:
        return PusTc(service, subservice)
    raise RuntimeError("bad path")


def _inspect(t):
    return _fields(t) + [[t.service, t.subservice, t.source_id, t.apid, t.seq_count, t.ccsds_version, int(t.packet_id.raw()),
                          int(t.packet_seq_control.raw()), int(t.packet_type), int(t.sec_header_flag), int(t.seq_flags)]]


_HDR_ENUM = {1: PacketType, 4: SequenceFlags}


def _set_hdr(t, f, v, route):
    """assignment of one primary-header attribute through one of the public routes"""
    w = _enum(_HDR_ENUM[f], v) if f in _HDR_ENUM else (bool(v) if f == 2 and v in (0, 1) else v)
    h = t.sp_header
    if f == 1:
        if route % 2 == 0: h.packet_type = w
        else: h.packet_id.ptype = w
    elif f == 2:
        if route % 2 == 0: h.sec_header_flag = w
        else: t.packet_id.sec_header_flag = w
    elif f == 3:
        r = route % 4
        if r == 0: t.apid = w
        elif r == 1: h.apid = w
        elif r == 2: h.packet_id.apid = w
        else: t.packet_id.apid = w
    elif f == 4:
        r = route % 3
        if r == 0: h.seq_flags = w
        elif r == 1: h.packet_seq_control.seq_flags = w
        else: t.packet_seq_control.seq_flags = w
    elif f == 5:
        r = route % 4
        if r == 0: t.seq_count = w
        elif r == 1: h.seq_count = w
        elif r == 2: h.packet_seq_control.seq_count = w
        else: t.packet_seq_control.seq_count = w
    elif f == 6:
        h.data_len = w
    else:
        raise RuntimeError("no public route to header field %d" % f)


def _hist_op(st, o, owned):
    """one operation on the live object st['t']; returns the observation lists"""
    t, k = st["t"], o[0]
    if k == 0: return [list(owned.handed_out(t.pack()))]
    if k == 1: return [list(owned.handed_out(t.pack(recalc_crc=False)))]
    if k == 2: t.calc_crc(); return []
    if k == 3: t.app_data = bytes(o[1:]); return []
    if k == 4: _set_hdr(t, 5, o[1], 0); return []
    if k == 5: _set_hdr(t, 3, o[1], 0); return []
    if k == 6: t.source_id = o[1]; return []
    if k == 7:
        v = t.to_space_packet()
        owned.handed_out(v.sec_header); owned.handed_out(v.user_data)
        return [list(owned.handed_out(v.pack()))]
    if k == 8: return _inspect(t)
    if k == 9: t.app_data = owned.give(o[1:], 1); return []
    if k == 10:
        cur = t.app_data
        if not isinstance(cur, bytearray):
            cur = owned.give(cur, 1); t.app_data = cur
        cur.extend(bytes(o[1:])); owned.refresh(cur)
        t.app_data = cur
        return []
    if k == 23: t.sp_header = _mk_sph(*o[1:8]); return []
    if k == 24: t.pus_tc_sec_header = _sec_hdr(o[1], o[2], o[3], o[4]); return []
    if k == 25: return [[int(t == st["t0"]), int(st["t0"] == t)]]
    if k == 26:
        raw = t.pack(); u = PusTc.unpack(bytes(raw)); return [[int(u == t)]] + _fields(u)
    if k == 27:
        raw = t.pack(); st["t"] = PusTc.unpack(bytes(raw) if len(o) < 2 or o[1] == 0 else bytearray(raw)); return []
    if k == 30: _set_hdr(t, o[1], o[2], o[3] if len(o) > 3 else 0); return []
    if k == 31:
        f, v = o[1], o[2]
        if f == 2 and len(o) > 3 and o[3] % 2 == 1: t.source_id = v
        else: setattr(t.pus_tc_sec_header, ("service", "subservice", "source_id", "ack_flags")[f], v)
        return []
    return _inspect(t)


CLOSING = [[8], [7], [8], [0], [8]]


def _hist(a):
    owned = _Owned()
    st = {"t0": _make(a[0], a[1], _Owned()), "t": None}
    st["t"] = _make(a[0], a[1], owned)
    out = []
    for o in list(a[2:]) + CLOSING:
        try:
            r = _hist_op(st, o, owned)
        except BaseException as e:  # noqa
            if isinstance(e, (KeyboardInterrupt, SystemExit, MemoryError, RuntimeError)):
                raise
            out.append([1, _canon(e)])
            continue
        out.append([0]); out.extend(r)
    out.append([owned.changed(), owned.out_changed()])
    return out


# table-driven CRC-16/CCITT-FALSE derived from the bitwise definition in pus_common (independent of
# crcmod); used where the oracle has to check many long packets
_TAB = [pc.crc16([b], 0) for b in range(256)]


def fcrc(data, s=0xFFFF):
    for b in data:
        s = ((s << 8) & 0xFFFF) ^ _TAB[(s >> 8) ^ b]
    return s


assert all(fcrc(m) == pc.crc16(m) for m in ([], [0], [0xFF] * 3, list(range(40)), [0x80, 0, 0xFF] * 9))


def tc_octets(S):
    """the octets the standard prescribes for the CURRENT field values S (no CRC)"""
    return pc.sph_layout(S["ver"], S["ptype"], S["shf"], S["apid"], S["flags"], S["count"], S["dlen"]) + \
        [32 + S["ack"], S["service"], S["subservice"], S["source_id"] // 256, S["source_id"] % 256] + list(S["app"])


_RANGES = {"ver": 8, "ptype": 2, "shf": 2, "apid": 2048, "flags": 4, "count": 16384, "dlen": 65536, "service": 256,
           "subservice": 256, "source_id": 65536, "ack": 16}
_HDR_KEYS = ["ver", "ptype", "shf", "apid", "flags", "count", "dlen"]
_SEC_KEYS = ["service", "subservice", "source_id", "ack"]


def _in_range(S):
    return all(0 <= S[k] < hi for k, hi in _RANGES.items())


def _crc2(body):
    c = fcrc(body)
    return [c // 256, c % 256]


def _initial_state(a):
    """tracked field values right after construction; None when the construction must be refused or
    is not predicted by the oracle"""
    path, service, subservice, apid, count, source_id, ack, kind, ptype, shf, flags, version, dlen = a[0]
    app = list(a[1])
    S = {"ver": 0, "ptype": 1, "shf": 1, "apid": apid, "flags": 3, "count": count, "dlen": len(app) + 6,
         "service": service, "subservice": subservice, "source_id": source_id, "ack": ack, "app": app, "crc": None}
    if path in (1, 2):
        S.update({"ver": version, "flags": flags})
        if not (0 <= dlen < 65536):
            return None
        if path == 2:
            S.update({"ptype": ptype, "shf": shf, "dlen": dlen})
            if ptype == 0:
                return None
    elif path == 4:
        S.update({"apid": 0, "count": 0, "service": 0, "subservice": 0, "source_id": 0, "ack": 15, "app": [], "dlen": 6})
    elif path == 5:
        S.update({"apid": 0, "count": 0, "source_id": 0, "ack": 15, "app": [], "dlen": 6})
    if not (0 <= S["apid"] < 2048 and 0 <= S["count"] < 16384 and 0 <= S["dlen"] < 65536):
        return None
    if path == 3:
        if not _in_range(S):
            return None
        S["crc"] = _crc2(tc_octets(S)); S["fresh"] = True
    return S


def _hist_oracle(a, ires):
    """C11 / C02 on a live object: whatever happened before, pack() yields the standard's octets for the
    current field values, the generic space-packet view yields the same octets, every getter shows the
    current values, reported length = packed length, nothing the caller owns was changed."""
    S = _initial_state(a)
    if ires[0][0] == 1:
        if S is not None and _in_range(S):
            if a[0][0] == 2 and (S["shf"] != 1 or S["dlen"] != len(S["app"]) + 6) and ires[0][1] in (1, 2, 3):
                # from_composite_fields given a header that cannot be a telecommand's (no secondary header flag, a data
                # length that is not that of the parts): today it is kept and the object packs octets its own decoder
                # refuses; refusing the header at construction with ValueError is as good
                return None
            return ("C02/PusTc/valid-refused", "valid construction (path %d) raised %s: %s" % (a[0][0], ires, a[0]))
        return None
    if S is None:
        return None
    S0 = dict(S)
    obs, pos = ires[1:], 0
    ops = [list(o) for o in a[2:]] + CLOSING
    for n, o in enumerate(ops):
        where = "operation %d %s of %s (path %d, buffer kind %d)" % (n, o[:8], [x[:6] for x in ops], a[0][0], a[0][7])
        if pos >= len(obs) - 1:
            return ("C02/PusTc.history/observations", "observation list too short at " + where)
        st = obs[pos]; pos += 1
        ok = st[0] == 0
        k = o[0]
        good = _in_range(S)
        body = tc_octets(S) if good else None
        if k in pc.SERIALISERS and not pc.hdr_range_ok(S):
            # APID / sequence count / data length were pushed out of range (the setters do not validate): every one of these
            # routes packs the primary header first and must refuse with ValueError; nothing is encoded and nothing -
            # not even the cached CRC - changes
            r = pc.out_of_range_verdict("PusTc", k, where, S, st)
            if r is not None:
                return r
            continue
        if k in (0, 1, 7):
            out = None
            if ok:
                out = obs[pos]; pos += 1
            if not good:
                if ok:
                    S["crc"] = "?"
                continue
            if not ok:
                return ("C11/PusTc.history/raises", "valid state, yet %s raised %s; fields %s" % (where, st, {x: S[x] for x in _RANGES}))
            fresh = _crc2(body)
            if k == 1:
                if S["crc"] == "?":
                    continue
                # documented: the CRC "previously calculated" is reused; a library that refreshes its cache more
                # often than the model is not wrong, so the fresh CRC is acceptable too
                cands = [fresh] if S["crc"] is None else [S["crc"], fresh]
                if out[:-2] != body or out[-2:] not in cands:
                    return ("C02/PusTc.pack/recalc-false", "%s: pack(recalc_crc=False) gives %s ... %s, expected the current fields followed by the CRC cached by the last pack/calc_crc %s" % (where, out[:12], out[-6:], cands))
                S["crc"] = out[-2:]
                S["fresh"] = S["crc"] == fresh
                continue
            S["crc"] = fresh; S["fresh"] = True
            if k == 0 and out != body + fresh:
                return ("C11/PusTc.history/pack-differs-from-fresh", "%s: pack() gives %s, the current field values %s prescribe %s" % (
                    where, out[:24], {x: S[x] for x in _RANGES}, (body + fresh)[:24]))
            if k == 7 and S["shf"] == 1 and out != body + fresh:
                return ("C02/PusTc.to_space_packet/stale-octets", "%s: the space-packet view packs %s ... %s, pack() must give %s ... %s" % (
                    where, out[:12], out[-6:], body[:12], (body + fresh)[-6:]))
            continue
        if k == 2:
            if ok and good: S["crc"] = _crc2(body); S["fresh"] = True
            elif ok: S["crc"] = "?"
            elif good:
                return ("C11/PusTc.history/raises", "valid state, yet calc_crc raised: " + where)
            continue
        if k in (3, 4, 5, 6, 9, 10, 11, 22, 23, 24, 30, 31):
            S["fresh"] = False
        if k in (3, 9, 10):
            new_app = (S["app"] if k == 10 else []) + list(o[1:])
            if not ok:
                if len(new_app) + 6 > 65535 and st[1:2] and st[1] in (1, 2, 3):
                    # application data that no longer fits a space packet (today: refused by the next pack): refused by the
                    # assignment with ValueError, nothing assigned.  k == 10 extended the caller's own buffer in place
                    # before handing it over again, so what the object then holds is the caller's doing: not predicted
                    if k == 10:
                        return None
                    continue
                return ("C11/PusTc.app_data/raises", where + " raised %s" % st)
            S["app"] = new_app
            S["dlen"] = len(S["app"]) + 6
            continue
        if k in (4, 5, 6, 30, 31):
            key = {4: "count", 5: "apid", 6: "source_id"}.get(k) or (_HDR_KEYS[o[1]] if k == 30 else _SEC_KEYS[o[1]])
            val = o[2] if k in (30, 31) else o[1]
            if not ok:
                if not 0 <= val < _RANGES[key] and st[1:2] and st[1] in (1, 2, 3):
                    # a value the field cannot hold (today: stored, and refused / mis-encoded by the next serialiser): the
                    # setter may refuse it at once with ValueError; nothing is assigned then - the tracked values stay, and
                    # every later getter / pack / view of this history is judged against them (object unchanged)
                    continue
                return ("C11/PusTc.setter/raises", where + " raised %s" % st)
            if k == 4: S["count"] = o[1]
            elif k == 5: S["apid"] = o[1]
            elif k == 6: S["source_id"] = o[1]
            elif k == 30: S[_HDR_KEYS[o[1]]] = o[2]
            else: S[_SEC_KEYS[o[1]]] = o[2]
            continue
        if k == 23:
            if ok:
                ptype, apid, count, dlen, shf, flags, version = o[1:8]
                S.update({"ver": version, "ptype": ptype, "shf": shf, "apid": apid, "flags": flags, "count": count, "dlen": dlen})
            continue
        if k == 24:
            if ok:
                S.update({"service": o[1], "subservice": o[2], "source_id": o[3], "ack": o[4]})
            continue
        if k == 25:
            if ok:
                out = obs[pos]; pos += 1
                if good and _in_range(S0):
                    e = int(tc_octets(S) == tc_octets(S0))
                    if out != [e, e]:
                        return ("C02/PusTc.__eq__", "%s: == with an untouched twin gives %s, the field values say %d" % (where, out, e))
            continue
        if k in (26, 27):
            consistent = good and S["dlen"] == len(S["app"]) + 6
            if not ok:
                if consistent:
                    return ("C02/PusTc.unpack/own-output-refused", "%s: the object's own pack() output is refused: %s" % (where, st))
                # pack may or may not have happened: the cache is not predicted any more
                S["crc"] = "?"
                continue
            if not consistent:
                return None   # decoding an inconsistent packet that happens to be accepted: not predicted
            S["crc"] = _crc2(body); S["fresh"] = True
            if k == 26:
                out = obs[pos:pos + 6]; pos += 6
                exp = [[1], [S[x] for x in _HDR_KEYS], [S[x] for x in _SEC_KEYS], S["app"], [1] + S["crc"], [S["dlen"] + 7]]
                if out != exp:
                    return ("C02/PusTc.unpack/fields" if out[0] == [1] else "C02/PusTc.unpack/not-equal",
                            "%s: decoding the object's own pack() gives %s, expected %s" % (where, str(out)[:200], str(exp)[:200]))
            continue
        # inspect (8 and anything unknown)
        if not ok:
            return ("C02/PusTc.history/getter-raises", where + " raised %s" % st)
        out = obs[pos:pos + 6]; pos += 6
        exp = [[S[x] for x in _HDR_KEYS], [S[x] for x in _SEC_KEYS], S["app"],
               [1] + S["crc"] if S.get("fresh") and S["crc"] not in (None, "?") else out[3], [S["dlen"] + 7],
               [S["service"], S["subservice"], S["source_id"], S["apid"], S["count"], S["ver"],
                S["ptype"] * 4096 + S["shf"] * 2048 + S["apid"] if good else out[5][6],
                S["flags"] * 16384 + S["count"] if good else out[5][7], S["ptype"], S["shf"], S["flags"]]]
        names = ["primary header", "secondary header", "app_data", "crc16", "packet_len", "getters"]
        for nm, x, y in zip(names, out, exp):
            if x != y:
                return ("C11/PusTc.history/state-differs", "%s: %s reads %s, the operations so far prescribe %s" % (where, nm, x[:24], y[:24]))
    if obs[-1][0] != 0:
        return ("C11/PusTc/caller-buffer-modified", "%d bytearray(s) owned by the caller were changed by the library during %s" % (obs[-1][0], [x[:6] for x in ops]))
    if obs[-1][1] != 0:
        return ("C11/PusTc/returned-octets-changed-later", "%d octet string(s) returned by pack() / to_space_packet() changed when the object was used again: %s" % (obs[-1][1], [x[:6] for x in ops]))
    return None


def _final_values(a):
    service, subservice, apid, seq, source_id, ack = a[0]
    app = list(a[1])
    for o in a[2:]:
        if o[0] == 3: app = list(o[1:])
        elif o[0] == 4: seq = o[1]
        elif o[0] == 5: apid = o[1]
        elif o[0] == 6: source_id = o[1]
    return [[service, subservice, apid, seq, source_id, ack], app]


def valid_args(a):
    service, subservice, apid, seq, source_id, ack = a[0]
    return (0 <= service < 256 and 0 <= subservice < 256 and 0 <= apid < 2048 and 0 <= seq < 16384
            and 0 <= source_id < 65536 and 0 <= ack < 16 and len(a[1]) <= 65529)


def valid_packets(rng, n=40):
    out = []
    for _ in range(n):
        a = pc.rand_tc_args(rng, 24)
        out.append(pc.tc_layout(*a[0], a[1]))
    return out


def streams(tier, rng):
    big = tier == "thorough"
    # 1. structured valid: boundaries pairwise, several operations on each
    cases = []
    combos = list(itertools.product(pc.BND8[:4] + [255], [0, 1, 255], [0, 1, 2047], [0, 16383], [0, 1, 256, 65535], [0, 5, 15]))
    rng.shuffle(combos)
    for (sv, ss, ap, sq, sid, ack) in combos[: (len(combos) if big else 400)]:
        for n in (0, 1, rng.randrange(2, 30)):
            a = [[sv, ss, ap, sq, sid, ack], pc.rbytes(rng, n)]
            for op in (500, 501, 504, 505, 509):
                cases.append((op, a))
    for n in [2, 255, 256, 4096] + ([65528, 65529] if big else [65529]):
        a = [[17, 1, 0x42, 7, 3, 15], pc.rbytes(rng, n)]
        cases.append((501, a)); cases.append((505, a))
    yield "structured_valid", "exact", cases
    # 2. random valid
    cases = []
    for _ in range(40000 if big else 5000):
        a = pc.rand_tc_args(rng, 64)
        cases.append((rng.choice([501, 501, 505, 504, 500]), a))
    yield "random_valid", "exact", cases
    # 3. refusals
    cases = []
    for ap in [-1, 2048, 2049, 2 ** 16, 2 ** 64]:
        cases.append((500, [[1, 1, ap, 0, 0, 15], []])); cases.append((501, [[1, 1, ap, 0, 0, 15], [1, 2]]))
    for sq in [-1, 16384, 16385, 2 ** 64]:
        cases.append((500, [[1, 1, 1, sq, 0, 15], []])); cases.append((501, [[1, 1, 1, sq, 0, 15], []]))
    for n in [65530, 65531] + ([70000] if big else []):
        cases.append((500, [[1, 1, 1, 1, 0, 15], [0] * n]))
    for sv in [256, -1, 1000]:
        cases.append((501, [[sv, 1, 1, 1, 0, 15], []])); cases.append((501, [[1, sv, 1, 1, 0, 15], []]))
    for sid in [65536, -1]:
        cases.append((501, [[1, 1, 1, 1, sid, 15], []]))
    for ack in [16, 31, 255, 256, -1]:
        cases.append((501, [[1, 1, 1, 1, 0, ack], []]))
    yield "refusals", "exact", cases
    # 4. targeted malformed
    cases = []
    for pkt in valid_packets(rng, 60 if big else 25):
        for m in pc.malformed(rng, pkt, 11):
            cases.append((502, [m]))
            if rng.random() < 0.3:
                cases.append((503, [m]))
    yield "targeted_malformed", "exact", cases
    # 5. declared length too small for secondary header + CRC, CRC over the declared octets valid
    cases = []
    for dlen in range(0, 8):
        for _ in range(30 if big else 10):
            first = [0x18 | rng.randrange(8), rng.randrange(256), 0xC0 | rng.randrange(64), rng.randrange(256), 0, 0,
                     0x20 | rng.randrange(16)]
            for total in (dlen + 7, 11, 13, 20):
                if total >= dlen + 7:
                    cases.append((502, [pc.with_valid_crc_prefix(rng, dlen, first, max(total, 7))]))
    yield "small_declared_length", "exact", cases
    # 6. garbage
    cases = []
    for _ in range(30000 if big else 4000):
        n = rng.randrange(0, 40)
        b = pc.rbytes(rng, n)
        if n > 6 and rng.random() < 0.7:
            b[0] = 0x18 | (b[0] & 7); b[4] = 0; b[5] = rng.randrange(0, 40); b[6] = 0x20 | (b[6] & 15)
        cases.append((502, [b]))
    yield "garbage", "verdict", cases
    # 7. standalone CRC check and secondary-header decoder
    cases = []
    for pkt in valid_packets(rng, 200 if big else 60):
        cases.append((506, [pkt]))
        q = list(pkt); q[rng.randrange(len(q))] ^= 1 << rng.randrange(8); cases.append((506, [q]))
    for d0 in range(256):
        cases.append((508, [[d0, 1, 2, 3, 4]])); cases.append((508, [[d0, 1, 2, 3, 4, 5, 6]]))
    for n in range(0, 5):
        cases.append((508, [[0x2F] * n]))
    yield "exh_sec_header_first_octet_and_crc_check", "exact", cases
    # 8. setter then pack (C11 interplay: model and code must agree whatever the verdict)
    cases = []
    for _ in range(2000 if big else 300):
        a = pc.rand_tc_args(rng, 20)
        cases.append((507, a + [pc.rbytes(rng, rng.randrange(0, 20))]))
    yield "app_data_setter", "exact", cases
    # 9. histories: pack / calc_crc / setters in any order, then the space-packet view and pack
    cases = []
    for _ in range(6000 if big else 1200):
        a = pc.rand_tc_args(rng, 12)
        ops = []
        for _ in range(rng.randrange(0, 6)):
            k = rng.choice([0, 0, 1, 2, 3, 4, 5, 6])
            if k == 3: ops.append([3] + pc.rbytes(rng, rng.randrange(0, 10)))
            elif k == 4: ops.append([4, pc.pick(rng, pc.BND14, 16384)])
            elif k == 5: ops.append([5, pc.pick(rng, pc.BND11, 2048)])
            elif k == 6: ops.append([6, pc.pick(rng, pc.BND16, 65536)])
            else: ops.append([k])
        cases.append((510, a + ops))
    yield "setter_histories_then_views", "exact", cases
    yield from hardening_streams(tier, rng)


# ---------------------------------------------------------------- generators of the hardening round
HDR_ROUTES = {1: 2, 2: 2, 3: 4, 4: 3, 5: 4, 6: 1}          # header field -> number of public routes to it
NEAR_256 = sorted({m + d for m in (256, 512, 768, 1024) for d in range(-8, 9)})
PATTERNS = [lambda n: [0] * n, lambda n: [0xFF] * n, lambda n: [0x80] * n, lambda n: [0x7F, 0x80] * (n // 2) + [0xFF] * (n % 2),
            lambda n: [(i * 7) & 0xFF for i in range(n)]]


def _hist_params(rng, path=None, n=None, kind=None, consistent=True):
    b = pc.rand_tc_args(rng, 12)
    service, subservice, apid, count, source_id, ack = b[0]
    if n is None:
        n = len(b[1]) if rng.random() < 0.9 else rng.choice([250, 255, 256, 506, 511, 512, 513, 520, 1024])
    app = pc.rbytes(rng, n) if rng.random() < 0.8 else rng.choice(PATTERNS)(n)
    path = rng.choice([0, 0, 1, 1, 2, 2, 3, 3, 4, 5]) if path is None else path
    kind = rng.randrange(2) if kind is None else kind
    ptype, shf, dlen = 1, 1, n + 6
    if path == 1:   # everything from_sp_header overwrites may be anything
        ptype, shf, dlen = rng.randrange(2), rng.randrange(2), rng.choice([0, n + 6, 65535, rng.randrange(65536)])
    if path == 2 and not consistent:
        ptype, shf, dlen = rng.choice([1, 1, 1, 0]), rng.choice([1, 1, 0]), rng.choice([n + 6, n + 6, 0, n + 5, n + 7, 65535])
    return [[path, service, subservice, apid, count, source_id, ack, kind, ptype, shf, rng.choice([3, 3, 0, 1, 2]),
             rng.choice([0, 0, 7, rng.randrange(8)]), dlen], app]


def _rand_setter(rng, cur_len, wild=False):
    """one mutation through a randomly chosen public route; values in range unless wild"""
    r = rng.random()
    if r < 0.5:
        f = rng.choice([1, 2, 2, 3, 3, 4, 5, 5, 6])
        hi = _RANGES[_HDR_KEYS[f]]
        v = pc.pick(rng, [0, 1, hi - 1, hi // 2], hi)
        if f == 2 and rng.random() < 0.7: v = 1
        if f == 6 and rng.random() < 0.7: v = cur_len + 6
        if wild: v = rng.choice([-1, hi, hi + 1, 2 ** 16, 2 ** 32])
        return [30, f, v, rng.randrange(HDR_ROUTES[f])]
    if r < 0.85:
        f = rng.randrange(4)
        hi = _RANGES[_SEC_KEYS[f]]
        v = pc.pick(rng, [0, 1, hi - 1, hi // 2], hi)
        if wild: v = rng.choice([-1, hi, hi + 1, 2 ** 16])
        return [31, f, v, rng.randrange(2)]
    if r < 0.93:
        return [24, pc.pick(rng, pc.BND8, 256), pc.pick(rng, pc.BND8, 256), pc.pick(rng, pc.BND16, 65536), rng.randrange(16)]
    return [23, rng.choice([1, 1, 0]), pc.pick(rng, pc.BND11, 2048) if not wild else 2048, pc.pick(rng, pc.BND14, 16384),
            rng.choice([cur_len + 6, cur_len + 6, rng.randrange(65536)]), rng.choice([1, 1, 0]), rng.randrange(4), rng.randrange(8)]


def _rand_ops(rng, n0, maxops=10, wild_p=0.0):
    ops, cur = [], n0
    for _ in range(rng.randrange(0, maxops + 1)):
        r = rng.random()
        if r < 0.30:
            ops.append([rng.choice([0, 0, 1, 2, 7, 7, 7, 8, 8])])
        elif r < 0.36:
            ops.append([rng.choice([25, 26, 27, 27])] + ([rng.randrange(2)]))
        elif r < 0.55:
            k = rng.choice([3, 9, 9, 10, 10])
            n = rng.randrange(0, 10) if rng.random() < 0.9 else rng.choice([256, 500, 512, 513])
            d = pc.rbytes(rng, n) if rng.random() < 0.8 else rng.choice(PATTERNS)(n)
            cur = cur + n if k == 10 else n
            ops.append([k] + d)
            if rng.random() < 0.15:
                ops.append([k] + d)                     # the same value assigned twice
                if k == 10: cur += n
        else:
            o = _rand_setter(rng, cur, wild=rng.random() < wild_p)
            ops.append(o)
            if o[0] == 30 and o[1] in pc.HDR_LIMIT and not 0 <= o[2] < pc.HDR_LIMIT[o[1]] and rng.random() < 0.6:
                ops.append(rng.choice([[0], [1], [2], [7], [7], [26, 0], [27, 1]]))     # ... pushed out of range: a serialiser follows
            if rng.random() < 0.15:
                ops.append(list(o))
    return ops


def _all_mutations(rng, cur_len):
    """one instance of every mutation route"""
    out = [[3] + pc.rbytes(rng, 3), [9] + pc.rbytes(rng, 3), [10] + pc.rbytes(rng, 2), [3] + [], [9] + [],
           [4, pc.pick(rng, pc.BND14, 16384)], [5, pc.pick(rng, pc.BND11, 2048)], [6, pc.pick(rng, pc.BND16, 65536)]]
    for f, nr in HDR_ROUTES.items():
        hi = _RANGES[_HDR_KEYS[f]]
        for route in range(nr):
            v = rng.randrange(hi) if f != 6 else cur_len + 6 + rng.choice([0, 0, 1])
            out.append([30, f, v, route])
    for f in range(4):
        for route in range(2 if f == 2 else 1):
            out.append([31, f, rng.randrange(_RANGES[_SEC_KEYS[f]]), route])
    out.append([24, rng.randrange(256), rng.randrange(256), rng.randrange(65536), rng.randrange(16)])
    out.append([23, 1, rng.randrange(2048), rng.randrange(16384), cur_len + 6, 1, rng.randrange(4), rng.randrange(8)])
    out.append([23, 1, 2048, 1, cur_len + 6, 1, 3, 0])          # refused: the object must be unchanged afterwards
    out.append([23, 1, 1, 16384, cur_len + 6, 1, 3, 0])
    return out


def _directed(rng, d):
    """operation sequences a cache or short-cut in a setter would get wrong"""
    n = len(d)
    return [
        [[3] + d, [30, 6, n + 9, 0], [3] + d],                 # same value again after the length field was disturbed
        [[9] + d, [30, 6, 0, 0], [10]],                        # same buffer object assigned again, nothing appended
        [[9] + d, [7], [10, 1], [7], [10, 2], [0]],            # in-place growth of the caller's buffer between views
        [[3] + d, [0], [3] + d, [1]],                          # identical value: the cached CRC is still right
        [[0], [30, 5, 1, 1], [30, 5, 1, 1], [1], [7]],
        [[7], [7], [7], [0]],
        [[2], [31, 2, 513, 1], [7], [31, 2, 513, 0], [7]],
        [[27, 1], [7], [8], [27, 0], [7], [10, 5], [7]],       # decoded from a bytearray / from bytes, then used
        [[23, 1, 2048, 0, 6, 1, 3, 0], [8], [0]],              # refused replacement, then all views
    ]


def hardening_streams(tier, rng):
    big = tier == "thorough"
    # A. size sweeps: every application-data length through new / pack / unpack / equality and through
    #    unpack / re-pack of an independently built packet with a suffix
    cases = []
    top = 4200 if big else 1100
    for n in range(0, top + 1):
        a = [[pc.pick(rng, pc.BND8, 256), rng.randrange(256), pc.pick(rng, pc.BND11, 2048), pc.pick(rng, pc.BND14, 16384),
              pc.pick(rng, pc.BND16, 65536), rng.randrange(16)], pc.rbytes(rng, n) if n % 5 else rng.choice(PATTERNS)(n)]
        cases.append((505, a))
        if n in NEAR_256 or n % 64 in (0, 1, 63) or big:
            pkt = _layout_fast(*a[0], a[1])
            cases.append((502, [pkt + pc.rbytes(rng, rng.choice([0, 1, 2, 255, 1000]))]))
            cases.append((503, [pkt]))
            cases.append((504, a))
    big_sizes = [4095, 4096, 4097, 65528, 65529] + ([8191, 8192, 16384, 32767, 32768, 65527] if big else [])
    if big:                                                      # coarse steps up to the field's limit
        for n in range(4200, 65529, 251):
            cases.append((505, [[17, 1, rng.randrange(2048), rng.randrange(16384), rng.randrange(65536), 15], pc.rbytes(rng, n)]))
    for n in big_sizes:
        a = [[17, 1, 0x7FF, 0x3FFF, 0xFFFF, 15], pc.rbytes(rng, n)]
        cases.append((505, a))
        if big or n != 65528:
            cases.append((504, a)); cases.append((503, [_layout_fast(*a[0], a[1])]))
    for n in (65530, 65531):
        cases.append((501, [[17, 1, 1, 1, 1, 15], [0] * n])); cases.append((504, [[17, 1, 1, 1, 1, 15], [0] * n]))
    # round-number TOTAL packet lengths (block-wise processing slips show at exact multiples of a block size)
    rounds = sorted({k * 10000 for k in range(1, 7)} | {1 << k for k in range(12, 17)} | {5000, 8192 * 3, 25000, 48000, 65535}
                    | {rng.randrange(4200, 65542) for _ in range(3)})
    for T in rounds:
        for d in ((0,) if not big else (-1, 0, 1)):
            n = T + d - 13
            if 0 <= n <= 65529:
                a = [[17, 1, rng.randrange(2048), rng.randrange(16384), rng.randrange(65536), 15], pc.rbytes(rng, n)]
                cases.append((505, a))
    pkt = _layout_fast(17, 1, 1, 1, 1, 15, pc.rbytes(rng, 20))       # a long backlog behind the packet
    cases.append((502, [pkt + pc.rbytes(rng, 70000)])); cases.append((503, [pkt + pkt * 40]))
    yield "size_sweep_pack_unpack", "exact", cases
    # B. three interacting boundary values at once: APID x count x source ID at their limits together with data
    #    lengths that put the length field on an octet boundary, and CRC values with special octets
    cases = []
    lens = [0, 1, 249, 250, 251, 505, 506, 507] + ([65528, 65529] if big else [])
    for ap, sq, sid in itertools.product([0, 2047], [0, 16383], [0, 255, 256, 65535]):
        for n in lens:
            for ack, sv in ((0, 0), (15, 255)):
                a = [[sv, 255 - sv, ap, sq, sid, ack], rng.choice(PATTERNS)(n)]
                cases.append((505, a)); cases.append((504, a))
    for n in ([65529] if not big else []):
        for ap, sq, sid in ((2047, 16383, 65535),):
            a = [[255, 255, ap, sq, sid, 15], [0xFF] * n]
            cases.append((505, a)); cases.append((504, a))
    for target in (0x0000, 0xFFFF, 0x00FF, 0xFF00, 0x0001, 0x0100, 0x8000, 0x0080, 0x2000, 0x0020):
        for n in (2, 9, 250):
            a = pc.rand_tc_args(rng, 4)
            a[1] = _force_crc(a[0], pc.rbytes(rng, n), target)
            cases.append((505, a)); cases.append((504, a)); cases.append((509, a))
            cases.append((520, [[3] + a[0] + [1, 1, 1, 3, 0, n + 6], a[1], [7], [8], [1]]))
    yield "triple_boundaries_and_crc_patterns", "exact", cases
    # C. every mutation route x every way the CRC cache can have been filled x every view afterwards
    cases = []
    primes = [[], [[0]], [[2]], [[7]], [[0], [1]], [[7], [7]]]
    for rep in range(3 if big else 1):
        for path, kind in ((0, 1), (1, 1), (2, 0), (3, 0), (3, 1)) + (((0, 0),) if big else ()):
            for pr in primes:
                base = _hist_params(rng, path=path, kind=kind, n=rng.randrange(0, 9))
                muts = _all_mutations(rng, len(base[1]))
                for m in muts + [None]:
                    for v in ([7], [0], [1], [26]):
                        ops = [list(x) for x in pr] + ([list(m)] if m is not None else []) + [v, [8]]
                        cases.append((520, base + ops))
                for m in muts:                                   # the same assignment twice
                    cases.append((520, base + [list(x) for x in pr] + [list(m), list(m), [7], [8]]))
                for seq in _directed(rng, pc.rbytes(rng, rng.choice([0, 1, 5]))):
                    cases.append((520, base + [list(x) for x in pr] + seq))
    yield "live_object_every_route_then_views", "exact", cases
    # D. random histories up to 10 operations over all construction paths, bytes and bytearray payloads
    cases = []
    for _ in range(12000 if big else 1500):
        base = _hist_params(rng, consistent=rng.random() < 0.85)
        cases.append((520, base + _rand_ops(rng, len(base[1]), 10, wild_p=0.08)))
    yield "histories_live_object", "exact", cases
    # E. alternate constructors on their own (closing sequence of op 520 = views, packs, getters)
    cases = []
    for _ in range(3000 if big else 600):
        base = _hist_params(rng, consistent=rng.random() < 0.6)
        if rng.random() < 0.1:
            base[0][3] = rng.choice([-1, 2048, 2 ** 16]); 
        if rng.random() < 0.1:
            base[0][4] = rng.choice([-1, 16384])
        if rng.random() < 0.05:
            base[0][12] = rng.choice([-1, 65536])
        cases.append((520, base))
    for path, kind, n in ([(0, 1, 65529), (3, 1, 65529)] if not big else
                          [(p_, k_, n_) for p_ in (0, 1, 2, 3) for k_ in (0, 1) for n_ in (65528, 65529)]):
        cases.append((520, _hist_params(rng, path=path, kind=kind, n=n)))
    yield "alternate_construction_paths", "exact", cases
    # E2. a primary-header field pushed out of range through every public route (tc.apid, sp_header.apid, packet_id.apid,
    #     ... data_len), then every serialisation route (must refuse with ValueError, nothing encoded), healed, serialised again
    cases = []
    for path in (0, 1, 2, 3):
        base = _hist_params(rng, path=path, n=rng.randrange(0, 9))
        heal = lambda f, base=base: len(base[1]) + 6 if f == 6 else rng.randrange(pc.HDR_LIMIT[f])
        hs = pc.out_of_range_histories(rng, HDR_ROUTES, heal)
        for ops in (hs if big or path == 0 else rng.sample(hs, len(hs) // 4)):
            cases.append((520, base + ops))
    yield "header_out_of_range_then_serialise", "exact", cases
    # F. size sweep of the setters on a live object (bytes, bytearray, in-place growth), views in between
    cases = []
    sizes = sorted(set(NEAR_256) | {0, 1, 2, 63, 64, 65, 127, 128, 129, 255, 1100} | ({2048, 4095, 4096, 4097} if big else set()))
    for i, n in enumerate(sizes):
        for k in ((3, 9, 10) if big or n < 300 else ((3, 9, 10)[i % 3],)):
            base = _hist_params(rng, path=rng.choice([0, 1, 3]), n=rng.randrange(0, 4))
            d = pc.rbytes(rng, n)
            cases.append((520, base + [[7], [k] + d, [7], [8], [0], [10, 1, 2], [7], [8]]))
    for n in sizes:                                              # decoded from a receive buffer of every size, buffer reused
        if n >= 250 and (big or abs(((n + 128) % 256) - 128) <= 2 or n == 1100):
            cases.append((520, _hist_params(rng, path=3, kind=1, n=n) + [[8], [7], [8]]))
            cases.append((520, _hist_params(rng, path=rng.choice([0, 1, 2]), kind=1, n=n) + [[7], [8], [7]]))
    for n in ((65520, 65527) if big else (65527,)):
        base = _hist_params(rng, path=0, kind=1, n=2)
        cases.append((520, base + [[9] + [0xFF] * n, [7], [10, 1, 2], [8]]))
    yield "live_object_size_sweep", "exact", cases
    yield "crc_value_coincidences", "exact", crc_coincidence_cases(rng, big)
    yield "decode_with_suffix_every_observable", "exact", suffix_observable_cases(rng, big)


# G. value coincidences of DERIVED quantities: telecommands SEARCHED (pus_common.tc_crc_coincidences) such that the CRC
#    over the primary header / over every octet boundary up to the end of the secondary header / over blocks of the
#    application data / over the whole packet is 0x0000 or 0xFFFF - pushed through every serialisation route
COINCIDENCE_ROUTES = [[2], [8], [1], [7], [8], [1], [2], [1]]     # calc_crc, crc16, pack(recalc_crc=False), view, ...


def crc_coincidence_cases(rng, big):
    cases = []
    found = pc.tc_crc_coincidences(rng, lens=(0, 1, 2, 3, 7, 40, 1100) + ((300, 600, 4200) if big else ()))
    if big:
        found += pc.tc_crc_coincidences(rng, targets=(0x0001, 0x8000, 0x00FF, 0xFF00, 0x1021, 0x1D0F), lens=(0, 2, 9))
    for a, p, t in found:
        for op in (501, 504, 505, 509):
            cases.append((op, a))
        n = len(a[1])
        cases.append((510, a + [[2], [1]]))
        for path, kind in ((0, 1), (3, 0), (1, 0)):
            base = [[path] + a[0] + [kind, 1, 1, 3, 0, n + 6], a[1]]
            cases.append((520, base + [list(o) for o in COINCIDENCE_ROUTES]))
        pkt = _layout_fast(*a[0], a[1])
        cases.append((502, [pkt])); cases.append((506, [pkt])); cases.append((513, [pkt + pc.rbytes(rng, rng.choice([0, 2, 5]))]))
    return cases


# H. a valid packet followed by further octets (fill octets of a frame, the next packet): the decoded object must be
#    the same in every observable as when decoded from exactly its own octets
def suffix_observable_cases(rng, big):
    cases = []
    pkts = valid_packets(rng, 120 if big else 40)
    for n in (0, 1, 2, 250, 251, 505, 506, 1100) + ((4096, 65529) if big else ()):
        pkts.append(_layout_fast(17, 1, rng.randrange(2048), rng.randrange(16384), rng.randrange(65536), 15, pc.rbytes(rng, n)))
    for target in (0x0000, 0xFFFF, 0x00FF, 0xFF00):
        f = pc.rand_tc_args(rng, 1)[0]
        pkts.append(_layout_fast(*f, _force_crc(f, pc.rbytes(rng, 6), target)))
    for i, pkt in enumerate(pkts):
        other = pkts[(i + 1) % len(pkts)]
        sufs = [[], [rng.randrange(256)], [0, 0], [0xFF, 0xFF], pc.rbytes(rng, 2), [0x55] * 7, list(other), list(pkt),
                list(pkt[-2:]), pc.rbytes(rng, rng.choice([3, 16, 300]))]
        for sfx in (sufs if big or len(pkt) < 300 else sufs[:5]):
            cases.append((513, [pkt + sfx]))
    return cases


def _layout_fast(service, subservice, apid, seq, source_id, ack, app):
    body = pc.sph_layout(0, 1, 1, apid, 3, seq, 5 + len(app) + 1) + [32 + ack, service, subservice, source_id // 256, source_id % 256] + list(app)
    return body + _crc2(body)


def _force_crc(fields, app, target):
    """application data whose last two octets are chosen such that the packet's CRC is `target`"""
    service, subservice, apid, seq, source_id, ack = fields
    app = list(app)
    body = pc.sph_layout(0, 1, 1, apid, 3, seq, 5 + len(app) + 1) + [32 + ack, service, subservice, source_id // 256, source_id % 256] + app[:-2]
    s = fcrc(body)
    for x in range(65536):
        if fcrc([x >> 8, x & 255], s) == target:
            return app[:-2] + [x >> 8, x & 255]
    raise RuntimeError("no preimage")


_SPEC_SIZES = set(NEAR_256) | {4096, 65529}


def oracle_spec(case, ires):
    op, a = case
    if op in (501, 504, 505, 509) and valid_args(a):
        n = len(a[1])
        # the Coq transcription of the layout is cross-checked against the oracle's on every small packet and
        # on the sizes around the 256-multiples; elsewhere in the size sweep it would only repeat the CRC
        if n <= 300 or n in _SPEC_SIZES:
            return [(550, a[:2])]
    return []


def oracle(case, ires, sres):
    op, a = case
    err = ires[0][0] == 1
    code = ires[0][1] if err else None
    if op in (500, 501, 504, 505, 509):
        service, subservice, apid, seq, source_id, ack = a[0]
        if not (0 <= apid < 2048 and 0 <= seq < 16384 and len(a[1]) <= 65529):
            if not err or code not in (1, 2, 3):
                return ("C02/PusTc.__init__/range", "out-of-range APID/count/data length not refused with ValueError: %s -> %s" % (a[0], ires[:1]))
            return None
        if not valid_args(a):
            return None
        if err:
            return ("C02/PusTc/valid-refused", "valid telecommand raised %s: %s" % (ires, a[0]))
        exp = _layout_fast(service, subservice, apid, seq, source_id, ack, a[1])
        if op == 500:
            if ires[1] != [0, 1, 1, apid, 3, seq, len(a[1]) + 6] or ires[2] != [service, subservice, source_id, ack] or ires[3] != a[1] or ires[5] != [len(exp)]:
                return ("C02/PusTc.__init__/fields", "%s -> %s" % (a, ires))
            return None
        if sres and sres[0][1] != exp:
            return ("C02/spec-transcriptions-differ", "Coq tc_layout and the oracle's layout differ for %s" % (a,))
        if op in (501, 504, 509):
            if ires[1] != exp:
                return ("C02/PusTc.pack/layout" if op != 504 else "C02/PusTc.to_space_packet/octets",
                        "op %d: packed %s, standard says %s" % (op, ires[1][:40], exp[:40]))
            if op == 501 and ires[2] != [len(exp)]:
                return ("C02/PusTc.packet_len", "packet_len %s, packed %d octets" % (ires[2], len(exp)))
            return None
        if op == 505:
            if ires[1] != [1]:
                return ("C02/PusTc.unpack/not-equal", "decoded telecommand does not compare equal to the original: %s" % (a,))
            if ires[2] != [0, 1, 1, apid, 3, seq, len(a[1]) + 6] or ires[3] != [service, subservice, source_id, ack] or ires[4] != a[1]:
                return ("C02/PusTc.unpack/fields", "decoded fields differ from the original: %s -> %s" % (a, ires[2:5]))
            return None
    if op == 502:
        b = a[0]
        if err:
            if code in (20, 21, 22, 23, 24, 25, 99):
                return ("C02/PusTc.unpack/undocumented-error", "%s on %s" % (ires, b[:16]))
            return None
        n = b[4] * 256 + b[5] + 7
        if n < 13:
            return ("C02/PusTc.unpack/small-declared-length", "declared packet length %d (< 13) accepted; fields read beyond the packet: %s" % (n, b[:16]))
        if len(b) < n or fcrc(b[:n]) != 0:
            return ("C02/PusTc.unpack/accepts-invalid", "accepted although short or CRC wrong: %s" % (b[:20],))
        if ires[3] != b[11:n - 2] or ires[2] != [b[7], b[8], b[9] * 256 + b[10], b[6] & 15] or ires[5] != [n]:
            return ("C02/PusTc.unpack/fields", "decoded %s from %s" % (ires[1:4], b[:20]))
        return None
    if op == 513:
        b = a[0]
        n = b[4] * 256 + b[5] + 7 if len(b) >= 6 else None
        valid = n is not None and 13 <= n <= len(b) and b[6] >> 4 == 2 and fcrc(b[:n]) == 0
        if err:
            if code in (20, 21, 22, 23, 24, 25, 99):
                return ("C02/PusTc.unpack/undocumented-error", "%s on %s" % (ires, b[:16]))
            if valid:
                return ("C02/PusTc.unpack/valid-refused", "a valid telecommand followed by %d further octets is refused: %s" % (len(b) - n, ires))
            return None
        if n < 13 or len(b) < n or fcrc(b[:n]) != 0:
            return ("C02/PusTc.unpack/accepts-invalid", "accepted although short or CRC wrong: %s" % (b[:20],))
        unit = b[:n]
        where = "telecommand of %d octets decoded from a buffer of %d octets (%s behind it)" % (n, len(b), b[n:n + 8])
        if ires[4] != [1] + unit[-2:]:
            return ("C02/PusTc.unpack/crc16-not-the-trailer", "%s: crc16 reads %s, the packet's trailer is %s" % (where, ires[4], unit[-2:]))
        if ires[5] != [n]:
            return ("C02/PusTc.packet_len", "%s: packet_len %s" % (where, ires[5]))
        if ires[3] != b[11:n - 2] or ires[2] != [b[7], b[8], b[9] * 256 + b[10], b[6] & 15]:
            return ("C02/PusTc.unpack/fields", "%s: decoded %s" % (where, ires[1:4]))
        if ires[6] != unit:
            return ("C02/PusTc.unpack-pack/recalc-false-differs", "%s: pack(recalc_crc=False) gives ... %s, the accepted octets end in %s" % (
                where, ires[6][-4:], unit[-4:]))
        if ires[7] != unit:
            return ("C02/PusTc.unpack-pack/roundtrip", "%s: re-pack ... %s != accepted octets ... %s" % (where, ires[7][-4:], unit[-4:]))
        if ires[8] != [1, 1]:
            return ("C02/PusTc.unpack/suffix-changes-equality", "%s: not equal to the telecommand decoded from exactly its octets: %s" % (where, ires[8]))
        if ires[9:14] != ires[1:6]:
            return ("C02/PusTc.pack/changes-decoded-object", "%s: fields after the two packs %s, before %s" % (where, ires[9:14], ires[1:6]))
        return None
    if op == 503:
        b = a[0]
        if not err:
            n = b[4] * 256 + b[5] + 7
            # re-packing forces type TC / flags as decoded; it must reproduce the accepted octets
            if ires[1] != b[:n]:
                return ("C02/PusTc.unpack-pack/roundtrip", "re-pack %s != accepted octets %s" % (ires[1][:20], b[:n][:20]))
        return None
    if op == 507:
        service, subservice, apid, seq, source_id, ack = a[0]
        if valid_args([a[0], a[2]]) and valid_args(a):
            exp = _layout_fast(service, subservice, apid, seq, source_id, ack, a[2])
            if err:
                return ("C11/PusTc.app_data/raises", "setter then pack raised %s" % (ires,))
            if ires[1] != exp:
                return ("C11/PusTc.app_data/stale-length", "after app_data := %d octets pack gives %s, a fresh TC gives %s" % (len(a[2]), ires[1][:16], exp[:16]))
            if ires[2] != [len(exp)]:
                return ("C11/PusTc.app_data/stale-length", "after app_data := %d octets packet_len = %s but %d octets are packed" % (len(a[2]), ires[2], len(ires[1])))
        return None
    if op == 510:
        f = _final_values(a)
        if valid_args(f) and valid_args(a):
            exp = _layout_fast(*f[0], f[1])
            if err:
                return ("C11/PusTc.history/raises", "valid history raised %s" % (ires,))
            if ires[2] != exp or ires[3] != [len(exp)]:
                return ("C11/PusTc.history/pack-differs-from-fresh", "after %s pack gives %s (packet_len %s), a fresh TC with the final values gives %s" % (a[2:], ires[2][:20], ires[3], exp[:20]))
            if ires[1] != exp:
                return ("C02/PusTc.to_space_packet/stale-octets", "after %s the space-packet view packs %s but pack() gives %s" % (a[2:], ires[1][-6:], exp[-6:]))
        return None
    if op == 520:
        return _hist_oracle(a, ires)
    if op == 506:
        if ires[1] != [int(fcrc(a[0]) == 0)]:
            return ("C02/check_pus_crc", "%s -> %s" % (a[0][:16], ires))
    return None


def neighbours(case):
    op, a = case
    out = []
    if op in (502, 503):
        for i in range(min(13, len(a[0]))):
            for bit in (0, 4, 7):
                l = list(a[0]); l[i] ^= 1 << bit; out.append((op, [l]))
    return out


DECODERS = [
    {"op": 502, "name": "PusTc.unpack", "extra": [], "valid": lambda rng: valid_packets(rng, 30),
     "declared_len": lambda b: b[4] * 256 + b[5] + 7},
    {"op": 508, "name": "PusTcDataFieldHeader.unpack", "extra": [],
     "valid": lambda rng: [p[6:11] for p in valid_packets(rng, 10)], "declared_len": lambda b: 5},
    {"op": 506, "name": "check_pus_crc", "extra": [], "valid": lambda rng: valid_packets(rng, 10), "declared_len": None},
    # every observable of the decoded object (crc16, pack with and without recalculation, equality), see op 513
    {"op": 513, "name": "PusTc.unpack+views", "extra": [], "valid": lambda rng: valid_packets(rng, 16),
     "declared_len": lambda b: b[4] * 256 + b[5] + 7, "crc": "pus"},
]
DECODERS[0]["crc"] = "pus"
