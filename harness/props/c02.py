"""C02 — PUS-C telecommand encode/decode."""
import itertools
from spacepackets.ecss.tc import PusTc, PusTcDataFieldHeader
from spacepackets.ecss import check_pus_crc
from harness import pus_common as pc

ID = "C02"
ENUMS = [
    ("spacepackets.ecss.defs:PusVersion.PUS_C", "SP.Model.PusTc.PUS_C"),
    ("spacepackets.ecss.tc:PusTcDataFieldHeader.PUS_C_SEC_HEADER_LEN", "SP.Model.PusTc.PUS_C_SEC_HEADER_LEN"),
    ("spacepackets.ccsds.spacepacket:CCSDS_HEADER_LEN", "SP.Model.SpacePacket.CCSDS_HEADER_LEN"),
    ("spacepackets.ccsds.spacepacket:PacketType.TC", "SP.Model.SpacePacket.PT_TC"),
    ("spacepackets.ccsds.spacepacket:SequenceFlags.UNSEGMENTED", "SP.Model.SpacePacket.SF_UNSEG"),
]
ASSUMPTIONS = [
    "crcmod's C implementation of crc-ccitt-false is outside the model; it is tied to the bitwise Coq definition by C04's exhaustive comparison of the byte-update function and here by every packed packet",
    "CPython int/bytes/struct semantics as modelled in Base/Bytes.v",
]
TRUSTED = []
ORACLE_LIMIT = {"quick": 6000, "thorough": 40000}


def _sph_fields(h):
    return [h.ccsds_version, int(h.packet_type), int(h.sec_header_flag), h.apid, int(h.seq_flags), h.seq_count, h.data_len]


def _fields(t):
    s = t.pus_tc_sec_header
    crc = t.crc16
    return [_sph_fields(t.sp_header), [s.service, s.subservice, s.source_id, s.ack_flags], list(t.app_data),
            [0] if crc is None else [1] + list(crc), [t.packet_len]]


def _new(a):
    service, subservice, apid, seq, source_id, ack = a[0]
    return PusTc(service=service, subservice=subservice, apid=apid, app_data=bytes(a[1]), seq_count=seq,
                 source_id=source_id, ack_flags=ack)


def impl(op, a):
    if op == 500:
        return _fields(_new(a))
    if op == 501:
        t = _new(a); raw = t.pack(); return [list(raw), [t.packet_len]]
    if op == 502:
        return _fields(PusTc.unpack(bytes(a[0])))
    if op == 503:
        return [list(PusTc.unpack(bytes(a[0])).pack())]
    if op == 504:
        return [list(_new(a).to_space_packet().pack())]
    if op == 505:
        t = _new(a); raw = t.pack(); u = PusTc.unpack(bytes(raw))
        return [[int((u == t) and (t == u))]] + _fields(u)
    if op == 506:
        return [[int(check_pus_crc(bytes(a[0])))]]
    if op == 507:
        t = _new(a); t.app_data = bytes(a[2]); raw = t.pack(); return [list(raw), [t.packet_len]]
    if op == 508:
        s = PusTcDataFieldHeader.unpack(bytes(a[0])); return [[s.service, s.subservice, s.source_id, s.ack_flags]]
    if op == 509:
        t = _new(a); t.pack(); return [list(t.pack(recalc_crc=False))]
    if op == 510:
        t = _new(a)
        for o in a[2:]:
            k = o[0]
            if k == 0: t.pack()
            elif k == 1: t.pack(recalc_crc=False)
            elif k == 2: t.calc_crc()
            elif k == 3: t.app_data = bytes(o[1:])
            elif k == 4: t.seq_count = o[1]
            elif k == 5: t.apid = o[1]
            elif k == 6: t.source_id = o[1]
        sp = t.to_space_packet().pack()
        raw = t.pack()
        return [list(sp), list(raw), [t.packet_len]]
    raise RuntimeError("bad op")


def _final_values(a):
    service, subservice, apid, seq, source_id, ack = a[0]
    app = list(a[1])
    for o in a[2:]:
        if o[0] == 3: app = list(o[1:])
        elif o[0] == 4: seq = o[1]
        elif o[0] == 5: apid = o[1]
        elif o[0] == 6: source_id = o[1]
    return [[service, subservice, apid, seq, source_id, ack], app]


def valid_args(a):
    service, subservice, apid, seq, source_id, ack = a[0]
    return (0 <= service < 256 and 0 <= subservice < 256 and 0 <= apid < 2048 and 0 <= seq < 16384
            and 0 <= source_id < 65536 and 0 <= ack < 16 and len(a[1]) <= 65529)


def valid_packets(rng, n=40):
    out = []
    for _ in range(n):
        a = pc.rand_tc_args(rng, 24)
        out.append(pc.tc_layout(*a[0], a[1]))
    return out


def streams(tier, rng):
    big = tier == "thorough"
    # 1. structured valid: boundaries pairwise, several operations on each
    cases = []
    combos = list(itertools.product(pc.BND8[:4] + [255], [0, 1, 255], [0, 1, 2047], [0, 16383], [0, 1, 256, 65535], [0, 5, 15]))
    rng.shuffle(combos)
    for (sv, ss, ap, sq, sid, ack) in combos[: (len(combos) if big else 400)]:
        for n in (0, 1, rng.randrange(2, 30)):
            a = [[sv, ss, ap, sq, sid, ack], pc.rbytes(rng, n)]
            for op in (500, 501, 504, 505, 509):
                cases.append((op, a))
    for n in [2, 255, 256, 4096] + ([65528, 65529] if big else [65529]):
        a = [[17, 1, 0x42, 7, 3, 15], pc.rbytes(rng, n)]
        cases.append((501, a)); cases.append((505, a))
    yield "structured_valid", "exact", cases
    # 2. random valid
    cases = []
    for _ in range(40000 if big else 5000):
        a = pc.rand_tc_args(rng, 64)
        cases.append((rng.choice([501, 501, 505, 504, 500]), a))
    yield "random_valid", "exact", cases
    # 3. refusals
    cases = []
    for ap in [-1, 2048, 2049, 2 ** 16, 2 ** 64]:
        cases.append((500, [[1, 1, ap, 0, 0, 15], []])); cases.append((501, [[1, 1, ap, 0, 0, 15], [1, 2]]))
    for sq in [-1, 16384, 16385, 2 ** 64]:
        cases.append((500, [[1, 1, 1, sq, 0, 15], []])); cases.append((501, [[1, 1, 1, sq, 0, 15], []]))
    for n in [65530, 65531] + ([70000] if big else []):
        cases.append((500, [[1, 1, 1, 1, 0, 15], [0] * n]))
    for sv in [256, -1, 1000]:
        cases.append((501, [[sv, 1, 1, 1, 0, 15], []])); cases.append((501, [[1, sv, 1, 1, 0, 15], []]))
    for sid in [65536, -1]:
        cases.append((501, [[1, 1, 1, 1, sid, 15], []]))
    for ack in [16, 31, 255, 256, -1]:
        cases.append((501, [[1, 1, 1, 1, 0, ack], []]))
    yield "refusals", "exact", cases
    # 4. targeted malformed
    cases = []
    for pkt in valid_packets(rng, 60 if big else 25):
        for m in pc.malformed(rng, pkt, 11):
            cases.append((502, [m]))
            if rng.random() < 0.3:
                cases.append((503, [m]))
    yield "targeted_malformed", "exact", cases
    # 5. declared length too small for secondary header + CRC, CRC over the declared octets valid
    cases = []
    for dlen in range(0, 8):
        for _ in range(30 if big else 10):
            first = [0x18 | rng.randrange(8), rng.randrange(256), 0xC0 | rng.randrange(64), rng.randrange(256), 0, 0,
                     0x20 | rng.randrange(16)]
            for total in (dlen + 7, 11, 13, 20):
                if total >= dlen + 7:
                    cases.append((502, [pc.with_valid_crc_prefix(rng, dlen, first, max(total, 7))]))
    yield "small_declared_length", "exact", cases
    # 6. garbage
    cases = []
    for _ in range(30000 if big else 4000):
        n = rng.randrange(0, 40)
        b = pc.rbytes(rng, n)
        if n > 6 and rng.random() < 0.7:
            b[0] = 0x18 | (b[0] & 7); b[4] = 0; b[5] = rng.randrange(0, 40); b[6] = 0x20 | (b[6] & 15)
        cases.append((502, [b]))
    yield "garbage", "verdict", cases
    # 7. standalone CRC check and secondary-header decoder
    cases = []
    for pkt in valid_packets(rng, 200 if big else 60):
        cases.append((506, [pkt]))
        q = list(pkt); q[rng.randrange(len(q))] ^= 1 << rng.randrange(8); cases.append((506, [q]))
    for d0 in range(256):
        cases.append((508, [[d0, 1, 2, 3, 4]])); cases.append((508, [[d0, 1, 2, 3, 4, 5, 6]]))
    for n in range(0, 5):
        cases.append((508, [[0x2F] * n]))
    yield "exh_sec_header_first_octet_and_crc_check", "exact", cases
    # 8. setter then pack (C11 interplay: model and code must agree whatever the verdict)
    cases = []
    for _ in range(2000 if big else 300):
        a = pc.rand_tc_args(rng, 20)
        cases.append((507, a + [pc.rbytes(rng, rng.randrange(0, 20))]))
    yield "app_data_setter", "exact", cases
    # 9. histories: pack / calc_crc / setters in any order, then the space-packet view and pack
    cases = []
    for _ in range(6000 if big else 1200):
        a = pc.rand_tc_args(rng, 12)
        ops = []
        for _ in range(rng.randrange(0, 6)):
            k = rng.choice([0, 0, 1, 2, 3, 4, 5, 6])
            if k == 3: ops.append([3] + pc.rbytes(rng, rng.randrange(0, 10)))
            elif k == 4: ops.append([4, pc.pick(rng, pc.BND14, 16384)])
            elif k == 5: ops.append([5, pc.pick(rng, pc.BND11, 2048)])
            elif k == 6: ops.append([6, pc.pick(rng, pc.BND16, 65536)])
            else: ops.append([k])
        cases.append((510, a + ops))
    yield "setter_histories_then_views", "exact", cases


def oracle_spec(case, ires):
    op, a = case
    if op in (501, 504, 505, 509) and valid_args(a):
        return [(550, a[:2])]
    return []


def oracle(case, ires, sres):
    op, a = case
    err = ires[0][0] == 1
    code = ires[0][1] if err else None
    if op in (500, 501, 504, 505, 509):
        service, subservice, apid, seq, source_id, ack = a[0]
        if not (0 <= apid < 2048 and 0 <= seq < 16384 and len(a[1]) <= 65529):
            if not err or code not in (1, 2, 3):
                return ("C02/PusTc.__init__/range", "out-of-range APID/count/data length not refused with ValueError: %s -> %s" % (a[0], ires[:1]))
            return None
        if not valid_args(a):
            return None
        if err:
            return ("C02/PusTc/valid-refused", "valid telecommand raised %s: %s" % (ires, a[0]))
        exp = pc.tc_layout(service, subservice, apid, seq, source_id, ack, a[1])
        if op == 500:
            if ires[1] != [0, 1, 1, apid, 3, seq, len(a[1]) + 6] or ires[2] != [service, subservice, source_id, ack] or ires[3] != a[1] or ires[5] != [len(exp)]:
                return ("C02/PusTc.__init__/fields", "%s -> %s" % (a, ires))
            return None
        if sres and sres[0][1] != exp:
            return ("C02/spec-transcriptions-differ", "Coq tc_layout and the oracle's layout differ for %s" % (a,))
        if op in (501, 504, 509):
            if ires[1] != exp:
                return ("C02/PusTc.pack/layout" if op != 504 else "C02/PusTc.to_space_packet/octets",
                        "op %d: packed %s, standard says %s" % (op, ires[1][:40], exp[:40]))
            if op == 501 and ires[2] != [len(exp)]:
                return ("C02/PusTc.packet_len", "packet_len %s, packed %d octets" % (ires[2], len(exp)))
            return None
        if op == 505:
            if ires[1] != [1]:
                return ("C02/PusTc.unpack/not-equal", "decoded telecommand does not compare equal to the original: %s" % (a,))
            if ires[2] != [0, 1, 1, apid, 3, seq, len(a[1]) + 6] or ires[3] != [service, subservice, source_id, ack] or ires[4] != a[1]:
                return ("C02/PusTc.unpack/fields", "decoded fields differ from the original: %s -> %s" % (a, ires[2:5]))
            return None
    if op == 502:
        b = a[0]
        if err:
            if code in (20, 21, 22, 23, 24, 25, 99):
                return ("C02/PusTc.unpack/undocumented-error", "%s on %s" % (ires, b[:16]))
            return None
        n = b[4] * 256 + b[5] + 7
        if n < 13:
            return ("C02/PusTc.unpack/small-declared-length", "declared packet length %d (< 13) accepted; fields read beyond the packet: %s" % (n, b[:16]))
        if len(b) < n or pc.crc16(b[:n]) != 0:
            return ("C02/PusTc.unpack/accepts-invalid", "accepted although short or CRC wrong: %s" % (b[:20],))
        if ires[3] != b[11:n - 2] or ires[2] != [b[7], b[8], b[9] * 256 + b[10], b[6] & 15] or ires[5] != [n]:
            return ("C02/PusTc.unpack/fields", "decoded %s from %s" % (ires[1:4], b[:20]))
        return None
    if op == 503:
        b = a[0]
        if not err:
            n = b[4] * 256 + b[5] + 7
            # re-packing forces type TC / flags as decoded; it must reproduce the accepted octets
            if ires[1] != b[:n]:
                return ("C02/PusTc.unpack-pack/roundtrip", "re-pack %s != accepted octets %s" % (ires[1][:20], b[:n][:20]))
        return None
    if op == 507:
        service, subservice, apid, seq, source_id, ack = a[0]
        if valid_args([a[0], a[2]]) and valid_args(a):
            exp = pc.tc_layout(service, subservice, apid, seq, source_id, ack, a[2])
            if err:
                return ("C11/PusTc.app_data/raises", "setter then pack raised %s" % (ires,))
            if ires[1] != exp:
                return ("C11/PusTc.app_data/stale-length", "after app_data := %d octets pack gives %s, a fresh TC gives %s" % (len(a[2]), ires[1][:16], exp[:16]))
            if ires[2] != [len(exp)]:
                return ("C11/PusTc.app_data/stale-length", "after app_data := %d octets packet_len = %s but %d octets are packed" % (len(a[2]), ires[2], len(ires[1])))
        return None
    if op == 510:
        f = _final_values(a)
        if valid_args(f) and valid_args(a):
            exp = pc.tc_layout(*f[0], f[1])
            if err:
                return ("C11/PusTc.history/raises", "valid history raised %s" % (ires,))
            if ires[2] != exp or ires[3] != [len(exp)]:
                return ("C11/PusTc.history/pack-differs-from-fresh", "after %s pack gives %s (packet_len %s), a fresh TC with the final values gives %s" % (a[2:], ires[2][:20], ires[3], exp[:20]))
            if ires[1] != exp:
                return ("C02/PusTc.to_space_packet/stale-octets", "after %s the space-packet view packs %s but pack() gives %s" % (a[2:], ires[1][-6:], exp[-6:]))
        return None
    if op == 506:
        if ires[1] != [int(pc.crc16(a[0]) == 0)]:
            return ("C02/check_pus_crc", "%s -> %s" % (a[0][:16], ires))
    return None


def neighbours(case):
    op, a = case
    out = []
    if op in (502, 503):
        for i in range(min(13, len(a[0]))):
            for bit in (0, 4, 7):
                l = list(a[0]); l[i] ^= 1 << bit; out.append((op, [l]))
    return out


DECODERS = [
    {"op": 502, "name": "PusTc.unpack", "extra": [], "valid": lambda rng: valid_packets(rng, 30),
     "declared_len": lambda b: b[4] * 256 + b[5] + 7},
    {"op": 508, "name": "PusTcDataFieldHeader.unpack", "extra": [],
     "valid": lambda rng: [p[6:11] for p in valid_packets(rng, 10)], "declared_len": lambda b: 5},
    {"op": 506, "name": "check_pus_crc", "extra": [], "valid": lambda rng: valid_packets(rng, 10), "declared_len": None},
]
