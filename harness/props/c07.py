"""C07 — CFDP File Data PDU.  Streams, implementation adapter, oracle."""
import copy, itertools
from harness import core
from harness.props import c05 as h5
from spacepackets.cfdp.pdu.file_data import (FileDataPdu, FileDataParams, SegmentMetadata, RecordContinuationState,
                                             get_max_file_seg_len_for_max_packet_len_and_pdu_cfg)

ID = "C07"
_M = "SP.Model.FileData."
_H = "SP.Model.PduHeader."
ENUMS = [
    ("spacepackets.cfdp.pdu.file_data:RecordContinuationState.NO_START_NO_END", _M + "RCS_NO_START_NO_END"),
    ("spacepackets.cfdp.pdu.file_data:RecordContinuationState.START_WITHOUT_END", _M + "RCS_START_WITHOUT_END"),
    ("spacepackets.cfdp.pdu.file_data:RecordContinuationState.END_WITHOUT_START", _M + "RCS_END_WITHOUT_START"),
    ("spacepackets.cfdp.pdu.file_data:RecordContinuationState.START_AND_END", _M + "RCS_START_AND_END"),
    ("spacepackets.cfdp.pdu.file_data:PduType.FILE_DATA", _H + "PDU_FILE_DATA"),
    ("spacepackets.cfdp.pdu.file_data:Direction.TOWARDS_RECEIVER", _H + "DIR_TOWARDS_RECEIVER"),
    ("spacepackets.cfdp.pdu.file_data:SegmentMetadataFlag.NOT_PRESENT", _H + "SEGMETA_NOT_PRESENT"),
    ("spacepackets.cfdp.pdu.file_data:SegmentMetadataFlag.PRESENT", _H + "SEGMETA_PRESENT"),
    ("spacepackets.cfdp.pdu.file_data:CrcFlag.WITH_CRC", _H + "CRC_WITH_CRC"),
    ("spacepackets.cfdp.pdu.file_data:LargeFileFlag.LARGE", _H + "FILE_LARGE"),
] + [e for e in h5.ENUMS if "CFDP_VERSION_2" in e[0] or "FIXED_LENGTH" in e[0]]
ASSUMPTIONS = h5.ASSUMPTIONS + [
    "crcmod's crc-ccitt-false equals the bitwise CRC-16 of Base/Crc16.v (tied exhaustively in family 17 / C04); "
    "here every packed CRC trailer is additionally recomputed bitwise by the oracle",
    "copy.copy(pdu_conf) in the constructor is shallow (by design): the PDU's configuration and the caller's share the three "
    "UnsignedByteField objects until one side gets another object assigned; the history model (Model/FileDataOps.v, fworld) "
    "tracks which fields are still shared, and the caller's PduConfig is compared after construction and at the end of every history",
    "the PDU aliases the caller's FileDataParams (by design): writes to params.offset / params.file_data show through without "
    "a recalculated length until one of the PDU's setters runs (modelled; the oracle judges pack() against the current views)",
]
TRUSTED = ["crcmod 1.7 (C extension) as CRC-16/CCITT-FALSE"]
EXPLORED_ONLY = []
ORACLE_LIMIT = {"quick": 20000, "thorough": 60000}

WIDTHS = (1, 2, 4, 8)


def _meta(l):
    if l and l[0] == 1:
        st = l[1]
        return SegmentMetadata(RecordContinuationState(st) if st in (0, 1, 2, 3) else st, bytes(l[2:]))
    return None


def _meta_enc(m):
    if m is None:
        return [0]
    return [1, int(m.record_cont_state)] + list(m.metadata)


def _pdu(a):
    conf = h5._conf(a[0], a[1])
    params = FileDataParams(file_data=bytes(a[3]), offset=a[2][0], segment_metadata=_meta(a[4]))
    return FileDataPdu(conf, params), conf, params


def _fields(p):
    return h5._fields(p.pdu_header) + [[p.offset], list(p.file_data), _meta_enc(p.segment_metadata)]


def _pack_res(p):
    try:
        return [0] + list(p.pack())
    except Exception as e:  # noqa
        return [1, core.classify_exception(e)]


def _conf_lists(c):
    return [[c.source_entity_id.value, c.source_entity_id.byte_len, c.dest_entity_id.value, c.dest_entity_id.byte_len,
             c.transaction_seq_num.value, c.transaction_seq_num.byte_len],
            [int(c.trans_mode), int(c.file_flag), int(c.crc_flag), int(c.direction), int(c.seg_ctrl)]]


# ------------------------------------------------------------------ operation histories (ops 1407 / 1408)
def _fdstate(p):
    return h5._hstate(p.pdu_header) + [[p.offset], list(p.file_data), _meta_enc(p.segment_metadata)]


def _params_view(q):
    return [[q.offset], list(q.file_data), _meta_enc(q.segment_metadata)]


def apply_fd_op(p, params, l):
    """one operation of Model/FileDataOps.v (fd_hop) on the PDU p whose parameter object is params"""
    k = l[0] if l else -1
    if k == 20 and len(l) >= 2:
        p.file_data = bytearray(l[2:]) if l[1] & 1 else bytes(l[2:]); return []
    if k == 21:
        p.segment_metadata = None; return []
    if k == 22 and len(l) >= 2:
        p.segment_metadata = _meta([1] + list(l[1:])); return []
    if k == 23:
        d = params.file_data
        if not isinstance(d, bytearray):
            d = bytearray(d); params.file_data = d
        d.extend(bytes(l[1:]))          # the caller grows its own buffer in place ...
        p.file_data = d; return []      # ... and hands the same object to the PDU again
    if k == 24:
        p.file_data = p.file_data; return []
    if k == 25:
        p.segment_metadata = p.segment_metadata; return []
    if k == 26:
        p.segment_metadata.metadata = bytes(l[1:]); return []
    if k == 27 and len(l) >= 2:
        p.segment_metadata.record_cont_state = RecordContinuationState(l[1]) if l[1] in (0, 1, 2, 3) else l[1]; return []
    if k == 28 and len(l) >= 2:
        params.offset = l[1]; return []
    if k == 29:
        params.file_data = bytes(l[1:]); return []
    if k == 30:
        return list(p.pack())
    if k == 31 and len(l) >= 2:
        return [p.get_max_file_seg_len_for_max_packet_len(l[1])]
    return h5.apply_hdr_op(p.pdu_header, l)


def impl(op, a):
    if op == 1407:
        conf = h5._conf_kind(a[5][0] if a[5] else 0, a[0], a[1])
        data = bytearray(a[3]) if len(a[5]) > 1 and a[5][1] else bytes(a[3])
        params = FileDataParams(file_data=data, offset=a[2][0], segment_metadata=_meta(a[4]))
        if len(a[5]) > 2 and a[5][2] and not a[3] and a[2][0] == 0 and _meta(a[4]) is None:
            params = FileDataParams.empty()         # the alternate constructor of the same parameter object
        p = FileDataPdu(conf, params)
        return (_fdstate(p) + _conf_lists(conf)
                + h5.run_history(a[6:], lambda l: apply_fd_op(p, params, l), lambda: _fdstate(p))
                + _params_view(params) + _conf_lists(conf))
    if op == 1408:
        if a[1] and a[1][0]:
            buf = bytearray(a[0])
            p = FileDataPdu.unpack(buf)
            s0 = _fdstate(p)
            h5.scramble(buf)
            ok = int(_fdstate(p) == s0)
        else:
            p = FileDataPdu.unpack(bytes(a[0])); ok = 1
        params = p._params
        conf = copy.copy(p.pdu_header.pdu_conf)     # a second holder of the decoded byte-field objects
        return ([[ok]] + _fdstate(p) + h5.run_history(a[2:], lambda l: apply_fd_op(p, params, l), lambda: _fdstate(p))
                + _params_view(params) + _conf_lists(conf)
                + _fdstate(FileDataPdu.unpack(bytes(a[0]))))        # the same octets decoded once more
    if op == 1400:
        p, conf, _ = _pdu(a)
        return _fields(p) + _conf_lists(conf)
    if op == 1401:
        return [list(_pdu(a)[0].pack())]
    if op == 1402:
        return _fields(FileDataPdu.unpack(bytes(a[0])))
    if op == 1403:
        return [list(FileDataPdu.unpack(bytes(a[0])).pack())]
    if op == 1404:
        p, _, _ = _pdu(a)
        b = p.pack()
        p2 = FileDataPdu.unpack(bytes(b) + bytes(a[5] if len(a) > 5 else []))
        return [[int(p2 == p)]] + _fields(p2) + [_pack_res(p2)]
    if op == 1405:
        conf = h5._conf(a[0], a[1])
        return [[get_max_file_seg_len_for_max_packet_len_and_pdu_cfg(conf, a[2][0], _meta(a[3]))]]
    if op == 1406:
        p, _, _ = _pdu(a)
        for o in a[5:]:
            try:
                if o and o[0] == 0:
                    p.file_data = bytes(o[1:])
                elif o and o[0] == 1:
                    p.segment_metadata = None
                elif len(o) >= 2 and o[0] == 2:
                    p.segment_metadata = _meta([1] + list(o[1:]))
            except ValueError:
                if not (len(o) >= 2 and o[0] == 2 and not meta_in_domain([1] + list(o[1:]))):
                    raise
                # metadata no File Data PDU can carry, refused at assignment instead of at pack(): the PDU stays as it
                # was (judged by the oracle on the views / lengths / packs below) and the rest of the history runs
        return _fields(p) + [[p.packet_len], _pack_res(p), _pack_res(p)]
    raise RuntimeError("bad op")


# ------------------------------------------------------------------ independent transcription
def fd_layout(ids, flags, off, data, meta, keep_direction=False):
    """CCSDS 727.0-B-5 table 5-14, arithmetic only (the Coq Spec.fd_layout is evaluated too, op 1450)."""
    mode, large, crc, direction, seg = flags
    body = []
    if meta and meta[0] == 1:
        md = list(meta[2:])
        body += [meta[1] * 64 + len(md)] + md
    body += list(off.to_bytes(8 if large else 4, "big")) + list(data)
    dlen = len(body) + (2 if crc else 0)
    pre = h5.layout(ids, [mode, large, crc, direction if keep_direction else 0, seg], [1, 1 if meta and meta[0] == 1 else 0, dlen]) + body
    if crc:
        c = h5.crc16_bitwise(pre)
        pre = pre + [c >> 8, c & 0xFF]
    return pre


def lay(a):
    return fd_layout(a[0], a[1], a[2][0], a[3], a[4])


def overhead(ids, flags, meta):
    return 4 + 2 * ids[1] + ids[5] + (1 + len(meta) - 2 if meta and meta[0] == 1 else 0) + (8 if flags[1] else 4) + (2 if flags[2] else 0)


def valid_fd(a):
    ids, flags, (off,), data, meta = a[:5]
    if not h5.valid_args(ids, flags, [1, 0, 0]):
        return False
    if not 0 <= off < 256 ** (8 if flags[1] else 4):
        return False
    if meta and meta[0] == 1 and not (0 <= meta[1] < 4 and len(meta) - 2 <= 63):
        return False
    return overhead(ids, flags, meta) - (4 + 2 * ids[1] + ids[5]) + len(data) <= 65535


DLENS = [0, 1, 2, 3, 63, 64, 255, 256]


def _rand_conf(rng, sl=None, ql=None, crc=None, large=None):
    sl = sl or rng.choice(WIDTHS); ql = ql or rng.choice(WIDTHS)
    ids = [rng.randrange(256 ** sl), sl, rng.randrange(256 ** sl), sl, rng.randrange(256 ** ql), ql]
    flags = [rng.randrange(2) for _ in range(5)]
    if crc is not None: flags[2] = crc
    if large is not None: flags[1] = large
    return ids, flags


def _rand_meta(rng, n=None):
    if n is None:
        if rng.random() < 0.5:
            return [0]
        n = rng.choice([0, 1, 2, 5, 62, 63])
    return [1, rng.randrange(4)] + [rng.randrange(256) for _ in range(n)]


def _rand_off(rng, large):
    w = 8 if large else 4
    return rng.choice([0, 1, 255, 256, 2 ** (8 * w - 1), 256 ** w - 1, rng.randrange(256 ** w)])


def _rand_data(rng, n=None):
    if n is None:
        n = rng.choice(DLENS[:6] + [rng.randrange(0, 40)])
    return [rng.randrange(256) for _ in range(n)]


def _rand_pdu(rng, **kw):
    ids, flags = _rand_conf(rng, **kw)
    return [ids, flags, [_rand_off(rng, flags[1])], _rand_data(rng), _rand_meta(rng)]


# ---- what every operation is documented to do (generator bookkeeping and per-step oracle)
def fd_required(st):
    m = st["meta"]
    return ((1 + len(m) - 2) if m[0] == 1 else 0) + (8 if st["flags"][1] == 1 else 4) + len(st["data"]) + (2 if st["flags"][2] == 1 else 0)


def _cp(st):
    return {k: list(v) for k, v in st.items()}


def fd_pack_expect(st):
    """octets pack() has to produce in state st, "refuse" (metadata longer than 63 octets), or None (no claim: a field
    holds a value outside its domain)"""
    if not h5.valid_args(st["ids"], st["flags"], st["hd"]):
        return None
    m = st["meta"]
    body = []
    if m[0] == 1:
        if len(m) - 2 > 63:
            return "refuse"
        if not 0 <= m[1] <= 3:
            return None
        body = [m[1] * 64 + len(m) - 2] + list(m[2:])
    w = 8 if st["flags"][1] == 1 else 4
    if not 0 <= st["off"][0] < 256 ** w:
        return None
    out = h5.layout(st["ids"], st["flags"], st["hd"]) + body + list(st["off"][0].to_bytes(w, "big")) + list(st["data"])
    if st["flags"][2] == 1:
        c = h5.crc16_bitwise(out)
        out = out + [c >> 8, c & 0xFF]
    return out


def meta_in_domain(m):
    """segment metadata the property speaks about: none, or a continuation state 0..3 with 0..63 octets"""
    return m[0] != 1 or (len(m) - 2 <= 63 and 0 <= m[1] <= 3)


def fd_expect3(st, l):
    """st: hd / ids / flags as in c05.hdr_expect plus off [v], data, meta ([0] | [1, state, octets...]).
    -> (state after an accepted call, verdict, state after a refused call)
    verdict: "ok" (has to be accepted) | "refuse" (ValueError; the first component is then the state after the refusal
    too) | "attr" (Python's own AttributeError on None) | "any": the property leaves the outcome open.  For pack / the
    read-only calls that means: no claim.  For an ASSIGNMENT it means the assigned value lies outside the property's domain
    (metadata longer than 63 octets, a continuation state outside 0..3, an offset no width can hold, a flag outside its
    enum): the library may store it and refuse at pack() (first component), or refuse the assignment itself with
    ValueError and stay as it was (third component) -- what it may not do is encode the value or refuse half-way."""
    k = l[0]
    n = _cp(st)
    if k in (20, 21, 22, 23, 24, 25):
        after_refusal = st
        if k == 20: n["data"] = list(l[2:])
        elif k == 21: n["meta"] = [0]; n["hd"][1] = 0
        elif k == 22: n["meta"] = [1] + list(l[1:]); n["hd"][1] = 1
        elif k == 23:
            n["data"] = st["data"] + list(l[1:])
            after_refusal = _cp(n)          # the caller's own in-place change stays, whatever the setter says
        elif k == 25: n["hd"][1] = 1 if st["meta"][0] == 1 else 0
        req = fd_required(n)
        if req > 65535:
            return after_refusal, "refuse", after_refusal
        n["hd"][2] = req
        # the PDU would hold metadata no File Data PDU can carry: a setter may refuse to produce that object
        return n, ("ok" if meta_in_domain(n["meta"]) else "any"), after_refusal
    if k in (26, 27):
        if st["meta"][0] != 1:
            return st, "attr", st
        if k == 26: n["meta"] = st["meta"][:2] + list(l[1:])
        else: n["meta"][1] = l[1]
        return n, ("ok" if meta_in_domain(n["meta"]) else "any"), st
    if k == 28:
        n["off"] = [l[1]]; return n, ("ok" if 0 <= l[1] < 2 ** 64 else "any"), st
    if k == 29:
        n["data"] = list(l[1:]); return n, "ok", st
    if k == 30:
        e = fd_pack_expect(st)
        return st, ("any" if e is None else "refuse" if e == "refuse" else "ok"), st
    if k == 31:
        ids = st["ids"]
        if not all(h5.ubf_ok(ids[i], ids[i + 1]) for i in (0, 2, 4)):
            return st, "any", st
        ov = 4 + ids[1] + ids[3] + ids[5] + (len(st["meta"]) - 1 if st["meta"][0] == 1 else 0) + (8 if st["flags"][1] == 1 else 4) + (2 if st["flags"][2] == 1 else 0)
        return st, ("refuse" if l[1] < ov else "ok"), st
    hs, verdict = h5.hdr_expect({"hd": st["hd"], "ids": st["ids"], "flags": st["flags"]}, l)
    n["hd"], n["ids"], n["flags"] = list(hs["hd"]), list(hs["ids"]), list(hs["flags"])
    return n, verdict, st


def fd_expect(st, l):
    """(state afterwards when the call does what the unchanged library does, verdict): see fd_expect3"""
    return fd_expect3(st, l)[:2]


SIZES = [0, 1, 2, 3, 63, 64, 255, 256, 257, 511, 512, 513, 1023, 1024, 1025]


def _special_data(rng, n):
    k = rng.randrange(5)
    if k == 0: return [0xFF] * n
    if k == 1: return [0x80] * n
    if k == 2: return [0] * n
    return [rng.randrange(256) for _ in range(n)]


def rand_fd_op(rng, st, small=False):
    k = rng.choice([20, 20, 20, 21, 22, 22, 23, 23, 24, 25, 26, 27, 28, 29, 30, 30, 31, "h", "h", "h"])
    if k == "h":
        l = h5.rand_hdr_op(rng, {"hd": st["hd"], "ids": st["ids"], "flags": st["flags"]})
        while l[0] == 14 or (l[0] == 12 and len(l) > 40):   # pdu_conf replacement: see c05 (live-object probe); keep lines short
            l = h5.rand_hdr_op(rng, {"hd": st["hd"], "ids": st["ids"], "flags": st["flags"]})
        return l
    if k == 20:
        n = rng.choice(SIZES[:8] if small else SIZES + [rng.randrange(40)] * 8)
        return [20, rng.randrange(2)] + _special_data(rng, n)
    if k == 22:
        return [22, rng.choice([0, 1, 2, 3, 3, 3, 4, -1])] + [rng.randrange(256) for _ in range(rng.choice([0, 1, 2, 31, 32, 62, 63, 63, 64, 65]))]
    if k == 23:
        return [23] + _special_data(rng, rng.choice([0, 1, 2, 7, 255, 256, 512]))
    if k == 26:
        return [26] + [rng.randrange(256) for _ in range(rng.choice([0, 1, 5, 63, 64]))]
    if k == 27:
        return [27, rng.choice([0, 1, 2, 3, 4])]
    if k == 28:
        return [28, rng.choice([0, 1, 2 ** 32 - 1, 2 ** 32, 2 ** 64 - 1, 2 ** 64, -1, rng.randrange(2 ** 32)])]
    if k == 29:
        return [29] + _special_data(rng, rng.choice(SIZES[:10]))
    if k == 31:
        return [31, rng.choice([0, 20, 64, 512, 1024, 4096, 65535, 100000, -1])]
    return [k]


def rand_fd_history(rng, st, n, small=False):
    ops = []
    while len(ops) < n:
        if rng.random() < 0.04:
            # the value of one live 8-octet ID / sequence-number object edited in place along values CPython hashes alike,
            # the PDU (or its header) packed after every step
            burst = h5.collision_burst(rng, {"hd": st["hd"], "ids": st["ids"], "flags": st["flags"]}, rng.choice([(30,), (30,), (15,)]))
        else:
            burst = [rand_fd_op(rng, st, small)] * (2 if rng.random() < 0.15 else 1)
        for l in burst:
            ops.append(l)
            st, _ = fd_expect(st, l)
    return ops + [[30], [30]], st


def fd_state_of(a, kind=0):
    ids, flags = a[0], a[1]
    if kind == 1: ids, flags = [0, 1, 0, 1, 0, 1], [0, 0, 0, 0, 0]
    if kind == 2: ids, flags = [0, 0, 0, 0, 0, 0], [0, 0, 0, 0, 0]
    meta = list(a[4]) if a[4] and a[4][0] == 1 else [0]
    st = {"hd": [1, 1 if meta[0] == 1 else 0, 0], "ids": list(ids), "flags": [flags[0], flags[1], flags[2], 0, flags[4]],
          "off": [a[2][0]], "data": list(a[3]), "meta": meta}
    st["hd"][2] = fd_required(st)
    return st


def streams(tier, rng):
    big = tier == "thorough"
    # 1. every header configuration (CRC x large x 16 width pairs x segctrl x mode x direction) x metadata yes/no
    cases = []
    for crc, large, seg, mode, direction in itertools.product((0, 1), repeat=5):
        for sl, ql in itertools.product(WIDTHS, WIDTHS):
            for has_meta in (0, 1):
                ids = [rng.choice(h5.bnd(sl)), sl, rng.choice(h5.bnd(sl)), sl, rng.choice(h5.bnd(ql)), ql]
                flags = [mode, large, crc, direction, seg]
                a = [ids, flags, [_rand_off(rng, large)], _rand_data(rng, rng.choice([0, 1, 7])),
                     _rand_meta(rng, rng.choice([0, 1, 3])) if has_meta else [0]]
                cases.append((1401, a)); cases.append((1404, a + [[]]))
                if big or rng.random() < 0.25:
                    cases.append((1400, a))
    yield "exh_configs_pack_roundtrip", "exact", cases
    # 2. every metadata length 0..64 (+ larger) x 4 continuation states, CRC on/off, empty and non-empty data
    cases = []
    for n in list(range(0, 66)) + [100, 255, 300]:
        for st in range(4):
            for crc in (0, 1):
                ids, flags = _rand_conf(rng, crc=crc)
                meta = [1, st] + [rng.randrange(256) for _ in range(n)]
                a = [ids, flags, [_rand_off(rng, flags[1])], _rand_data(rng, rng.choice([0, 0, 1, 9])), meta]
                cases.append((1401, a)); cases.append((1404, a + [[]])); cases.append((1400, a))
    for st in (-1, 4, 5, 255, 256):     # state outside the enum: not validated by the constructor
        ids, flags = _rand_conf(rng)
        cases.append((1401, [ids, flags, [0], [1, 2], [1, st, 9, 9]]))
    yield "exh_metadata_lengths", "exact", cases
    # 3. data lengths around boundaries incl. the 65535 data-field limit (CRC cases kept few: bitwise CRC in the model)
    cases = []
    for n in DLENS + [1000]:
        for crc, large in itertools.product((0, 1), (0, 1)):
            for meta in ([0], [1, 2, 7, 7, 7]):
                ids, flags = _rand_conf(rng, crc=crc, large=large)
                a = [ids, flags, [_rand_off(rng, large)], _rand_data(rng, n), meta]
                cases.append((1401, a)); cases.append((1404, a + [[]]))
    for crc, large, meta in [(0, 0, [0]), (0, 1, [1, 3] + [5] * 63), (1, 0, [0])] + ([(1, 1, [1, 0, 1])] if big else []):
        ids, flags = _rand_conf(rng, crc=crc, large=large)
        lim = 65535 - (overhead(ids, flags, meta) - (4 + 2 * ids[1] + ids[5]))
        for n in (lim - 1, lim, lim + 1):
            a = [ids, flags, [_rand_off(rng, large)], _rand_data(rng, n), meta]
            cases.append((1400, a))
            if n <= lim and (crc == 0 or n == lim):
                cases.append((1404, a + [[]]))
    yield "data_lengths_limits", "exact", cases
    # 4. offsets: boundaries of the 32/64-bit range and beyond
    cases = []
    for large in (0, 1):
        for off in [0, 1, 2 ** 31 - 1, 2 ** 31, 2 ** 32 - 1, 2 ** 32, 2 ** 32 + 1, 2 ** 63, 2 ** 64 - 1, 2 ** 64, 2 ** 65, -1, -2 ** 31]:
            for crc in (0, 1):
                ids, flags = _rand_conf(rng, crc=crc, large=large)
                a = [ids, flags, [off], _rand_data(rng), _rand_meta(rng)]
                cases.append((1401, a)); cases.append((1404, a + [[]])); cases.append((1400, a))
    yield "offset_boundaries", "exact", cases
    # 5. random PDUs: pack, round trip, round trip with suffix (look-alike continuations), decode of pack ++ suffix
    cases = []
    for _ in range(20000 if big else 2500):
        a = _rand_pdu(rng)
        cases.append((1401, a)); cases.append((1404, a + [[]]))
        sfx = rng.choice([[rng.randrange(256) for _ in range(rng.randrange(1, 18))],
                          lay(_rand_pdu(rng)) if rng.random() < 0.5 else [0x20, 0, 0, 0x11],
                          [rng.randrange(256)]])
        cases.append((1404, a + [sfx]))
        if valid_fd(a):
            cases.append((1402, [lay(a) + sfx])); cases.append((1403, [lay(a)]))
    yield "random_roundtrip_suffix", "exact", cases
    # 6. targeted malformed: every truncation; substitutions in header / length / metadata-length octets
    cases = []
    for _ in range(300 if big else 60):
        a = _rand_pdu(rng)
        a[3] = a[3][:12]
        if not valid_fd(a):
            continue
        p = lay(a)
        hl = 4 + 2 * a[0][1] + a[0][5]
        for n in range(len(p) + 1):
            cases.append((1402, [p[:n]]))
        for i in list(range(4)) + [hl, hl + 1]:
            if i >= len(p):
                continue
            for v in {0, 1, 0x3F, 0x40, 0x7F, 0x80, 0xFF, (p[i] + 1) % 256, (p[i] - 1) % 256, p[i] ^ 0x08, p[i] ^ 0x02, p[i] ^ 0x01, p[i] ^ 0x10}:
                q = list(p); q[i] = v
                cases.append((1402, [q])); cases.append((1402, [q + [rng.randrange(256) for _ in range(3)]]))
        for dl in (0, 1, 2, 3, 4, 5, 8, 9, len(p) - hl - 1, len(p) - hl + 1, 65535):   # length field set to ...
            if dl < 0:
                continue
            q = list(p); q[1] = dl >> 8; q[2] = dl & 0xFF
            cases.append((1402, [q]))
            if q[0] & 2 and hl + dl <= len(q) and hl + dl >= 2:    # ... with a CRC that is right for the shortened packet
                c = h5.crc16_bitwise(q[:hl + dl - 2]); q2 = list(q); q2[hl + dl - 2:hl + dl] = [c >> 8, c & 0xFF]
                cases.append((1402, [q2]))
    # minimal packets: header + data field of 0..9 octets for each (crc, large, meta) combination, correct CRC
    for crc, large, meta, dl in itertools.product((0, 1), (0, 1), (0, 1), range(0, 13)):
        ids, flags = _rand_conf(rng, crc=crc, large=large)
        hdr = h5.layout(ids, [flags[0], large, crc, 0, flags[4]], [1, meta, dl])
        body = [rng.choice([0, 1, 2, 3, 0x41, 0x7F, rng.randrange(256)]) for _ in range(dl)]
        q = hdr + body
        if crc and dl >= 2:
            c = h5.crc16_bitwise(q[:-2]); q[-2:] = [c >> 8, c & 0xFF]
        cases.append((1402, [q])); cases.append((1403, [q]))
    yield "targeted_malformed", "exact", cases
    # 7. get_max_file_seg_len_for_max_packet_len_and_pdu_cfg, and a segment of exactly that size
    cases = []
    for _ in range(3000 if big else 600):
        ids, flags = _rand_conf(rng)
        meta = _rand_meta(rng)
        ov = overhead(ids, flags, meta)
        mx = rng.choice([ov - 1, ov, ov + 1, ov + 17, 0, -1, 512, 1024, 4096])
        cases.append((1405, [ids, flags, [mx], meta]))
        if ov <= mx <= 1100:
            a = [ids, flags, [_rand_off(rng, flags[1])], _rand_data(rng, mx - ov), meta]
            cases.append((1401, a))
    for sl, dl, ql in itertools.product((0, 1, 2, 4, 8), repeat=3):   # PduConfig.header_len adds the three widths
        ids = [0, sl, 0, dl, 0, ql]
        cases.append((1405, [ids, [0, rng.randrange(2), rng.randrange(2), 0, 0], [100], _rand_meta(rng)]))
    yield "max_file_seg_len", "exact", cases
    # 8. histories of setter calls
    cases = []
    for _ in range(4000 if big else 700):
        a = _rand_pdu(rng)
        ops = []
        for _ in range(rng.randrange(0, 5)):
            k = rng.randrange(3)
            if k == 0:
                ops.append([0] + _rand_data(rng))
            elif k == 1:
                ops.append([1])
            else:
                ops.append([2] + _rand_meta(rng, rng.choice([0, 1, 4, 63, 64]))[1:])
        cases.append((1406, a + ops))
    yield "setter_histories", "exact", cases
    # PDUs whose (correct) CRC-16 trailer is 0x0000 / 0xFFFF / has a zero octet / a single bit (a derived quantity random
    # packets hit once in 65536; found by steering the sequence number, c05.steer_crc): decode, re-pack, round trip
    cases = []
    for sl, ql in (itertools.product((1, 2, 4, 8), repeat=2) if big else [(1, 1), (1, 2), (2, 1), (2, 4), (4, 8), (8, 8)]):
        for target in h5.crc_targets(rng) * 2:
            for _ in range(50):
                a = _rand_pdu(rng, sl=sl, ql=ql, crc=1)
                if valid_fd(a):
                    break
            b2 = h5.steer_crc(lay(a), target)
            a2 = [list(x) for x in a]; a2[0] = h5.ids_of(b2)
            if lay(a2) != b2:
                raise RuntimeError("steered PDU is not the layout of its arguments")
            cases.append((1402, [b2])); cases.append((1403, [b2])); cases.append((1404, a2)); cases.append((1401, a2))
            cases.append((1402, [b2 + [rng.randrange(256) for _ in range(rng.choice([1, 3]))]]))
            q = list(b2); q[-1 - rng.randrange(2)] ^= 1 << rng.randrange(8)
            cases.append((1402, [q]))
    yield "crc_trailer_special_values", "exact", cases
    # 10. operation histories on one PDU object: both setters (bytes and bytearray), the same object assigned again after
    #     the caller changed it in place, edits of the header / configuration / byte fields / segment metadata /
    #     parameter object reachable from the PDU, refused assignments, pack in between and twice at the end;
    #     constructor start (explicit, default(), empty() configuration; bytes or bytearray file data) and unpack start
    #     (bytes, or a bytearray the caller overwrites afterwards)
    cases = []
    for _ in range(5000 if big else 800):
        a = _rand_pdu(rng)
        if rng.random() < 0.3:
            a[3] = _special_data(rng, rng.choice(SIZES))
        kind = rng.choice([0, 0, 0, 0, 0, 1, 2])
        if rng.random() < 0.06:
            a[2], a[3], a[4] = [0], [], [0]         # FileDataParams.empty()
        st = fd_state_of(a, kind)
        ops, _ = rand_fd_history(rng, st, rng.randrange(0, 11))
        cases.append((1407, a + [[kind, rng.randrange(2), 1]] + ops))
    for _ in range(3000 if big else 450):
        a = _rand_pdu(rng)
        if rng.random() < 0.4:
            a[3] = _special_data(rng, rng.choice(SIZES))
        if not valid_fd(a):
            continue
        st = fd_state_of(a); st["flags"][3] = a[1][3]
        raw = fd_layout(a[0], a[1], a[2][0], a[3], a[4], keep_direction=True)
        ops, _ = rand_fd_history(rng, st, rng.randrange(0, 8))
        cases.append((1408, [raw + [rng.randrange(256) for _ in range(rng.choice([0, 0, 2, 40]))], [rng.randrange(2)]] + ops))
    yield "histories_setters_subobjects", "exact", cases
    # 11. histories at the 65535-octet data-field limit: a segment that exactly fits, then metadata / more data /
    #     the same data again / a smaller segment (assignments that have to be refused must leave the PDU as it was)
    cases = []
    for i in range(24 if big else 8):
        crc = 1 if i % 8 == 7 else 0
        large = (i // 2) % 2
        ids, flags = _rand_conf(rng, crc=crc, large=large)
        meta = [0] if i % 2 == 0 else [1, rng.randrange(4)] + [rng.randrange(256) for _ in range(rng.choice([0, 1, 63]))]
        room = 65535 - (8 if large else 4) - (2 if crc else 0) - (len(meta) - 1 if meta[0] == 1 else 0)
        n = room - rng.choice([0, 0, 1, 2, 70])
        a = [ids, flags, [_rand_off(rng, large)], _rand_data(rng, n), meta]
        ops = [rng.choice([[22, 3] + [7] * rng.choice([0, 1, 63]), [23] + [9] * rng.choice([1, 2, 3, 80]), [20, 0] + _rand_data(rng, room + rng.choice([1, 2, 300])),
                           [21], [24], [25], [30] if not crc else [24]]) for _ in range(3)]
        ops += [[20, 1] + _rand_data(rng, rng.choice([0, 5]))] if i % 3 == 0 else []
        cases.append((1407, a + [[0, i % 2]] + ops + ([[30]] if not crc or i % 16 == 15 else [[24]])))
    yield "histories_at_the_limit", "exact", cases
    # 12. sizes: every file-data length 0..1100 (thorough 0..4200), +-8 around 4 KiB and 8 KiB, and the largest
    #     segment of each configuration: pack, round trip, decode
    cases = []
    sweep = list(range(0, 4201 if big else 1101)) + [4096 + d for d in range(-8, 9)] + [8192 + d for d in range(-8, 9)]
    if big:
        sweep += list(range(4300, 65000, 251))
    for i, n in enumerate(sweep):
        crc = i % 2 if n <= 1100 or i % 16 == 1 else 0
        ids, flags = _rand_conf(rng, crc=crc)
        meta = _rand_meta(rng) if i % 3 else [0]
        a = [ids, flags, [_rand_off(rng, flags[1])], _special_data(rng, n), meta]
        cases.append((1404, a + [[]]))
        if i % 4 == 0 and valid_fd(a):
            cases.append((1402, [lay(a) + [rng.randrange(256) for _ in range(rng.choice([0, 1, 9]))]]))
    yield "exh_sizes_file_data", "exact", cases
    # 13. several extremes at once: CRC and large-file flag and 63 octets of metadata (or none) and the widest IDs and
    #     the largest segment that fits / one octet more, offset at its maximum
    cases = []
    for crc, large, mlen in ([(1, 1, 63), (0, 1, 63), (0, 0, 0), (1, 0, None)] if not big else itertools.product((0, 1), (0, 1), (63, 0, None))):
        ids, flags = _rand_conf(rng, sl=8, ql=8, crc=crc, large=large)
        ids[0] = ids[2] = ids[4] = 256 ** 8 - 1
        meta = [0] if mlen is None else [1, 3] + [0xFF] * mlen
        room = 65535 - (8 if large else 4) - (2 if crc else 0) - (len(meta) - 1 if meta[0] == 1 else 0)
        off = 256 ** (8 if large else 4) - 1
        cases.append((1404, [ids, flags, [off], [0xFF] * room, meta, []]))
        cases.append((1400, [ids, flags, [off], [0xFF] * (room + 1), meta]))
        if not crc:
            cases.append((1402, [fd_layout(ids, flags, off, [0x80] * room, meta, keep_direction=True)]))
    yield "extremes_combined", "exact", cases
    # 9. garbage: random octets biased to file-data headers with valid widths and consistent lengths
    cases = []
    for _ in range(30000 if big else 4000):
        n = rng.randrange(0, 48)
        d = [rng.randrange(256) for _ in range(n)]
        if d and rng.random() < 0.8:
            d[0] = 0x30 | (d[0] & 0x0F)
        if len(d) > 3 and rng.random() < 0.8:
            d[3] = (d[3] & 0x88) | rng.choice([0, 1, 3, 7]) << 4 | rng.choice([0, 1, 3, 7])
            hl = 4 + 2 * (((d[3] >> 4) & 7) + 1) + (d[3] & 7) + 1
            if rng.random() < 0.8 and len(d) >= hl:
                dl = len(d) - hl - rng.choice([0, 0, 0, 1, 2])
                if dl >= 0:
                    d[1] = dl >> 8; d[2] = dl & 0xFF
                    if d[0] & 2 and dl >= 2 and rng.random() < 0.8:
                        c = h5.crc16_bitwise(d[:hl + dl - 2]); d[hl + dl - 2:hl + dl] = [c >> 8, c & 0xFF]
        cases.append((1402, [d]))
        if rng.random() < 0.3:
            cases.append((1403, [d]))
    yield "garbage", "verdict", cases


# ------------------------------------------------------------------ oracle
VALUE_CODES = (1, 2, 3)
DOC = lambda code: code not in core.UNDOCUMENTED and code != 97


def oracle_spec(case, ires):
    op, a = case
    if op in (1401, 1404) and valid_fd(a):
        return [(1450, a[:5])]
    return []


def h5_fields_of(flat):
    """the four lines of c05._fields from the flat 16-integer header state"""
    return [flat[0:3], flat[3:9], flat[9:14], flat[14:16]]


def _check_decoded(b, ires, what):
    """A decoded PDU must be exactly what the octets b[:packet_len] say: laying the decoded fields out
    again gives those octets (nothing beyond the declared length or of the CRC trailer folded in)."""
    hd, ids, flags, lens, (off,), data, meta = ires[1:8]
    if hd[0] != 1:
        return None     # a file directive header decoded as file data: the caller's responsibility (docstring)
    hl = 4 + 2 * ids[1] + ids[5]
    pl = hl + b[1] * 256 + b[2]
    try:
        exp = fd_layout(ids, flags, off, data, meta, keep_direction=True)   # the decoder keeps the direction bit
    except (OverflowError, ValueError):
        exp = None
    if lens != [hl, pl] or exp != list(b[:pl]):
        return ("C07/FileDataPdu.unpack/%s" % what,
                "octets %s (declared packet length %d) decoded to header_len/packet_len %s, offset %d, file data %s, metadata %s, "
                "which is the encoding of %s" % (list(b[:40]), pl, lens, off, data[:24], meta[:10], None if exp is None else exp[:40]))
    return None


def check_fd_state(st, lines, what):
    """lines: the five view lines of one step (header state, id octets, [offset], file data, metadata)"""
    r = h5.check_hdr_state({"hd": st["hd"], "ids": st["ids"], "flags": st["flags"]}, lines[0], lines[1], what)
    if r:
        sig = r[0].replace("C05/PduHeader.history/setter-effect", "C07/FileDataPdu.history/header-views")
        return (sig, r[1])
    if lines[2] != st["off"] or lines[3] != st["data"] or lines[4] != st["meta"]:
        return ("C07/FileDataPdu.history/setter-effect", "%s: offset %s, %d octets of file data %s.., metadata %s; expected %s, %d octets %s.., %s" % (
            what, lines[2], len(lines[3]), lines[3][:12], lines[4][:10], st["off"], len(st["data"]), st["data"][:12], st["meta"][:10]))
    return None


def check_fd_history(st, steps, ops, caller=None):
    """caller: {"ids": [...], "shared": [bool] * 3} -- the caller's PduConfig, whose byte-field objects the PDU shares
    (copy.copy in the constructor is shallow) until the PDU gets other objects assigned; updated in place"""
    prev_pack = None
    for i, (l, step) in enumerate(zip(ops, steps)):
        status, lines, out = step[0], step[1:6], step[6]
        st2, verdict, st_refused = fd_expect3(st, l)
        if caller is not None and status[0] == 0:
            for k in {4: (0, 1), 5: (2,), 13: (l[1],) if len(l) > 1 else (), 14: (0, 1, 2)}.get(l[0], ()):
                caller["shared"][k] = False
            for k in range(3):
                if caller["shared"][k]:
                    caller["ids"][2 * k:2 * k + 2] = st2["ids"][2 * k:2 * k + 2]
        where = "operation %d %s" % (i, l[:8])
        if status[0] == 1:
            prev_pack = None
            if verdict == "attr" and status[1] == core.E_ATTR:
                pass
            elif status[1] in core.UNDOCUMENTED or status[1] == 99:
                if not (l[0] == 30 and verdict == "any") and not (l[0] == 15 and verdict == "any"):
                    return ("C07/FileDataPdu.history/undocumented-error", "%s raised %s" % (where, core.ERR_NAMES.get(status[1], status[1])))
            elif verdict == "ok":
                return ("C07/FileDataPdu.history/refuses-valid", "%s was refused" % where)
            elif verdict == "any" and l[0] not in (15, 16, 30, 31) and status[1] != core.E_VALUE:
                return ("C07/FileDataPdu.history/out-of-domain-value-error-class", "%s (a value outside the domain) was refused with %s, not with ValueError" % (
                    where, core.ERR_NAMES.get(status[1], status[1])))
            after = st_refused          # (for "refuse" that is st2; for a refused out-of-domain assignment: as before the call)
            r = check_fd_state(after, lines, where + " (refused)")
            if r:
                return ("C11/FileDataPdu.setters/refused-assignment-changed-pdu", r[1])
            st = after
            continue
        if verdict in ("refuse", "attr"):
            return ("C07/FileDataPdu.history/not-refused", "%s was accepted (data field of %d octets, metadata of %d)" % (
                where, fd_required(st2), len(st2["meta"]) - 2))
        st = st2
        r = check_fd_state(st, lines, where)
        if r:
            if l[0] in (20, 21, 22, 23, 24, 25) and r[0] == "C07/FileDataPdu.history/header-views":
                return ("C11/FileDataPdu.setters/length", r[1])
            return r
        if l[0] == 30:
            exp = fd_pack_expect(st)
            if exp is not None and out != exp:
                return ("C11/FileDataPdu.setters/fresh" if st["hd"][2] == fd_required(st) else "C07/FileDataPdu.pack/layout",
                        "%s: packed %d octets %s.., the current values (%d octets of file data, metadata %s, flags %s) encode to %d octets %s.." % (
                            where, len(out), out[:24], len(st["data"]), st["meta"][:6], st["flags"], len(exp), exp[:24]))
            if prev_pack is not None and out != prev_pack:
                return ("C11/FileDataPdu.pack/not-repeatable", "%s: two packs in a row differ" % where)
            prev_pack = out
        else:
            prev_pack = None
        if l[0] == 15 and h5.valid_args(st["ids"], st["flags"], st["hd"]) and out != h5.layout(st["ids"], st["flags"], st["hd"]):
            return ("C05/PduHeader.pack/layout", "%s on pdu_header: %s" % (where, out))
        if l[0] == 31 and verdict == "ok":
            ids = st["ids"]
            ov = 4 + ids[1] + ids[3] + ids[5] + (len(st["meta"]) - 1 if st["meta"][0] == 1 else 0) + (8 if st["flags"][1] == 1 else 4) + (2 if st["flags"][2] == 1 else 0)
            if out != [l[1] - ov]:
                return ("C07/get_max_file_seg_len/value", "%s -> %s, overhead %d" % (where, out, ov))
    return None, st


def _fd_alias(b, ref):
    return h5.alias_probe(FileDataPdu.unpack, _fields, b, ref)


def oracle(case, ires, sres):
    """The property itself, evaluated on the implementation's observable behaviour."""
    op, a = case
    err = ires[0][0] == 1
    code = ires[0][1] if err else None
    if op in (1407, 1408):
        if op == 1407:
            ops = a[6:]
            kind = a[5][0] if a[5] else 0
            st = fd_state_of(a, kind)
            if err:
                if valid_fd(a) and kind == 0:
                    return ("C07/FileDataPdu.__init__/refuses-valid", "valid parameters refused: %s" % ires)
                return None
            if st["hd"][2] > 65535:
                return ("C07/FileDataPdu.__init__/not-refused", "a data field of %d octets was accepted" % st["hd"][2])
            r = check_fd_state(st, ires[1:6], "after construction")
            if r:
                return r
            conf0 = [list(st["ids"]), [a[1][0], a[1][1], a[1][2], a[1][3], a[1][4]] if kind == 0 else [0] * 5]
            if ires[6:8] != conf0:
                return ("C11/FileDataPdu.__init__/caller-conf-modified", "caller's PduConfig %s after construction: %s" % (conf0, ires[6:8]))
            caller = {"ids": list(st["ids"]), "shared": [True] * 3}
            body, tail, cend = ires[8:-5], ires[-5:-2], (ires[-2:], conf0[1])
        else:
            ops = a[2:]
            if err:
                return None         # decoding itself: ops 1402 / 1404
            if ires[1] != [1]:
                return ("C07/FileDataPdu.unpack/aliases-input-buffer", "the PDU decoded from a bytearray changed when the caller overwrote that buffer")
            r = _check_decoded(a[0], [[0]] + h5_fields_of(ires[2]) + ires[4:7], "fold-in")
            if r:
                return r
            flat = ires[2]
            st = {"hd": flat[0:3], "ids": flat[3:9], "flags": flat[9:14], "off": ires[4], "data": ires[5], "meta": ires[6]}
            caller = {"ids": list(st["ids"]), "shared": [True] * 3}
            if ires[-5:] != ires[2:7]:
                return ("C07/FileDataPdu.unpack/second-decode-differs", "the same octets decoded again after the first PDU was edited give %s, the first time %s" % (
                    [x[:16] for x in ires[-5:]], [x[:16] for x in ires[2:7]]))
            ires = ires[:-5]
            body, tail, cend = ires[7:-5], ires[-5:-2], (ires[-2:], list(st["flags"]))
        if len(body) != 7 * len(ops):
            return ("C07/FileDataPdu.history/shape", "result has %d lines for %d operations" % (len(body), len(ops)))
        r = check_fd_history(st, [body[7 * i:7 * i + 7] for i in range(len(ops))], ops, caller)
        if r[0] is not None:
            return r
        st = r[1]
        if cend[0] != [caller["ids"], cend[1]]:
            return ("C11/FileDataPdu/caller-conf-modified", "the caller's PduConfig ends as %s; its flags were %s and the byte-field objects it still "
                    "shares with the PDU hold %s" % (cend[0], cend[1], caller["ids"]))
        if tail != [st["off"], st["data"], st["meta"]]:
            return ("C07/FileDataPdu.history/params-object", "the parameter object ends as %s, the PDU's views say %s" % (
                [x[:12] for x in tail], [st["off"], st["data"][:12], st["meta"][:12]]))
        return None
    if op == 1401:
        ids, flags, (off,), data, meta = a[:5]
        if not h5.valid_args(ids, flags, [1, 0, 0]):
            return None
        if meta and meta[0] == 1 and len(meta) - 2 > 63:
            if not err or code not in VALUE_CODES:
                return ("C07/FileDataPdu.pack/metadata-gt-63", "segment metadata of %d octets not refused with ValueError: %s" % (len(meta) - 2, ires[:1]))
            return None
        if not 0 <= off < 256 ** (8 if flags[1] else 4):
            if not err:
                return ("C07/FileDataPdu.pack/offset-range", "offset %d packed: %s" % (off, ires[1][:32]))
            return None
        if not valid_fd(a):
            return None
        exp = fd_layout(ids, flags, off, data, meta)
        if err or ires[1] != exp or not sres or sres[0][1] != exp:
            return ("C07/FileDataPdu.pack/layout", "pack%s = %s, standard says %s" % ([x[:20] for x in a[:5]], ires[1][:48] if not err else ires, exp[:48]))
        return None
    if op == 1400:
        ids, flags, (off,), data, meta = a[:5]
        if not valid_fd(a):
            return None
        if err:
            return ("C07/FileDataPdu.__init__/refuses-valid", "valid parameters refused: %s" % ires)
        hl = 4 + 2 * ids[1] + ids[5]
        exp = fd_layout(ids, flags, off, data, meta)
        if ires[4] != [hl, len(exp)] or ires[1][2] != len(exp) - hl:
            return ("C07/FileDataPdu/data-field-len", "header_len/packet_len %s, data field length %d; packed length would be %d" % (ires[4], ires[1][2], len(exp)))
        if ires[8:10] != [ids, flags]:
            return ("C11/FileDataPdu.__init__/caller-conf-modified", "caller's PduConfig %s -> %s" % ([ids, flags], ires[8:10]))
        return None
    if op == 1404:
        ids, flags, (off,), data, meta = a[:5]
        sfx = a[5] if len(a) > 5 else []
        if not valid_fd(a):
            return None
        exp = fd_layout(ids, flags, off, data, meta)
        if err:
            if sfx and DOC(code):
                return None         # C09: a PDU followed by further octets may be refused with a documented error
            return ("C07/FileDataPdu.unpack/roundtrip-refused", "own output%s refused (%s): %s" % (" + suffix" if sfx else "", core.ERR_NAMES.get(code), exp[:48]))
        eq, hd, idsr, flagsr, lens, offr, datar, metar, repack = ires[1], ires[2], ires[3], ires[4], ires[5], ires[6], ires[7], ires[8], ires[9]
        hl = 4 + 2 * ids[1] + ids[5]
        meta_n = meta if meta and meta[0] == 1 else [0]
        tag = "-suffix" if sfx else ""
        if datar != list(data):
            return ("C07/FileDataPdu.unpack/file-data" + tag, "file data %s decoded as %s (crc=%d, %d suffix octets)" % (list(data)[:24], datar[:32], flags[2], len(sfx)))
        if offr != [off] or metar != meta_n:
            return ("C07/FileDataPdu.unpack/offset-metadata" + tag, "offset %d metadata %s decoded as %s %s" % (off, meta_n[:10], offr, metar[:10]))
        if lens != [hl, len(exp)] or hd != [1, 1 if meta_n[0] else 0, len(exp) - hl]:
            return ("C07/FileDataPdu.unpack/length" + tag, "decoded header %s lens %s, packed PDU has %d octets (header %d)" % (hd, lens, len(exp), hl))
        if idsr != ids or flagsr != [flags[0], flags[1], flags[2], 0, flags[4]]:
            return ("C07/FileDataPdu.unpack/header-fields" + tag, "%s %s decoded as %s %s" % (ids, flags, idsr, flagsr))
        if eq != [1]:
            return ("C07/FileDataPdu.__eq__/roundtrip" + tag, "decoded PDU not equal to the original")
        if repack != [0] + exp:
            return ("C07/FileDataPdu.pack/repack" + tag, "re-packed %s, original %s" % (repack[:48], exp[:48]))
        if sres and sres[0][1] != exp:
            return ("C07/FileDataPdu.pack/layout", "Coq spec layout differs from the packed octets")
        m = _fd_alias(exp + list(sfx), ires[2:9])
        if m:
            return ("C07/FileDataPdu.unpack/aliases-input-buffer", m)
        return None
    if op == 1402:
        b = a[0]
        if err:
            if not DOC(code):
                return ("C10/FileDataPdu.unpack/undocumented-error", "unpack(%s) escaped with %s" % (b[:40], core.ERR_NAMES.get(code, code)))
            return None
        r = _check_decoded(b, ires, "fold-in")
        if r is None:
            m = _fd_alias(b, ires[1:8])
            if m:
                return ("C07/FileDataPdu.unpack/aliases-input-buffer", m)
        return r
    if op == 1403:
        b = a[0]
        if err:
            return None
        hl = h5._declared(b)
        pl = hl + b[1] * 256 + b[2]
        if b[0] & 0x10 and ires[1] != list(b[:pl]):
            return ("C07/FileDataPdu.unpack-pack/repack", "unpack(%s).pack() = %s" % (b[:40], ires[1][:40]))
        return None
    if op == 1405:
        ids, flags, (mx,), meta = a
        if not (h5.ubf_ok(ids[0], ids[1]) and h5.ubf_ok(ids[2], ids[3]) and h5.ubf_ok(ids[4], ids[5])):
            return None
        if err and code in VALUE_CODES and not (h5.valid_args(ids, flags, [1, 0, 0]) and meta_in_domain(meta if meta and meta[0] == 1 else [0])):
            return None     # IDs of different widths / of width 0, a flag outside its enum, metadata no PDU can carry: PduConfig /
            #                 SegmentMetadata may refuse to be built (the unchanged ones are plain records)
        ov = 4 + ids[1] + ids[3] + ids[5] + (len(meta) - 1 if meta and meta[0] == 1 else 0) + (8 if flags[1] else 4) + (2 if flags[2] else 0)
        if mx < ov:
            if not err or code not in VALUE_CODES:
                return ("C07/get_max_file_seg_len/too-small", "max packet length %d < overhead %d accepted: %s" % (mx, ov, ires))
        elif err or ires[1] != [mx - ov]:
            return ("C07/get_max_file_seg_len/value", "max %d overhead %d -> %s" % (mx, ov, ires))
        return None
    if op == 1406:
        if err or not valid_fd(a):
            return None
        ids, flags, (off,) = a[0], a[1], a[2]
        hd, idsr, flagsr, lens, offr, datar, metar, plen, p1, p2 = ires[1:11]
        if p1 != p2:
            return ("C11/FileDataPdu.pack/not-repeatable", "two packs differ")
        final = [ids, flags, [off], datar, metar]
        if p1[0] == 0:
            if plen != [len(p1) - 1] or lens[1] != len(p1) - 1:
                return ("C11/FileDataPdu.setters/length", "packet_len %s after %s, %d octets packed" % (plen, [o[:6] for o in a[5:]], len(p1) - 1))
            if valid_fd(final) and p1[1:] != fd_layout(ids, flags, off, datar, metar):
                return ("C11/FileDataPdu.setters/fresh", "octets after setters differ from a fresh PDU with the same values")
        return None
    return None


def neighbours(case):
    op, a = case
    out = []
    if op in (1402, 1403):
        for n in range(min(len(a[0]), 40)):
            out.append((op, [a[0][:n]]))
        for i in range(min(4, len(a[0]))):
            for bit in range(8):
                l = list(a[0]); l[i] ^= 1 << bit; out.append((op, [l]))
    if op in (1401, 1404, 1400):
        for crc in (0, 1):
            b = [list(x) for x in a]; b[1][2] = crc; out.append((op, b))
        b = [list(x) for x in a]; b[3] = []; out.append((op, b))
        b = [list(x) for x in a]; b[4] = [1, 1, 7, 7]; out.append((1404, b[:5] + [[]]))
    return out


# ---- registry for the cross-cutting checks C09 / C10
def _valid_pdus(rng):
    out = []
    while len(out) < 40:
        a = _rand_pdu(rng)
        if valid_fd(a):
            out.append(lay(a))
    return out


def _declared(b):
    return h5._declared(b) + b[1] * 256 + b[2]


DECODERS = [
    {"op": 1402, "name": "FileDataPdu.unpack", "extra": [], "valid": _valid_pdus, "declared_len": _declared},
]
