"""C07 — CFDP File Data PDU.  Streams, implementation adapter, oracle."""
import itertools
from harness import core
from harness.props import c05 as h5
from spacepackets.cfdp.pdu.file_data import (FileDataPdu, FileDataParams, SegmentMetadata, RecordContinuationState,
                                             get_max_file_seg_len_for_max_packet_len_and_pdu_cfg)

ID = "C07"
_M = "SP.Model.FileData."
_H = "SP.Model.PduHeader."
ENUMS = [
    ("spacepackets.cfdp.pdu.file_data:RecordContinuationState.NO_START_NO_END", _M + "RCS_NO_START_NO_END"),
    ("spacepackets.cfdp.pdu.file_data:RecordContinuationState.START_WITHOUT_END", _M + "RCS_START_WITHOUT_END"),
    ("spacepackets.cfdp.pdu.file_data:RecordContinuationState.END_WITHOUT_START", _M + "RCS_END_WITHOUT_START"),
    ("spacepackets.cfdp.pdu.file_data:RecordContinuationState.START_AND_END", _M + "RCS_START_AND_END"),
    ("spacepackets.cfdp.pdu.file_data:PduType.FILE_DATA", _H + "PDU_FILE_DATA"),
    ("spacepackets.cfdp.pdu.file_data:Direction.TOWARDS_RECEIVER", _H + "DIR_TOWARDS_RECEIVER"),
    ("spacepackets.cfdp.pdu.file_data:SegmentMetadataFlag.NOT_PRESENT", _H + "SEGMETA_NOT_PRESENT"),
    ("spacepackets.cfdp.pdu.file_data:SegmentMetadataFlag.PRESENT", _H + "SEGMETA_PRESENT"),
    ("spacepackets.cfdp.pdu.file_data:CrcFlag.WITH_CRC", _H + "CRC_WITH_CRC"),
    ("spacepackets.cfdp.pdu.file_data:LargeFileFlag.LARGE", _H + "FILE_LARGE"),
] + [e for e in h5.ENUMS if "CFDP_VERSION_2" in e[0] or "FIXED_LENGTH" in e[0]]
ASSUMPTIONS = h5.ASSUMPTIONS + [
    "crcmod's crc-ccitt-false equals the bitwise CRC-16 of Base/Crc16.v (tied exhaustively in family 17 / C04); "
    "here every packed CRC trailer is additionally recomputed bitwise by the oracle",
    "copy.copy(pdu_conf) is shallow and nothing else aliases the caller's PduConfig (its fields are compared after construction)",
]
TRUSTED = ["crcmod 1.7 (C extension) as CRC-16/CCITT-FALSE"]
EXPLORED_ONLY = []
ORACLE_LIMIT = {"quick": 20000, "thorough": 60000}

WIDTHS = (1, 2, 4, 8)


def _meta(l):
    if l and l[0] == 1:
        st = l[1]
        return SegmentMetadata(RecordContinuationState(st) if st in (0, 1, 2, 3) else st, bytes(l[2:]))
    return None


def _meta_enc(m):
    if m is None:
        return [0]
    return [1, int(m.record_cont_state)] + list(m.metadata)


def _pdu(a):
    conf = h5._conf(a[0], a[1])
    params = FileDataParams(file_data=bytes(a[3]), offset=a[2][0], segment_metadata=_meta(a[4]))
    return FileDataPdu(conf, params), conf, params


def _fields(p):
    return h5._fields(p.pdu_header) + [[p.offset], list(p.file_data), _meta_enc(p.segment_metadata)]


def _pack_res(p):
    try:
        return [0] + list(p.pack())
    except Exception as e:  # noqa
        return [1, core.classify_exception(e)]


def _conf_lists(c):
    return [[c.source_entity_id.value, c.source_entity_id.byte_len, c.dest_entity_id.value, c.dest_entity_id.byte_len,
             c.transaction_seq_num.value, c.transaction_seq_num.byte_len],
            [int(c.trans_mode), int(c.file_flag), int(c.crc_flag), int(c.direction), int(c.seg_ctrl)]]


def impl(op, a):
    if op == 1400:
        p, conf, _ = _pdu(a)
        return _fields(p) + _conf_lists(conf)
    if op == 1401:
        return [list(_pdu(a)[0].pack())]
    if op == 1402:
        return _fields(FileDataPdu.unpack(bytes(a[0])))
    if op == 1403:
        return [list(FileDataPdu.unpack(bytes(a[0])).pack())]
    if op == 1404:
        p, _, _ = _pdu(a)
        b = p.pack()
        p2 = FileDataPdu.unpack(bytes(b) + bytes(a[5] if len(a) > 5 else []))
        return [[int(p2 == p)]] + _fields(p2) + [_pack_res(p2)]
    if op == 1405:
        conf = h5._conf(a[0], a[1])
        return [[get_max_file_seg_len_for_max_packet_len_and_pdu_cfg(conf, a[2][0], _meta(a[3]))]]
    if op == 1406:
        p, _, _ = _pdu(a)
        for o in a[5:]:
            if o and o[0] == 0:
                p.file_data = bytes(o[1:])
            elif o and o[0] == 1:
                p.segment_metadata = None
            elif len(o) >= 2 and o[0] == 2:
                p.segment_metadata = _meta([1] + list(o[1:]))
        return _fields(p) + [[p.packet_len], _pack_res(p), _pack_res(p)]
    raise RuntimeError("bad op")


# ------------------------------------------------------------------ independent transcription
def fd_layout(ids, flags, off, data, meta, keep_direction=False):
    """CCSDS 727.0-B-5 table 5-14, arithmetic only (the Coq Spec.fd_layout is evaluated too, op 1450)."""
    mode, large, crc, direction, seg = flags
    body = []
    if meta and meta[0] == 1:
        md = list(meta[2:])
        body += [meta[1] * 64 + len(md)] + md
    body += list(off.to_bytes(8 if large else 4, "big")) + list(data)
    dlen = len(body) + (2 if crc else 0)
    pre = h5.layout(ids, [mode, large, crc, direction if keep_direction else 0, seg], [1, 1 if meta and meta[0] == 1 else 0, dlen]) + body
    if crc:
        c = h5.crc16_bitwise(pre)
        pre = pre + [c >> 8, c & 0xFF]
    return pre


def lay(a):
    return fd_layout(a[0], a[1], a[2][0], a[3], a[4])


def overhead(ids, flags, meta):
    return 4 + 2 * ids[1] + ids[5] + (1 + len(meta) - 2 if meta and meta[0] == 1 else 0) + (8 if flags[1] else 4) + (2 if flags[2] else 0)


def valid_fd(a):
    ids, flags, (off,), data, meta = a[:5]
    if not h5.valid_args(ids, flags, [1, 0, 0]):
        return False
    if not 0 <= off < 256 ** (8 if flags[1] else 4):
        return False
    if meta and meta[0] == 1 and not (0 <= meta[1] < 4 and len(meta) - 2 <= 63):
        return False
    return overhead(ids, flags, meta) - (4 + 2 * ids[1] + ids[5]) + len(data) <= 65535


DLENS = [0, 1, 2, 3, 63, 64, 255, 256]


def _rand_conf(rng, sl=None, ql=None, crc=None, large=None):
    sl = sl or rng.choice(WIDTHS); ql = ql or rng.choice(WIDTHS)
    ids = [rng.randrange(256 ** sl), sl, rng.randrange(256 ** sl), sl, rng.randrange(256 ** ql), ql]
    flags = [rng.randrange(2) for _ in range(5)]
    if crc is not None: flags[2] = crc
    if large is not None: flags[1] = large
    return ids, flags


def _rand_meta(rng, n=None):
    if n is None:
        if rng.random() < 0.5:
            return [0]
        n = rng.choice([0, 1, 2, 5, 62, 63])
    return [1, rng.randrange(4)] + [rng.randrange(256) for _ in range(n)]


def _rand_off(rng, large):
    w = 8 if large else 4
    return rng.choice([0, 1, 255, 256, 2 ** (8 * w - 1), 256 ** w - 1, rng.randrange(256 ** w)])


def _rand_data(rng, n=None):
    if n is None:
        n = rng.choice(DLENS[:6] + [rng.randrange(0, 40)])
    return [rng.randrange(256) for _ in range(n)]


def _rand_pdu(rng, **kw):
    ids, flags = _rand_conf(rng, **kw)
    return [ids, flags, [_rand_off(rng, flags[1])], _rand_data(rng), _rand_meta(rng)]


def streams(tier, rng):
    big = tier == "thorough"
    # 1. every header configuration (CRC x large x 16 width pairs x segctrl x mode x direction) x metadata yes/no
    cases = []
    for crc, large, seg, mode, direction in itertools.product((0, 1), repeat=5):
        for sl, ql in itertools.product(WIDTHS, WIDTHS):
            for has_meta in (0, 1):
                ids = [rng.choice(h5.bnd(sl)), sl, rng.choice(h5.bnd(sl)), sl, rng.choice(h5.bnd(ql)), ql]
                flags = [mode, large, crc, direction, seg]
                a = [ids, flags, [_rand_off(rng, large)], _rand_data(rng, rng.choice([0, 1, 7])),
                     _rand_meta(rng, rng.choice([0, 1, 3])) if has_meta else [0]]
                cases.append((1401, a)); cases.append((1404, a + [[]]))
                if big or rng.random() < 0.25:
                    cases.append((1400, a))
    yield "exh_configs_pack_roundtrip", "exact", cases
    # 2. every metadata length 0..64 (+ larger) x 4 continuation states, CRC on/off, empty and non-empty data
    cases = []
    for n in list(range(0, 66)) + [100, 255, 300]:
        for st in range(4):
            for crc in (0, 1):
                ids, flags = _rand_conf(rng, crc=crc)
                meta = [1, st] + [rng.randrange(256) for _ in range(n)]
                a = [ids, flags, [_rand_off(rng, flags[1])], _rand_data(rng, rng.choice([0, 0, 1, 9])), meta]
                cases.append((1401, a)); cases.append((1404, a + [[]])); cases.append((1400, a))
    for st in (-1, 4, 5, 255, 256):     # state outside the enum: not validated by the constructor
        ids, flags = _rand_conf(rng)
        cases.append((1401, [ids, flags, [0], [1, 2], [1, st, 9, 9]]))
    yield "exh_metadata_lengths", "exact", cases
    # 3. data lengths around boundaries incl. the 65535 data-field limit (CRC cases kept few: bitwise CRC in the model)
    cases = []
    for n in DLENS + [1000]:
        for crc, large in itertools.product((0, 1), (0, 1)):
            for meta in ([0], [1, 2, 7, 7, 7]):
                ids, flags = _rand_conf(rng, crc=crc, large=large)
                a = [ids, flags, [_rand_off(rng, large)], _rand_data(rng, n), meta]
                cases.append((1401, a)); cases.append((1404, a + [[]]))
    for crc, large, meta in [(0, 0, [0]), (0, 1, [1, 3] + [5] * 63), (1, 0, [0])] + ([(1, 1, [1, 0, 1])] if big else []):
        ids, flags = _rand_conf(rng, crc=crc, large=large)
        lim = 65535 - (overhead(ids, flags, meta) - (4 + 2 * ids[1] + ids[5]))
        for n in (lim - 1, lim, lim + 1):
            a = [ids, flags, [_rand_off(rng, large)], _rand_data(rng, n), meta]
            cases.append((1400, a))
            if n <= lim and (crc == 0 or n == lim):
                cases.append((1404, a + [[]]))
    yield "data_lengths_limits", "exact", cases
    # 4. offsets: boundaries of the 32/64-bit range and beyond
    cases = []
    for large in (0, 1):
        for off in [0, 1, 2 ** 31 - 1, 2 ** 31, 2 ** 32 - 1, 2 ** 32, 2 ** 32 + 1, 2 ** 63, 2 ** 64 - 1, 2 ** 64, 2 ** 65, -1, -2 ** 31]:
            for crc in (0, 1):
                ids, flags = _rand_conf(rng, crc=crc, large=large)
                a = [ids, flags, [off], _rand_data(rng), _rand_meta(rng)]
                cases.append((1401, a)); cases.append((1404, a + [[]])); cases.append((1400, a))
    yield "offset_boundaries", "exact", cases
    # 5. random PDUs: pack, round trip, round trip with suffix (look-alike continuations), decode of pack ++ suffix
    cases = []
    for _ in range(20000 if big else 2500):
        a = _rand_pdu(rng)
        cases.append((1401, a)); cases.append((1404, a + [[]]))
        sfx = rng.choice([[rng.randrange(256) for _ in range(rng.randrange(1, 18))],
                          lay(_rand_pdu(rng)) if rng.random() < 0.5 else [0x20, 0, 0, 0x11],
                          [rng.randrange(256)]])
        cases.append((1404, a + [sfx]))
        if valid_fd(a):
            cases.append((1402, [lay(a) + sfx])); cases.append((1403, [lay(a)]))
    yield "random_roundtrip_suffix", "exact", cases
    # 6. targeted malformed: every truncation; substitutions in header / length / metadata-length octets
    cases = []
    for _ in range(300 if big else 60):
        a = _rand_pdu(rng)
        a[3] = a[3][:12]
        if not valid_fd(a):
            continue
        p = lay(a)
        hl = 4 + 2 * a[0][1] + a[0][5]
        for n in range(len(p) + 1):
            cases.append((1402, [p[:n]]))
        for i in list(range(4)) + [hl, hl + 1]:
            if i >= len(p):
                continue
            for v in {0, 1, 0x3F, 0x40, 0x7F, 0x80, 0xFF, (p[i] + 1) % 256, (p[i] - 1) % 256, p[i] ^ 0x08, p[i] ^ 0x02, p[i] ^ 0x01, p[i] ^ 0x10}:
                q = list(p); q[i] = v
                cases.append((1402, [q])); cases.append((1402, [q + [rng.randrange(256) for _ in range(3)]]))
        for dl in (0, 1, 2, 3, 4, 5, 8, 9, len(p) - hl - 1, len(p) - hl + 1, 65535):   # length field set to ...
            if dl < 0:
                continue
            q = list(p); q[1] = dl >> 8; q[2] = dl & 0xFF
            cases.append((1402, [q]))
            if q[0] & 2 and hl + dl <= len(q) and hl + dl >= 2:    # ... with a CRC that is right for the shortened packet
                c = h5.crc16_bitwise(q[:hl + dl - 2]); q2 = list(q); q2[hl + dl - 2:hl + dl] = [c >> 8, c & 0xFF]
                cases.append((1402, [q2]))
    # minimal packets: header + data field of 0..9 octets for each (crc, large, meta) combination, correct CRC
    for crc, large, meta, dl in itertools.product((0, 1), (0, 1), (0, 1), range(0, 13)):
        ids, flags = _rand_conf(rng, crc=crc, large=large)
        hdr = h5.layout(ids, [flags[0], large, crc, 0, flags[4]], [1, meta, dl])
        body = [rng.choice([0, 1, 2, 3, 0x41, 0x7F, rng.randrange(256)]) for _ in range(dl)]
        q = hdr + body
        if crc and dl >= 2:
            c = h5.crc16_bitwise(q[:-2]); q[-2:] = [c >> 8, c & 0xFF]
        cases.append((1402, [q])); cases.append((1403, [q]))
    yield "targeted_malformed", "exact", cases
    # 7. get_max_file_seg_len_for_max_packet_len_and_pdu_cfg, and a segment of exactly that size
    cases = []
    for _ in range(3000 if big else 600):
        ids, flags = _rand_conf(rng)
        meta = _rand_meta(rng)
        ov = overhead(ids, flags, meta)
        mx = rng.choice([ov - 1, ov, ov + 1, ov + 17, 0, -1, 512, 1024, 4096])
        cases.append((1405, [ids, flags, [mx], meta]))
        if ov <= mx <= 1100:
            a = [ids, flags, [_rand_off(rng, flags[1])], _rand_data(rng, mx - ov), meta]
            cases.append((1401, a))
    for sl, dl, ql in itertools.product((0, 1, 2, 4, 8), repeat=3):   # PduConfig.header_len adds the three widths
        ids = [0, sl, 0, dl, 0, ql]
        cases.append((1405, [ids, [0, rng.randrange(2), rng.randrange(2), 0, 0], [100], _rand_meta(rng)]))
    yield "max_file_seg_len", "exact", cases
    # 8. histories of setter calls
    cases = []
    for _ in range(4000 if big else 700):
        a = _rand_pdu(rng)
        ops = []
        for _ in range(rng.randrange(0, 5)):
            k = rng.randrange(3)
            if k == 0:
                ops.append([0] + _rand_data(rng))
            elif k == 1:
                ops.append([1])
            else:
                ops.append([2] + _rand_meta(rng, rng.choice([0, 1, 4, 63, 64]))[1:])
        cases.append((1406, a + ops))
    yield "setter_histories", "exact", cases
    # 9. garbage: random octets biased to file-data headers with valid widths and consistent lengths
    cases = []
    for _ in range(30000 if big else 4000):
        n = rng.randrange(0, 48)
        d = [rng.randrange(256) for _ in range(n)]
        if d and rng.random() < 0.8:
            d[0] = 0x30 | (d[0] & 0x0F)
        if len(d) > 3 and rng.random() < 0.8:
            d[3] = (d[3] & 0x88) | rng.choice([0, 1, 3, 7]) << 4 | rng.choice([0, 1, 3, 7])
            hl = 4 + 2 * (((d[3] >> 4) & 7) + 1) + (d[3] & 7) + 1
            if rng.random() < 0.8 and len(d) >= hl:
                dl = len(d) - hl - rng.choice([0, 0, 0, 1, 2])
                if dl >= 0:
                    d[1] = dl >> 8; d[2] = dl & 0xFF
                    if d[0] & 2 and dl >= 2 and rng.random() < 0.8:
                        c = h5.crc16_bitwise(d[:hl + dl - 2]); d[hl + dl - 2:hl + dl] = [c >> 8, c & 0xFF]
        cases.append((1402, [d]))
        if rng.random() < 0.3:
            cases.append((1403, [d]))
    yield "garbage", "verdict", cases


# ------------------------------------------------------------------ oracle
VALUE_CODES = (1, 2, 3)
DOC = lambda code: code not in core.UNDOCUMENTED and code != 97


def oracle_spec(case, ires):
    op, a = case
    if op in (1401, 1404) and valid_fd(a):
        return [(1450, a[:5])]
    return []


def _check_decoded(b, ires, what):
    """A decoded PDU must be exactly what the octets b[:packet_len] say: laying the decoded fields out
    again gives those octets (nothing beyond the declared length or of the CRC trailer folded in)."""
    hd, ids, flags, lens, (off,), data, meta = ires[1:8]
    if hd[0] != 1:
        return None     # a file directive header decoded as file data: the caller's responsibility (docstring)
    hl = 4 + 2 * ids[1] + ids[5]
    pl = hl + b[1] * 256 + b[2]
    try:
        exp = fd_layout(ids, flags, off, data, meta, keep_direction=True)   # the decoder keeps the direction bit
    except (OverflowError, ValueError):
        exp = None
    if lens != [hl, pl] or exp != list(b[:pl]):
        return ("C07/FileDataPdu.unpack/%s" % what,
                "octets %s (declared packet length %d) decoded to header_len/packet_len %s, offset %d, file data %s, metadata %s, "
                "which is the encoding of %s" % (list(b[:40]), pl, lens, off, data[:24], meta[:10], None if exp is None else exp[:40]))
    return None


def oracle(case, ires, sres):
    """The property itself, evaluated on the implementation's observable behaviour."""
    op, a = case
    err = ires[0][0] == 1
    code = ires[0][1] if err else None
    if op == 1401:
        ids, flags, (off,), data, meta = a[:5]
        if not h5.valid_args(ids, flags, [1, 0, 0]):
            return None
        if meta and meta[0] == 1 and len(meta) - 2 > 63:
            if not err or code not in VALUE_CODES:
                return ("C07/FileDataPdu.pack/metadata-gt-63", "segment metadata of %d octets not refused with ValueError: %s" % (len(meta) - 2, ires[:1]))
            return None
        if not 0 <= off < 256 ** (8 if flags[1] else 4):
            if not err:
                return ("C07/FileDataPdu.pack/offset-range", "offset %d packed: %s" % (off, ires[1][:32]))
            return None
        if not valid_fd(a):
            return None
        exp = fd_layout(ids, flags, off, data, meta)
        if err or ires[1] != exp or not sres or sres[0][1] != exp:
            return ("C07/FileDataPdu.pack/layout", "pack%s = %s, standard says %s" % ([x[:20] for x in a[:5]], ires[1][:48] if not err else ires, exp[:48]))
        return None
    if op == 1400:
        ids, flags, (off,), data, meta = a[:5]
        if not valid_fd(a):
            return None
        if err:
            return ("C07/FileDataPdu.__init__/refuses-valid", "valid parameters refused: %s" % ires)
        hl = 4 + 2 * ids[1] + ids[5]
        exp = fd_layout(ids, flags, off, data, meta)
        if ires[4] != [hl, len(exp)] or ires[1][2] != len(exp) - hl:
            return ("C07/FileDataPdu/data-field-len", "header_len/packet_len %s, data field length %d; packed length would be %d" % (ires[4], ires[1][2], len(exp)))
        if ires[8:10] != [ids, flags]:
            return ("C11/FileDataPdu.__init__/caller-conf-modified", "caller's PduConfig %s -> %s" % ([ids, flags], ires[8:10]))
        return None
    if op == 1404:
        ids, flags, (off,), data, meta = a[:5]
        sfx = a[5] if len(a) > 5 else []
        if not valid_fd(a):
            return None
        exp = fd_layout(ids, flags, off, data, meta)
        if err:
            if sfx and DOC(code):
                return None         # C09: a PDU followed by further octets may be refused with a documented error
            return ("C07/FileDataPdu.unpack/roundtrip-refused", "own output%s refused (%s): %s" % (" + suffix" if sfx else "", core.ERR_NAMES.get(code), exp[:48]))
        eq, hd, idsr, flagsr, lens, offr, datar, metar, repack = ires[1], ires[2], ires[3], ires[4], ires[5], ires[6], ires[7], ires[8], ires[9]
        hl = 4 + 2 * ids[1] + ids[5]
        meta_n = meta if meta and meta[0] == 1 else [0]
        tag = "-suffix" if sfx else ""
        if datar != list(data):
            return ("C07/FileDataPdu.unpack/file-data" + tag, "file data %s decoded as %s (crc=%d, %d suffix octets)" % (list(data)[:24], datar[:32], flags[2], len(sfx)))
        if offr != [off] or metar != meta_n:
            return ("C07/FileDataPdu.unpack/offset-metadata" + tag, "offset %d metadata %s decoded as %s %s" % (off, meta_n[:10], offr, metar[:10]))
        if lens != [hl, len(exp)] or hd != [1, 1 if meta_n[0] else 0, len(exp) - hl]:
            return ("C07/FileDataPdu.unpack/length" + tag, "decoded header %s lens %s, packed PDU has %d octets (header %d)" % (hd, lens, len(exp), hl))
        if idsr != ids or flagsr != [flags[0], flags[1], flags[2], 0, flags[4]]:
            return ("C07/FileDataPdu.unpack/header-fields" + tag, "%s %s decoded as %s %s" % (ids, flags, idsr, flagsr))
        if eq != [1]:
            return ("C07/FileDataPdu.__eq__/roundtrip" + tag, "decoded PDU not equal to the original")
        if repack != [0] + exp:
            return ("C07/FileDataPdu.pack/repack" + tag, "re-packed %s, original %s" % (repack[:48], exp[:48]))
        if sres and sres[0][1] != exp:
            return ("C07/FileDataPdu.pack/layout", "Coq spec layout differs from the packed octets")
        return None
    if op == 1402:
        b = a[0]
        if err:
            if not DOC(code):
                return ("C10/FileDataPdu.unpack/undocumented-error", "unpack(%s) escaped with %s" % (b[:40], core.ERR_NAMES.get(code, code)))
            return None
        return _check_decoded(b, ires, "fold-in")
    if op == 1403:
        b = a[0]
        if err:
            return None
        hl = h5._declared(b)
        pl = hl + b[1] * 256 + b[2]
        if b[0] & 0x10 and ires[1] != list(b[:pl]):
            return ("C07/FileDataPdu.unpack-pack/repack", "unpack(%s).pack() = %s" % (b[:40], ires[1][:40]))
        return None
    if op == 1405:
        ids, flags, (mx,), meta = a
        if not (h5.ubf_ok(ids[0], ids[1]) and h5.ubf_ok(ids[2], ids[3]) and h5.ubf_ok(ids[4], ids[5])):
            return None
        ov = 4 + ids[1] + ids[3] + ids[5] + (len(meta) - 1 if meta and meta[0] == 1 else 0) + (8 if flags[1] else 4) + (2 if flags[2] else 0)
        if mx < ov:
            if not err or code not in VALUE_CODES:
                return ("C07/get_max_file_seg_len/too-small", "max packet length %d < overhead %d accepted: %s" % (mx, ov, ires))
        elif err or ires[1] != [mx - ov]:
            return ("C07/get_max_file_seg_len/value", "max %d overhead %d -> %s" % (mx, ov, ires))
        return None
    if op == 1406:
        if err or not valid_fd(a):
            return None
        ids, flags, (off,) = a[0], a[1], a[2]
        hd, idsr, flagsr, lens, offr, datar, metar, plen, p1, p2 = ires[1:11]
        if p1 != p2:
            return ("C11/FileDataPdu.pack/not-repeatable", "two packs differ")
        final = [ids, flags, [off], datar, metar]
        if p1[0] == 0:
            if plen != [len(p1) - 1] or lens[1] != len(p1) - 1:
                return ("C11/FileDataPdu.setters/length", "packet_len %s after %s, %d octets packed" % (plen, [o[:6] for o in a[5:]], len(p1) - 1))
            if valid_fd(final) and p1[1:] != fd_layout(ids, flags, off, datar, metar):
                return ("C11/FileDataPdu.setters/fresh", "octets after setters differ from a fresh PDU with the same values")
        return None
    return None


def neighbours(case):
    op, a = case
    out = []
    if op in (1402, 1403):
        for n in range(min(len(a[0]), 40)):
            out.append((op, [a[0][:n]]))
        for i in range(min(4, len(a[0]))):
            for bit in range(8):
                l = list(a[0]); l[i] ^= 1 << bit; out.append((op, [l]))
    if op in (1401, 1404, 1400):
        for crc in (0, 1):
            b = [list(x) for x in a]; b[1][2] = crc; out.append((op, b))
        b = [list(x) for x in a]; b[3] = []; out.append((op, b))
        b = [list(x) for x in a]; b[4] = [1, 1, 7, 7]; out.append((1404, b[:5] + [[]]))
    return out


# ---- registry for the cross-cutting checks C09 / C10
def _valid_pdus(rng):
    out = []
    while len(out) < 40:
        a = _rand_pdu(rng)
        if valid_fd(a):
            out.append(lay(a))
    return out


def _declared(b):
    return h5._declared(b) + b[1] * 256 + b[2]


DECODERS = [
    {"op": 1402, "name": "FileDataPdu.unpack", "extra": [], "valid": _valid_pdus, "declared_len": _declared},
]
