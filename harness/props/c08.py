"""C08 — CFDP TLV and LV items: streams, implementation adapter, oracle.
Family 10 of run_case (coq/theories/Run/DispTlv.v)."""
import itertools
from pathlib import Path
from harness.core import classify_exception, canon_code, run_impl
from spacepackets.cfdp.lv import CfdpLv
from spacepackets.cfdp.defs import ConditionCode, FaultHandlerCode
from spacepackets.cfdp.tlv import (
    CfdpTlv, EntityIdTlv, FlowLabelTlv, FaultHandlerOverrideTlv, FileStoreRequestTlv,
    FileStoreResponseTlv, MessageToUserTlv, TlvHolder, TlvType, FilestoreActionCode,
    FilestoreResponseStatusCode, map_enum_status_code_to_int, map_int_status_code_to_enum,
    map_enum_status_code_to_action_status_code,
)

ID = "C08"
_T = "spacepackets.cfdp.tlv.defs:"
_M = "SP.Model.Tlv."
ENUMS = [
    (_T + "TlvType.FILESTORE_REQUEST", _M + "TLV_FILESTORE_REQUEST"),
    (_T + "TlvType.FILESTORE_RESPONSE", _M + "TLV_FILESTORE_RESPONSE"),
    (_T + "TlvType.MESSAGE_TO_USER", _M + "TLV_MESSAGE_TO_USER"),
    (_T + "TlvType.FAULT_HANDLER", _M + "TLV_FAULT_HANDLER"),
    (_T + "TlvType.FLOW_LABEL", _M + "TLV_FLOW_LABEL"),
    (_T + "TlvType.ENTITY_ID", _M + "TLV_ENTITY_ID"),
    (_T + "FilestoreActionCode.CREATE_FILE_SNM", _M + "FA_CREATE_FILE"),
    (_T + "FilestoreActionCode.DELETE_FILE_SNN", _M + "FA_DELETE_FILE"),
    (_T + "FilestoreActionCode.RENAME_FILE_SNP", _M + "FA_RENAME_FILE"),
    (_T + "FilestoreActionCode.APPEND_FILE_SNP", _M + "FA_APPEND_FILE"),
    (_T + "FilestoreActionCode.REPLACE_FILE_SNP", _M + "FA_REPLACE_FILE"),
    (_T + "FilestoreActionCode.CREATE_DIR_SNN", _M + "FA_CREATE_DIR"),
    (_T + "FilestoreActionCode.REMOVE_DIR_SNN", _M + "FA_REMOVE_DIR"),
    (_T + "FilestoreActionCode.DENY_FILE_SMM", _M + "FA_DENY_FILE"),
    (_T + "FilestoreActionCode.DENY_DIR_SNN", _M + "FA_DENY_DIR"),
    (_T + "FilestoreResponseStatusCode.INVALID", _M + "FS_INVALID"),
    ("spacepackets.cfdp.tlv.tlv:CfdpTlv.MINIMAL_LEN", "SP.Model.Tlv.TLV_MINIMAL_LEN"),
    ("spacepackets.cfdp.tlv.tlv:EntityIdTlv.TLV_TYPE", _M + "TLV_ENTITY_ID"),
    ("spacepackets.cfdp.tlv.tlv:FlowLabelTlv.TLV_TYPE", _M + "TLV_FLOW_LABEL"),
    ("spacepackets.cfdp.tlv.tlv:FaultHandlerOverrideTlv.TLV_TYPE", _M + "TLV_FAULT_HANDLER"),
    ("spacepackets.cfdp.tlv.tlv:FileStoreRequestTlv.TLV_TYPE", _M + "TLV_FILESTORE_REQUEST"),
    ("spacepackets.cfdp.tlv.tlv:FileStoreResponseTlv.TLV_TYPE", _M + "TLV_FILESTORE_RESPONSE"),
    ("spacepackets.cfdp.tlv.msg_to_user:MessageToUserTlv.TLV_TYPE", _M + "TLV_MESSAGE_TO_USER"),
]
ASSUMPTIONS = [
    "CPython int / bytes / bytearray / IntEnum / str.encode / bytes.decode semantics as modelled in Base/Bytes.v and "
    "Base/Utf8.v (utf8_valid is tied to bytes.decode by an exhaustive 1- and 2-octet sweep plus boundary 3/4-octet forms)",
    "the member sets of TlvType, FilestoreActionCode and FilestoreResponseStatusCode are tied by exhaustive sweeps of the "
    "type octet and of the action/status octet (all 256 values) through the decoders, in addition to the named constants",
    "a Python str file name is represented by its UTF-8 octets; names that are not encodable (lone surrogates) are outside the model",
    "FileStore*Tlv cache their generic TLV on first pack(); attributes are not reassigned after pack() (no setter exists)",
]
TRUSTED = []
EXPLORED_ONLY = []
ORACLE_LIMIT = {"quick": 70000, "thorough": 300000}     # the 65536-case two-octet sweep is oracle-checked in full

TLV_TYPES = [0, 1, 2, 4, 5, 6]
ACTIONS = list(range(9))
TWO = (2, 3, 4)
STATUS = sorted(int(x) for x in set(FilestoreResponseStatusCode))
CLS = {0: FileStoreRequestTlv, 1: FileStoreResponseTlv, 2: MessageToUserTlv, 4: FaultHandlerOverrideTlv,
       5: FlowLabelTlv, 6: EntityIdTlv}
UNPACK_OP = {0: 1024, 1: 1027, 2: 1021, 4: 1018, 5: 1015, 6: 1011}
FROM_OP = {0: 1025, 1: 1028, 2: 1022, 4: 1019, 5: 1016, 6: 1012}
HOLDER_OP = {0: 1030, 1: 1031, 2: 1032, 4: 1033, 5: 1034, 6: 1035}
OP_CLS = {}
for _t in TLV_TYPES:
    OP_CLS[UNPACK_OP[_t]] = _t; OP_CLS[FROM_OP[_t]] = _t; OP_CLS[HOLDER_OP[_t]] = _t
NEW_OP = {2: 1020, 5: 1014, 6: 1010}


# ------------------------------------------------------------------ adapter
def _enum(cls, v):
    try:
        return cls(v)
    except ValueError:
        return v


def _rb(f):
    try:
        return [0] + list(f())
    except Exception as e:  # embedded result, class compared like a top-level one
        return [1, canon_code(classify_exception(e))]


def _pack2(o):
    p = o.pack(); q = o.pack()
    if p != q:
        raise RuntimeError("pack not repeatable")
    return p


def _tlv_view(t):
    return [[int(t.tlv_type)], list(t.value), [t.packet_len], _rb(lambda: _pack2(t))]


def _wrap_view(o):
    return [[int(o.tlv_type)], [int(o.tlv.tlv_type)], list(o.value), [o.packet_len], _rb(lambda: _pack2(o))]


def _fault_view(o):
    return [[int(o.condition_code), int(o.handler_code)]] + _wrap_view(o)


def _fsreq_view(o):
    return [[int(o.action_code)], list(o.first_file_name.encode()), list(o.second_file_name.encode()),
            [o.packet_len], _rb(lambda: _pack2(o)), _rb(lambda: o.value)]


def _fsresp_view(o):
    return [[int(o.action_code), int(o.status_code)], list(o.first_file_name.encode()),
            list(o.second_file_name.encode()), list(o.filestore_msg.value), [o.packet_len],
            _rb(lambda: _pack2(o)), _rb(lambda: o.value)]


def _any_view(o):
    if o is None:
        return [[0]]
    if isinstance(o, CfdpTlv):
        return [[1]] + _tlv_view(o)
    if isinstance(o, FileStoreRequestTlv):
        return [[2]] + _fsreq_view(o)
    if isinstance(o, FileStoreResponseTlv):
        return [[3]] + _fsresp_view(o)
    if isinstance(o, MessageToUserTlv):
        return [[4]] + _wrap_view(o)
    if isinstance(o, FaultHandlerOverrideTlv):
        return [[5]] + _fault_view(o)
    if isinstance(o, FlowLabelTlv):
        return [[6]] + _wrap_view(o)
    if isinstance(o, EntityIdTlv):
        return [[7]] + _wrap_view(o)
    raise RuntimeError("unknown object")


def _gtlv(a, i=0):
    return CfdpTlv(_enum(TlvType, a[i][0]), bytes(a[i + 1]))


def _holder(a):
    mode = a[0][0]
    if mode == 0:
        return TlvHolder(None)
    t = _gtlv(a, 1)
    if mode == 1:
        return TlvHolder(t)
    return TlvHolder(CLS[int(t.tlv_type)].from_tlv(t))


def impl(op, a):
    if op == 1000:
        v = CfdpLv(bytes(a[0])); return [list(v.pack()), [v.packet_len], list(v.value)]
    if op == 1001:
        v = CfdpLv.unpack(bytes(a[0])); return [list(v.value), [v.packet_len], list(v.pack())]
    if op == 1002:
        return [[int(CfdpLv(bytes(a[0])) == CfdpLv(bytes(a[1])))]]
    if op == 1007:
        v = CfdpLv.from_str(bytes(a[0]).decode()); w = CfdpLv.from_path(Path(bytes(a[0]).decode())) if a[0] and 0 not in a[0] else v
        if v.pack() != w.pack() and str(Path(bytes(a[0]).decode())) == bytes(a[0]).decode():
            raise RuntimeError("from_path differs from from_str")
        return [list(v.pack()), [v.packet_len], list(v.value)]
    if op == 1003:
        return _tlv_view(_gtlv(a))
    if op == 1004:
        return _tlv_view(CfdpTlv.unpack(bytes(a[0])))
    if op == 1005:
        return [[int(_gtlv(a, 0) == _gtlv(a, 2))]]
    if op == 1006:
        _gtlv(a).check_type(_enum(TlvType, a[2][0])); return [[0]]
    if op == 1010:
        return _wrap_view(EntityIdTlv(bytes(a[0])))
    if op == 1011:
        return _wrap_view(EntityIdTlv.unpack(bytes(a[0])))
    if op == 1012:
        return _wrap_view(EntityIdTlv.from_tlv(_gtlv(a)))
    if op == 1013:
        return [[int(EntityIdTlv(bytes(a[0])) == EntityIdTlv(bytes(a[1])))]]
    if op == 1014:
        return _wrap_view(FlowLabelTlv(bytes(a[0])))
    if op == 1015:
        return _wrap_view(FlowLabelTlv.unpack(bytes(a[0])))
    if op == 1016:
        return _wrap_view(FlowLabelTlv.from_tlv(_gtlv(a)))
    if op == 1017:
        return _fault_view(FaultHandlerOverrideTlv(_enum(ConditionCode, a[0][0]), _enum(FaultHandlerCode, a[0][1])))
    if op == 1018:
        return _fault_view(FaultHandlerOverrideTlv.unpack(bytes(a[0])))
    if op == 1019:
        return _fault_view(FaultHandlerOverrideTlv.from_tlv(_gtlv(a)))
    if op == 1020:
        return _wrap_view(MessageToUserTlv(bytes(a[0])))
    if op == 1021:
        return _wrap_view(MessageToUserTlv.unpack(bytes(a[0])))
    if op == 1022:
        return _wrap_view(MessageToUserTlv.from_tlv(_gtlv(a)))
    if op == 1023:
        return _fsreq_view(FileStoreRequestTlv(_enum(FilestoreActionCode, a[0][0]), bytes(a[1]).decode(), bytes(a[2]).decode()))
    if op == 1024:
        return _fsreq_view(FileStoreRequestTlv.unpack(bytes(a[0])))
    if op == 1025:
        return _fsreq_view(FileStoreRequestTlv.from_tlv(_gtlv(a)))
    if op == 1026:
        return _fsresp_view(FileStoreResponseTlv(_enum(FilestoreActionCode, a[0][0]), _enum(FilestoreResponseStatusCode, a[0][1]),
                                                 bytes(a[1]).decode(), bytes(a[2]).decode(), CfdpLv(bytes(a[3]))))
    if op == 1027:
        return _fsresp_view(FileStoreResponseTlv.unpack(bytes(a[0])))
    if op == 1028:
        return _fsresp_view(FileStoreResponseTlv.from_tlv(_gtlv(a)))
    if 1030 <= op <= 1035:
        h = _holder(a)
        f = [h.to_fs_request, h.to_fs_response, h.to_msg_to_user, h.to_fault_handler_override, h.to_flow_label, h.to_entity_id][op - 1030]
        return _any_view(f())
    if op == 1040:
        return [[int(map_enum_status_code_to_int(_enum(FilestoreResponseStatusCode, a[0][0])))]]
    if op == 1041:
        x, y = map_enum_status_code_to_action_status_code(_enum(FilestoreResponseStatusCode, a[0][0])); return [[int(x), int(y)]]
    if op == 1042:
        return [[int(map_int_status_code_to_enum(_enum(FilestoreActionCode, a[0][0]), a[0][1]))]]
    if op == 1043:
        try:
            s = bytes(a[0]).decode()
        except UnicodeDecodeError:
            return [[0], [0]]
        assert list(s.encode()) == list(a[0])
        return [[1], [len(s)]]
    raise RuntimeError("bad op")


# ------------------------------------------------------------------ independent layouts (727.0-B-5 5.1.8, 5.1.9, 5.4)
def lv_bytes(v):
    return [len(v)] + list(v)


def tlv_bytes(t, v):
    return [t, len(v)] + list(v)


def fs_value(action, status4, first, second, msg=None):
    v = [action * 16 + status4] + lv_bytes(first)
    if action in TWO:
        v += lv_bytes(second)
    if msg is not None:
        v += lv_bytes(msg)
    return v


def parse_lv(b, i):
    """-> (value, next index) or None when the LV is not completely inside b"""
    if i >= len(b) or i + 1 + b[i] > len(b):
        return None
    return b[i + 1:i + 1 + b[i]], i + 1 + b[i]


def utf8_ok(b):
    try:
        bytes(b).decode(); return True
    except UnicodeDecodeError:
        return False


def parse_fs(v, response):
    """independent reading of a filestore request/response TLV value; None = not well-formed"""
    if len(v) < 1 or v[0] >> 4 > 8:
        return None
    action, st = v[0] >> 4, v[0] & 15
    r = parse_lv(v, 1)
    if r is None or not utf8_ok(r[0]):
        return None
    first, i = r
    second = []
    if action in TWO:
        r = parse_lv(v, i)
        if r is None or not utf8_ok(r[0]):
            return None
        second, i = r
    if not response:
        return (action, first, second) if i == len(v) else None     # surplus octets: declared length != content
    if action * 16 + st not in STATUS:
        return None
    r = parse_lv(v, i)
    if r is None or r[1] != len(v):
        return None
    return action, action * 16 + st, first, second, r[0]


# ------------------------------------------------------------------ generators
CH = [[0x41], [0x7f], [0x00], [0xc2, 0x80], [0xc3, 0xa4], [0xdf, 0xbf], [0xe0, 0xa0, 0x80], [0xe2, 0x82, 0xac],
      [0xed, 0x9f, 0xbf], [0xee, 0x80, 0x80], [0xef, 0xbf, 0xbf], [0xf0, 0x90, 0x80, 0x80], [0xf0, 0x9d, 0x84, 0x9e],
      [0xf4, 0x8f, 0xbf, 0xbf], [0x2f], [0x2e]]
BADUTF = [[0xff], [0x80], [0xc0, 0x80], [0xc3], [0xe2, 0x82], [0xed, 0xa0, 0x80], [0xf4, 0x90, 0x80, 0x80],
          [0xe0, 0x80, 0x80], [0xf0, 0x80, 0x80, 0x80], [0xf5, 0x80, 0x80, 0x80], [0xc3, 0x28], [0x41, 0xfe]]
LENS = [0, 1, 2, 3, 63, 64, 127, 128, 200, 250, 251, 252, 253, 254, 255]


def rbytes(rng, n):
    return [rng.randrange(256) for _ in range(n)]


def rname(rng, n, ascii_only=False):
    """valid UTF-8 of exactly n octets"""
    out = []
    while len(out) < n:
        c = [rng.randrange(0x20, 0x7f)] if ascii_only or rng.random() < 0.5 else rng.choice(CH)
        if len(out) + len(c) <= n:
            out += c
    return out


def rstatus(rng, action):
    return rng.choice([s for s in STATUS if s >= 0 and s >> 4 == action])


def valid_units(rng, n=1):
    """packed valid TLVs of every kind: list of (type, octets)"""
    out = []
    for _ in range(n):
        out.append((6, tlv_bytes(6, rbytes(rng, rng.choice([1, 2, 4, 8])))))
        out.append((5, tlv_bytes(5, rbytes(rng, rng.randrange(0, 12)))))
        out.append((2, tlv_bytes(2, rbytes(rng, rng.randrange(0, 12)))))
        out.append((4, tlv_bytes(4, [rng.randrange(256)])))
        a = rng.choice(ACTIONS)
        out.append((0, tlv_bytes(0, fs_value(a, 0, rname(rng, rng.randrange(0, 9)), rname(rng, rng.randrange(0, 9))))))
        a = rng.choice(ACTIONS)
        out.append((1, tlv_bytes(1, fs_value(a, rstatus(rng, a) & 15, rname(rng, rng.randrange(0, 9)),
                                             rname(rng, rng.randrange(0, 9)), rbytes(rng, rng.randrange(0, 6))))))
    return out


def all_decode_ops(data):
    return [(1004, [data])] + [(UNPACK_OP[t], [data]) for t in TLV_TYPES]


def streams(tier, rng):
    big = tier == "thorough"
    # 1. LV: every length 0..255 (+ refused lengths), every first octet against short buffers, suffixes, truncations
    cases = []
    for n in list(range(0, 256)) + [256, 257, 300, 1000]:
        v = rbytes(rng, n)
        cases.append((1000, [v]))
        if n <= 255:
            cases.append((1001, [lv_bytes(v)]))
            cases.append((1001, [lv_bytes(v) + rbytes(rng, rng.randrange(1, 9))]))
            cases.append((1001, [lv_bytes(v)[:-1]] if n else [[]]))
            cases.append((1002, [v, v])); cases.append((1002, [v, rbytes(rng, n)])); cases.append((1002, [v, v + [0]]))
    for n in LENS + [256, 300]:
        cases.append((1007, [rname(rng, n)])); cases.append((1007, [rname(rng, n, True)]))
    for d0 in range(256):
        for ln in (0, 1, 2, d0, d0 + 1, d0 + 2, 256, 257):
            cases.append((1001, [([d0] + rbytes(rng, ln))[:ln] if ln == 0 else [d0] + rbytes(rng, ln - 1)]))
    yield "exh_lv_lengths", "exact", cases
    # 2. generic TLV: all 65536 two-octet inputs; every type octet x length octet with the full value / one octet less / more
    cases = [(1004, [[t, l]]) for t in range(256) for l in range(256)]
    yield "exh_tlv_two_octets", "exact", cases
    cases = []
    for t in range(256):
        for l in ([0, 1, 2, 5, 254, 255] if not big else range(256)):
            v = rbytes(rng, l)
            cases.append((1004, [[t, l] + v]))
            cases.append((1004, [[t, l] + v + rbytes(rng, rng.randrange(1, 5))]))
            if l:
                cases.append((1004, [[t, l] + v[:-1]]))
    for t in list(range(-2, 258)) + [2 ** 16, 2 ** 64, -2 ** 63]:
        for l in (0, 1, 255, 256):
            cases.append((1003, [[t], rbytes(rng, l)]))
    for l in list(range(0, 256)) + [256, 257, 1000]:
        cases.append((1003, [[rng.choice(TLV_TYPES)], rbytes(rng, l)]))
    for ln in (0, 1):
        for t in range(256):
            cases.append((1004, [[t][:ln]]))
    for t1, t2 in itertools.product(TLV_TYPES + [7], repeat=2):
        v = rbytes(rng, 3)
        cases.append((1005, [[t1], v, [t2], v])); cases.append((1005, [[t1], v, [t2], v[:-1] + [v[-1] ^ 1]]))
        cases.append((1006, [[t1], v, [t2]]))
    yield "exh_tlv_type_len", "exact", cases
    # 3. all 256 values of the action/status octet through the filestore decoders; status helpers
    cases = []
    for b in range(256):
        n1, n2, m = rname(rng, 3), rname(rng, 2), rbytes(rng, 2)
        for val in (fs_value(b >> 4, b & 15, n1, n2), fs_value(b >> 4, b & 15, n1, n2, m),
                    [b] + lv_bytes(n1), [b] + lv_bytes(n1) + lv_bytes(n2) + lv_bytes(m)):
            cases.append((1024, [tlv_bytes(0, val)])); cases.append((1027, [tlv_bytes(1, val)]))
            cases.append((1025, [[0], val])); cases.append((1028, [[1], val]))
    for a in range(-1, 18):
        for s in STATUS + [3, 4, 14, 113, 144, 255, 256, -2]:
            cases.append((1026, [[a, s], rname(rng, 2), rname(rng, 2), rbytes(rng, 1)]))
        cases.append((1023, [[a], rname(rng, 2), rname(rng, 2)]))
    for c in range(-3, 260):
        cases.append((1040, [[c]])); cases.append((1041, [[c]]))
    for a in range(-1, 18):
        for s in list(range(-1, 18)) + [255, 256, 300]:
            cases.append((1042, [[a, s]]))
    yield "exh_action_status_octet", "exact", cases
    # 4. every class x every type octet: unpack, from_tlv, holder (None / generic / concrete object)
    cases = []
    for cls in TLV_TYPES:
        for t in range(256):
            vals = [rbytes(rng, rng.choice([1, 2, 4, 8])), fs_value(1, 0, rname(rng, 2), []),
                    fs_value(4, 0, rname(rng, 1), rname(rng, 2), rbytes(rng, 1)), []]
            for v in vals:
                cases.append((UNPACK_OP[cls], [tlv_bytes(t, v)]))
        for t in list(range(-1, 10)) + [255, 256]:
            for v in ([7], fs_value(0, 0, [65], [], [1])):
                cases.append((FROM_OP[cls], [[t], v]))
                cases.append((HOLDER_OP[cls], [[1], [t], v]))
        for t in TLV_TYPES:
            for v in ([7], [], fs_value(0, 0, [65], [], [1]), fs_value(2, 1, [65], [66, 67], [])):
                cases.append((HOLDER_OP[cls], [[2], [t], v]))
                cases.append((HOLDER_OP[cls], [[1], [t], v]))
        cases.append((HOLDER_OP[cls], [[0], [0], []]))
    yield "exh_class_x_type", "exact", cases
    # 5. structured valid: constructors with boundary lengths / names, decode of the packed form + suffix
    cases = []
    for n in LENS + [256, 257, 300]:
        v = rbytes(rng, n)
        for t in (2, 5, 6):
            cases.append((NEW_OP[t], [v]))
            if n <= 255:
                cases.append((UNPACK_OP[t], [tlv_bytes(t, v) + rbytes(rng, rng.randrange(0, 4))]))
                cases.append((FROM_OP[t], [[t], v]))
    for cc in range(-1, 18):
        for hc in range(-1, 18):
            cases.append((1017, [[cc, hc]]))
    for b in range(256):
        cases.append((1018, [tlv_bytes(4, [b])])); cases.append((1019, [[4], [b]]))
        cases.append((1018, [tlv_bytes(4, [b, 1, 2]) + [9]]))
    for a, b in [(1, 1), (2, 2), (4, 4), (8, 8), (1, 2), (2, 4), (4, 8), (1, 8), (0, 1), (3, 3), (5, 8), (1, 0)]:
        x = rbytes(rng, a)
        cases.append((1013, [x, [0] * (b - a) + x if b >= a else x[:b]])); cases.append((1013, [x, rbytes(rng, b)]))
    for n in list(range(0, 10)) + [16, 255]:      # every ID length 0..9: equal, different, zero-extended
        x = rbytes(rng, n)
        cases.append((1013, [x, x])); cases.append((1013, [x, rbytes(rng, n)])); cases.append((1013, [x, [0, 0] + x]))
    reps = 6 if big else 2
    for a in ACTIONS:
        for l1 in LENS:
            for l2 in ([0, 1, 2, 127, 252 - l1, 253 - l1, 254 - l1] if a in TWO else [0, 3]):
                if l2 < 0:
                    continue
                for _ in range(reps):
                    n1, n2 = rname(rng, l1), rname(rng, l2)
                    cases.append((1023, [[a], n1, n2]))
                    tot = 1 + 1 + l1 + ((1 + l2) if a in TWO else 0)
                    if tot <= 255:
                        d = tlv_bytes(0, fs_value(a, rng.choice([0, 0, 5]), n1, n2))
                        cases.append((1024, [d + rbytes(rng, rng.choice([0, 0, 1, 5]))]))
                        cases.append((1025, [[0], d[2:]]))
                    for lm in (0, 1, 253 - tot, 254 - tot, 255 - tot):
                        if lm < 0:
                            continue
                        m = rbytes(rng, lm); st = rstatus(rng, a)
                        cases.append((1026, [[a, st], n1, n2, m]))
                        if tot + 1 + lm <= 255:
                            d = tlv_bytes(1, fs_value(a, st & 15, n1, n2, m))
                            cases.append((1027, [d + rbytes(rng, rng.choice([0, 0, 1, 5]))]))
                            cases.append((1028, [[1], d[2:]]))
    for a in ACTIONS:       # every action code x every matching status code
        for st in [s for s in STATUS if s >= 0 and s >> 4 == a]:
            n1, n2, m = rname(rng, 4), rname(rng, 3), rbytes(rng, 2)
            cases.append((1026, [[a, st], n1, n2, m]))
            cases.append((1027, [tlv_bytes(1, fs_value(a, st & 15, n1, n2, m))]))
    yield "structured_valid", "exact", cases
    # 6. targeted malformed: every truncation, substitutions in type/length/first value octets, inner LV lengths,
    #    invalid UTF-8 in names
    cases = []
    for t, d in valid_units(rng, 8 if big else 3):
        for k in range(len(d)):
            cases += all_decode_ops(d[:k]) if k < 3 else [(1004, [d[:k]]), (UNPACK_OP[t], [d[:k]])]
        for i in range(min(len(d), 5)):
            for x in {0, 1, 0x7f, 0x80, 0xff, (d[i] + 1) % 256, (d[i] - 1) % 256, len(d) - 2, len(d) - 1, len(d)}:
                e = list(d); e[i] = x % 256
                cases.append((1004, [e])); cases.append((UNPACK_OP[t], [e]))
                if e[1] + 2 <= len(e):
                    cases.append((FROM_OP[t], [[e[0]], e[2:2 + e[1]]]))
        for sfx in ([0], d, rbytes(rng, 3)):
            cases.append((1004, [d + sfx])); cases.append((UNPACK_OP[t], [d + sfx]))
    for bad in BADUTF:
        for a in (0, 2):
            pre = rname(rng, rng.randrange(0, 3))
            for val in (fs_value(a, 0, pre + bad, [65]), fs_value(a, 0, [65], pre + bad), fs_value(a, 0, bad + pre, bad)):
                cases.append((1024, [tlv_bytes(0, val)])); cases.append((1025, [[0], val]))
                cases.append((1027, [tlv_bytes(1, val + [0])])); cases.append((1028, [[1], val + [0]]))
    for a in (0, 2, 4):      # length octet of the TLV inconsistent with its content
        val = fs_value(a, 0, rname(rng, 3), rname(rng, 2))
        for l in (0, 1, 2, len(val) - 1, len(val) + 1, 255):
            cases.append((1024, [[0, l] + val])); cases.append((1027, [[1, l] + val + [1, 9]]))
        cases.append((1024, [[0, len(val)] + val[:1]])); cases.append((1027, [[1, len(val)] + val]))
    for a in ACTIONS:        # surplus octets inside the declared value of a filestore TLV
        for extra in ([9], [9, 9], [0], lv_bytes([65])):
            val = fs_value(a, 0, rname(rng, 2), rname(rng, 1))
            cases.append((1024, [tlv_bytes(0, val + extra)])); cases.append((1025, [[0], val + extra]))
            val = fs_value(a, rstatus(rng, a) & 15, rname(rng, 2), rname(rng, 1), rbytes(rng, 1))
            cases.append((1027, [tlv_bytes(1, val + extra)])); cases.append((1028, [[1], val + extra]))
    for t in TLV_TYPES:
        cases.append((UNPACK_OP[t], [[t, 0]])); cases.append((FROM_OP[t], [[t], []])); cases.append((UNPACK_OP[t], [[]]))
        cases.append((UNPACK_OP[t], [[t]]))
    yield "targeted_malformed", "exact", cases
    # 7. garbage
    cases = []
    for _ in range(6000 if big else 1200):
        n = rng.randrange(0, 24)
        d = rbytes(rng, n)
        if d and rng.random() < 0.7:
            d[0] = rng.choice(TLV_TYPES)
        if len(d) > 1 and rng.random() < 0.6:
            d[1] = max(0, min(255, len(d) - 2 + rng.choice([0, 0, 0, -1, 1])))
        if len(d) > 3 and rng.random() < 0.5:
            d[2] = rng.randrange(0, 0x90); d[3] = rng.randrange(0, 6)
        cases += all_decode_ops(d)
        cases.append((1001, [d[1:]]))
    yield "garbage", "verdict", cases
    # 8. bytes.decode() vs utf8_valid: all strings of 1 and 2 octets, boundary 3/4-octet forms, concatenations
    cases = [(1043, [[]])] + [(1043, [[a]]) for a in range(256)]
    cases += [(1043, [[a, b]]) for a in range(256) for b in range(256)]
    edge = [0x00, 0x7f, 0x80, 0x8f, 0x90, 0x9f, 0xa0, 0xbf, 0xc0, 0xc2, 0xff]
    for b0 in range(0xe0, 0xf0):
        for b1, b2 in itertools.product(edge, repeat=2):
            cases.append((1043, [[b0, b1, b2]]))
    for b0 in range(0xf0, 0x100):
        for b1, b2, b3 in itertools.product(edge, [0x7f, 0x80, 0xbf, 0xc0], [0x7f, 0x80, 0xbf, 0xc0]):
            cases.append((1043, [[b0, b1, b2, b3]]))
    for _ in range(4000 if big else 1500):
        s = []
        for _ in range(rng.randrange(1, 6)):
            s += rng.choice(CH) if rng.random() < 0.85 else rng.choice(BADUTF)
        cases.append((1043, [s]))
    yield "exh_utf8_1_2_octets", "exact", cases


# ------------------------------------------------------------------ oracle
def _ok(r):
    return r[0] == [0]


def _doc(r):
    return r[0][0] == 1 and r[0][1] in (1, 2, 3, 6)


def _name(op):
    return {1001: "CfdpLv.unpack", 1004: "CfdpTlv.unpack"}.get(op) or (
        CLS[OP_CLS[op]].__name__ + (".unpack" if op in UNPACK_OP.values() else ".from_tlv" if op in FROM_OP.values() else "/TlvHolder.to"))


def oracle_spec(case, ires):
    op, a = case
    if op in (1000, 1007) and len(a[0]) <= 255:
        return [(1050, [a[0]])]
    if op == 1003 and len(a[1]) <= 255 and 0 <= a[0][0] <= 255:
        return [(1051, [a[0], a[1]])]
    if op in (1010, 1014, 1020) and len(a[0]) <= 255:
        return [(1051, [[{1010: 6, 1014: 5, 1020: 2}[op]], a[0]])]
    if op == 1017 and 0 <= a[0][0] <= 15 and 0 <= a[0][1] <= 15:
        return [(1052, [a[0]])]
    if op == 1023 and a[0][0] in ACTIONS:
        return [(1053, [a[0], a[1], a[2]])]
    if op == 1026 and a[0][0] in ACTIONS and a[0][1] >= 0 and a[0][1] >> 4 == a[0][0] and a[0][1] in STATUS:
        return [(1054, [[a[0][0], a[0][1] & 15], a[1], a[2], a[3]])]
    return []


def _expect_fields(op, t, v):
    """what a well-formed TLV (t, v) of the class of `op` must decode to; None = not well-formed for that class"""
    cls = OP_CLS[op]
    if cls in (2, 5, 6):
        return [[cls], [t], list(v), [len(v) + 2], [0] + tlv_bytes(t, v)]
    if cls == 4:
        if len(v) < 1:
            return None
        return [[v[0] >> 4, v[0] & 15], [4], [t], list(v), [len(v) + 2], [0] + tlv_bytes(t, v)]
    p = parse_fs(list(v), cls == 1)
    if p is None:
        return None
    if cls == 0:
        action, first, second = p
        val = fs_value(action, 0, first, second)
        return [[action], first, second, [len(val) + 2], [0] + tlv_bytes(0, val), [0] + val]
    action, st, first, second, m = p
    val = fs_value(action, st & 15, first, second, m)
    return [[action, st], first, second, m, [len(val) + 2], [0] + tlv_bytes(1, val), [0] + val]


def oracle(case, ires, sres):
    """The statement of C08 evaluated on the implementation's observable behaviour."""
    op, a = case
    err = ires[0][0] == 1
    code = ires[0][1] if err else None
    # ---------------- LV
    if op in (1000, 1007):
        v = a[0]
        if len(v) > 255:
            return None if err and code in (1, 2, 3) else ("C08/CfdpLv.__init__/too-long-accepted", "%d octets -> %s" % (len(v), ires[:2]))
        exp = lv_bytes(v)
        if err or ires[1] != exp or sres[0][1] != exp or ires[2] != [len(v) + 1] or ires[3] != v:
            return ("C08/CfdpLv.pack/layout", "value of %d octets -> %s" % (len(v), ires[:3]))
        back = run_impl(impl, 1001, [exp + [0xAA, 0xBB]])
        if back[0] != [0] or back[1] != v or back[2] != [len(v) + 1]:
            return ("C08/CfdpLv.unpack/roundtrip", "unpack(pack(v)+suffix) = %s" % (back[:3],))
        return None
    if op == 1001:
        d = a[0]
        if len(d) >= 1 and 1 + d[0] <= len(d):
            exp = [d[1:1 + d[0]], [d[0] + 1], d[:1 + d[0]]]
            if err or ires[1:] != exp:
                return ("C08/CfdpLv.unpack/value", "%s -> %s" % (d[:8], ires[:3]))
            return None
        if not err:
            return ("C08/CfdpLv.unpack/prefix-accepted", "incomplete LV %s accepted: %s" % (d[:8], ires[:3]))
        if not _doc(ires):
            return ("C08/CfdpLv.unpack/undocumented-exception", "%s -> error class %d" % (d[:8], code))
        return None
    # ---------------- generic TLV
    if op == 1003:
        t, v = a[0][0], a[1]
        if len(v) > 255:
            return None if err and code in (1, 2, 3) else ("C08/CfdpTlv.__init__/too-long-accepted", "%d octets -> %s" % (len(v), ires[:2]))
        if 0 <= t <= 255:
            exp = [[t], v, [len(v) + 2], [0] + tlv_bytes(t, v)]
            if err or ires[1:] != exp or sres[0][1] != tlv_bytes(t, v):
                return ("C08/CfdpTlv.pack/layout", "(%d, %d octets) -> %s" % (t, len(v), ires[:5]))
            if t in TLV_TYPES:
                back = run_impl(impl, 1004, [tlv_bytes(t, v) + [0xAA, 0xBB]])
                if back != [[0]] + exp:
                    return ("C08/CfdpTlv.unpack/roundtrip", "unpack(pack + suffix) = %s" % (back[:4],))
        return None
    if op == 1004:
        d = a[0]
        if len(d) >= 2 and d[0] in TLV_TYPES and 2 + d[1] <= len(d):
            v = d[2:2 + d[1]]
            exp = [[d[0]], v, [len(v) + 2], [0] + d[:2 + d[1]]]
            if err or ires[1:] != exp:
                return ("C08/CfdpTlv.unpack/value", "%s -> %s" % (d[:8], ires[:4]))
            return None
        if not err:
            return ("C08/CfdpTlv.unpack/prefix-accepted", "incomplete or unknown TLV %s accepted: %s" % (d[:8], ires[:4]))
        if not _doc(ires):
            return ("C08/CfdpTlv.unpack/undocumented-exception", "%s -> error class %d" % (d[:8], code))
        return None
    if op == 1013:
        if len(a[0]) <= 255 and len(a[1]) <= 255:
            exp = int(int.from_bytes(bytes(a[0]), "big") == int.from_bytes(bytes(a[1]), "big"))
            if err:
                return ("C08/EntityIdTlv.__eq__/raises", "comparison of entity IDs %s and %s raised error class %d" % (a[0], a[1], code))
            if ires[1] != [exp]:
                return ("C08/EntityIdTlv.__eq__/value", "%s == %s -> %s" % (a[0], a[1], ires))
        return None
    if op == 1006:
        if len(a[1]) <= 255 and (err != (a[0] != a[2]) or (err and code != 6)):
            return ("C08/AbstractTlvBase.check_type", "%s vs %s -> %s" % (a[0], a[2], ires))
        return None
    if op == 1005:
        exp = int(a[0] == a[2] and a[1] == a[3])
        if len(a[1]) <= 255 and len(a[3]) <= 255 and (err or ires[1] != [exp]):
            return ("C08/AbstractTlvBase.__eq__", "%s == %s -> %s" % (a[:2], a[2:], ires))
        return None
    # ---------------- constructors of the concrete classes: layout, length, round trip
    if op in (1010, 1014, 1020, 1017, 1023, 1026):
        if op in (1010, 1014, 1020):
            t = {1010: 6, 1014: 5, 1020: 2}[op]
            layout = tlv_bytes(t, a[0]) if len(a[0]) <= 255 else None
            inrange = True
        elif op == 1017:
            cc, hc = a[0]
            inrange = 0 <= cc <= 15 and 0 <= hc <= 15
            t, layout = 4, tlv_bytes(4, [cc * 16 + hc])
        elif op == 1023:
            inrange = a[0][0] in ACTIONS
            val = fs_value(a[0][0], 0, a[1], a[2]) if inrange else []
            t, layout = 0, (tlv_bytes(0, val) if len(val) <= 255 and len(a[1]) <= 255 and len(a[2]) <= 255 else None)
        else:
            ac, st = a[0]
            inrange = ac in ACTIONS and st >= 0 and st >> 4 == ac and st in STATUS
            val = fs_value(ac, st & 15, a[1], a[2], a[3]) if inrange else []
            t, layout = 1, (tlv_bytes(1, val) if len(val) <= 255 and len(a[1]) <= 255 and len(a[2]) <= 255 else None)
        if not inrange:
            return None
        name = CLS[t].__name__
        packed = None
        if not err:
            pk = ires[-1] if op in (1010, 1014, 1020, 1017) else ires[-2]
            packed = pk[1:] if pk[0] == 0 else None
            pk_err = pk[1] if pk[0] == 1 else None
        if layout is None:      # does not fit a TLV: must be refused with ValueError (at construction or at pack)
            if (err and code in (1, 2, 3)) or (not err and packed is None and pk_err in (1, 2, 3)):
                return None
            return ("C08/%s/too-long-accepted" % name, "value longer than 255 octets -> %s" % (ires[:3],))
        if err or packed != layout or (sres and sres[0][1] != layout):
            return ("C08/%s.pack/layout" % name, "args %s -> %s, standard says %s" % ([x[:12] for x in a], ires[-2:], layout[:16]))
        plen = ires[-2] if op in (1010, 1014, 1020, 1017) else ires[-3]
        if plen != [len(layout)]:
            return ("C08/%s.packet_len" % name, "packet_len %s but %d octets packed (args %s)" % (plen, len(layout), [x[:12] for x in a]))
        back = run_impl(impl, UNPACK_OP[t], [layout + [0x01, 0x00]])
        if op == 1023 and a[0][0] not in TWO:
            want = [[0]] + [ires[1], ires[2], [], ires[4], ires[5], ires[6]]
        elif op == 1026 and a[0][0] not in TWO:
            want = [[0]] + [ires[1], ires[2], [], ires[4], ires[5], ires[6], ires[7]]
        else:
            want = ires
        if back != want:
            return ("C08/%s.unpack/roundtrip" % name, "unpack(pack(%s) + suffix) = %s" % ([x[:12] for x in a], back[:5]))
        return None
    # ---------------- decoders / converters of the concrete classes
    if op in OP_CLS:
        cls = OP_CLS[op]
        name = _name(op)
        if op in UNPACK_OP.values():
            d = a[0]
            wellformed = len(d) >= 2 and d[0] in TLV_TYPES and 2 + d[1] <= len(d)
            t = d[0] if wellformed else None
            v = d[2:2 + d[1]] if wellformed else None
            mode = 1
        else:
            if op in HOLDER_OP.values():
                mode, t, v = a[0][0], a[1][0] if a[1] else 0, a[2]
                if mode == 0:
                    return None if err else ("C08/TlvHolder/none", "conversion of an empty holder returned %s" % ires[:2])
            else:
                mode, t, v = 1, a[0][0], a[1]
            wellformed = len(v) <= 255 and (t in TLV_TYPES)
            if len(v) > 255 or (mode == 2 and t not in TLV_TYPES):
                return None
            if mode == 2 and _expect_fields(UNPACK_OP[t], t, v) is None:
                return None      # the held concrete object cannot be built in the first place
        if err and not (_doc(ires) or (mode == 2 and code == 20)):
            return ("C08/%s/undocumented-exception" % name, "%s -> error class %d" % ([x[:10] for x in a], code))
        if not wellformed:
            if not err:
                return ("C08/%s/prefix-accepted" % name, "incomplete or unknown TLV accepted: %s -> %s" % ([x[:10] for x in a], ires[:4]))
            return None
        if t != cls:
            if not err:
                return ("C08/%s/foreign-type-accepted" % name, "TLV of type %d accepted by the class of type %d: %s" % (t, cls, ires[:4]))
            if code != 6 and not (mode == 2 and code == 20):
                return ("C08/%s/foreign-type-wrong-error" % name, "TLV of type %d: error class %d instead of TlvTypeMissmatch" % (t, code))
            return None
        exp = _expect_fields(op, t, v)
        if exp is None:
            if not err:
                return ("C08/%s/malformed-accepted" % name, "%s -> %s" % ([x[:12] for x in a], ires[:4]))
            return None
        got = ires[2:] if op in HOLDER_OP.values() else ires[1:]
        if err or got != exp:
            return ("C08/%s/fields" % name, "%s -> %s, expected %s" % ([x[:12] for x in a], ires[:6], exp[:5]))
        return None
    if op == 1041:
        c = a[0][0]
        if c in STATUS and c >= 0 and (err or ires[1] != [c >> 4, c & 15]):
            return ("C08/map_enum_status_code_to_action_status_code", "%d -> %s" % (c, ires))
        return None
    if op == 1042:
        ac, s = a[0]
        if 0 <= ac <= 8 and 0 <= s <= 15:
            exp = ac * 16 + s if ac * 16 + s in STATUS else -1
            if err or ires[1] != [exp]:
                return ("C08/map_int_status_code_to_enum", "%s -> %s" % (a[0], ires))
        return None
    return None


def neighbours(case):
    op, a = case
    out = []
    if a and a[0] and op in (1001, 1004) + tuple(UNPACK_OP.values()):
        for i in range(min(4, len(a[0]))):
            for dlt in (-1, 1):
                l = list(a[0]); l[i] = (l[i] + dlt) % 256; out.append((op, [l]))
        out.append((op, [a[0][:-1]])); out.append((op, [a[0] + [0]]))
    return out


# ---- registry for the cross-cutting checks C09 / C10
def _valid(t):
    return lambda rng: [d for (k, d) in valid_units(rng, 8) if k == t]


def _valid_lv(rng):
    return [lv_bytes(rbytes(rng, n)) for n in (0, 1, 2, 7, 255)]


DECODERS = [
    {"op": 1001, "name": "CfdpLv.unpack", "extra": [], "valid": _valid_lv, "declared_len": lambda b: b[0] + 1},
    {"op": 1004, "name": "CfdpTlv.unpack", "extra": [], "valid": lambda rng: [d for (_, d) in valid_units(rng, 2)],
     "declared_len": lambda b: b[1] + 2},
] + [
    {"op": UNPACK_OP[t], "name": CLS[t].__name__ + ".unpack", "extra": [], "valid": _valid(t),
     "declared_len": lambda b: b[1] + 2} for t in TLV_TYPES
]
