"""C08 — CFDP TLV and LV items: streams, implementation adapter, oracle.
Family 10 of run_case (coq/theories/Run/DispTlv.v)."""
import itertools, json, os, unicodedata
from pathlib import Path, PurePosixPath, PureWindowsPath
from harness.core import classify_exception, canon_code, run_impl
from spacepackets.cfdp.lv import CfdpLv
from spacepackets.cfdp.defs import ConditionCode, FaultHandlerCode
from spacepackets.cfdp.tlv import (
    CfdpTlv, EntityIdTlv, FlowLabelTlv, FaultHandlerOverrideTlv, FileStoreRequestTlv,
    FileStoreResponseTlv, MessageToUserTlv, TlvHolder, TlvType, FilestoreActionCode,
    FilestoreResponseStatusCode, map_enum_status_code_to_int, map_int_status_code_to_enum,
    map_enum_status_code_to_action_status_code,
)

from harness import core

ID = "C08"
_T = "spacepackets.cfdp.tlv.defs:"
_M = "SP.Model.Tlv."
ENUMS = [
    (_T + "TlvType.FILESTORE_REQUEST", _M + "TLV_FILESTORE_REQUEST"),
    (_T + "TlvType.FILESTORE_RESPONSE", _M + "TLV_FILESTORE_RESPONSE"),
    (_T + "TlvType.MESSAGE_TO_USER", _M + "TLV_MESSAGE_TO_USER"),
    (_T + "TlvType.FAULT_HANDLER", _M + "TLV_FAULT_HANDLER"),
    (_T + "TlvType.FLOW_LABEL", _M + "TLV_FLOW_LABEL"),
    (_T + "TlvType.ENTITY_ID", _M + "TLV_ENTITY_ID"),
    (_T + "FilestoreActionCode.CREATE_FILE_SNM", _M + "FA_CREATE_FILE"),
    (_T + "FilestoreActionCode.DELETE_FILE_SNN", _M + "FA_DELETE_FILE"),
    (_T + "FilestoreActionCode.RENAME_FILE_SNP", _M + "FA_RENAME_FILE"),
    (_T + "FilestoreActionCode.APPEND_FILE_SNP", _M + "FA_APPEND_FILE"),
    (_T + "FilestoreActionCode.REPLACE_FILE_SNP", _M + "FA_REPLACE_FILE"),
    (_T + "FilestoreActionCode.CREATE_DIR_SNN", _M + "FA_CREATE_DIR"),
    (_T + "FilestoreActionCode.REMOVE_DIR_SNN", _M + "FA_REMOVE_DIR"),
    (_T + "FilestoreActionCode.DENY_FILE_SMM", _M + "FA_DENY_FILE"),
    (_T + "FilestoreActionCode.DENY_DIR_SNN", _M + "FA_DENY_DIR"),
    (_T + "FilestoreResponseStatusCode.INVALID", _M + "FS_INVALID"),
    ("spacepackets.cfdp.tlv.tlv:CfdpTlv.MINIMAL_LEN", "SP.Model.Tlv.TLV_MINIMAL_LEN"),
    ("spacepackets.cfdp.tlv.tlv:EntityIdTlv.TLV_TYPE", _M + "TLV_ENTITY_ID"),
    ("spacepackets.cfdp.tlv.tlv:FlowLabelTlv.TLV_TYPE", _M + "TLV_FLOW_LABEL"),
    ("spacepackets.cfdp.tlv.tlv:FaultHandlerOverrideTlv.TLV_TYPE", _M + "TLV_FAULT_HANDLER"),
    ("spacepackets.cfdp.tlv.tlv:FileStoreRequestTlv.TLV_TYPE", _M + "TLV_FILESTORE_REQUEST"),
    ("spacepackets.cfdp.tlv.tlv:FileStoreResponseTlv.TLV_TYPE", _M + "TLV_FILESTORE_RESPONSE"),
    ("spacepackets.cfdp.tlv.msg_to_user:MessageToUserTlv.TLV_TYPE", _M + "TLV_MESSAGE_TO_USER"),
]
ASSUMPTIONS = [
    "CPython int / bytes / bytearray / IntEnum / str.encode / bytes.decode semantics as modelled in Base/Bytes.v and "
    "Base/Utf8.v (utf8_valid is tied to bytes.decode by an exhaustive 1- and 2-octet sweep plus boundary 3/4-octet forms)",
    "the member sets of TlvType, FilestoreActionCode and FilestoreResponseStatusCode are tied by exhaustive sweeps of the "
    "type octet and of the action/status octet (all 256 values) through the decoders, in addition to the named constants",
    "a Python str file name is represented by its UTF-8 octets; names that are not encodable (lone surrogates) are outside the model",
    "live-object histories (op 1060) observe ONE object: construction by every path, then up to 12 operations (plain attribute "
    "assignment, the tlv_type setter, edits of the wrapped / cached CfdpTlv and of the filestore message LV, refused assignments, "
    "pack / value / generate_tlv); aliasing beyond that object (the CfdpTlv handed to from_tlv stays shared with the wrapper "
    "classes, getters hand out internal buffers) is by design and only watched from the caller's side by the adapter",
    "FaultHandlerOverrideTlv.condition_code / handler_code are read-outs of the TLV built at construction / decoding: assigning "
    "them does not change pack() (judged a design decision, modelled as such)",
]
TRUSTED = []
EXPLORED_ONLY = [
    "explored_path_arguments (op 1099/0): CfdpLv.from_path fed pathlib objects (Path, PurePosixPath, PureWindowsPath, a user "
    "subclass) built from names with '..', '.', '//', trailing '/', '~': the LV carries exactly str(path) -- the model has no "
    "file-system object types",
    "explored_buffers_handed_out (op 1099/1): two identical objects go through the same history; on one of them a getter that "
    "hands out a FRESH buffer on the unchanged tree (harness/props/fresh_getters.json, measured by tools/gen_fresh_getters.py) is "
    "read and the returned bytearray edited in place (flip / extend / truncate / clear): every later observation of the two "
    "objects must agree -- object identity of returned buffers is outside the model",
    "explored_back_to_back (op 1099/2): TLVs / LVs packed back to back are split purely by the length each decoded object "
    "reports (packet_len, len(pack())), through Class.unpack / from_tlv / TlvHolder, bytes and bytearray input",
]
ORACLE_LIMIT = {"quick": 70000, "thorough": 300000}     # the 65536-case two-octet sweep is oracle-checked in full

TLV_TYPES = [0, 1, 2, 4, 5, 6]
ACTIONS = list(range(9))
TWO = (2, 3, 4)
STATUS = sorted(int(x) for x in set(FilestoreResponseStatusCode))
CLS = {0: FileStoreRequestTlv, 1: FileStoreResponseTlv, 2: MessageToUserTlv, 4: FaultHandlerOverrideTlv,
       5: FlowLabelTlv, 6: EntityIdTlv}
UNPACK_OP = {0: 1024, 1: 1027, 2: 1021, 4: 1018, 5: 1015, 6: 1011}
FROM_OP = {0: 1025, 1: 1028, 2: 1022, 4: 1019, 5: 1016, 6: 1012}
HOLDER_OP = {0: 1030, 1: 1031, 2: 1032, 4: 1033, 5: 1034, 6: 1035}
OP_CLS = {}
for _t in TLV_TYPES:
    OP_CLS[UNPACK_OP[_t]] = _t; OP_CLS[FROM_OP[_t]] = _t; OP_CLS[HOLDER_OP[_t]] = _t
NEW_OP = {2: 1020, 5: 1014, 6: 1010}


# ------------------------------------------------------------------ adapter
def _enum(cls, v):
    return core.enum_or_int(cls, v)


def _rb(f):
    try:
        return [0] + list(f())
    except Exception as e:  # embedded result, class compared like a top-level one
        return [1, canon_code(classify_exception(e))]


def _pack2(o):
    p = o.pack(); q = o.pack()
    if p != q:
        raise RuntimeError("pack not repeatable")
    return p


def _tlv_view(t):
    return [[int(t.tlv_type)], list(t.value), [t.packet_len], _rb(lambda: _pack2(t))]


def _wrap_view(o):
    return [[int(o.tlv_type)], [int(o.tlv.tlv_type)], list(o.value), [o.packet_len], _rb(lambda: _pack2(o))]


def _fault_view(o):
    return [[int(o.condition_code), int(o.handler_code)]] + _wrap_view(o)


def _fsreq_view(o):
    return [[int(o.action_code)], list(o.first_file_name.encode()), list(o.second_file_name.encode()),
            [o.packet_len], _rb(lambda: _pack2(o)), _rb(lambda: o.value)]


def _fsresp_view(o):
    return [[int(o.action_code), int(o.status_code)], list(o.first_file_name.encode()),
            list(o.second_file_name.encode()), list(o.filestore_msg.value), [o.packet_len],
            _rb(lambda: _pack2(o)), _rb(lambda: o.value)]


def _any_view(o):
    if o is None:
        return [[0]]
    if isinstance(o, CfdpTlv):
        return [[1]] + _tlv_view(o)
    if isinstance(o, FileStoreRequestTlv):
        return [[2]] + _fsreq_view(o)
    if isinstance(o, FileStoreResponseTlv):
        return [[3]] + _fsresp_view(o)
    if isinstance(o, MessageToUserTlv):
        return [[4]] + _wrap_view(o)
    if isinstance(o, FaultHandlerOverrideTlv):
        return [[5]] + _fault_view(o)
    if isinstance(o, FlowLabelTlv):
        return [[6]] + _wrap_view(o)
    if isinstance(o, EntityIdTlv):
        return [[7]] + _wrap_view(o)
    raise RuntimeError("unknown object")


def _gtlv(a, i=0):
    return CfdpTlv(_enum(TlvType, a[i][0]), bytes(a[i + 1]))


# ------------------------------------------------------------------ live-object histories (op 1060)
class HarnessInvariant(Exception):
    """something the adapter itself watches (caller-side objects, input buffers, shared defaults) changed;
    marshalled as error class 99 and named by the oracle"""


class _NotApplicable(Exception):
    """operation the histories never apply to this class (model: refused EOther)"""


KIND_LV, KIND_TLV = 0, 1
KINDS = [KIND_LV, KIND_TLV] + [10 + t for t in (0, 1, 2, 4, 5, 6)]
NVIEW = {0: 2, 1: 3, 10: 6, 11: 6, 12: 3, 14: 3, 15: 3, 16: 3}
P_PACK, P_VALUE, P_GEN, P_SETVALUE, P_INPLACE, P_SETTYPE, P_SETPLEN, P_SETTLV, P_TLVNONE, P_SUBTYPE = range(10)
P_CC, P_HC, P_ACTION, P_STATUS, P_FIRST, P_SECOND, P_MSG, P_SUBMSG = range(10, 18)
APPLIES = {
    0: {P_PACK, P_SETVALUE, P_INPLACE, P_SETPLEN},
    1: {P_PACK, P_SETVALUE, P_SETTYPE, P_SETPLEN},
    12: {P_PACK, P_VALUE, P_SETVALUE, P_SETTYPE, P_SETPLEN, P_SETTLV, P_SUBTYPE},
    10: {P_PACK, P_VALUE, P_GEN, P_SETVALUE, P_SETTYPE, P_SETPLEN, P_SETTLV, P_TLVNONE, P_SUBTYPE, P_ACTION, P_FIRST, P_SECOND},
}
APPLIES[15] = APPLIES[16] = APPLIES[12]
APPLIES[14] = APPLIES[12] | {P_CC, P_HC}
APPLIES[11] = APPLIES[10] | {P_STATUS, P_MSG, P_SUBMSG}


def _cache_view(t):
    return [0] if t is None else [1, int(t.tlv_type)] + list(t.value)


def _hview(kind, o):
    """non-mutating observations only (FileStore*Tlv.value would fill the cache: it is an operation)"""
    if kind == 0:
        return [list(o.value), [o.value_len, o.packet_len]]
    if kind == 1:
        return [[int(o.tlv_type)], list(o.value), [o.value_len, o.packet_len]]
    if kind in (12, 15, 16):
        return [[int(o.tlv_type), int(o.tlv.tlv_type)], list(o.value), [o.packet_len]]
    if kind == 14:
        return [[int(o.condition_code), int(o.handler_code), int(o.tlv_type), int(o.tlv.tlv_type)], list(o.value), [o.packet_len]]
    if kind == 10:
        return [[int(o.action_code), 0], list(o.first_file_name.encode()), list(o.second_file_name.encode()), [],
                [0, o.packet_len], _cache_view(o.tlv)]
    return [[int(o.action_code), int(o.status_code)], list(o.first_file_name.encode()), list(o.second_file_name.encode()),
            list(o.filestore_msg.value), [o.filestore_msg.value_len, o.packet_len], _cache_view(o.tlv)]


def _scribble(buf):
    for i in range(len(buf)):
        buf[i] ^= 0xFF
    buf.extend(b"\x5a\xa5")


def _same_path(s):
    return str(Path(s)) == s


def _hnew(kind, path, a1, a2, a3, a4, ctx):
    """builds the object under observation; ctx collects the caller-side objects to be re-inspected"""
    if kind == 0:
        if path == 0:
            return CfdpLv(bytes(a2))
        if path == 1:
            ctx["buf"] = bytearray(a2); ctx["buf0"] = bytes(a2)
            return CfdpLv(ctx["buf"])
        if path in (2, 3):
            s = bytes(a2).decode()
            return CfdpLv.from_path(Path(s)) if path == 3 and s and 0 not in a2 and _same_path(s) else CfdpLv.from_str(s)
        if path == 4:
            return CfdpLv.unpack(bytes(a2))
        buf = bytearray(a2); o = CfdpLv.unpack(buf); _scribble(buf)
        return o
    if kind == 1:
        if path == 0:
            return CfdpTlv(_enum(TlvType, a1[0]), bytes(a2))
        if path == 1:
            ctx["buf"] = bytearray(a2); ctx["buf0"] = bytes(a2)
            return CfdpTlv(_enum(TlvType, a1[0]), ctx["buf"])
        if path == 4:
            return CfdpTlv.unpack(bytes(a2))
        buf = bytearray(a2); o = CfdpTlv.unpack(buf); _scribble(buf)
        return o
    t = kind - 10
    cls = CLS[t]
    if path in (0, 1):
        if t in (2, 5, 6):
            if path == 0:
                return cls(bytes(a2))
            ctx["buf"] = bytearray(a2); ctx["buf0"] = bytes(a2)
            return cls(ctx["buf"])
        if t == 4:
            if path == 0:
                return cls(_enum(ConditionCode, a1[0]), _enum(FaultHandlerCode, a1[1]))
            return cls(condition_code=a1[0], handler_code=a1[1])            # plain integers
        first, second = bytes(a2).decode(), bytes(a3).decode()
        if t == 0:
            if path == 1 and not second:
                return cls(_enum(FilestoreActionCode, a1[0]), first)
            return cls(_enum(FilestoreActionCode, a1[0]), first, second)
        if path == 1:
            kw = {}
            if second:
                kw["second_file_name"] = second
            if a4:
                ctx["lv"] = CfdpLv(bytearray(a4)); ctx["lv0"] = (bytes(a4), len(a4))
                kw["filestore_msg"] = ctx["lv"]
            return cls(_enum(FilestoreActionCode, a1[0]), _enum(FilestoreResponseStatusCode, a1[1]), first, **kw)
        ctx["lv"] = CfdpLv(bytes(a4)); ctx["lv0"] = (bytes(a4), len(a4))
        return cls(_enum(FilestoreActionCode, a1[0]), _enum(FilestoreResponseStatusCode, a1[1]), first, second, ctx["lv"])
    if path == 4:
        return cls.unpack(bytes(a2))
    if path == 5:
        buf = bytearray(a2); o = cls.unpack(buf); _scribble(buf)
        return o
    g = CfdpTlv(_enum(TlvType, a1[0]), bytearray(a2) if path in (7, 9) else bytes(a2))
    ctx["g"] = g; ctx["g0"] = (g.tlv_type, bytes(g.value), g.value_len)
    conv = {0: "to_fs_request", 1: "to_fs_response", 2: "to_msg_to_user", 4: "to_fault_handler_override", 5: "to_flow_label",
            6: "to_entity_id"}[t]
    if path == 6:
        return cls.from_tlv(g)
    if path == 7:
        return getattr(TlvHolder(g), conv)()
    if path == 8:
        c = cls.from_tlv(g)
        h = TlvHolder(c)
        o = getattr(h, conv)()
        if o is not c or getattr(h, conv)() is not c:
            raise HarnessInvariant("TlvHolder(concrete).%s() does not hand out the held object" % conv)
        return o
    h = TlvHolder(g)
    first = getattr(h, conv)()
    ctx["first"] = first; ctx["first0"] = _hview(kind, first)
    return getattr(h, conv)()


def _hstep(kind, o, op, ctx):
    """one operation; returns the octets the call produced (or []), raises what the call raises"""
    c = op[0]
    if c not in APPLIES[kind]:
        raise _NotApplicable()
    if c == P_PACK:
        p = o.pack()
        if not isinstance(p, (bytes, bytearray)):
            raise HarnessInvariant("pack() returned a %s" % type(p).__name__)
        return list(p)
    if c == P_VALUE:
        return list(o.value)
    if c == P_GEN:
        o.generate_tlv(); return []
    if c == P_SETVALUE:
        o.value = bytes(op[1:]); return []
    if c == P_INPLACE:
        n = op[1]
        b = bytearray(op[2:2 + n]); o.value = b; b.extend(bytes(op[2 + n:])); o.value = b
        return []
    if c == P_SETTYPE:
        o.tlv_type = _enum(TlvType, op[1]); return []
    if c == P_SETPLEN:
        o.packet_len = op[1]; return []
    if c == P_SETTLV:
        o.tlv = CfdpTlv(_enum(TlvType, op[1]), bytes(op[2:])); return []
    if c == P_TLVNONE:
        o.tlv = None; return []
    if c == P_SUBTYPE:
        o.tlv.tlv_type = _enum(TlvType, op[1]); return []
    if c == P_CC:
        o.condition_code = _enum(ConditionCode, op[1]); return []
    if c == P_HC:
        o.handler_code = _enum(FaultHandlerCode, op[1]); return []
    if c == P_ACTION:
        o.action_code = _enum(FilestoreActionCode, op[1]); return []
    if c == P_STATUS:
        o.status_code = _enum(FilestoreResponseStatusCode, op[1]); return []
    if c == P_FIRST:
        o.first_file_name = bytes(op[1:]).decode(); return []
    if c == P_SECOND:
        o.second_file_name = bytes(op[1:]).decode(); return []
    if c == P_MSG:
        o.filestore_msg = CfdpLv(bytes(op[1:])); return []
    if c == P_SUBMSG:
        ctx["lv_edited"] = True
        o.filestore_msg.value = bytes(op[1:]); return []
    raise _NotApplicable()


def _hstatus(f):
    try:
        return [0] + list(f())
    except _NotApplicable:
        return [1, 99]
    except HarnessInvariant:
        raise
    except Exception as e:
        return [1, canon_code(classify_exception(e))]


def _check_default_msg(repair=False):
    """FileStoreResponseTlv built without filestore_msg must start with an empty message whatever happened to other
    objects before (a default shared between objects is repaired at the start of a case so that only the case that
    edits it is reported)"""
    d = FileStoreResponseTlv(FilestoreActionCode.CREATE_FILE_SNM, FilestoreResponseStatusCode.CREATE_SUCCESS, "")
    if bytes(d.filestore_msg.value) != b"" or d.filestore_msg.value_len != 0 or d.tlv is not None:
        seen = bytes(d.filestore_msg.value)
        d.filestore_msg.value = bytes()
        if "value_len" in vars(d.filestore_msg):
            d.filestore_msg.value_len = 0
        if not repair:
            raise HarnessInvariant("shared default: a FileStoreResponseTlv built without filestore_msg starts with message %r"
                                   % (seen,))


def _check_callers(kind, ctx):
    """caller-side objects: argument buffers, the CfdpLv / CfdpTlv handed in, the first of two conversions"""
    if "buf" in ctx and kind != 0 and bytes(ctx["buf"]) != ctx["buf0"]:
        raise HarnessInvariant("the caller's bytearray argument was modified")
    if "lv" in ctx and not ctx.get("lv_edited") and (bytes(ctx["lv"].value), ctx["lv"].value_len) != ctx["lv0"]:
        raise HarnessInvariant("the caller's CfdpLv (filestore_msg argument) was modified")
    if "g" in ctx and kind in (10, 11):
        g = ctx["g"]
        if (g.tlv_type, bytes(g.value), g.value_len) != ctx["g0"]:
            raise HarnessInvariant("the caller's CfdpTlv (from_tlv / TlvHolder argument) was modified")
    if "first" in ctx and kind in (10, 11) and _hview(kind, ctx["first"]) != ctx["first0"]:
        raise HarnessInvariant("the object returned by the first TlvHolder conversion changed when the second one was edited")


def _history(a):
    kind, path = a[0]
    _check_default_msg(repair=True)
    ctx = {}
    o = _hnew(kind, path, a[1], a[2], a[3], a[4], ctx)
    _check_callers(kind, ctx)
    out = _hview(kind, o)
    for op in a[5:]:
        st = _hstatus(lambda: _hstep(kind, o, op, ctx))
        out.append(st)
        out += _hview(kind, o)
        if op[0] in (P_PACK, P_VALUE, P_GEN):
            _check_callers(kind, ctx)
    _check_callers(kind, ctx)
    _check_default_msg()
    # the same construction once more must give an object that reads like the first one did at its birth, whatever was
    # done to the first one since (shared singletons, memoised constructors / decoders)
    again = _hview(kind, _hnew(kind, path, a[1], a[2], a[3], a[4], {}))
    if again != out[:NVIEW[kind]]:
        raise HarnessInvariant("building the same object again after the history gives %s, the first one started as %s: "
                               "state is shared between objects" % (again[:4], out[:NVIEW[kind]][:4]))
    return out


def _holder(a):
    mode = a[0][0]
    if mode == 0:
        return TlvHolder(None)
    t = _gtlv(a, 1)
    if mode == 1:
        return TlvHolder(t)
    return TlvHolder(CLS[int(t.tlv_type)].from_tlv(t))


def _both(dec, view, data):
    """a decoder fed bytes, and fed a bytearray that is overwritten right after the call: the decoded object must
    show the same fields (nothing may keep a reference into the caller's buffer)"""
    def run(mk, after):
        buf = mk(data)
        try:
            o = dec(buf)
        except Exception as e:
            return None, e
        after(buf)
        return view(o), None
    r1, e1 = run(bytes, lambda b: None)
    r2, e2 = run(bytearray, _scribble)
    if (e1 is None) != (e2 is None) or (e1 is not None and classify_exception(e1) != classify_exception(e2)):
        raise HarnessInvariant("bytes input gives %r, the same octets as bytearray give %r" % (e1 or "an object", e2 or "an object"))
    if e1 is not None:
        raise e1
    if r1 != r2:
        raise HarnessInvariant("decoding a bytearray that is overwritten afterwards gives %s, decoding bytes gives %s" % (r2[:4], r1[:4]))
    return r1


# ------------------------------------------------------------------ explorations outside the model (op 1099)
class _UserPath(PurePosixPath):
    """a caller's own path class"""


PATH_CLASSES = [Path, PurePosixPath, PureWindowsPath, _UserPath]
X_PATHS, X_FRESH, X_SPLIT = 0, 1, 2


def _x_paths(a):
    """CfdpLv.from_path(p) carries exactly str(p) -- what pathlib itself yields for the object -- for every path class;
    from_str(s) carries exactly s"""
    pcls = PATH_CLASSES[a[0][1]]
    s = bytes(a[1]).decode()
    p = pcls(s)
    for what, arg, want in (("from_path", p, str(p).encode()), ("from_str", s, s.encode())):
        try:
            lv = getattr(CfdpLv, what)(arg)
        except ValueError:
            if len(want) > 255:
                continue
            return ("CfdpLv.%s/refused" % what, "%s(%r) raised ValueError" % (what, arg))
        if len(want) > 255:
            return ("CfdpLv.%s/too-long-accepted" % what, "%s(%r): %d octets accepted" % (what, arg, len(want)))
        if bytes(lv.value) != want or bytes(lv.pack()) != bytes([len(want)]) + want or lv.packet_len != len(want) + 1:
            return ("CfdpLv.%s/value-is-not-the-text-of-the-argument" % what,
                    "%s(%r) carries %r, str() of the argument is %r" % (what, arg, bytes(lv.value), want))
        back = CfdpLv.unpack(bytes(lv.pack()) + b"\xaa")
        if bytes(back.value) != want:
            return ("CfdpLv.%s/roundtrip" % what, "%r decoded as %r" % (want, bytes(back.value)))
    return None


GETTERS = ["value", "pack()", "tlv.value", "tlv.pack()", "filestore_msg.value", "filestore_msg.pack()",
           "(caller) value argument", "(caller) filestore_msg argument.value", "(caller) from_tlv argument.value"]
EDITS = ["flip every octet", "extend", "truncate", "flip and extend", "clear", "insert in front"]
_FRESH = None


def fresh_getters():
    """{class name: {getter: [observations that stay the same when the buffer it returned is edited]}} as measured on the
    UNCHANGED tree by tools/gen_fresh_getters.py; only getters whose edit leaves pack() and packet_len alone are kept"""
    global _FRESH
    if _FRESH is None:
        try:
            j = json.load(open(os.path.join(os.path.dirname(__file__), "fresh_getters.json")))[ID]
        except Exception:
            j = {}
        _FRESH = {c: {g: set(e["stable"]) for g, e in gs.items() if e.get("fresh")} for c, gs in j.items()}
    return _FRESH


def _get_buffer(o, ctx, g):
    """what getter number g hands out (None: does not apply to this object now)"""
    try:
        if g == 0:
            return o.value
        if g == 1:
            return o.pack()
        if g in (2, 3):
            t = getattr(o, "tlv", None)
            return None if t is None else (t.value if g == 2 else t.pack())
        if g in (4, 5):
            m = getattr(o, "filestore_msg", None)
            return None if m is None else (m.value if g == 4 else m.pack())
        if g == 6:
            return ctx.get("buf")
        if g == 7:
            return ctx["lv"].value if "lv" in ctx else None
        if g == 8:
            return ctx["g"].value if "g" in ctx else None
    except Exception:
        return None
    return None


def _edit(buf, how):
    if how in (0, 3):
        for i in range(len(buf)):
            buf[i] ^= 0xFF
    if how in (1, 3):
        buf.extend(b"\x5a\xa5\x00")
    if how == 2:
        del buf[len(buf) // 2:]
    if how == 4:
        del buf[:]
    if how == 5:
        buf[0:0] = b"\x07\x01"


def _observe(kind, o):
    """every public view of the object, named; the ones that (re)build a cache come last"""
    def w(f):
        try:
            r = f()
            return [0] + (list(r) if isinstance(r, (bytes, bytearray, list, tuple)) else [int(r)])
        except Exception as e:
            return [1, canon_code(classify_exception(e))]
    obs = []
    if kind in (0, 1):
        if kind == 1:
            obs.append(("tlv_type", w(lambda: o.tlv_type)))
        obs += [("value", w(lambda: o.value)), ("value_len", w(lambda: o.value_len))]
    elif kind in (10, 11):
        obs += [("action_code", w(lambda: o.action_code)), ("first_file_name", w(lambda: o.first_file_name.encode())),
                ("second_file_name", w(lambda: o.second_file_name.encode()))]
        if kind == 11:
            obs += [("status_code", w(lambda: o.status_code)), ("filestore_msg.value", w(lambda: o.filestore_msg.value)),
                    ("filestore_msg.value_len", w(lambda: o.filestore_msg.value_len))]
        obs.append(("tlv (the cached CfdpTlv, before pack)", w(lambda: _cache_view(o.tlv))))
    else:
        obs += [("tlv_type", w(lambda: o.tlv_type)), ("tlv.tlv_type", w(lambda: o.tlv.tlv_type)), ("tlv.value_len", w(lambda: o.tlv.value_len))]
        if kind == 14:
            obs += [("condition_code", w(lambda: o.condition_code)), ("handler_code", w(lambda: o.handler_code))]
    obs += [("packet_len", w(lambda: o.packet_len)), ("pack()", w(o.pack)), ("packet_len after pack", w(lambda: o.packet_len))]
    if kind >= 10:
        obs.append(("value", w(lambda: o.value)))
    if kind in (10, 11):
        obs.append(("tlv (the cached CfdpTlv, after pack / value)", w(lambda: _cache_view(o.tlv))))
    return obs


def _x_fresh(a, measure=False):
    """twins: the same construction and the same operations; on twin B getter g is read at the marked positions and the
    bytearray it returned is edited in place.  Returns (class name, getter, was a bytearray edited, names of the observations
    in which the twins differ)"""
    kind, path = a[1]
    g, how, mask = a[2]
    ops = a[7:]
    ca, cb = {}, {}
    try:
        A = _hnew(kind, path, a[3], a[4], a[5], a[6], ca)
        B = _hnew(kind, path, a[3], a[4], a[5], a[6], cb)
    except Exception:
        return (HNAME[kind], GETTERS[g], False, [], False, [])
    edited, differ, applied, names = False, [], False, []
    for n in range(len(ops) + 1):
        if (mask >> n) & 1:
            _get_buffer(A, ca, g)                     # reading alone may fill a cache: both twins read, one edits
            buf = _get_buffer(B, cb, g)
            applied = applied or buf is not None
            if isinstance(buf, bytearray):
                _edit(buf, how); edited = True
        for (nm, x), (_, y) in zip(_observe(kind, A), _observe(kind, B)):
            if nm not in names:
                names.append(nm)
            if x != y and nm not in differ:
                differ.append(nm)
        if n < len(ops):
            ra = _hstatus(lambda: _hstep(kind, A, ops[n], ca))
            rb = _hstatus(lambda: _hstep(kind, B, ops[n], cb))
            if ra != rb and "result of the next operation" not in differ:
                differ.append("result of the next operation")
    return (type(A).__name__, GETTERS[g], edited, differ, applied, names + ["result of the next operation"])


def _x_fresh_check(a):
    cls, getter, edited, differ = _x_fresh(a)[:4]
    stable = fresh_getters().get(cls, {}).get(getter)
    if stable is None:
        return None
    bad = [d for d in differ if d in stable]
    if bad:
        return ("%s.%s/editing-the-returned-buffer-changes-the-object" % (cls, getter),
                "%s built by path %d: after `%s` was read and the returned bytearray edited (%s) the object differs from an untouched "
                "twin in %s (history %s)" % (cls, a[1][1], getter, EDITS[a[2][1]], bad, [x[:6] for x in a[7:]]))
    return None


def _walk_units(data, mode):
    """split a buffer of back-to-back items purely by the lengths the decoded objects report; yields (offset, reported
    length, re-packed octets)"""
    conv = {0: "to_fs_request", 1: "to_fs_response", 2: "to_msg_to_user", 4: "to_fault_handler_override", 5: "to_flow_label",
            6: "to_entity_id"}
    i, out = 0, []
    while i < len(data):
        rest = data[i:]
        if mode == 5:
            o = CfdpLv.unpack(bytes(rest))
        elif mode == 4:
            o = CfdpTlv.unpack(bytes(rest))
        else:
            t = rest[0]
            if t not in CLS:
                raise ValueError("type octet %d at offset %d" % (t, i))
            if mode == 0:
                o = CLS[t].unpack(bytes(rest))
            elif mode == 1:
                buf = bytearray(rest); o = CLS[t].unpack(buf); _scribble(buf)
            elif mode == 2:
                o = CLS[t].from_tlv(CfdpTlv.unpack(bytes(rest)))
            else:
                o = getattr(TlvHolder(CfdpTlv.unpack(bytes(rest))), conv[t])()
        n = o.packet_len
        p = bytes(o.pack())
        out.append((i, n, p))
        if n <= 0:
            raise ValueError("reported length %d" % n)
        i += n
    return out


def _x_split(a):
    mode = a[0][1]
    data = a[1]
    hdr = 1 if mode == 5 else 2
    want, i = [], 0
    while i < len(data):                     # the declared boundaries
        n = hdr + data[i + hdr - 1]
        want.append((i, n, bytes(data[i:i + n]))); i += n
    name = "CfdpLv.unpack" if mode == 5 else "CfdpTlv.unpack" if mode == 4 else \
        ["<Class>.unpack", "<Class>.unpack(bytearray)", "<Class>.from_tlv", "TlvHolder.to_*"][mode]
    try:
        got = _walk_units(data, mode)
    except Exception as e:
        return ("%s/back-to-back-units-not-split-by-reported-length" % name,
                "walking %d units by the reported lengths raised %r" % (len(want), e))
    if got != want:
        k = next((j for j in range(min(len(got), len(want))) if got[j] != want[j]), min(len(got), len(want)))
        return ("%s/back-to-back-units-not-split-by-reported-length" % name,
                "unit %d: declared (offset, length, octets) %s, the decoded object reports %s" % (
                    k, want[k:k + 1] and (want[k][0], want[k][1], list(want[k][2][:12])), got[k:k + 1] and (got[k][0], got[k][1], list(got[k][2][:12]))))
    return None


def _explore(a):
    sub = a[0][0]
    if sub == X_PATHS:
        return _x_paths(a)
    if sub == X_FRESH:
        return _x_fresh_check(a)
    if sub == X_SPLIT:
        return _x_split(a)
    raise RuntimeError("bad exploration")


def impl(op, a):
    if op == 1099:
        return [[1]] if _explore(a) is None else [[0, a[0][0]]]
    if op == 1060:
        return _history(a)
    if op == 1000:
        v = CfdpLv(bytes(a[0])); return [list(v.pack()), [v.packet_len], list(v.value)]
    if op == 1001:
        return _both(CfdpLv.unpack, lambda v: [list(v.value), [v.packet_len], list(v.pack())], a[0])
    if op == 1002:
        return [[int(CfdpLv(bytes(a[0])) == CfdpLv(bytes(a[1])))]]
    if op == 1007:
        v = CfdpLv.from_str(bytes(a[0]).decode()); w = CfdpLv.from_path(Path(bytes(a[0]).decode())) if a[0] and 0 not in a[0] else v
        if v.pack() != w.pack() and str(Path(bytes(a[0]).decode())) == bytes(a[0]).decode():
            raise RuntimeError("from_path differs from from_str")
        return [list(v.pack()), [v.packet_len], list(v.value)]
    if op == 1003:
        return _tlv_view(_gtlv(a))
    if op == 1004:
        return _both(CfdpTlv.unpack, _tlv_view, a[0])
    if op == 1005:
        return [[int(_gtlv(a, 0) == _gtlv(a, 2))]]
    if op == 1006:
        _gtlv(a).check_type(_enum(TlvType, a[2][0])); return [[0]]
    if op == 1010:
        return _wrap_view(EntityIdTlv(bytes(a[0])))
    if op == 1011:
        return _both(EntityIdTlv.unpack, _wrap_view, a[0])
    if op == 1012:
        return _wrap_view(EntityIdTlv.from_tlv(_gtlv(a)))
    if op == 1013:
        return [[int(EntityIdTlv(bytes(a[0])) == EntityIdTlv(bytes(a[1])))]]
    if op == 1014:
        return _wrap_view(FlowLabelTlv(bytes(a[0])))
    if op == 1015:
        return _both(FlowLabelTlv.unpack, _wrap_view, a[0])
    if op == 1016:
        return _wrap_view(FlowLabelTlv.from_tlv(_gtlv(a)))
    if op == 1017:
        return _fault_view(FaultHandlerOverrideTlv(_enum(ConditionCode, a[0][0]), _enum(FaultHandlerCode, a[0][1])))
    if op == 1018:
        return _both(FaultHandlerOverrideTlv.unpack, _fault_view, a[0])
    if op == 1019:
        return _fault_view(FaultHandlerOverrideTlv.from_tlv(_gtlv(a)))
    if op == 1020:
        return _wrap_view(MessageToUserTlv(bytes(a[0])))
    if op == 1021:
        return _both(MessageToUserTlv.unpack, _wrap_view, a[0])
    if op == 1022:
        return _wrap_view(MessageToUserTlv.from_tlv(_gtlv(a)))
    if op == 1023:
        return _fsreq_view(FileStoreRequestTlv(_enum(FilestoreActionCode, a[0][0]), bytes(a[1]).decode(), bytes(a[2]).decode()))
    if op == 1024:
        return _both(FileStoreRequestTlv.unpack, _fsreq_view, a[0])
    if op == 1025:
        return _fsreq_view(FileStoreRequestTlv.from_tlv(_gtlv(a)))
    if op == 1026:
        return _fsresp_view(FileStoreResponseTlv(_enum(FilestoreActionCode, a[0][0]), _enum(FilestoreResponseStatusCode, a[0][1]),
                                                 bytes(a[1]).decode(), bytes(a[2]).decode(), CfdpLv(bytes(a[3]))))
    if op == 1027:
        return _both(FileStoreResponseTlv.unpack, _fsresp_view, a[0])
    if op == 1028:
        return _fsresp_view(FileStoreResponseTlv.from_tlv(_gtlv(a)))
    if 1030 <= op <= 1035:
        h = _holder(a)
        f = [h.to_fs_request, h.to_fs_response, h.to_msg_to_user, h.to_fault_handler_override, h.to_flow_label, h.to_entity_id][op - 1030]
        return _any_view(f())
    if op == 1040:
        return [[int(map_enum_status_code_to_int(_enum(FilestoreResponseStatusCode, a[0][0])))]]
    if op == 1041:
        x, y = map_enum_status_code_to_action_status_code(_enum(FilestoreResponseStatusCode, a[0][0])); return [[int(x), int(y)]]
    if op == 1042:
        return [[int(map_int_status_code_to_enum(_enum(FilestoreActionCode, a[0][0]), a[0][1]))]]
    if op == 1043:
        try:
            s = bytes(a[0]).decode()
        except UnicodeDecodeError:
            return [[0], [0]]
        assert list(s.encode()) == list(a[0])
        return [[1], [len(s)]]
    raise RuntimeError("bad op")


# ------------------------------------------------------------------ independent layouts (727.0-B-5 5.1.8, 5.1.9, 5.4)
def lv_bytes(v):
    return [len(v)] + list(v)


def tlv_bytes(t, v):
    return [t, len(v)] + list(v)


def fs_value(action, status4, first, second, msg=None):
    v = [action * 16 + status4] + lv_bytes(first)
    if action in TWO:
        v += lv_bytes(second)
    if msg is not None:
        v += lv_bytes(msg)
    return v


def parse_lv(b, i):
    """-> (value, next index) or None when the LV is not completely inside b"""
    if i >= len(b) or i + 1 + b[i] > len(b):
        return None
    return b[i + 1:i + 1 + b[i]], i + 1 + b[i]


def utf8_ok(b):
    try:
        bytes(b).decode(); return True
    except UnicodeDecodeError:
        return False


def parse_fs(v, response):
    """independent reading of a filestore request/response TLV value; None = not well-formed"""
    if len(v) < 1 or v[0] >> 4 > 8:
        return None
    action, st = v[0] >> 4, v[0] & 15
    r = parse_lv(v, 1)
    if r is None or not utf8_ok(r[0]):
        return None
    first, i = r
    second = []
    if action in TWO:
        r = parse_lv(v, i)
        if r is None or not utf8_ok(r[0]):
            return None
        second, i = r
    if not response:
        return (action, first, second) if i == len(v) else None     # surplus octets: declared length != content
    if action * 16 + st not in STATUS:
        return None
    r = parse_lv(v, i)
    if r is None or r[1] != len(v):
        return None
    return action, action * 16 + st, first, second, r[0]


# ------------------------------------------------------------------ generators
CH = [[0x41], [0x7f], [0x00], [0xc2, 0x80], [0xc3, 0xa4], [0xdf, 0xbf], [0xe0, 0xa0, 0x80], [0xe2, 0x82, 0xac],
      [0xed, 0x9f, 0xbf], [0xee, 0x80, 0x80], [0xef, 0xbf, 0xbf], [0xf0, 0x90, 0x80, 0x80], [0xf0, 0x9d, 0x84, 0x9e],
      [0xf4, 0x8f, 0xbf, 0xbf], [0x2f], [0x2e],
      # characters text codecs treat specially: U+FEFF (byte-order mark), U+2028, NEL, U+FFFE, space, LF
      [0xef, 0xbb, 0xbf], [0xe2, 0x80, 0xa8], [0xc2, 0x85], [0xef, 0xbf, 0xbe], [0x20], [0x0a]]
# name CONTENT (round 4).  A file name is an opaque octet string to the protocol; these fragments change under some text
# transformation a well-meaning decoder / encoder might apply (each one verified with unicodedata):
NORM = [
    [0x65, 0xcc, 0x81],                                       # e + U+0301: not NFC-stable (what HFS+/APFS list)
    [0xc3, 0xa9],                                             # U+00E9 precomposed: not NFD-stable
    [0xe2, 0x84, 0xab], [0xe2, 0x84, 0xa6], [0xe2, 0x84, 0xaa],   # ANGSTROM / OHM / KELVIN SIGN: singletons
    [0xef, 0xa4, 0x80], [0xef, 0xa7, 0xbf], [0xef, 0xa8, 0xb0], [0xef, 0xab, 0x99],   # CJK compatibility ideographs U+F900..U+FAD9
    [0xe1, 0x84, 0x80, 0xe1, 0x85, 0xa1],                     # Hangul jamo L V (compose to U+AC00)
    [0xe1, 0x84, 0x92, 0xe1, 0x85, 0xb5, 0xe1, 0x86, 0xab],   # Hangul jamo L V T
    [0xea, 0xb0, 0x80],                                       # U+AC00 precomposed syllable: not NFD-stable
    [0x71, 0xcc, 0x87, 0xcc, 0xa3],                           # q + dot above + dot below: canonical reordering
    [0xcd, 0xb4], [0xcd, 0x80], [0xe0, 0xa5, 0x98],           # U+0374, U+0340, U+0958: composition exclusions / singletons
    [0xef, 0xac, 0x81], [0xef, 0xbc, 0xa1], [0xef, 0xbc, 0x8f], [0xef, 0xbd, 0xa1],   # fi ligature, fullwidth A, fullwidth solidus, halfwidth stop: NFKC
    [0xc2, 0xb5], [0xc2, 0xb2], [0xc2, 0xbd], [0xe2, 0x80, 0xa4],                     # micro sign, superscript 2, one half, one dot leader: NFKC
    [0xc3, 0x9f], [0xc4, 0xb0], [0xc7, 0x85], [0xe1, 0xba, 0x9b, 0xcc, 0xa3],         # sharp s, I with dot, Dz digraph: case mappings change the length
    [0xc2, 0xa0], [0xe3, 0x80, 0x80], [0xe2, 0x80, 0x80], [0xe2, 0x80, 0x8b], [0x09], [0x0d],   # spaces str.strip() removes, zero width space, TAB, CR
]
def _unstable(form):
    return [f for f in NORM if unicodedata.normalize(form, bytes(f).decode()) != bytes(f).decode()]


NORM_NFC = _unstable("NFC")
NORM_NFD = [f for f in _unstable("NFD") if f not in NORM_NFC]
NORM_NFKC = [f for f in _unstable("NFKC") if f not in NORM_NFC and f not in NORM_NFD]
NORM_CASE = [f for f in NORM if len({bytes(f).decode(), bytes(f).decode().lower(), bytes(f).decode().upper(), bytes(f).decode().casefold()}) > 1]


def norm_name(rng):
    """one name that changes under each of NFC, NFD, NFKC, the case mappings and (half of the time) strip()"""
    parts = [rng.choice(NORM_NFC), rng.choice(NORM_NFD), rng.choice(NORM_NFKC), rng.choice(NORM_CASE)]
    rng.shuffle(parts)
    return [x for p_ in parts for x in p_] + rng.choice([[], [0x20], [0x09]])


# names a path library would rewrite (collapsed '..', '.', '//', trailing '/', home directory, drive / backslash forms)
PATHY = [list(x.encode()) for x in (
    "..", "../x", "a/..", "/a/../b", "a/../../b", "/..", "a/../", ".", "./a", "a/.", "a/./b", "a//b", "//a", "///a", "a/", "/",
    "~", "~/x", "~root/x", "C:\\x", "a\\..\\b", " a", "a ", "a/ ", "$HOME/x", "%2e%2e/x", "....", "..a", "a..")]
PATH_PRE = [list(x.encode()) for x in ("../", "/a/../", "./", "//", "~/", "/../", "a//", "../../", " ")]
PATH_SUF = [list(x.encode()) for x in ("/..", "/.", "/", "/../x", "//x", "/~", " ", ".")]
# content that repeats the format's own delimiters: an LV / TLV / filestore header inside a value or a name, the marker of the
# reserved messages, every octet equal to the length octet in front of it
MAGIC = [[1, 1], [2, 2, 2], [3, 3, 3, 3], [5] * 5, [0, 0], [0x63, 0x66, 0x64, 0x70], [2, 5, 0x63, 0x66, 0x64, 0x70, 0],
         [0, 3, 0, 1, 0x41], [1, 4, 0, 1, 0x41, 0], [6, 1, 5], [4, 1, 0x21], [0x10, 1, 0x41], [0x20, 1, 0x41, 1, 0x42]]
SPECIAL_NAMES = NORM + PATHY + MAGIC
BADUTF = [[0xff], [0x80], [0xc0, 0x80], [0xc3], [0xe2, 0x82], [0xed, 0xa0, 0x80], [0xf4, 0x90, 0x80, 0x80],
          [0xe0, 0x80, 0x80], [0xf0, 0x80, 0x80, 0x80], [0xf5, 0x80, 0x80, 0x80], [0xc3, 0x28], [0x41, 0xfe]]
LENS = [0, 1, 2, 3, 63, 64, 127, 128, 200, 250, 251, 252, 253, 254, 255]


def rbytes(rng, n):
    return [rng.randrange(256) for _ in range(n)]


def rname(rng, n, ascii_only=False):
    """valid UTF-8 of exactly n octets"""
    out, tail = [], []
    r = rng.random()
    if not ascii_only and n >= 3 and r < 0.08:
        out = [0xef, 0xbb, 0xbf]          # a name that STARTS with U+FEFF (a "utf-8-sig" style decoder drops it)
    elif n >= 1 and r < 0.2:              # path-shaped: up-level references, '.', '//', trailing '/', '~', blanks at the ends
        pre, suf = rng.choice(PATH_PRE + [[]]), rng.choice(PATH_SUF + [[]])
        if len(pre) + len(suf) <= n:
            out, tail = list(pre), list(suf)
    elif n >= 1 and r < 0.26:             # the format's own delimiters inside the name
        m = rng.choice(MAGIC)
        if len(m) <= n:
            out = list(m)
    pool = CH + (NORM if rng.random() < 0.5 else [])
    while len(out) + len(tail) < n:
        c = [rng.randrange(0x20, 0x7f)] if ascii_only or rng.random() < 0.5 else rng.choice(pool)
        if len(out) + len(tail) + len(c) <= n:
            out += c
    return out + tail


def rstatus(rng, action):
    return rng.choice([s for s in STATUS if s >= 0 and s >> 4 == action])


def valid_units(rng, n=1):
    """packed valid TLVs of every kind: list of (type, octets)"""
    out = []
    for k in range(n):
        out.append((6, tlv_bytes(6, rbytes(rng, rng.choice([1, 2, 4, 8])))))
        out.append((5, tlv_bytes(5, rbytes(rng, rng.randrange(0, 12)))))
        out.append((2, tlv_bytes(2, rbytes(rng, rng.randrange(0, 12)))))
        out.append((4, tlv_bytes(4, [rng.randrange(256)])))
        # every other unit carries a name that is not stable under normalisation / path clean-up / contains delimiters
        sp = (lambda: rng.choice(NORM_NFC) if k % 4 == 0 else rng.choice([norm_name(rng), rng.choice(SPECIAL_NAMES)])) \
            if k % 2 == 0 else (lambda: rname(rng, rng.randrange(0, 9)))
        a = rng.choice(ACTIONS)
        out.append((0, tlv_bytes(0, fs_value(a, 0, sp(), rname(rng, rng.randrange(0, 9))))))
        a = rng.choice(ACTIONS)
        out.append((1, tlv_bytes(1, fs_value(a, rstatus(rng, a) & 15, rname(rng, rng.randrange(0, 9)),
                                             sp() if a in TWO else rname(rng, rng.randrange(0, 9)), rbytes(rng, rng.randrange(0, 6))))))
        if k % 2 == 0:
            a = rng.choice(TWO)
            out.append((0, tlv_bytes(0, fs_value(a, 0, rname(rng, rng.randrange(0, 4)), norm_name(rng)))))
            a = rng.choice(ACTIONS)
            out.append((1, tlv_bytes(1, fs_value(a, rstatus(rng, a) & 15, norm_name(rng), sp(), rng.choice(MAGIC)))))
            t = rng.choice([2, 5])
            out.append((t, tlv_bytes(t, rng.choice(MAGIC))))
    return out


# ------------------------------------------------------------------ history generators (op 1060)
TAILS = [[0xc2, 0x80], [0xdf, 0xbf], [0xe2, 0x82, 0xac], [0xef, 0xbf, 0xbf], [0xf0, 0x90, 0x80, 0x80], [0xf4, 0x8f, 0xbf, 0xbf]]
HLENS = [0, 0, 1, 1, 2, 3, 5, 8, 31, 63, 64, 120, 126, 127, 128, 200, 249, 250, 251, 252, 253, 254, 255]
PATHS = {0: [0, 1, 2, 3, 4, 5], 1: [0, 1, 4, 5]}
for _k in (10, 11, 12, 14, 15, 16):
    PATHS[_k] = [0, 1, 4, 5, 6, 7, 8, 9]
CCS = [0, 1, 2, 3, 4, 5, 6, 7, 8, 10, 11, 14, 15]
HCS = [1, 2, 3, 4]


def rname_tail(rng, n):
    """valid UTF-8 of exactly n octets whose LAST character is a multi-octet one when there is room"""
    tails = [t for t in TAILS if len(t) <= n]
    if not tails or rng.random() < 0.3:
        return rname(rng, n)
    t = rng.choice(tails)
    return rname(rng, n - len(t)) + t


def rbytes_special(rng, n):
    """octet strings with special patterns: all 0x80 / 0xFF / 0x00, every octet equal to the length octet in front of the
    value, items of the format itself (LV / TLV / reserved-message marker) repeated, or random"""
    k = rng.randrange(8)
    if k == 5:
        return [n & 255] * n
    if k == 6:
        m = rng.choice(MAGIC)
        return (m * (n // len(m) + 1))[:n]
    return [0x80] * n if k == 0 else [0xFF] * n if k == 1 else [0] * n if k == 2 else rbytes(rng, n)


def fs_args(rng, resp, tight=None):
    """constructor arguments of a filestore request / response; tight = wanted total value length (or None)"""
    a = rng.choice(ACTIONS)
    two = a in TWO
    if tight is None:
        l1 = rng.choice(HLENS[:14]); l2 = rng.choice(HLENS[:12]); lm = rng.choice([0, 0, 1, 2, 9, 40])
    else:
        room = tight - 2 - (1 if two else 0) - (1 if resp else 0)      # octets left for the names and the message
        l1 = rng.choice([0, 1, room // 2, room - 1, room]) if room > 0 else 0
        l1 = max(0, min(l1, 255, room))
        l2 = max(0, min(rng.choice([0, 1, room - l1]), 255, room - l1)) if two else rng.choice([0, 3])
        lm = max(0, min(room - l1 - (l2 if two else 0), 255)) if resp else 0
    st = (rstatus(rng, a) if rng.random() < 0.85 else rng.choice([x for x in STATUS if x >= 0])) if resp else 0
    return [a, st], rname_tail(rng, l1), rname_tail(rng, l2), (rbytes_special(rng, lm) if resp else [])


def hist_new_args(rng, kind, path):
    """(a1, a2, a3, a4) for hnew"""
    if kind == 0:
        n = rng.choice(HLENS + [256, 300])
        if path in (2, 3):
            return [], rname_tail(rng, n), [], []
        if path in (4, 5):
            v = rbytes_special(rng, min(n, 255))
            return [], lv_bytes(v) + rbytes(rng, rng.choice([0, 0, 1, 7, 300, 600])), [], []
        return [], rbytes_special(rng, n), [], []
    if kind == 1:
        n = rng.choice(HLENS + [256, 300])
        if path in (4, 5):
            v = rbytes_special(rng, min(n, 255))
            return [], tlv_bytes(rng.choice(TLV_TYPES), v) + rbytes(rng, rng.choice([0, 0, 1, 7, 300, 600])), [], []
        return [rng.choice(TLV_TYPES * 3 + [3, 7, 255, 256, -1])], rbytes_special(rng, n), [], []
    t = kind - 10
    if t in (2, 5, 6):
        n = rng.choice([1, 2, 4, 8] * 3 + HLENS) if t == 6 else rng.choice(HLENS)
        v = rbytes_special(rng, n)
        if path in (0, 1):
            return [], (v if rng.random() < 0.9 else rbytes(rng, rng.choice([256, 300]))), [], []
        if path in (4, 5):
            return [], tlv_bytes(t, v) + rbytes(rng, rng.choice([0, 0, 2, 300, 600])), [], []
        return [t if rng.random() < 0.9 else rng.choice(TLV_TYPES)], v, [], []
    if t == 4:
        cc, hc = rng.choice(CCS), rng.choice(HCS)
        if path in (0, 1):
            return [cc, hc], [], [], []
        v = [cc * 16 + hc] + (rbytes(rng, rng.choice([0, 0, 0, 1, 3])))
        if path in (4, 5):
            return [], tlv_bytes(4, v) + rbytes(rng, rng.choice([0, 0, 2, 600])), [], []
        return [4 if rng.random() < 0.9 else rng.choice(TLV_TYPES)], v, [], []
    resp = t == 1
    a1, n1, n2, m = fs_args(rng, resp, rng.choice([None, None, None, 253, 254, 255, 256]))
    if path in (0, 1):
        return a1, n1, n2, m
    val = fs_value(a1[0], (a1[1] & 15) if resp else rng.choice([0, 0, 5]), n1, n2, m if resp else None)
    if len(val) > 255:
        a1, n1, n2, m = fs_args(rng, resp)
        val = fs_value(a1[0], (a1[1] & 15) if resp else 0, n1, n2, m if resp else None)
    if path in (4, 5):
        return [], tlv_bytes(t, val) + rbytes(rng, rng.choice([0, 0, 2, 300, 600])), [], []
    return [t if rng.random() < 0.92 else rng.choice(TLV_TYPES)], val, [], []


def hist_op(rng, kind, c, st):
    """one operation with code c; st carries what the generator remembers (current action code)"""
    t = kind - 10
    if c in (P_PACK, P_VALUE, P_GEN, P_TLVNONE):
        return [c]
    if c == P_SETVALUE:
        return [c] + rbytes_special(rng, rng.choice([0, 1, 2, 5, 64, 254, 255, 256, 300] if kind == 0 else [0, 1, 3]))
    if c == P_INPLACE:
        v = rbytes(rng, rng.choice([0, 1, 3, 250, 255])); x = rbytes(rng, rng.choice([0, 1, 2, 6]))
        return [c, len(v)] + v + x
    if c in (P_SETTYPE, P_SUBTYPE):
        own = t if kind >= 10 else rng.choice(TLV_TYPES)
        return [c, rng.choice([own] * 4 + TLV_TYPES + [3, 7, 0x80, 255, 256, -1])]
    if c == P_SETPLEN:
        return [c, rng.choice([0, 1, 2, 255, 256, 70000])]
    if c == P_SETTLV:
        own = t if rng.random() < 0.7 else rng.choice(TLV_TYPES + [3, 255, 256])
        if t == 4 and rng.random() < 0.6:
            return [c, own, rng.choice(CCS) * 16 + rng.choice(HCS)]
        if t in (0, 1) and rng.random() < 0.6:
            a1, n1, n2, m = fs_args(rng, t == 1)
            return [c, own] + fs_value(a1[0], a1[1] & 15, n1[:20], n2[:20] if utf8_ok(n2[:20]) else [], m if t == 1 else None)[:255]
        return [c, own] + rbytes_special(rng, rng.choice([0, 1, 1, 2, 4, 8, 255, 256]))
    if c == P_CC:
        return [c, rng.choice(CCS)]
    if c == P_HC:
        return [c, rng.choice(HCS)]
    if c == P_ACTION:
        st["action"] = rng.choice(ACTIONS)
        return [c, st["action"]]
    if c == P_STATUS:
        a = st.get("action")
        if a is not None and rng.random() < 0.8:
            return [c, rstatus(rng, a)]
        return [c, rng.choice([x for x in STATUS if x >= 0])]
    if c in (P_FIRST, P_SECOND):
        return [c] + rname_tail(rng, rng.choice(HLENS[:16] + [250, 253, 255, 256, 300]))
    if c == P_MSG:
        return [c] + rbytes_special(rng, rng.choice([0, 1, 2, 50, 200, 255, 256]))
    if c == P_SUBMSG:
        return [c] + rbytes_special(rng, rng.choice([0, 1, 3, 60, 255, 256, 300]))
    raise RuntimeError("no generator for op code %d" % c)


def hist_random(rng, kind, path):
    a1, a2, a3, a4 = hist_new_args(rng, kind, path)
    st = {"action": a1[0] if kind in (10, 11) and path in (0, 1) else None}
    codes = sorted(APPLIES[kind])
    weights = [6 if c == P_PACK else 3 if c in (P_VALUE, P_GEN) else 1 if c in (P_SETPLEN, P_TLVNONE) else 2 for c in codes]
    ops = []
    for _ in range(rng.randrange(0, 11)):
        if ops and rng.random() < 0.15:
            ops.append(list(ops[-1]))          # the same call again (same value assigned twice, pack twice)
        else:
            ops.append(hist_op(rng, kind, rng.choices(codes, weights)[0], st))
    if rng.random() < 0.7:
        ops += [[P_PACK], [P_PACK]]
    return (1060, [[kind, path], a1, a2, a3, a4] + ops[:12])


def hist_systematic(rng, kinds=KINDS):
    """every construction path x every applicable operation, before / after / between pack() and value"""
    out = []
    for kind in kinds:
        for path in PATHS[kind]:
            for c in sorted(APPLIES[kind]):
                if c in (P_PACK,):
                    continue
                for _ in range(2):
                    a1, a2, a3, a4 = hist_new_args(rng, kind, path)
                    st = {"action": a1[0] if kind in (10, 11) and path in (0, 1) else None}
                    o = hist_op(rng, kind, c, st)
                    o2 = hist_op(rng, kind, c, st)
                    shapes = [[o, [P_PACK], [P_PACK]], [[P_PACK], o, [P_PACK]], [o, list(o), [P_PACK]], [o, o2, [P_PACK], o, [P_PACK]]]
                    if P_VALUE in APPLIES[kind]:
                        shapes.append([[P_VALUE], o, [P_VALUE], [P_PACK]])
                    if P_GEN in APPLIES[kind]:
                        shapes.append([[P_GEN], o, [P_PACK], [P_GEN], [P_VALUE]])
                    out.append((1060, [[kind, path], a1, a2, a3, a4] + rng.choice(shapes)))
                    out.append((1060, [[kind, path], a1, a2, a3, a4] + rng.choice(shapes)))
    return out



def fresh_case(rng, kind, path, g):
    """a twin history (op 1099/1): construction, up to 8 operations, getter g read + edited at 1..3 positions"""
    a1, a2, a3, a4 = hist_new_args(rng, kind, path)
    st = {"action": a1[0] if kind in (10, 11) and path in (0, 1) else None}
    codes = sorted(APPLIES[kind])
    weights = [5 if c == P_PACK else 3 if c in (P_VALUE, P_GEN) else 1 if c in (P_SETPLEN, P_TLVNONE) else 2 for c in codes]
    ops = [hist_op(rng, kind, rng.choices(codes, weights)[0], st) for _ in range(rng.choice([0, 1, 2, 3, 5, 8]))]
    mask = 0
    for _ in range(rng.choice([1, 1, 2, 3])):
        mask |= 1 << rng.randrange(len(ops) + 1)
    return (1099, [[X_FRESH], [kind, path], [g, rng.randrange(len(EDITS)), mask], a1, a2, a3, a4] + ops)


def fresh_cases(rng, reps, every_getter=False):
    out = []
    for kind in KINDS:
        ok = fresh_getters().get(HNAME[kind], {})
        for path in PATHS[kind]:
            for g in range(len(GETTERS)):
                if every_getter or GETTERS[g] in ok:
                    out += [fresh_case(rng, kind, path, g) for _ in range(reps)]
    return out


def path_cases(rng, big):
    names = list(PATHY) + [list(f) for f in NORM] + [[], [0x61], list("/data/current/../archive".encode()), list("../listings/a.txt".encode())]
    for pre in PATH_PRE:
        for suf in PATH_SUF:
            names.append(pre + rname(rng, rng.randrange(0, 5), True) + suf)
    for n in [250, 253, 254, 255, 256, 257, 300]:      # the text of the path object is shorter / longer than the string it was made from
        names.append((list(b"a//") * 100)[:n]); names.append((list(b"./") * 3 + [0x62] * 300)[:n]); names.append((list(b"../") * 100)[:n])
        names.append(rname(rng, n))
    for _ in range(300 if big else 60):
        names.append(rname(rng, rng.choice([1, 2, 3, 5, 8, 13, 40])))
    return [(1099, [[X_PATHS, pc], nm]) for nm in names for pc in range(len(PATH_CLASSES))]


def split_cases(rng, big):
    out = []
    for _ in range(400 if big else 120):
        units = [d for (_, d) in valid_units(rng, 2)]
        rng.shuffle(units)
        k = rng.choice([1, 2, 3, 6, len(units)])
        data = [x for d in units[:k] for x in d]
        for mode in range(5):
            out.append((1099, [[X_SPLIT, mode], data]))
        lvs = [lv_bytes(rng.choice([rbytes_special(rng, rng.choice([0, 1, 2, 7, 255])), rng.choice(SPECIAL_NAMES), rname(rng, rng.randrange(0, 9))]))
               for _ in range(rng.choice([1, 2, 5]))]
        out.append((1099, [[X_SPLIT, 5], [x for d in lvs for x in d]]))
    return out



def all_decode_ops(data):
    return [(1004, [data])] + [(UNPACK_OP[t], [data]) for t in TLV_TYPES]


def streams(tier, rng):
    big = tier == "thorough"
    # 1. LV: every length 0..255 (+ refused lengths), every first octet against short buffers, suffixes, truncations
    cases = []
    for n in list(range(0, 256)) + [256, 257, 300, 1000]:
        v = rbytes(rng, n)
        cases.append((1000, [v]))
        if n <= 255:
            cases.append((1001, [lv_bytes(v)]))
            cases.append((1001, [lv_bytes(v) + rbytes(rng, rng.randrange(1, 9))]))
            cases.append((1001, [lv_bytes(v)[:-1]] if n else [[]]))
            cases.append((1002, [v, v])); cases.append((1002, [v, rbytes(rng, n)])); cases.append((1002, [v, v + [0]]))
    for n in LENS + [256, 300]:
        cases.append((1007, [rname(rng, n)])); cases.append((1007, [rname(rng, n, True)]))
    for d0 in range(256):
        for ln in (0, 1, 2, d0, d0 + 1, d0 + 2, 256, 257):
            cases.append((1001, [([d0] + rbytes(rng, ln))[:ln] if ln == 0 else [d0] + rbytes(rng, ln - 1)]))
    yield "exh_lv_lengths", "exact", cases
    # 2. generic TLV: all 65536 two-octet inputs; every type octet x length octet with the full value / one octet less / more
    cases = [(1004, [[t, l]]) for t in range(256) for l in range(256)]
    yield "exh_tlv_two_octets", "exact", cases
    cases = []
    for t in range(256):
        for l in ([0, 1, 2, 5, 254, 255] if not big else range(256)):
            v = rbytes(rng, l)
            cases.append((1004, [[t, l] + v]))
            cases.append((1004, [[t, l] + v + rbytes(rng, rng.randrange(1, 5))]))
            if l:
                cases.append((1004, [[t, l] + v[:-1]]))
    for t in list(range(-2, 258)) + [2 ** 16, 2 ** 64, -2 ** 63]:
        for l in (0, 1, 255, 256):
            cases.append((1003, [[t], rbytes(rng, l)]))
    for l in list(range(0, 256)) + [256, 257, 1000]:
        cases.append((1003, [[rng.choice(TLV_TYPES)], rbytes(rng, l)]))
    for ln in (0, 1):
        for t in range(256):
            cases.append((1004, [[t][:ln]]))
    for t1, t2 in itertools.product(TLV_TYPES + [7], repeat=2):
        v = rbytes(rng, 3)
        cases.append((1005, [[t1], v, [t2], v])); cases.append((1005, [[t1], v, [t2], v[:-1] + [v[-1] ^ 1]]))
        cases.append((1006, [[t1], v, [t2]]))
    yield "exh_tlv_type_len", "exact", cases
    # 3. all 256 values of the action/status octet through the filestore decoders; status helpers
    cases = []
    for b in range(256):
        n1, n2, m = rname(rng, 3), rname(rng, 2), rbytes(rng, 2)
        for val in (fs_value(b >> 4, b & 15, n1, n2), fs_value(b >> 4, b & 15, n1, n2, m),
                    [b] + lv_bytes(n1), [b] + lv_bytes(n1) + lv_bytes(n2) + lv_bytes(m)):
            cases.append((1024, [tlv_bytes(0, val)])); cases.append((1027, [tlv_bytes(1, val)]))
            cases.append((1025, [[0], val])); cases.append((1028, [[1], val]))
    for a in range(-1, 18):
        for s in STATUS + [3, 4, 14, 113, 144, 255, 256, -2]:
            cases.append((1026, [[a, s], rname(rng, 2), rname(rng, 2), rbytes(rng, 1)]))
        cases.append((1023, [[a], rname(rng, 2), rname(rng, 2)]))
    for c in range(-3, 260):
        cases.append((1040, [[c]])); cases.append((1041, [[c]]))
    for a in range(-1, 18):
        for s in list(range(-1, 18)) + [255, 256, 300]:
            cases.append((1042, [[a, s]]))
    yield "exh_action_status_octet", "exact", cases
    # 4. every class x every type octet: unpack, from_tlv, holder (None / generic / concrete object)
    cases = []
    for cls in TLV_TYPES:
        for t in range(256):
            vals = [rbytes(rng, rng.choice([1, 2, 4, 8])), fs_value(1, 0, rname(rng, 2), []),
                    fs_value(4, 0, rname(rng, 1), rname(rng, 2), rbytes(rng, 1)), []]
            for v in vals:
                cases.append((UNPACK_OP[cls], [tlv_bytes(t, v)]))
        for t in list(range(-1, 10)) + [255, 256]:
            for v in ([7], fs_value(0, 0, [65], [], [1])):
                cases.append((FROM_OP[cls], [[t], v]))
                cases.append((HOLDER_OP[cls], [[1], [t], v]))
        for t in TLV_TYPES:
            for v in ([7], [], fs_value(0, 0, [65], [], [1]), fs_value(2, 1, [65], [66, 67], [])):
                cases.append((HOLDER_OP[cls], [[2], [t], v]))
                cases.append((HOLDER_OP[cls], [[1], [t], v]))
        cases.append((HOLDER_OP[cls], [[0], [0], []]))
    yield "exh_class_x_type", "exact", cases
    # 5. structured valid: constructors with boundary lengths / names, decode of the packed form + suffix
    cases = []
    for n in LENS + [256, 257, 300]:
        v = rbytes(rng, n)
        for t in (2, 5, 6):
            cases.append((NEW_OP[t], [v]))
            if n <= 255:
                cases.append((UNPACK_OP[t], [tlv_bytes(t, v) + rbytes(rng, rng.randrange(0, 4))]))
                cases.append((FROM_OP[t], [[t], v]))
    for cc in range(-1, 18):
        for hc in range(-1, 18):
            cases.append((1017, [[cc, hc]]))
    for b in range(256):
        cases.append((1018, [tlv_bytes(4, [b])])); cases.append((1019, [[4], [b]]))
        cases.append((1018, [tlv_bytes(4, [b, 1, 2]) + [9]]))
    for a, b in [(1, 1), (2, 2), (4, 4), (8, 8), (1, 2), (2, 4), (4, 8), (1, 8), (0, 1), (3, 3), (5, 8), (1, 0)]:
        x = rbytes(rng, a)
        cases.append((1013, [x, [0] * (b - a) + x if b >= a else x[:b]])); cases.append((1013, [x, rbytes(rng, b)]))
    for n in list(range(0, 10)) + [16, 255]:      # every ID length 0..9: equal, different, zero-extended
        x = rbytes(rng, n)
        cases.append((1013, [x, x])); cases.append((1013, [x, rbytes(rng, n)])); cases.append((1013, [x, [0, 0] + x]))
    reps = 6 if big else 2
    for a in ACTIONS:
        for l1 in LENS:
            for l2 in ([0, 1, 2, 127, 252 - l1, 253 - l1, 254 - l1] if a in TWO else [0, 3]):
                if l2 < 0:
                    continue
                for _ in range(reps):
                    n1, n2 = rname(rng, l1), rname(rng, l2)
                    cases.append((1023, [[a], n1, n2]))
                    tot = 1 + 1 + l1 + ((1 + l2) if a in TWO else 0)
                    if tot <= 255:
                        d = tlv_bytes(0, fs_value(a, rng.choice([0, 0, 5]), n1, n2))
                        cases.append((1024, [d + rbytes(rng, rng.choice([0, 0, 1, 5]))]))
                        cases.append((1025, [[0], d[2:]]))
                    for lm in (0, 1, 253 - tot, 254 - tot, 255 - tot):
                        if lm < 0:
                            continue
                        m = rbytes(rng, lm); st = rstatus(rng, a)
                        cases.append((1026, [[a, st], n1, n2, m]))
                        if tot + 1 + lm <= 255:
                            d = tlv_bytes(1, fs_value(a, st & 15, n1, n2, m))
                            cases.append((1027, [d + rbytes(rng, rng.choice([0, 0, 1, 5]))]))
                            cases.append((1028, [[1], d[2:]]))
    for a in ACTIONS:       # every action code x every matching status code
        for st in [s for s in STATUS if s >= 0 and s >> 4 == a]:
            n1, n2, m = rname(rng, 4), rname(rng, 3), rbytes(rng, 2)
            cases.append((1026, [[a, st], n1, n2, m]))
            cases.append((1027, [tlv_bytes(1, fs_value(a, st & 15, n1, n2, m))]))
    yield "structured_valid", "exact", cases
    # 5b. size sweeps: every length 0..1100 (+ 4 KiB / 64 KiB) of every length-carrying field; decoder buffers of every
    #     length around the multiples of 256 (the item in front, arbitrary octets behind)
    sweep = list(range(0, 1101)) + [4095, 4096, 4097, 65535, 65536, 65537]
    cases = []
    for n in sweep:
        v = rbytes_special(rng, n)
        cases.append((1000, [v])); cases.append((1003, [[rng.choice(TLV_TYPES)], v]))
        cases.append((NEW_OP[rng.choice([2, 5, 6])], [v]))
        if n <= 1100:
            cases.append((1007, [rname_tail(rng, n)]))
        if n <= 255:
            t = rng.choice([2, 5, 6])
            cases.append((UNPACK_OP[t], [tlv_bytes(t, v)])); cases.append((FROM_OP[t], [[t], v]))
            cases.append((HOLDER_OP[t], [[1], [t], v]))
    near = sorted({m + d for m in (0, 256, 512, 768, 1024) for d in range(-8, 9) if m + d >= 0} | {1100, 4096, 65536, 65537})
    for n in near:
        for l in {0, 1, 255, min(255, max(0, n - 2)), min(255, max(0, n - 1)), rng.randrange(256)}:
            v = rbytes_special(rng, l)
            t = rng.choice(TLV_TYPES)
            d = (tlv_bytes(t, v) + rbytes(rng, max(0, n - l - 2)))[:n]
            cases.append((1004, [d])); cases.append((UNPACK_OP[t], [d]))
            d = (lv_bytes(v) + rbytes(rng, max(0, n - l - 1)))[:n]
            cases.append((1001, [d]))
        a = rng.choice(ACTIONS)
        d = tlv_bytes(1, fs_value(a, rstatus(rng, a) & 15, rname_tail(rng, 7), rname_tail(rng, 5), rbytes(rng, 3)))
        cases.append((1027, [(d + rbytes(rng, max(0, n - len(d))))])); cases.append((1024, [[0] + d[1:] + rbytes(rng, max(0, n - len(d)))]))
    yield "size_sweep_values_and_buffers", "exact", cases
    # 5c. size sweeps of the file names / filestore message (every length 0..300), names ending in multi-octet UTF-8
    cases = []
    for l in range(0, 301):
        a1 = rng.choice([0, 1, 5, 6, 7, 8]); a2 = rng.choice(TWO)
        for (a, n1, n2) in ((a1, rname_tail(rng, l), []), (a2, rname_tail(rng, l), rname_tail(rng, rng.choice([0, 1, 2]))),
                            (a2, rname_tail(rng, rng.choice([0, 1, 2])), rname_tail(rng, l)),
                            (a2, rname_tail(rng, l), rname_tail(rng, max(0, 252 - l + rng.choice([-1, 0, 1]))))):
            cases.append((1023, [[a], n1, n2]))
            st = rstatus(rng, a)
            m = rbytes_special(rng, rng.choice([0, 1, 2]))
            cases.append((1026, [[a, st], n1, n2, m]))
            val = fs_value(a, 0, n1, n2)
            if len(val) <= 255 and len(n1) <= 255 and len(n2) <= 255:
                cases.append((1024, [tlv_bytes(0, val)])); cases.append((1025, [[0], val]))
            val = fs_value(a, st & 15, n1, n2, m)
            if len(val) <= 255 and len(n1) <= 255 and len(n2) <= 255:
                cases.append((1027, [tlv_bytes(1, val) + rbytes(rng, 2)])); cases.append((1031, [[1], [1], val]))
        a = rng.choice(ACTIONS); st = rstatus(rng, a)
        n1, n2 = rname_tail(rng, rng.choice([0, 1, 4])), rname_tail(rng, rng.choice([0, 1, 4]))
        m = rbytes_special(rng, l)
        cases.append((1026, [[a, st], n1, n2, m]))
        val = fs_value(a, st & 15, n1, n2, m)
        if len(val) <= 255 and l <= 255:
            cases.append((1027, [tlv_bytes(1, val)])); cases.append((1028, [[1], val]))
    yield "size_sweep_names_and_message", "exact", cases
    # 5d. coinciding limits: total value length exactly at / around 255 AND a field of length 0 / 255 AND a name ending
    #     in a 4-octet character, through constructor, decoder and a short history
    cases = []
    for resp in (False, True):
        for a in ACTIONS:
            for tight in (252, 253, 254, 255, 256, 257):
                for _ in range(4 if big else 2):
                    a1, n1, n2, m = fs_args(rng, resp, tight)
                    a1 = [a, rstatus(rng, a) if resp else 0]
                    if a not in TWO and rng.random() < 0.5:
                        n2 = []
                    cases.append((1026 if resp else 1023, ([a1, n1, n2, m] if resp else [[a], n1, n2])))
                    val = fs_value(a, a1[1] & 15, n1, n2, m if resp else None)
                    if len(val) <= 255 and max(len(n1), len(n2)) <= 255:
                        d = tlv_bytes(1 if resp else 0, val)
                        cases.append(((1027 if resp else 1024), [d])); cases.append(((1028 if resp else 1025), [[d[0]], val]))
                        cases.append((1060, [[11 if resp else 10, rng.choice([4, 5])], [], d, [], [], [P_PACK], [P_VALUE], [P_PACK]]))
                    cases.append((1060, [[11 if resp else 10, rng.choice([0, 1])], a1, n1, n2, m, [P_PACK], [P_PACK], [P_VALUE]]))
    yield "coinciding_limits", "exact", cases
    # 5e. name CONTENT: every fragment that changes under normalisation / case mapping / path clean-up, and the format's own
    #     delimiters, alone and embedded, as first / second name, through constructors, decoders, converters and histories
    cases = []
    for f in SPECIAL_NAMES:
        forms = [list(f), [0x61] + list(f), list(f) + [0x2e, 0x62], list(f) * 2, rname(rng, 3) + list(f) + rname(rng, 2)]
        for nm in (forms if big else [forms[0], rng.choice(forms[1:3]), rng.choice(forms[3:])]):
            a1, a2 = rng.choice([0, 1, 5, 6, 7, 8]), rng.choice(TWO)
            other = rng.choice(SPECIAL_NAMES)
            cases.append((1007, [nm])); cases.append((1043, [nm]))
            for (a, n1, n2) in ((a1, nm, []), (a2, nm, other), (a2, other, nm)):
                st = rstatus(rng, a); m = rng.choice(MAGIC + [[]])
                cases.append((1023, [[a], n1, n2])); cases.append((1026, [[a, st], n1, n2, m]))
                v0, v1 = fs_value(a, 0, n1, n2), fs_value(a, st & 15, n1, n2, m)
                cases.append((1024, [tlv_bytes(0, v0) + rbytes(rng, 2)])); cases.append((1025, [[0], v0])); cases.append((1030, [[1], [0], v0]))
                cases.append((1027, [tlv_bytes(1, v1)])); cases.append((1028, [[1], v1])); cases.append((1031, [[1], [1], v1]))
            cases.append((1060, [[10, rng.choice([0, 1])], [a2, 0], nm, other, [], [P_PACK], [P_FIRST] + other, [P_SECOND] + nm, [P_VALUE], [P_PACK]]))
            cases.append((1060, [[11, rng.choice([4, 5])], [], tlv_bytes(1, v1), [], [], [P_PACK], [P_VALUE], [P_PACK]]))
            cases.append((1060, [[0, 3], [], nm, [], [], [P_PACK], [P_PACK]]))
    for _ in range(60 if big else 15):
        nm, other = norm_name(rng), norm_name(rng)
        a = rng.choice(TWO); st = rstatus(rng, a)
        cases.append((1023, [[a], nm, other])); cases.append((1026, [[a, st], other, nm, []]))
        cases.append((1024, [tlv_bytes(0, fs_value(a, 0, nm, other))])); cases.append((1027, [tlv_bytes(1, fs_value(a, st & 15, other, nm, [7]))]))
    for m in MAGIC:            # LV / TLV values made of the format's own items
        for v in (m, m * 3, [len(m)] + m, [len(m) + 2] + m):
            cases.append((1000, [v])); cases.append((1001, [lv_bytes(v) + m]))
            for t in TLV_TYPES:
                cases.append((1003, [[t], v])); cases.append((1004, [tlv_bytes(t, v) + m]))
            for t in (2, 5, 6):
                cases.append((NEW_OP[t], [v])); cases.append((UNPACK_OP[t], [tlv_bytes(t, v) + m])); cases.append((FROM_OP[t], [[t], v]))
                cases.append((HOLDER_OP[t], [[1], [t], v]))
    yield "name_content", "exact", cases
    # 6. targeted malformed: every truncation, substitutions in type/length/first value octets, inner LV lengths,
    #    invalid UTF-8 in names
    cases = []
    for t, d in valid_units(rng, 8 if big else 3):
        for k in range(len(d)):
            cases += all_decode_ops(d[:k]) if k < 3 else [(1004, [d[:k]]), (UNPACK_OP[t], [d[:k]])]
        for i in range(min(len(d), 5)):
            for x in {0, 1, 0x7f, 0x80, 0xff, (d[i] + 1) % 256, (d[i] - 1) % 256, len(d) - 2, len(d) - 1, len(d)}:
                e = list(d); e[i] = x % 256
                cases.append((1004, [e])); cases.append((UNPACK_OP[t], [e]))
                if e[1] + 2 <= len(e):
                    cases.append((FROM_OP[t], [[e[0]], e[2:2 + e[1]]]))
        for sfx in ([0], d, rbytes(rng, 3)):
            cases.append((1004, [d + sfx])); cases.append((UNPACK_OP[t], [d + sfx]))
    for bad in BADUTF:
        for a in (0, 2):
            pre = rname(rng, rng.randrange(0, 3))
            for val in (fs_value(a, 0, pre + bad, [65]), fs_value(a, 0, [65], pre + bad), fs_value(a, 0, bad + pre, bad)):
                cases.append((1024, [tlv_bytes(0, val)])); cases.append((1025, [[0], val]))
                cases.append((1027, [tlv_bytes(1, val + [0])])); cases.append((1028, [[1], val + [0]]))
    for a in (0, 2, 4):      # length octet of the TLV inconsistent with its content
        val = fs_value(a, 0, rname(rng, 3), rname(rng, 2))
        for l in (0, 1, 2, len(val) - 1, len(val) + 1, 255):
            cases.append((1024, [[0, l] + val])); cases.append((1027, [[1, l] + val + [1, 9]]))
        cases.append((1024, [[0, len(val)] + val[:1]])); cases.append((1027, [[1, len(val)] + val]))
    for a in ACTIONS:        # surplus octets inside the declared value of a filestore TLV
        for extra in ([9], [9, 9], [0], lv_bytes([65])):
            val = fs_value(a, 0, rname(rng, 2), rname(rng, 1))
            cases.append((1024, [tlv_bytes(0, val + extra)])); cases.append((1025, [[0], val + extra]))
            val = fs_value(a, rstatus(rng, a) & 15, rname(rng, 2), rname(rng, 1), rbytes(rng, 1))
            cases.append((1027, [tlv_bytes(1, val + extra)])); cases.append((1028, [[1], val + extra]))
    for t in TLV_TYPES:
        cases.append((UNPACK_OP[t], [[t, 0]])); cases.append((FROM_OP[t], [[t], []])); cases.append((UNPACK_OP[t], [[]]))
        cases.append((UNPACK_OP[t], [[t]]))
    yield "targeted_malformed", "exact", cases
    # 6b. live-object histories: every construction path, every public attribute / setter / sub-object edit, refused
    #     assignments, pack / value / generate_tlv in any order (up to 12 operations), observed after every step
    cases = hist_systematic(rng) + hist_systematic(rng)
    if big:
        cases += hist_systematic(rng) + hist_systematic(rng) + hist_systematic(rng) + hist_systematic(rng)
    yield "histories_systematic", "exact", cases
    cases = []
    for kind in KINDS:
        for path in PATHS[kind]:
            for _ in range(400 if big else 90):
                cases.append(hist_random(rng, kind, path))
    yield "histories_random", "exact", cases
    # 6c. explorations outside the model (op 1099): pathlib arguments, buffers handed out by getters, streams of items split
    #     by the reported lengths
    yield "explored_path_arguments", "exact", path_cases(rng, big)
    yield "explored_buffers_handed_out", "exact", fresh_cases(rng, 12 if big else 3)
    yield "explored_back_to_back", "exact", split_cases(rng, big)
    # 7. garbage
    cases = []
    for _ in range(6000 if big else 1200):
        n = rng.randrange(0, 24)
        d = rbytes(rng, n)
        if d and rng.random() < 0.7:
            d[0] = rng.choice(TLV_TYPES)
        if len(d) > 1 and rng.random() < 0.6:
            d[1] = max(0, min(255, len(d) - 2 + rng.choice([0, 0, 0, -1, 1])))
        if len(d) > 3 and rng.random() < 0.5:
            d[2] = rng.randrange(0, 0x90); d[3] = rng.randrange(0, 6)
        cases += all_decode_ops(d)
        cases.append((1001, [d[1:]]))
    yield "garbage", "verdict", cases
    # 8. bytes.decode() vs utf8_valid: all strings of 1 and 2 octets, boundary 3/4-octet forms, concatenations
    cases = [(1043, [[]])] + [(1043, [[a]]) for a in range(256)]
    cases += [(1043, [[a, b]]) for a in range(256) for b in range(256)]
    edge = [0x00, 0x7f, 0x80, 0x8f, 0x90, 0x9f, 0xa0, 0xbf, 0xc0, 0xc2, 0xff]
    for b0 in range(0xe0, 0xf0):
        for b1, b2 in itertools.product(edge, repeat=2):
            cases.append((1043, [[b0, b1, b2]]))
    for b0 in range(0xf0, 0x100):
        for b1, b2, b3 in itertools.product(edge, [0x7f, 0x80, 0xbf, 0xc0], [0x7f, 0x80, 0xbf, 0xc0]):
            cases.append((1043, [[b0, b1, b2, b3]]))
    for _ in range(4000 if big else 1500):
        s = []
        for _ in range(rng.randrange(1, 6)):
            s += rng.choice(CH) if rng.random() < 0.85 else rng.choice(BADUTF)
        cases.append((1043, [s]))
    yield "exh_utf8_1_2_octets", "exact", cases


# ------------------------------------------------------------------ oracle
def _ok(r):
    return r[0] == [0]


def _doc(r):
    return r[0][0] == 1 and r[0][1] in (1, 2, 3, 6)


def _name(op):
    return {1001: "CfdpLv.unpack", 1004: "CfdpTlv.unpack"}.get(op) or (
        CLS[OP_CLS[op]].__name__ + (".unpack" if op in UNPACK_OP.values() else ".from_tlv" if op in FROM_OP.values() else "/TlvHolder.to"))


def oracle_spec(case, ires):
    op, a = case
    if op in (1000, 1007) and len(a[0]) <= 255:
        return [(1050, [a[0]])]
    if op == 1003 and len(a[1]) <= 255 and 0 <= a[0][0] <= 255:
        return [(1051, [a[0], a[1]])]
    if op in (1010, 1014, 1020) and len(a[0]) <= 255:
        return [(1051, [[{1010: 6, 1014: 5, 1020: 2}[op]], a[0]])]
    if op == 1017 and 0 <= a[0][0] <= 15 and 0 <= a[0][1] <= 15:
        return [(1052, [a[0]])]
    if op == 1023 and a[0][0] in ACTIONS:
        return [(1053, [a[0], a[1], a[2]])]
    if op == 1026 and a[0][0] in ACTIONS and a[0][1] >= 0 and a[0][1] >> 4 == a[0][0] and a[0][1] in STATUS:
        return [(1054, [[a[0][0], a[0][1] & 15], a[1], a[2], a[3]])]
    return []


def _expect_fields(op, t, v):
    """what a well-formed TLV (t, v) of the class of `op` must decode to; None = not well-formed for that class"""
    cls = OP_CLS[op]
    if cls in (2, 5, 6):
        return [[cls], [t], list(v), [len(v) + 2], [0] + tlv_bytes(t, v)]
    if cls == 4:
        if len(v) < 1:
            return None
        return [[v[0] >> 4, v[0] & 15], [4], [t], list(v), [len(v) + 2], [0] + tlv_bytes(t, v)]
    p = parse_fs(list(v), cls == 1)
    if p is None:
        return None
    if cls == 0:
        action, first, second = p
        val = fs_value(action, 0, first, second)
        return [[action], first, second, [len(val) + 2], [0] + tlv_bytes(0, val), [0] + val]
    action, st, first, second, m = p
    val = fs_value(action, st & 15, first, second, m)
    return [[action, st], first, second, m, [len(val) + 2], [0] + tlv_bytes(1, val), [0] + val]


# ------------------------------------------------------------------ oracle of the histories (op 1060)
HNAME = {0: "CfdpLv", 1: "CfdpTlv", 10: "FileStoreRequestTlv", 11: "FileStoreResponseTlv", 12: "MessageToUserTlv",
         14: "FaultHandlerOverrideTlv", 15: "FlowLabelTlv", 16: "EntityIdTlv"}
REFUSED_BY_PYTHON = {P_SETPLEN}          # properties without a setter: AttributeError, nothing changes


def _layout_of_view(kind, v):
    """what pack() must return for an object whose public attributes read as view v: octet list, "refuse" (does not
    fit the format: ValueError), or None (outside the property's domain: only self-consistency is checked)"""
    if kind == 0:
        return [len(v[0])] + v[0] if len(v[0]) <= 255 else "refuse"
    if kind == 1 or kind in (12, 14, 15, 16):
        t = v[0][0] if kind == 1 else v[0][-1]
        if not 0 <= t <= 255:
            return "refuse"
        return [t, len(v[1])] + v[1] if len(v[1]) <= 255 else "refuse"
    action, status = v[0]
    if action not in ACTIONS:
        return None
    two = action in TWO
    if len(v[1]) > 255 or (two and len(v[2]) > 255) or (kind == 11 and len(v[3]) > 255):
        return "refuse"
    if kind == 11 and not (status >= 0 and status in STATUS and status >> 4 == action):
        return None         # status code of another action: no layout prescribed
    val = fs_value(action, (status & 15) if kind == 11 else 0, v[1], v[2], v[3] if kind == 11 else None)
    return tlv_bytes(kind - 10, val) if len(val) <= 255 else "refuse"


def _plen_of_view(kind, v):
    return {0: lambda: v[1][1], 1: lambda: v[2][1], 10: lambda: v[4][1], 11: lambda: v[4][1]}.get(kind, lambda: v[2][0])()


def _hist_oracle(a, ires):
    kind, path = a[0]
    name = HNAME[kind]
    ops = a[5:]
    if ires[0][0] == 1:
        if ires[0][1] == 99:
            try:
                _history(a)
                why = "not reproducible"
            except Exception as e:
                why = str(e)
            return ("C08/%s.history/caller-object-or-shared-state" % name, why)
        if ires[0][1] not in (1, 2, 3, 6):
            return ("C08/%s/undocumented-exception" % name, "construction path %d -> error class %d" % (path, ires[0][1]))
        return None
    k = NVIEW[kind]
    body = ires[1:]
    if len(body) != k + len(ops) * (k + 1):
        return ("oracle-crash", "history result has %d lists for %d operations" % (len(body), len(ops)))
    view = body[:k]
    last_pack = None          # octets of the preceding successful pack() when nothing was assigned since
    pos = k
    for n, op in enumerate(ops):
        st, nview = body[pos], body[pos + 1:pos + 1 + k]
        pos += k + 1
        c = op[0]
        where = "step %d (%s) of %s" % (n + 1, op[:8], [x[:6] for x in ops])
        ok = st[0] == 0
        if c not in APPLIES[kind]:
            view = nview; continue
        if not ok and st[1] == 99:
            return ("C08/%s.history/caller-object-or-shared-state" % name, where)
        if (not ok and nview != view and c == P_INPLACE and kind == 0 and st[1] in (1, 2, 3) and len(op) - 2 > 255
                and nview[0] in (op[2:2 + op[1]], op[2:]) and nview[1] == [len(nview[0]), len(nview[0]) + 1]):
            # two assignments of one bytearray the caller extends in between, beyond 255 octets: the unchanged library takes
            # both and refuses at pack(); when the second one is refused instead, the first one has happened, and the
            # caller's own extension of its buffer shows through if the LV holds that very object
            view = nview; last_pack = None; continue
        if not ok and nview != view:
            return ("C08/%s.history/refused-operation-changed-the-object" % name,
                    "%s raised error class %d but the object reads %s instead of %s" % (where, st[1], nview, view))
        if c in (P_PACK, P_VALUE, P_GEN):
            want = _layout_of_view(kind, nview)
            if not ok:
                if st[1] not in (1, 2, 3):
                    return ("C08/%s.pack/undocumented-exception" % name, "%s -> error class %d" % (where, st[1]))
                if want not in ("refuse", None):
                    return ("C08/%s.history/pack-raises" % name, "%s raised although the attributes %s fit the format" % (where, nview[:4]))
            elif c == P_VALUE and kind in (12, 14, 15, 16):
                if st[1:] != nview[1]:
                    return ("C08/%s.history/value-differs" % name, "%s: value gives %s, the wrapped TLV holds %s" % (where, st[1:13], nview[1][:12]))
            elif c != P_GEN:
                got = st[1:]
                if want == "refuse":
                    return ("C08/%s.history/too-long-accepted" % name, "%s returned %d octets for attributes that do not fit" % (where, len(got)))
                if c == P_PACK:
                    if len(got) != _plen_of_view(kind, nview):
                        return ("C08/%s.history/packet_len-differs-from-packed" % name,
                                "%s: pack() gives %d octets %s, packet_len says %d" % (where, len(got), got[:12], _plen_of_view(kind, nview)))
                    if want is not None and got != want:
                        return ("C08/%s.history/pack-is-not-the-layout-of-the-current-attributes" % name,
                                "%s: pack() gives %s, the attributes %s lay out as %s" % (where, got[:16], [x[:8] for x in nview[:4]], want[:16]))
                    if last_pack is not None and got != last_pack:
                        return ("C08/%s.history/pack-not-repeatable" % name, "%s: %s then %s" % (where, last_pack[:12], got[:12]))
                    last_pack = got
                elif want is not None and kind >= 10 and got != want[2:]:
                    return ("C08/%s.history/value-is-not-the-layout-of-the-current-attributes" % name,
                            "%s: value gives %s, expected %s" % (where, got[:16], want[2:18]))
        else:
            last_pack = None
            if ok and c in REFUSED_BY_PYTHON:
                return ("C08/%s.history/read-only-property-assigned" % name, where)
            if ok:      # the assignment must be visible through the attribute it names
                seen = {P_SETVALUE: lambda: nview[0] == op[1:] if kind == 0 else None,
                        P_INPLACE: lambda: nview[0] == op[2:] if kind == 0 else None,
                        P_SETTYPE: lambda: nview[0][0] == op[1] if kind == 1 else None,
                        P_SETTLV: lambda: (nview[-1] == [1, op[1]] + op[2:]) if kind in (10, 11) else (nview[0][-1] == op[1] and nview[1] == op[2:]),
                        P_TLVNONE: lambda: nview[-1] == [0],
                        P_SUBTYPE: lambda: (nview[-1][1] == op[1]) if kind in (10, 11) else nview[0][-1] == op[1],
                        P_CC: lambda: nview[0][0] == op[1], P_HC: lambda: nview[0][1] == op[1],
                        P_ACTION: lambda: nview[0][0] == op[1], P_STATUS: lambda: nview[0][1] == op[1],
                        P_FIRST: lambda: nview[1] == op[1:], P_SECOND: lambda: nview[2] == op[1:],
                        P_MSG: lambda: nview[3] == op[1:], P_SUBMSG: lambda: nview[3] == op[1:]}[c]()
                if seen is False:
                    return ("C08/%s.history/assignment-not-visible" % name, "%s: the object reads %s" % (where, [x[:10] for x in nview]))
        view = nview
    # round trip of the final octets (when the history ends with a successful pack of an in-domain object)
    indom = _layout_of_view(kind, view) not in (None, "refuse") and not (kind == 14 and len(view[1]) < 1)
    if last_pack is not None and indom and kind >= 10 and last_pack[0] == kind - 10:
        back = run_impl(impl, UNPACK_OP[kind - 10], [last_pack + [0x01, 0x00]])
        if back[0] != [0]:
            return ("C08/%s.history/roundtrip" % name, "unpack(pack()) after %s -> %s" % ([x[:6] for x in ops], back[:2]))
        if kind in (10, 11):
            two = view[0][0] in TWO
            got = [back[1], back[2], back[3] if two else None] + ([back[4]] if kind == 11 else [])
            want = [[view[0][0]] if kind == 10 else view[0], view[1], view[2] if two else None] + ([view[3]] if kind == 11 else [])
            if got != want:
                return ("C08/%s.history/roundtrip" % name, "unpack(pack()) after %s reads %s, the object reads %s" % ([x[:6] for x in ops], got, want))
        elif back[3 if kind != 14 else 4] != view[1]:
            return ("C08/%s.history/roundtrip" % name, "unpack(pack()) after %s -> %s" % ([x[:6] for x in ops], back[:5]))
    if last_pack is not None and indom and kind == 0:
        back = run_impl(impl, 1001, [last_pack + [0xAA]])
        if back[0] != [0] or back[1] != view[0]:
            return ("C08/CfdpLv.history/roundtrip", "unpack(pack()) after %s -> %s" % ([x[:6] for x in ops], back[:3]))
    return None



def oracle(case, ires, sres):
    """The statement of C08 evaluated on the implementation's observable behaviour."""
    op, a = case
    err = ires[0][0] == 1
    code = ires[0][1] if err else None
    if op == 1060:
        return _hist_oracle(a, ires)
    if op == 1099:
        if ires == [[0], [1]]:
            return None
        try:
            r = _explore(a)
        except Exception as e:
            r = ("exploration-%d/raises" % a[0][0], "%r" % (e,))
        if r is None:
            r = ("exploration-%d/not-reproducible" % a[0][0], "the adapter answered %s" % (ires[:2],))
        return ("C08/" + r[0], r[1])
    if err and code == 99 and (op in (1001, 1004) or op in UNPACK_OP.values()):
        try:
            impl(op, a); why = "not reproducible"
        except Exception as e:
            why = str(e)
        return ("C08/%s/input-buffer-aliased-or-type-dependent" % _name(op), why)
    # ---------------- LV
    if op in (1000, 1007):
        v = a[0]
        if len(v) > 255:
            return None if err and code in (1, 2, 3) else ("C08/CfdpLv.__init__/too-long-accepted", "%d octets -> %s" % (len(v), ires[:2]))
        exp = lv_bytes(v)
        if err or ires[1] != exp or sres[0][1] != exp or ires[2] != [len(v) + 1] or ires[3] != v:
            return ("C08/CfdpLv.pack/layout", "value of %d octets -> %s" % (len(v), ires[:3]))
        back = run_impl(impl, 1001, [exp + [0xAA, 0xBB]])
        if back[0] != [0] or back[1] != v or back[2] != [len(v) + 1]:
            return ("C08/CfdpLv.unpack/roundtrip", "unpack(pack(v)+suffix) = %s" % (back[:3],))
        return None
    if op == 1001:
        d = a[0]
        if len(d) >= 1 and 1 + d[0] <= len(d):
            exp = [d[1:1 + d[0]], [d[0] + 1], d[:1 + d[0]]]
            if err or ires[1:] != exp:
                return ("C08/CfdpLv.unpack/value", "%s -> %s" % (d[:8], ires[:3]))
            return None
        if not err:
            return ("C08/CfdpLv.unpack/prefix-accepted", "incomplete LV %s accepted: %s" % (d[:8], ires[:3]))
        if not _doc(ires):
            return ("C08/CfdpLv.unpack/undocumented-exception", "%s -> error class %d" % (d[:8], code))
        return None
    # ---------------- generic TLV
    if op == 1003:
        t, v = a[0][0], a[1]
        if len(v) > 255:
            return None if err and code in (1, 2, 3) else ("C08/CfdpTlv.__init__/too-long-accepted", "%d octets -> %s" % (len(v), ires[:2]))
        if 0 <= t <= 255:
            if t not in TLV_TYPES and err and code in (1, 2, 3):
                return None     # a type code no TLV has (the decoder refuses it): the constructor may refuse it as well
            exp = [[t], v, [len(v) + 2], [0] + tlv_bytes(t, v)]
            if err or ires[1:] != exp or sres[0][1] != tlv_bytes(t, v):
                return ("C08/CfdpTlv.pack/layout", "(%d, %d octets) -> %s" % (t, len(v), ires[:5]))
            if t in TLV_TYPES:
                back = run_impl(impl, 1004, [tlv_bytes(t, v) + [0xAA, 0xBB]])
                if back != [[0]] + exp:
                    return ("C08/CfdpTlv.unpack/roundtrip", "unpack(pack + suffix) = %s" % (back[:4],))
        return None
    if op == 1004:
        d = a[0]
        if len(d) >= 2 and d[0] in TLV_TYPES and 2 + d[1] <= len(d):
            v = d[2:2 + d[1]]
            exp = [[d[0]], v, [len(v) + 2], [0] + d[:2 + d[1]]]
            if err or ires[1:] != exp:
                return ("C08/CfdpTlv.unpack/value", "%s -> %s" % (d[:8], ires[:4]))
            return None
        if not err:
            return ("C08/CfdpTlv.unpack/prefix-accepted", "incomplete or unknown TLV %s accepted: %s" % (d[:8], ires[:4]))
        if not _doc(ires):
            return ("C08/CfdpTlv.unpack/undocumented-exception", "%s -> error class %d" % (d[:8], code))
        return None
    if op == 1013:
        if len(a[0]) <= 255 and len(a[1]) <= 255:
            exp = int(int.from_bytes(bytes(a[0]), "big") == int.from_bytes(bytes(a[1]), "big"))
            if err:
                return ("C08/EntityIdTlv.__eq__/raises", "comparison of entity IDs %s and %s raised error class %d" % (a[0], a[1], code))
            if ires[1] != [exp]:
                return ("C08/EntityIdTlv.__eq__/value", "%s == %s -> %s" % (a[0], a[1], ires))
        return None
    if op in (1005, 1006) and err and code in (1, 2, 3) and (a[0][0] not in TLV_TYPES or a[2][0] not in TLV_TYPES):
        return None             # a type code no TLV has (the decoder refuses it): building such a TLV / enum value may be refused
    if op == 1006:
        if len(a[1]) <= 255 and (err != (a[0] != a[2]) or (err and code != 6)):
            return ("C08/AbstractTlvBase.check_type", "%s vs %s -> %s" % (a[0], a[2], ires))
        return None
    if op == 1005:
        exp = int(a[0] == a[2] and a[1] == a[3])
        if len(a[1]) <= 255 and len(a[3]) <= 255 and (err or ires[1] != [exp]):
            return ("C08/AbstractTlvBase.__eq__", "%s == %s -> %s" % (a[:2], a[2:], ires))
        return None
    # ---------------- constructors of the concrete classes: layout, length, round trip
    if op in (1010, 1014, 1020, 1017, 1023, 1026):
        if op in (1010, 1014, 1020):
            t = {1010: 6, 1014: 5, 1020: 2}[op]
            layout = tlv_bytes(t, a[0]) if len(a[0]) <= 255 else None
            inrange = True
        elif op == 1017:
            cc, hc = a[0]
            inrange = 0 <= cc <= 15 and 0 <= hc <= 15
            t, layout = 4, tlv_bytes(4, [cc * 16 + hc])
        elif op == 1023:
            inrange = a[0][0] in ACTIONS
            val = fs_value(a[0][0], 0, a[1], a[2]) if inrange else []
            t, layout = 0, (tlv_bytes(0, val) if len(val) <= 255 and len(a[1]) <= 255 and len(a[2]) <= 255 else None)
        else:
            ac, st = a[0]
            inrange = ac in ACTIONS and st >= 0 and st >> 4 == ac and st in STATUS
            val = fs_value(ac, st & 15, a[1], a[2], a[3]) if inrange else []
            t, layout = 1, (tlv_bytes(1, val) if len(val) <= 255 and len(a[1]) <= 255 and len(a[2]) <= 255 else None)
        if not inrange:
            return None
        name = CLS[t].__name__
        packed = None
        if not err:
            pk = ires[-1] if op in (1010, 1014, 1020, 1017) else ires[-2]
            packed = pk[1:] if pk[0] == 0 else None
            pk_err = pk[1] if pk[0] == 1 else None
        if layout is None:      # does not fit a TLV: must be refused with ValueError (at construction or at pack)
            if (err and code in (1, 2, 3)) or (not err and packed is None and pk_err in (1, 2, 3)):
                return None
            return ("C08/%s/too-long-accepted" % name, "value longer than 255 octets -> %s" % (ires[:3],))
        if err or packed != layout or (sres and sres[0][1] != layout):
            return ("C08/%s.pack/layout" % name, "args %s -> %s, standard says %s" % ([x[:12] for x in a], ires[-2:], layout[:16]))
        plen = ires[-2] if op in (1010, 1014, 1020, 1017) else ires[-3]
        if plen != [len(layout)]:
            return ("C08/%s.packet_len" % name, "packet_len %s but %d octets packed (args %s)" % (plen, len(layout), [x[:12] for x in a]))
        back = run_impl(impl, UNPACK_OP[t], [layout + [0x01, 0x00]])
        if op == 1023 and a[0][0] not in TWO:
            want = [[0]] + [ires[1], ires[2], [], ires[4], ires[5], ires[6]]
        elif op == 1026 and a[0][0] not in TWO:
            want = [[0]] + [ires[1], ires[2], [], ires[4], ires[5], ires[6], ires[7]]
        else:
            want = ires
        if back != want:
            return ("C08/%s.unpack/roundtrip" % name, "unpack(pack(%s) + suffix) = %s" % ([x[:12] for x in a], back[:5]))
        return None
    # ---------------- decoders / converters of the concrete classes
    if op in OP_CLS:
        cls = OP_CLS[op]
        name = _name(op)
        if op in UNPACK_OP.values():
            d = a[0]
            wellformed = len(d) >= 2 and d[0] in TLV_TYPES and 2 + d[1] <= len(d)
            t = d[0] if wellformed else None
            v = d[2:2 + d[1]] if wellformed else None
            mode = 1
        else:
            if op in HOLDER_OP.values():
                mode, t, v = a[0][0], a[1][0] if a[1] else 0, a[2]
                if mode == 0:
                    return None if err else ("C08/TlvHolder/none", "conversion of an empty holder returned %s" % ires[:2])
            else:
                mode, t, v = 1, a[0][0], a[1]
            wellformed = len(v) <= 255 and (t in TLV_TYPES)
            if len(v) > 255 or (mode == 2 and t not in TLV_TYPES):
                return None
            if mode == 2 and _expect_fields(UNPACK_OP[t], t, v) is None:
                return None      # the held concrete object cannot be built in the first place
        if err and not (_doc(ires) or (mode == 2 and code == 20)):
            return ("C08/%s/undocumented-exception" % name, "%s -> error class %d" % ([x[:10] for x in a], code))
        if not wellformed:
            if not err:
                return ("C08/%s/prefix-accepted" % name, "incomplete or unknown TLV accepted: %s -> %s" % ([x[:10] for x in a], ires[:4]))
            return None
        if t != cls:
            if not err:
                return ("C08/%s/foreign-type-accepted" % name, "TLV of type %d accepted by the class of type %d: %s" % (t, cls, ires[:4]))
            if code != 6 and not (mode == 2 and code == 20):
                return ("C08/%s/foreign-type-wrong-error" % name, "TLV of type %d: error class %d instead of TlvTypeMissmatch" % (t, code))
            return None
        exp = _expect_fields(op, t, v)
        if exp is None:
            if not err:
                return ("C08/%s/malformed-accepted" % name, "%s -> %s" % ([x[:12] for x in a], ires[:4]))
            return None
        got = ires[2:] if op in HOLDER_OP.values() else ires[1:]
        if err or got != exp:
            return ("C08/%s/fields" % name, "%s -> %s, expected %s" % ([x[:12] for x in a], ires[:6], exp[:5]))
        return None
    if op == 1041:
        c = a[0][0]
        if c in STATUS and c >= 0 and (err or ires[1] != [c >> 4, c & 15]):
            return ("C08/map_enum_status_code_to_action_status_code", "%d -> %s" % (c, ires))
        return None
    if op == 1042:
        ac, s = a[0]
        if 0 <= ac <= 8 and 0 <= s <= 15:
            exp = ac * 16 + s if ac * 16 + s in STATUS else -1
            if err or ires[1] != [exp]:
                return ("C08/map_int_status_code_to_enum", "%s -> %s" % (a[0], ires))
        return None
    return None


def neighbours(case):
    op, a = case
    out = []
    if a and a[0] and op in (1001, 1004) + tuple(UNPACK_OP.values()):
        for i in range(min(4, len(a[0]))):
            for dlt in (-1, 1):
                l = list(a[0]); l[i] = (l[i] + dlt) % 256; out.append((op, [l]))
        out.append((op, [a[0][:-1]])); out.append((op, [a[0] + [0]]))
    return out


# ---- registry for the cross-cutting checks C09 / C10
def _valid(t):
    return lambda rng: [d for (k, d) in valid_units(rng, 8) if k == t]


def _valid_lv(rng):
    return [lv_bytes(rbytes(rng, n)) for n in (0, 1, 2, 7, 255)] + [lv_bytes(m) for m in ([1, 1], [3, 3, 3, 3], [0x63, 0x66, 0x64, 0x70])]


def _rep(plen_at, pack_at):
    """the lengths a decoded object reports, read from the adapter's view: packet_len and the size of pack()"""
    def f(view):
        out = [view[plen_at][0]]
        if view[pack_at][:1] == [0]:
            out.append(len(view[pack_at]) - 1)
        return out
    return f


_REPORTED = {0: _rep(3, 4), 1: _rep(4, 5), 2: _rep(3, 4), 4: _rep(4, 5), 5: _rep(3, 4), 6: _rep(3, 4)}
DECODERS = [
    {"op": 1001, "name": "CfdpLv.unpack", "extra": [], "valid": _valid_lv, "declared_len": lambda b: b[0] + 1,
     "reported_len": lambda view: [view[1][0], len(view[2])]},
    {"op": 1004, "name": "CfdpTlv.unpack", "extra": [], "valid": lambda rng: [d for (_, d) in valid_units(rng, 2)],
     "declared_len": lambda b: b[1] + 2, "reported_len": _rep(2, 3)},
] + [
    {"op": UNPACK_OP[t], "name": CLS[t].__name__ + ".unpack", "extra": [], "valid": _valid(t),
     "declared_len": lambda b: b[1] + 2, "reported_len": _REPORTED[t]} for t in TLV_TYPES
]
