"""C09 — decoders never read past the declared packet; trailing octets cannot leak in.
For every registered self-delimiting decoder: a valid unit followed by suffixes chosen to look like
a valid continuation; decode(unit ++ suffix) must equal decode(unit) and decode of the first N
octets (N = the length the unit declares); for CFDP PDUs 'equal or refused with a documented error'."""
from harness.props import xcut
from harness import core

ID = "C09"
ENUMS = xcut.enums()
ASSUMPTIONS = ["the observable result of a decoder is the field list its harness adapter extracts (all parameters, "
               "lengths, file data, options, segment requests)"]
TRUSTED = []
ORACLE_LIMIT = {"quick": 400000, "thorough": 4000000}
PDU_FAMILIES = (13, 14, 15)


def suffixes(rng, unit, others, big):
    out = [[rng.randrange(256)] for _ in range(2)]
    for n in (2, 3, 4, 7, 8, 9, 16, 17):
        out.append([rng.randrange(256) for _ in range(n)])
    out.append(list(unit))                                  # the same unit again
    if others:
        out.append(list(rng.choice(others)))                # another valid unit
    out.append([rng.randrange(8), 3, 1, 2, 3])              # TLV-shaped
    out.append([0, 0, 0, 1, 0, 0, 0, 9])                    # 32-bit segment-request-shaped
    out.append([0] * 7 + [1] + [0] * 7 + [9])               # 64-bit segment-request-shaped
    out.append([0x06, 0x01, 0x05])                          # entity-id TLV
    out.append([0, 0]); out.append([0xFF] * 4)
    if big:
        for _ in range(10):
            out.append([rng.randrange(256) for _ in range(rng.randrange(1, 40))])
    return out


def _unit(d, u):
    u = list(u)
    try:
        n = d["declared_len"](u)
    except Exception:
        n = None
    if n is not None and 0 < n < len(u):
        return u[:n]
    return u


def streams(tier, rng):
    big = tier == "thorough"
    for d in xcut.all_decoders():
        if d["declared_len"] is None:
            continue
        op, extra, name = d["op"], d["extra"], d["name"]
        units = [_unit(d, u) for u in d["valid"](rng)]
        if not big:
            units = units[:10]
        cases = []
        for u in units:
            for s in suffixes(rng, u, units, big):
                cases.append((op, [u + s] + extra + [[len(u)]]))
        yield "suffix_%d_%s" % (op, name.replace(" ", "_")[:40]), "exact", cases


def impl(op, a):
    return xcut.impl(op, a[:-1])


def _decl(op, extra, data):
    for d in xcut.all_decoders():
        if d["op"] == op and d["extra"] == extra and d["declared_len"]:
            try:
                return d["declared_len"](data)
            except Exception:
                return None
    return None


def oracle(case, ires, sres):
    op, a = case
    ulen = a[-1][0]
    extra = a[1:-1]
    data = a[0]
    unit = data[:ulen]
    alone = core.run_impl(xcut.impl, op, [unit] + extra)
    name = next((d["name"] for d in xcut.all_decoders() if d["op"] == op), "op%d" % op)
    fam = op // 100
    if alone[0][0] == 1:
        return None     # the registry's unit is not accepted on its own: nothing to compare (C10 / per-property checks cover it)
    if ires[0][0] == 1:
        code = ires[0][1]
        if code in core.UNDOCUMENTED:
            return ("C09/%s/undocumented-error-with-suffix" % name, "unit + %d trailing octets raises %s" % (len(data) - ulen, core.ERR_NAMES.get(code, code)))
        if fam in PDU_FAMILIES:
            return None  # a PDU followed by further octets may be refused with a documented error
        return ("C09/%s/suffix-refused" % name, "self-delimiting unit refused when followed by %s" % (data[ulen:][:12],))
    if ires != alone:
        return ("C09/%s/suffix-leaks-in" % name, "decode(unit ++ %s) differs from decode(unit): %s vs %s" % (data[ulen:][:12], str(ires)[:200], str(alone)[:200]))
    n = _decl(op, extra, data)
    if n is not None and n != ulen:
        return ("C09/%s/declared-length" % name, "declared length %s of a %d-octet unit" % (n, ulen))
    # "N is the length the unit itself declares AND THE DECODED OBJECT REPORTS ... units packed back to back can be split purely
    # by the reported lengths": registry entries that carry `reported_len` (view -> the lengths the decoded object reports:
    # packet_len, size of pack()) are held to it
    rep = next((d.get("reported_len") for d in xcut.all_decoders() if d["op"] == op and d["extra"] == extra), None)
    if rep is not None:
        got = rep(ires[1:])
        if any(x != ulen for x in got):
            return ("C09/%s/reported-length" % name, "the decoded object reports length(s) %s; the unit declares and occupies %d octets, so the next "
                    "unit of a back-to-back buffer would be looked for at the wrong offset (unit %s)" % (got, ulen, unit[:24]))
    return None
