"""C09 — decoders never read past the declared packet; trailing octets cannot leak in.
For every registered self-delimiting decoder: a valid unit followed by suffixes chosen to look like
a valid continuation; decode(unit ++ suffix) must equal decode(unit) and decode of the first N
octets (N = the length the unit declares); for CFDP PDUs 'equal or refused with a documented error'."""
from harness.props import xcut
from harness import core

ID = "C09"
ENUMS = xcut.enums()
ASSUMPTIONS = ["the observable result of a decoder is the field list its harness adapter extracts (all parameters, "
               "lengths, file data, options, segment requests)"]
TRUSTED = []
ORACLE_LIMIT = {"quick": 400000, "thorough": 4000000}
PDU_FAMILIES = (13, 14, 15)


def suffixes(rng, unit, others, big):
    out = [[rng.randrange(256)] for _ in range(2)]
    for n in (2, 3, 4, 7, 8, 9, 16, 17):
        out.append([rng.randrange(256) for _ in range(n)])
    out.append(list(unit))                                  # the same unit again
    if others:
        out.append(list(rng.choice(others)))                # another valid unit
    out.append([rng.randrange(8), 3, 1, 2, 3])              # TLV-shaped
    out.append([0, 0, 0, 1, 0, 0, 0, 9])                    # 32-bit segment-request-shaped
    out.append([0] * 7 + [1] + [0] * 7 + [9])               # 64-bit segment-request-shaped
    out.append([0x06, 0x01, 0x05])                          # entity-id TLV
    out.append([0, 0]); out.append([0xFF] * 4)
    if big:
        for _ in range(10):
            out.append([rng.randrange(256) for _ in range(rng.randrange(1, 40))])
    return out


def _unit(d, u):
    u = list(u)
    try:
        n = d["declared_len"](u)
    except Exception:
        n = None
    if n is not None and 0 < n < len(u):
        return u[:n]
    return u


def streams(tier, rng):
    big = tier == "thorough"
    by_family = {}
    for d in xcut.all_decoders():
        if d["declared_len"] is None:
            continue
        op, extra, name = d["op"], d["extra"], d["name"]
        units = [_unit(d, u) for u in d["valid"](rng)]
        if not big:
            units = units[:10]
        cases = []
        for u in units:
            for s in suffixes(rng, u, units, big):
                cases.append((op, [u + s] + extra + [[len(u)]]))
        yield "suffix_%d_%s" % (op, name.replace(" ", "_")[:40]), "exact", cases
        # decoder parameter x declared length x continuation.  The registry names other values of the decoder's
        # parameters ("param_variants": timestamp length 0..18, step-ID / error-code widths); units that end in a CRC-16
        # trailer get their length field rewritten and the trailer RECOMPUTED (xcut.repair), so that the checksum check
        # passes and the code behind it sees a declared length that does not fit the parameters.  Whatever the verdict on
        # the first N declared octets alone is, it must be the verdict (and the result) with further octets behind them.
        extra_cases = by_family.setdefault(d["family"], [])
        variants = [v for v in d.get("param_variants", []) if v != extra]
        few = lambda u: [[], list(rng.choice(units)), [rng.randrange(256) for _ in range(2)],
                         [rng.randrange(256) for _ in range(rng.choice([7, 24, 40]))], [0] * 20]
        for u in units[: (10 if big else 4)]:
            for ex in variants:
                for s in few(u):
                    extra_cases.append((op, [u + s] + ex + [[len(u)]]))
            kind = xcut.crc_kind(d, u)
            if kind is None:
                continue
            for q in xcut.length_rewrites(d, u, kind, big):
                r = xcut.repair(d, q, rng.randrange(256), 70000 if big else 2048)
                if r is None:
                    continue
                p, n = r
                exs = [extra] + (variants if big else rng.sample(variants, min(len(variants), 4)))
                for ex in exs:
                    for s in few(u)[: (5 if big else 3)]:
                        extra_cases.append((op, [p[:n] + s] + ex + [[n]]))
    for fam in sorted(by_family):
        if by_family[fam]:
            yield "params_x_declared_length_family_%d_%s" % (fam, xcut.FAMILY_MODULE[fam]), "exact", by_family[fam]


def impl(op, a):
    return xcut.impl(op, a[:-1])


def _decl(op, extra, data):
    for d in xcut.all_decoders():
        if d["op"] == op and d["extra"] == extra and d["declared_len"]:
            try:
                return d["declared_len"](data)
            except Exception:
                return None
    return None


def oracle(case, ires, sres):
    op, a = case
    ulen = a[-1][0]
    extra = a[1:-1]
    data = a[0]
    unit = data[:ulen]
    alone = core.run_impl(xcut.impl, op, [unit] + extra)
    name = next((d["name"] for d in xcut.all_decoders() if d["op"] == op), "op%d" % op)
    fam = op // 100
    if alone[0][0] == 1:
        # the first N declared octets are refused on their own: octets behind them must not turn that into an acceptance
        # (they would have been folded into the result), nor into an undocumented failure
        if ires[0][0] == 0:
            return ("C09/%s/suffix-changes-verdict" % name,
                    "the %d declared octets alone are refused (%s) but accepted when followed by %s: parameters %s, result %s" % (
                        ulen, core.ERR_NAMES.get(alone[0][1], alone[0][1]), data[ulen:][:12], extra, str(ires[1:])[:200]))
        if ires[0][1] in core.UNDOCUMENTED and ires[0][1] != alone[0][1]:
            return ("C09/%s/undocumented-error-with-suffix" % name, "%d declared octets + %d trailing octets raise %s (alone: %s)" % (
                ulen, len(data) - ulen, core.ERR_NAMES.get(ires[0][1], ires[0][1]), core.ERR_NAMES.get(alone[0][1], alone[0][1])))
        return None
    if ires[0][0] == 1:
        code = ires[0][1]
        if code in core.UNDOCUMENTED:
            return ("C09/%s/undocumented-error-with-suffix" % name, "unit + %d trailing octets raises %s" % (len(data) - ulen, core.ERR_NAMES.get(code, code)))
        if fam in PDU_FAMILIES:
            return None  # a PDU followed by further octets may be refused with a documented error
        return ("C09/%s/suffix-refused" % name, "self-delimiting unit refused when followed by %s" % (data[ulen:][:12],))
    if ires != alone:
        return ("C09/%s/suffix-leaks-in" % name, "decode(unit ++ %s) differs from decode(unit): %s vs %s" % (data[ulen:][:12], str(ires)[:200], str(alone)[:200]))
    n = _decl(op, extra, data)
    if n is not None and n != ulen:
        return ("C09/%s/declared-length" % name, "declared length %s of a %d-octet unit" % (n, ulen))
    # "N is the length the unit itself declares AND THE DECODED OBJECT REPORTS ... units packed back to back can be split purely
    # by the reported lengths": registry entries that carry `reported_len` (view -> the lengths the decoded object reports:
    # packet_len, size of pack()) are held to it
    rep = next((d.get("reported_len") for d in xcut.all_decoders() if d["op"] == op and d["extra"] == extra), None)
    if rep is not None:
        got = rep(ires[1:])
        if any(x != ulen for x in got):
            return ("C09/%s/reported-length" % name, "the decoded object reports length(s) %s; the unit declares and occupies %d octets, so the next "
                    "unit of a back-to-back buffer would be looked for at the wrong offset (unit %s)" % (got, ulen, unit[:24]))
    return None
