"""C17 — USLP primary / truncated header and transfer frames (CCSDS 732.1-B-2).
Streams, implementation adapter, oracle."""
import itertools
from spacepackets.uslp import header as uh
from spacepackets.uslp import frame as uf

ID = "C17"
_H, _F = "spacepackets.uslp.header:", "spacepackets.uslp.frame:"
_MH, _MF = "SP.Model.UslpHeader.", "SP.Model.UslpFrame."
ENUMS = [
    (_H + "USLP_VERSION_NUMBER", _MH + "USLP_VERSION_NUMBER"),
    (_H + "HeaderType.NON_TRUNCATED.value", _MH + "HT_NON_TRUNCATED"),
    (_H + "HeaderType.TRUNCATED.value", _MH + "HT_TRUNCATED"),
    (_H + "SourceOrDestField.SOURCE", _MH + "SRC"),
    (_H + "SourceOrDestField.DEST", _MH + "DEST"),
    (_F + "USLP_TFDF_MAX_SIZE", _MF + "USLP_TFDF_MAX_SIZE"),
    (_F + "TfdzConstructionRules.FpPacketSpanningMultipleFrames", _MF + "FpPacketSpanningMultipleFrames"),
    (_F + "TfdzConstructionRules.FpFixedStartOfMapaSDU", _MF + "FpFixedStartOfMapaSDU"),
    (_F + "TfdzConstructionRules.FpContinuingPortionOfMapaSDU", _MF + "FpContinuingPortionOfMapaSDU"),
    (_F + "TfdzConstructionRules.VpOctetStream", _MF + "VpOctetStream"),
    (_F + "TfdzConstructionRules.VpStartingSegment", _MF + "VpStartingSegment"),
    (_F + "TfdzConstructionRules.VpContinuingSegment", _MF + "VpContinuingSegment"),
    (_F + "TfdzConstructionRules.VpLastSegment", _MF + "VpLastSegment"),
    (_F + "TfdzConstructionRules.VpNoSegmentation", _MF + "VpNoSegmentation"),
    (_F + "FrameType.FIXED.value", _MF + "FT_FIXED"),
    (_F + "FrameType.VARIABLE.value", _MF + "FT_VARIABLE"),
]
ASSUMPTIONS = [
    "CPython int / bytes / bytearray.append / struct / slice semantics as modelled in Base/Bytes.v and "
    "Model/UslpFrame.v (py_slice)",
    "header and frame objects are built with the documented constructors; attributes other than the tfdz "
    "property and set_frame_len_in_header are not mutated behind the model's back",
    "managed-parameter objects are built by their constructors (present => size given)",
    "independence of the header words is a theorem of the model; on the implementation every word's domain is "
    "enumerated completely and combinations are sampled",
]
TRUSTED = ["exception numbering of uslp/defs.py: harness/core.py classify_exception order list"]
EXPLORED_ONLY = []
ORACLE_LIMIT = {"quick": 30000, "thorough": 200000}

E_LEN, E_FRAMEHDR, E_TRUNC, E_RULES, E_FHP, E_VERSION, E_TYPE = 100, 101, 102, 103, 104, 105, 106
USLP_ERRS = set(range(100, 107))


# ------------------------------------------------------------------ adapters
def _sd(x):
    return uh.SourceOrDestField(x) if x in (0, 1) else x


def _bool(x):
    return bool(x) if x in (0, 1) else x


class _MissionHeader(uh.PrimaryHeader):
    """A downstream header class (adds nothing): library code must treat it as the PrimaryHeader it is."""


def _phdr(l):
    scid, sd, vcid, mp, fl, byp, prot, ocf, n, has, cnt = l
    cls = _MissionHeader if isinstance(scid, int) and scid % 4 == 3 else uh.PrimaryHeader
    return cls(scid=scid, src_dest=_sd(sd), vcid=vcid, map_id=mp, frame_len=fl,
                            bypass_seq_ctrl_flag=uh.BypassSequenceControlFlag(byp) if byp in (0, 1) else byp,
                            prot_ctrl_cmd_flag=uh.ProtocolCommandFlag(prot) if prot in (0, 1) else prot,
                            op_ctrl_flag=_bool(ocf), vcf_count_len=n, vcf_count=cnt if has else None)


def _thdr(l):
    scid, sd, vcid, mp = l[:4]
    return uh.TruncatedPrimaryHeader(scid=scid, src_dest=_sd(sd), vcid=vcid, map_id=mp)


def _opt(v):
    return [0, 0] if v is None else [1, int(v)]


def _base_fields(h):
    return [h.scid, int(h.src_dest), h.vcid, h.map_id]


def _phdr_fields(h):
    return _base_fields(h) + [h.frame_len, int(h.bypass_seq_ctrl_flag), int(h.prot_ctrl_cmd_flag),
                              int(h.op_ctrl_flag), h.vcf_count_len] + _opt(h.vcf_count)


def _fhdr(l):
    return _thdr(l[1:]) if l[0] == 0 else _phdr(l[1:])


def _fhdr_fields(h):
    return [0] + _base_fields(h) if isinstance(h, uh.TruncatedPrimaryHeader) else [1] + _phdr_fields(h)


def _ft(z):
    return uf.FrameType.FIXED if z == 0 else uf.FrameType.VARIABLE if z == 1 else None


def _rules(r):
    return uf.TfdzConstructionRules(r) if 0 <= r <= 7 else r


def _tfdf(s, d):
    r, i, has, fhp = s
    return uf.TransferFrameDataField(tfdz_cnstr_rules=_rules(r), uslp_ident=i, tfdz=bytes(d),
                                     fhp_or_lvop=fhp if has else None)


def _tfdf_fields(t):
    return [int(t.tfdz_contr_rules), int(t.uslp_ident)] + _opt(t.fhp_or_lvop) + [t.len()]


def _ob(l):
    return bytes(l[1:]) if l and l[0] else None


def _of_ob(b):
    return [0] if b is None else [1] + list(b)


def _frame(a):
    t = _tfdf(a[1], a[2])
    return uf.TransferFrame(header=_fhdr(a[0]), tfdf=t, insert_zone=_ob(a[3]), op_ctrl_field=_ob(a[4]), fecf=_ob(a[5]))


def _props(l):
    ft, fixed, ln, hiz, hfe, izs, izl, fes, fel = l
    kw = dict(has_insert_zone=bool(hiz), has_fecf=bool(hfe), insert_zone_len=izl if izs else None,
              fecf_len=fel if fes else None)
    if fixed:
        return uf.FixedFrameProperties(fixed_len=ln, **kw)
    return uf.VarFrameProperties(truncated_frame_len=ln, **kw)


def _res(fn):
    from harness import core
    try:
        return [0] + list(fn())
    except BaseException as e:  # noqa
        if isinstance(e, (KeyboardInterrupt, SystemExit, MemoryError)):
            raise
        return [1, core.canon_code(core.classify_exception(e))]



def _buf(l):
    """decoder input: bytes, or (for inputs of odd length) a bytearray -- the decoders accept both"""
    return bytearray(l) if len(l) % 2 else bytes(l)


def _frame_fields(f):
    return [_fhdr_fields(f.header), _tfdf_fields(f.tfdf), list(f.tfdf.tfdz), _of_ob(f.insert_zone),
            _of_ob(f.op_ctrl_field), _of_ob(f.fecf), [f.len()]]


HDR_ATTRS = ["scid", "src_dest", "vcid", "map_id", "frame_len", "bypass_seq_ctrl_flag", "prot_ctrl_cmd_flag", "op_ctrl_flag",
             "vcf_count_len"]


def _set_hdr_attr(h, k, v):
    if k == 1:
        v = _sd(v)
    elif k == 7:
        v = _bool(v)
    setattr(h, HDR_ATTRS[k], v)


def _frame_view(f):
    return [0, f.len(), f.header.frame_len if isinstance(f.header, uh.PrimaryHeader) else -1, f.tfdf.len()] + \
        _fhdr_fields(f.header) + _tfdf_fields(f.tfdf)


def _roundtrip(f, tr, ft):
    """pack, then decode the octets (followed by two foreign octets) with the managed parameters matching the object"""
    raw = f.pack(truncated=tr, frame_type=ft)
    fixed = int(f.tfdf.tfdz_contr_rules) in (0, 1, 2)
    kw = dict(has_insert_zone=f.insert_zone is not None, has_fecf=f.fecf is not None,
              insert_zone_len=None if f.insert_zone is None else len(f.insert_zone),
              fecf_len=None if f.fecf is None else len(f.fecf))
    if fixed:
        p = uf.FixedFrameProperties(fixed_len=len(raw), **kw)
    else:
        p = uf.VarFrameProperties(truncated_frame_len=len(raw), **kw)
    return uf.TransferFrame.unpack(raw_frame=bytearray(raw) + b"\xa5\x5a",
                                   frame_type=uf.FrameType.FIXED if fixed else uf.FrameType.VARIABLE, frame_properties=p)


def _part(l):
    """optional octets; bytes or bytearray (alternating with the length, both are accepted by the library)"""
    if not (l and l[0]):
        return None
    return bytearray(l[1:]) if len(l) % 2 else bytes(l[1:])


def _frame_op(cur, o, tr, ft):
    """one operation of a wide history on the frame object cur[0]; returns the rows it emits"""
    from harness import core
    f = cur[0]
    k = o[0] if o else 3
    try:
        if k == 0:
            f.tfdf.tfdz = bytes(o[1:])
        elif k == 1:
            f.set_frame_len_in_header()
        elif k == 4:
            f.insert_zone = _part(o[1:])
        elif k == 5:
            f.op_ctrl_field = _part(o[1:])
        elif k == 6:
            f.fecf = _part(o[1:])
        elif k == 7:
            _set_hdr_attr(f.header, o[1], o[2])
        elif k == 8:
            f.header.vcf_count = o[2] if o[1] else None
        elif k == 9:
            f.tfdf.fhp_or_lvop = o[2] if o[1] else None
        elif k == 10:
            f.tfdf.tfdz_contr_rules = _rules(o[1])
        elif k == 11:
            f.tfdf.uslp_ident = o[1]
        elif k == 12:
            f.tfdf = uf.TransferFrameDataField(tfdz_cnstr_rules=_rules(o[1]), uslp_ident=o[2], tfdz=bytes(o[5:]),
                                               fhp_or_lvop=o[4] if o[3] else None)
        elif k == 13:
            cur[0] = f = _roundtrip(f, tr, ft)
        elif k == 16:
            d = o[1:]
            ba = bytearray(d[:len(d) // 2])
            f.tfdf.tfdz = ba
            ba.extend(bytes(d[len(d) // 2:]))      # the caller's buffer grows in place ...
            f.tfdf.tfdz = ba                       # ... and is assigned again
        elif k == 17:
            f.tfdf.tfdz = bytes(o[1:])
            f.tfdf.tfdz = bytes(o[1:])
    except BaseException as e:  # noqa
        if isinstance(e, (KeyboardInterrupt, SystemExit, MemoryError)):
            raise
        return [[1, core.canon_code(core.classify_exception(e))]]
    if k == 2:
        return [_res(lambda: f.pack(truncated=tr, frame_type=ft))]
    if k == 14:
        try:
            g = _roundtrip(f, tr, ft)
        except BaseException as e:  # noqa
            if isinstance(e, (KeyboardInterrupt, SystemExit, MemoryError)):
                raise
            return [[1, core.canon_code(core.classify_exception(e))]]
        return [[0]] + _frame_fields(g)
    return [_frame_view(f)]


def impl(op, a):
    if op == 1600:
        return [list(_phdr(a[0]).pack())]
    if op == 1601:
        h = uh.PrimaryHeader.unpack(_buf(a[0]), a[1][0]); return [_phdr_fields(h), [h.len()]]
    if op == 1602:
        return [list(_thdr(a[0]).pack())]
    if op == 1603:
        h = uh.TruncatedPrimaryHeader.unpack(_buf(a[0]), a[1][0]); return [_base_fields(h), [h.len()]]
    if op == 1604:
        return [[uh.determine_header_type(bytes(a[0])).value]]
    if op == 1605:
        return [list(uh.PrimaryHeader.unpack(bytes(a[0])).pack())]
    if op == 1606:
        return [[_phdr(a[0]).len()]]
    if op == 1607:
        return [list(uh.TruncatedPrimaryHeader.unpack(bytes(a[0])).pack())]
    if op == 1610:
        return [_tfdf_fields(_tfdf(a[0], a[1]))]
    if op == 1611:
        return [list(_tfdf(a[0], a[1]).pack(truncated=bool(a[2][0]), frame_type=_ft(a[2][1])))]
    if op == 1612:
        t = uf.TransferFrameDataField.unpack(raw_tfdf=_buf(a[0]), truncated=bool(a[1][0]), exact_len=a[1][1],
                                             frame_type=_ft(a[1][2]))
        out = [_tfdf_fields(t), list(t.tfdz)]
        # a decoded data field is an ordinary data field: whenever it can be packed (same flags) its len() is the packed size
        try:
            n = len(t.pack(truncated=bool(a[1][0]), frame_type=_ft(a[1][2])))
        except Exception:
            n = None
        if n is not None and n != t.len():
            out.append([-1, n])          # (an extra row, present only when the statement fails)
        return out
    if op == 1613:
        r, tr, ft = a[0]
        t = _tfdf([r, 0, 0, 0], [])
        return [[int(t.should_have_fhp_or_lvp_field(truncated=bool(tr), frame_type=_ft(ft))),
                 int(t.verify_frame_type(uf.FrameType.FIXED)), int(t.verify_frame_type(uf.FrameType.VARIABLE))]]
    if op == 1620:
        return [[_frame(a).len()]]
    if op == 1621:
        f = _frame(a)
        b = f.pack(truncated=bool(a[6][0]), frame_type=_ft(a[6][1]))
        return [list(b), [f.len()]]
    if op == 1622:
        f = _frame(a); f.set_frame_len_in_header(); return [_fhdr_fields(f.header), [f.len()]]
    if op == 1623:
        f = _frame(a); f.set_frame_len_in_header()
        b = f.pack(truncated=bool(a[6][0]), frame_type=_ft(a[6][1]))
        return [list(b), _fhdr_fields(f.header), [f.len()]]
    if op == 1625:
        p = _props(a[1])
        if len(a[0]) % 3 == 0:
            # a long-lived managed-parameter object: first used with other zone sizes, then edited in place
            ft_, fixed_, ln_, hiz_, hfe_, izs_, izl_, fes_, fel_ = a[1]
            q = _props([ft_, fixed_, ln_, 1 - hiz_, 1 - hfe_, 1, (izl_ or 0) + 1, 1, (fel_ or 0) + 2])
            try:
                uf.TransferFrame.unpack(raw_frame=bytes(a[0]), frame_type=_ft(0 if a[1][0] == 0 else 1), frame_properties=q)
            except Exception:
                pass
            q.insert_zone_properties.present = p.insert_zone_properties.present
            q.insert_zone_properties.size = p.insert_zone_properties.size
            q.fecf_properties.present = p.fecf_properties.present
            q.fecf_properties.size = p.fecf_properties.size
            p = q
        f = uf.TransferFrame.unpack(raw_frame=bytes(a[0]), frame_type=_ft(0 if a[1][0] == 0 else 1), frame_properties=p)
        return [_fhdr_fields(f.header), _tfdf_fields(f.tfdf), list(f.tfdf.tfdz), _of_ob(f.insert_zone),
                _of_ob(f.op_ctrl_field), _of_ob(f.fecf), [f.len()]]
    if op == 1626:
        p = _props([0] + list(a[0][1:]))
        ln = p.fixed_len if isinstance(p, uf.FixedFrameProperties) else p.truncated_frame_len
        return [[int(isinstance(p, uf.FixedFrameProperties)), ln, int(p.insert_zone_properties.present),
                 p.insert_zone_properties.size or 0, int(p.fecf_properties.present), p.fecf_properties.size or 0]]
    if op == 1630:
        f = _frame(a)
        tr, ft = bool(a[6][0]), _ft(a[6][1])
        out = []
        for o in a[7:]:
            k = o[0] if o else 3
            if k == 0:
                f.tfdf.tfdz = bytes(o[1:])
            elif k == 1:
                f.set_frame_len_in_header()
            if k == 2:
                out.append(_res(lambda: f.pack(truncated=tr, frame_type=ft)))
            else:
                out.append([f.len(), f.header.frame_len if isinstance(f.header, uh.PrimaryHeader) else -1, f.tfdf.len()])
        return out
    if op == 1627:
        buf = bytearray(a[0])
        p = _props(a[1])
        f = uf.TransferFrame.unpack(raw_frame=buf, frame_type=_ft(0 if a[1][0] == 0 else 1), frame_properties=p)
        for i in range(len(buf)):
            buf[i] ^= 0xFF                   # the caller re-uses its receive buffer
        return _frame_fields(f)
    if op == 1628:
        x = uf.TransferFrame.unpack(raw_frame=bytes(a[0]), frame_type=_ft(0 if a[1][0] == 0 else 1), frame_properties=_props(a[1]))
        y = uf.TransferFrame.unpack(raw_frame=bytearray(a[2]), frame_type=_ft(0 if a[3][0] == 0 else 1), frame_properties=_props(a[3]))
        return _frame_fields(x) + _frame_fields(y)
    if op == 1631:
        h = _fhdr(a[0])
        rows = []
        for o in a[1:]:
            k = o[0] if o else 4
            try:
                if k == 0:
                    _set_hdr_attr(h, o[1], o[2])
                elif k == 1:
                    h.vcf_count = o[2] if o[1] else None
            except ValueError as e:
                # (the unchanged header classes are plain records: no assignment raises.)  A refused assignment is a row of
                # its own -- [1, class] instead of [0, fields...] -- and the history goes on with the header as it is
                from harness import core
                rows.append([1, core.canon_code(core.classify_exception(e))])
                continue
            if k == 2:
                rows.append(_res(h.pack))
            elif k == 3:
                rows.append([0, h.len()])
            else:
                rows.append([0] + _fhdr_fields(h))
        return rows
    if op == 1633:
        cur = [_frame(a)]
        tr, ft = bool(a[6][0]), _ft(a[6][1])
        rows = []
        for o in a[7:]:
            rows.extend(_frame_op(cur, o, tr, ft))
        return rows
    raise RuntimeError("bad op")


# ------------------------------------------------------------------ independent layout (732.1-B-2)
def be(n, v):
    return [(v // 256 ** (n - 1 - k)) % 256 for k in range(n)]


def base_layout(scid, sd, vcid, mp, eof):
    return [12 * 16 + scid // 4096, (scid // 16) % 256, (scid % 16) * 16 + sd * 8 + vcid // 8, (vcid % 8) * 32 + mp * 2 + eof]


def phdr_layout(l):
    scid, sd, vcid, mp, fl, byp, prot, ocf, n, has, cnt = l
    return base_layout(scid, sd, vcid, mp, 0) + [fl // 256, fl % 256, byp * 128 + prot * 64 + ocf * 8 + n] + be(n, cnt if has else 0)


def base_ok(l):
    scid, sd, vcid, mp = l[:4]
    return 0 <= scid <= 65535 and sd in (0, 1) and 0 <= vcid <= 63 and 0 <= mp <= 15


def ids_ok(l):
    return 0 <= l[0] <= 65535 and 0 <= l[2] <= 63 and 0 <= l[3] <= 15


def phdr_ok(l):
    scid, sd, vcid, mp, fl, byp, prot, ocf, n, has, cnt = l
    return (base_ok(l) and 0 <= fl <= 65535 and byp in (0, 1) and prot in (0, 1) and ocf in (0, 1) and 0 <= n <= 7
            and ((has and 0 <= cnt < 256 ** n) or (not has and n == 0)))


def hdr_layout(l):
    return base_layout(*l[1:5], 1) if l[0] == 0 else phdr_layout(l[1:])


def hdr_ok(l):
    return base_ok(l[1:]) if l[0] == 0 else phdr_ok(l[1:])


def canon_hdr(raw, ver=12, primary=True):
    """the octets with the TFVN the caller expects normalised to 1100 and the two reserved spare bits of
    octet 6 (which no field carries) cleared"""
    c = list(raw)
    if c and (c[0] >> 4) == ver:
        c[0] = 0xC0 | (c[0] & 15)
    if primary and len(c) >= 7 and not (c[3] & 1):
        c[6] &= 0xCF
    return c


def has_pointer(rule, truncated):
    return (not truncated) and rule in (0, 1, 2)


def frame_layout(a, with_ptr):
    r, i, has, fhp = a[1]
    t = [r * 32 + i] + (be(2, fhp) if with_ptr else []) + list(a[2])
    return hdr_layout(a[0]) + (a[3][1:] if a[3] and a[3][0] else []) + t + (a[4][1:] if a[4] and a[4][0] else []) + \
        (a[5][1:] if a[5] and a[5][0] else [])


# ------------------------------------------------------------------ generators
def rbytes(rng, n):
    return [rng.randrange(256) for _ in range(n)]


def rand_base(rng):
    return [rng.choice([0, 1, 0xFFFF, 0x0FFF, 0xF000, 0x00F0, 0x000F, rng.randrange(65536), rng.randrange(65536)]),
            rng.randrange(2), rng.choice([0, 63, 7, 56, rng.randrange(64)]), rng.choice([0, 15, rng.randrange(16)])]


def rand_count(rng, n):
    if n == 0:
        return rng.choice([[0, 0], [1, 0]])
    return [1, rng.choice([0, 1, 256 ** n - 1, 256 ** (n - 1), rng.randrange(256 ** n), rng.randrange(256 ** n)])]


def rand_phdr(rng, n=None, ocf=None, fl=None):
    n = rng.randrange(8) if n is None else n
    return rand_base(rng) + [rng.choice([0, 1, 255, 256, 65535, rng.randrange(65536)]) if fl is None else fl,
                             rng.randrange(2), rng.randrange(2), rng.randrange(2) if ocf is None else ocf, n] + rand_count(rng, n)


BAD_IDS = [-1, -2, -(2 ** 16), -(2 ** 63), 2 ** 64]


def hdr_streams(tier, rng):
    big = tier == "thorough"
    tail = rbytes(rng, 12)
    # 1. octets 0-1: all 2^16 (the 2^12 with version 1100 decode further)
    cases = []
    for w in range(65536):
        relevant = (w >> 12) == 12
        if relevant or big or w % 16 == 0:
            raw = [w >> 8, w & 0xFF] + [tail[0], tail[1] & 0xFE] + tail[2:4] + [tail[4] & 0xF8]
            cases.append((1601, [raw, [12]]))
            if relevant:
                cases.append((1605, [raw]))
                rawt = raw[:3] + [raw[3] | 1]
                cases.append((1603, [rawt, [12]]))
                cases.append((1607, [rawt]))
    for v in range(16):
        cases.append((1601, [[0xC5, 1, 2, 4, 0, 6, 0], [v]]))
        cases.append((1603, [[0x35, 1, 2, 5], [v]]))
    yield "exh_hdr_octets01", "exact", cases
    # 2. octets 2-3: all 2^16
    cases = []
    for w in range(65536):
        raw = [0xC0 | (tail[5] & 15), tail[6], w >> 8, w & 0xFF, tail[7], tail[8], tail[9] & 0xF8]
        if w & 1:
            cases.append((1603, [raw[:4], [12]]))
            if big or w % 4 == 1:
                cases.append((1607, [raw[:4] + [0xAA]]))
            if w % 64 == 1:
                cases.append((1601, [raw, [12]]))
        else:
            cases.append((1601, [raw, [12]]))
            if big or w % 4 == 0:
                cases.append((1605, [raw]))
            if w % 64 == 0:
                cases.append((1603, [raw, [12]]))
        if w % 16 < 2:
            cases.append((1604, [raw]))
    yield "exh_hdr_octets23", "exact", cases
    # 3. octet 6: all 2^8, every tail length 0..8 (count present / cut)
    cases = []
    for b6 in range(256):
        for tl in range(0, 9):
            raw = [0xC1, 0x23, 0x45, 0x66, 0x12, 0x34, b6] + tail[:tl]
            cases.append((1601, [raw, [12]]))
            cases.append((1605, [raw]))
    for w in range(65536) if big else range(0, 65536, 7):
        cases.append((1601, [[0xC1, 0x23, 0x45, 0x66, w >> 8, w & 0xFF, 0], [12]]))
    yield "exh_hdr_octet6_and_len", "exact", cases
    # 4. pack: every SCID; every (src, vcid, map); every frame length; every flag octet combination
    cases = []
    for s in range(65536):
        if big or s % 2 == 0 or s < 256 or s > 65280:
            cases.append((1602, [[s, s & 1, (s * 7) & 63, (s * 3) & 15]]))
        if big or s % 2 == 1:
            cases.append((1600, [[s, 0, 5, 3, 9, 0, 1, 0, 0, 0, 0]]))
    for sd, vc, mp in itertools.product(range(2), range(64), range(16)):
        cases.append((1602, [[0xABCD, sd, vc, mp]]))
        cases.append((1600, [[0x1234, sd, vc, mp, 0x0102, 1, 0, 1, 1, 1, 0x7F]]))
    for fl in range(65536) if big else range(0, 65536, 5):
        cases.append((1600, [[1, 1, 1, 1, fl, 0, 0, 0, 0, 0, 0]]))
    for byp, prot, ocf, n in itertools.product(range(2), range(2), range(2), range(8)):
        for cnt in rand_count(rng, n), rand_count(rng, n), ([1, 256 ** n - 1]):
            cases.append((1600, [[0xFFFF, 1, 63, 15, 0xFFFF, byp, prot, ocf, n] + cnt]))
            cases.append((1606, [[0xFFFF, 1, 63, 15, 0xFFFF, byp, prot, ocf, n] + cnt]))
    yield "exh_hdr_pack_fields", "exact", cases
    # 5. boundaries incl. out-of-range identifiers, counts that do not fit, missing count
    cases = []
    scids = [0, 1, 65535, 65536, 65537, 2 ** 20 - 1] + BAD_IDS
    vcids = [0, 1, 63, 64, 0xFFF] + BAD_IDS
    maps = [0, 1, 15, 16, 0xFFFFF] + BAD_IDS
    for s, v in itertools.product(scids, vcids):
        cases.append((1602, [[s, 0, v, 3]])); cases.append((1600, [[s, 1, v, 3, 7, 0, 0, 0, 0, 0, 0]]))
    for s, m in itertools.product(scids, maps):
        cases.append((1602, [[s, 1, 9, m]])); cases.append((1600, [[s, 0, 9, m, 7, 0, 0, 0, 2, 1, 513]]))
    for v, m in itertools.product(vcids, maps):
        cases.append((1602, [[77, 1, v, m]])); cases.append((1600, [[77, 0, v, m, 7, 1, 1, 1, 3, 1, 70000]]))
    for sd in [2, 3, -1, 31, 32]:
        cases.append((1602, [[1, sd, 1, 1]]))
    for n in list(range(-1, 10)) + [255, 256]:
        for cnt in [[0, 0], [1, 0], [1, 255], [1, 256], [1, 65535], [1, 65536], [1, 2 ** 32 - 1], [1, 2 ** 32], [1, -1],
                    [1, 256 ** max(n, 0) - 1], [1, 256 ** max(n, 0)], [1, 2 ** 70]]:
            cases.append((1600, [[5, 0, 5, 5, 5, 0, 0, 0, n] + cnt]))
            cases.append((1606, [[5, 0, 5, 5, 5, 0, 0, 0, n] + cnt]))
    for fl in [-1, 65536, 70000, 2 ** 32]:
        cases.append((1600, [[5, 0, 5, 5, fl, 0, 0, 0, 0, 0, 0]]))
    for flag in [2, -1, 3]:
        cases.append((1600, [[5, 0, 5, 5, 5, flag, 0, 0, 0, 0, 0]]))
        cases.append((1600, [[5, 0, 5, 5, 5, 0, flag, 0, 0, 0, 0]]))
        cases.append((1600, [[5, 0, 5, 5, 5, 0, 0, flag, 0, 0, 0]]))
    yield "hdr_boundaries", "exact", cases
    # 6. random valid headers: pack, and decode of the independent layout (+ suffix)
    cases = []
    for _ in range(40000 if big else 6000):
        h = rand_phdr(rng)
        cases.append((1600, [h]))
        lay = phdr_layout(h)
        cases.append((1601, [lay + rbytes(rng, rng.randrange(3)), [12]]))
        b = rand_base(rng)
        cases.append((1602, [b]))
        cases.append((1603, [base_layout(*b, 1) + rbytes(rng, rng.randrange(3)), [12]]))
    yield "hdr_random_valid", "exact", cases
    # 7. malformed: every truncation, single-octet substitutions, wrong version
    cases = []
    for _ in range(300 if big else 60):
        lay = phdr_layout(rand_phdr(rng))
        for k in range(len(lay) + 1):
            cases.append((1601, [lay[:k], [12]])); cases.append((1603, [lay[:k], [12]])); cases.append((1604, [lay[:k]]))
        for i in range(min(7, len(lay))):
            for v in (0, 1, 0x7F, 0x80, 0xFF, (lay[i] + 1) % 256, (lay[i] - 1) % 256):
                m = list(lay); m[i] = v
                cases.append((1601, [m, [12]])); cases.append((1603, [m[:4], [12]])); cases.append((1605, [m]))
    for ln in range(0, 16):
        for _ in range(30):
            raw = rbytes(rng, ln)
            if raw and rng.random() < 0.7:
                raw[0] = 0xC0 | (raw[0] & 15)
            cases.append((1601, [raw, [12]])); cases.append((1603, [raw, [12]])); cases.append((1604, [raw]))
    yield "hdr_malformed", "exact", cases


def rand_tfdf_s(rng, rule=None, fhp=None):
    r = rng.randrange(8) if rule is None else rule
    i = rng.choice([0, 1, 31, 16, rng.randrange(32)])
    if fhp is None:
        fhp = rng.randrange(2)
    return [r, i, fhp, rng.choice([0, 1, 0xFFFF, 0xAFFE, rng.randrange(65536)]) if fhp else 0]


def tfdf_streams(tier, rng):
    big = tier == "thorough"
    # every first octet x truncated x frame type x data lengths (incl. the 1- and 2-octet TFDF)
    cases = []
    for b0, tr, ft in itertools.product(range(256), range(2), range(3)):
        for ln in (1, 2, 3, 4, 9):
            raw = [b0] + rbytes(rng, ln - 1)
            cases.append((1612, [raw, [tr, ln, ft]]))
        cases.append((1612, [[b0] + rbytes(rng, 5), [tr, rng.choice([0, 1, 2, 3, 4, 5, 6, 7, 9, -1, -2, -7, 100]), ft]]))
    for tr, ft in itertools.product(range(2), range(3)):
        cases.append((1612, [[], [tr, 0, ft]]))
    for r, tr, ft in itertools.product(list(range(-1, 10)), range(2), range(3)):
        cases.append((1613, [[r, tr, ft]]))
    yield "exh_tfdf_unpack_octet0", "exact", cases
    # pack: rules x ident boundaries x pointer x truncated x frame type
    cases = []
    for r, i, tr, ft in itertools.product(list(range(8)) + [8, -1], [0, 1, 31, 32, -1], range(2), range(3)):
        for fhp in ([0, 0], [1, 0], [1, 0xFFFF], [1, 0x0102], [1, 65536], [1, -1]):
            d = rbytes(rng, rng.choice([0, 1, 5]))
            cases.append((1611, [[r, i] + fhp, d, [tr, ft]]))
            cases.append((1610, [[r, i] + fhp, d]))
    for r in range(8):
        for i in range(32):
            cases.append((1611, [[r, i, 1, 0x1234], [1, 2, 3], [0, 2]]))
    for n in (65526, 65527, 65528, 65529, 65530):
        for fhp in ([0, 0], [1, 7]):
            cases.append((1610, [[0, 0] + fhp, [0] * n]))
    yield "tfdf_pack_fields", "exact", cases


def mk_frame(rng, kind, rule, fhp, iz, ocf, fecf, ocf_flag=None, n=None, dz=None):
    """argument lists a0..a5 of a frame"""
    if kind == 0:
        h = [0] + rand_base(rng)
    else:
        h = [1] + rand_phdr(rng, n=n, ocf=(1 if (ocf and ocf[0] and len(ocf) > 1) else 0) if ocf_flag is None else ocf_flag)
    d = rbytes(rng, rng.choice([0, 1, 2, 3, 7, 20])) if dz is None else dz
    return [h, rand_tfdf_s(rng, rule, fhp), d, iz, ocf, fecf]


def set_len(a):
    """what set_frame_len_in_header must produce (independent arithmetic)"""
    h = list(a[0])
    if h[0] == 1:
        h[5] = frame_total(a) - 1
    return [h] + a[1:]


def frame_total(a, with_ptr=None):
    h = a[0]
    hl = 4 if h[0] == 0 else 7 + h[9]
    if with_ptr is None:
        with_ptr = a[1][2]
    return hl + 1 + (2 if with_ptr else 0) + len(a[2]) + sum(len(x) - 1 for x in a[3:6] if x and x[0])


IZS = [[0], [1], [1, 9, 8, 7]]
OCFS = [[0], [1, 1, 2, 3, 4]]
FECFS = [[0], [1, 0xAB, 0xCD], [1, 1, 2, 3, 4]]


def props_for(a, ft, total):
    """matching managed parameters for frame a"""
    iz, fe = a[3], a[5]
    return [ft, 1 if ft == 0 else 0, total, int(bool(iz[0])), int(bool(fe[0])), int(bool(iz[0])), len(iz) - 1 if iz[0] else 0,
            int(bool(fe[0])), len(fe) - 1 if fe[0] else 0]


def consistent_frames(rng, reps=1):
    """frames for which the standard defines the layout: rule matches frame type, pointer present
    exactly when the standard says, OCF flag matches OCF presence; with the raw octets by the
    independent layout and the matching managed parameters"""
    out = []
    for _ in range(reps):
        for iz, ocf, fecf, rule, n in itertools.product(IZS, OCFS, FECFS, range(8), (0, 1, 3, 7)):
            ft = 0 if rule < 3 else 1
            a = mk_frame(rng, 1, rule, 1 if rule < 3 else 0, iz, ocf, fecf, n=n)
            a = set_len(a)
            raw = frame_layout(a, rule < 3)
            out.append((a, raw, ft, 0))
        for iz, fecf, rule in itertools.product(IZS, FECFS, range(3, 8)):
            a = mk_frame(rng, 0, rule, 0, iz, [0], fecf)
            raw = frame_layout(a, False)
            out.append((a, raw, 1, 1))
    return out


def frame_streams(tier, rng):
    big = tier == "thorough"
    # A. every option combination through len / pack / set_frame_len+pack (consistent and inconsistent requests)
    cases = []
    for kind, iz, ocf, fecf, rule, fhp in itertools.product(range(2), IZS, OCFS + [[1], [1, 1, 2, 3]], FECFS, range(8), range(2)):
        for tr, ft in itertools.product(range(2), range(3)):
            if not big and rng.random() < 0.5:
                continue
            a = mk_frame(rng, kind, rule, fhp, iz, ocf, fecf, ocf_flag=rng.choice([0, 1, None, None]))
            cases.append((1621, a + [[tr, ft]]))
            cases.append((1623, a + [[tr, ft]]))
            if rng.random() < 0.3:
                cases.append((1620, a)); cases.append((1622, a))
    yield "frame_pack_combinations", "exact", cases
    cons = consistent_frames(rng, 3 if big else 1)
    # B. consistent frames: pack equals layout (checked by the oracle) and unpack under matching parameters
    cases = []
    for a, raw, ft, tr in cons:
        cases.append((1623, a + [[tr, rng.choice([ft, 2])]]))
        total = len(raw)
        cases.append((1625, [raw, props_for(a, ft, total)]))
        if ft == 0:   # fixed frames also decode as variable? (rule check refuses) and with trailing octets
            cases.append((1625, [raw + rbytes(rng, 3), props_for(a, ft, total)]))
    yield "frame_roundtrip_matching", "exact", cases
    # C. mismatching managed parameters
    cases = []
    for a, raw, ft, tr in cons:
        total = len(raw)
        good = props_for(a, ft, total)
        muts = []
        for d in (-1, 1, 5, -5):
            p = list(good); p[2] = total + d; muts.append(p)
        p = list(good); p[0] = 1 - ft; p[1] = 1 - p[1]; muts.append(p)          # other frame type, other class
        p = list(good); p[0] = 1 - ft; muts.append(p)                            # other frame type, same class
        p = list(good); p[1] = 1 - p[1]; muts.append(p)                          # same frame type, other class
        for idx in (6, 8):
            for d in (-1, 1, 2, 100, -100):
                p = list(good); p[idx - 3 if idx == 6 else 4] = 1; p[idx - 1] = 1; p[idx] = p[idx] + d; muts.append(p)
        p = list(good); p[3] = 1 - p[3]; p[5] = 1; muts.append(p)
        p = list(good); p[4] = 1 - p[4]; p[7] = 1; p[8] = p[8] or 2; muts.append(p)
        p = list(good); p[3] = 1; p[5] = 0; muts.append(p)                        # constructor refuses
        p = list(good); p[4] = 1; p[7] = 0; muts.append(p)
        sel = muts if big else rng.sample(muts, 6)
        for p in sel:
            cases.append((1625, [raw, p]))
        # every truncation of the frame under the matching parameters
        ks = range(len(raw)) if (big or len(raw) < 16) else sorted(set(rng.sample(range(len(raw)), 8) + [len(raw) - 1, len(raw) - 2, 3, 4, 7]))
        for k in ks:
            cases.append((1625, [raw[:k], good]))
        # frame length field disagreeing with the octets
        if a[0][0] == 1:
            for d in (-1, 1, -total + 1, 40):
                m = list(raw); v = (total - 1 + d) % 65536; m[4], m[5] = v >> 8, v & 0xFF
                cases.append((1625, [m, good]))
        # construction rule flipped to the other family
        hl = 4 if a[0][0] == 0 else 7 + a[0][9]
        pos = hl + (len(a[3]) - 1 if a[3][0] else 0)
        for r in (0, 2, 3, 7):
            m = list(raw); m[pos] = (r << 5) | (m[pos] & 31); cases.append((1625, [m, good]))
        m = list(raw); m[3] ^= 1; cases.append((1625, [m, good]))
        m = list(raw); m[0] = (m[0] & 15) | 0xD0; cases.append((1625, [m, good]))
    yield "frame_mismatching_params", "exact", cases
    # D. minimal data fields: 1- and 2-octet TFDF with / without OCF, FECF (pointer beyond the field)
    cases = []
    for rule, tl, ocff, fe in itertools.product(range(8), (0, 1, 2, 3), range(2), (0, 2)):
        h = [0x1234, 0, 5, 3, 0, 0, 0, ocff, 0, 0, 0]
        body = [(rule << 5) | 1] + [0x11, 0x22, 0x33][:max(tl - 1, 0)] if tl else []
        raw = phdr_layout(h) + body + ([9, 9, 9, 9] if ocff else []) + ([7, 7] if fe else [])
        v = len(raw) - 1
        raw[4], raw[5] = v >> 8, v & 0xFF
        for ft in (0, 1):
            cases.append((1625, [raw, [ft, 1 - ft, len(raw) if ft == 0 else 9, 0, int(bool(fe)), 0, 0, int(bool(fe)), fe]]))
    yield "frame_minimal_tfdf", "exact", cases
    # E. garbage with plausible starts and random managed parameters
    cases = []
    for _ in range(30000 if big else 4000):
        ln = rng.randrange(0, 40)
        raw = rbytes(rng, ln)
        if ln and rng.random() < 0.85:
            raw[0] = 0xC0 | (raw[0] & 15)
        if ln > 6 and rng.random() < 0.7:
            raw[4] = 0; raw[5] = rng.choice([ln - 1, ln - 1, ln, ln - 2, rng.randrange(48)]) % 256
            raw[6] = raw[6] & rng.choice([0xFF, 0xF8, 0xF9, 0x08])
        ft = rng.randrange(2)
        fixed = ft == 0 if rng.random() < 0.85 else rng.randrange(2)
        hiz, hfe = rng.randrange(2), rng.randrange(2)
        p = [ft, int(fixed), rng.choice([ln, ln, ln - 1, ln + 1, rng.randrange(40)]), hiz, hfe, 1 if hiz else rng.randrange(2),
             rng.choice([0, 1, 2, 4, 30, -1]), 1 if hfe else rng.randrange(2), rng.choice([0, 2, 4, 30, -2])]
        cases.append((1625, [raw, p]))
    yield "frame_garbage", "verdict", cases
    # F. histories: tfdz setter / set_frame_len_in_header / pack / len
    cases = []
    for _ in range(4000 if big else 700):
        kind = rng.randrange(2)
        rule = rng.randrange(8)
        a = mk_frame(rng, kind, rule, 1 if (rule < 3 and rng.random() < 0.9) else rng.choice([0, 0, 0, 1]),
                     rng.choice(IZS), rng.choice(OCFS) if kind else [0], rng.choice(FECFS))
        ops = []
        for _ in range(rng.randrange(1, 8)):
            k = rng.choice([0, 0, 1, 1, 2, 2, 3])
            ops.append([0] + rbytes(rng, rng.choice([0, 1, 4, 30])) if k == 0 else [k])
        cases.append((1630, a + [[kind == 0 and 1 or 0, rng.choice([2, 2, 0 if rule < 3 else 1])]] + ops))
    yield "frame_histories", "exact", cases
    cases = []
    for fixed, ln, hiz, hfe, izs, izl, fes, fel in itertools.product(range(2), (0, 9), range(2), range(2), range(2), (0, 4), range(2), (0, 2)):
        cases.append((1626, [[0, fixed, ln, hiz, hfe, izs, izl, fes, fel]]))
    yield "exh_props_ctor", "exact", cases




# ------------------------------------------------------------------ hardening: wide histories, sizes, buffers
def rand_zone(rng, sizes):
    n = rng.choice(sizes)
    return [0] if n is None else [1] + rbytes(rng, n)


def rand_wide_ops(rng, a, n_ops):
    """operations of a wide history on frame a (public attributes of the frame, its header and its data field)"""
    primary = a[0][0] == 1
    ops = []
    for _ in range(n_ops):
        r = rng.random()
        if r < 0.16:
            o = [rng.choice([0, 0, 16, 17])] + rbytes(rng, rng.choice([0, 1, 2, 5, 30]))
        elif r < 0.28:
            o = [1]
        elif r < 0.44:
            o = [2]
        elif r < 0.50:
            o = [3]
        elif r < 0.56:
            o = [4] + rand_zone(rng, [None, 0, 1, 3, 8])
        elif r < 0.62:
            o = [5] + (rand_zone(rng, [None, 4, 4, 4, 0, 3]) if primary else [0])
        elif r < 0.68:
            o = [6] + rand_zone(rng, [None, 2, 2, 4, 1, 0])
        elif r < 0.78:
            k = rng.randrange(9 if primary else 4)
            v = [rng.choice([0, 1, 0xFFFF, 0x8000, rng.randrange(65536)]), rng.randrange(2), rng.choice([0, 63, rng.randrange(64)]),
                 rng.choice([0, 15, rng.randrange(16)]), rng.choice([0, 1, 255, 256, 65535, rng.randrange(64)]), rng.randrange(2),
                 rng.randrange(2), rng.randrange(2), rng.randrange(8)][k]
            if rng.random() < 0.04:
                v = [65536, 2, 64, 16, 65536, 2, 2, 2, 8][k]        # one past the field
            o = [7, k, v]
        elif r < 0.82:
            if primary:
                n = a[0][9]
                o = [8] + rng.choice([[0, 0], [1, 0], [1, 256 ** max(n, 1) - 1], [1, rng.randrange(256 ** max(n, 1))]])
            else:
                o = [3]
        elif r < 0.86:
            o = [9] + rng.choice([[0, 0], [1, 0], [1, 0xFFFF], [1, rng.randrange(65536)]])
        elif r < 0.89:
            o = [10, rng.randrange(8)]
        elif r < 0.91:
            o = [11, rng.choice([0, 1, 31, rng.randrange(32)])]
        elif r < 0.94:
            t = rand_tfdf_s(rng)
            o = [12] + t + rbytes(rng, rng.choice([0, 1, 4, 12]))
        elif r < 0.97:
            o = [13]
        else:
            o = [14]
        ops.append(o)
    return ops


def sized_frame(rng, rule, n_dz, iz, ocf, fecf, kind=1, vcf_n=None, fill=None):
    """a consistent frame with a data zone of n_dz octets, its octets by the independent layout, frame type, truncated"""
    dz = [fill] * n_dz if fill is not None else rbytes(rng, n_dz)
    a = mk_frame(rng, kind, rule, 1 if (rule < 3 and kind == 1) else 0, iz, ocf if kind == 1 else [0], fecf, n=vcf_n, dz=dz)
    if kind == 1:
        a = set_len(a)
    tr = 1 if kind == 0 else 0
    return a, frame_layout(a, rule < 3 and not tr), (0 if rule < 3 else 1), tr


def harden_streams(tier, rng):
    big = tier == "thorough"
    # G. wide histories (up to 10 operations): every public attribute of frame / header / data field, parts
    #    replaced, in-place edited buffers, the decoded object used again
    cases = []
    for _ in range(9000 if big else 1800):
        kind = 1 if rng.random() < 0.8 else 0
        rule = rng.randrange(3, 8) if kind == 0 else rng.randrange(8)
        a = mk_frame(rng, kind, rule, 1 if (rule < 3 and rng.random() < 0.9) else rng.choice([0, 0, 0, 1]),
                     rng.choice(IZS), rng.choice(OCFS) if kind else [0], rng.choice(FECFS))
        if kind and rng.random() < 0.8:
            a = set_len(a)
        ft = rng.choice([2, 2, 0 if rule < 3 else 1])
        ops = rand_wide_ops(rng, a, rng.randrange(1, 11))
        if rng.random() < 0.5:
            ops += [[1], rng.choice([[13], [14]]), rng.choice([[0] + rbytes(rng, rng.choice([0, 3, 9])), [3]]), [1], [2], [3]][:rng.randrange(2, 7)]
        cases.append((1633, a + [[1 if kind == 0 else 0, ft]] + ops))
    # the decoded object used again, for every construction rule and option combination
    for iz, ocf, fecf, rule in itertools.product(IZS, OCFS, FECFS, range(8)):
        a, raw, ft, tr = sized_frame(rng, rule, rng.choice([0, 1, 7]), iz, ocf, fecf)
        d = rbytes(rng, rng.choice([0, 2, 11]))
        cases.append((1633, a + [[0, rng.choice([2, ft])], [13], [3], [rng.choice([0, 16, 17])] + d, [3], [1], [2], [14], [13], [2]]))
    # a refused replacement of the data field (data zone beyond the constructor's limit): nothing may change
    for has in (0, 1):
        a, raw, ft, tr = sized_frame(rng, 0 if has else 7, 5, [1, 9], [0], [1, 1, 2])
        big_dz = [0x77] * (65528 - (2 if has else 0))
        cases.append((1633, a + [[0, 2], [3], [12, a[1][0], 1, has, 7] + big_dz, [3], [2], [14],
                                 [12, a[1][0], 1, has, 7] + big_dz[:-2], [3]]))
    yield "frame_wide_histories", "exact", cases
    # H. header objects on their own: every attribute assigned, pack / len in between
    cases = []
    for _ in range(6000 if big else 1200):
        primary = rng.random() < 0.7
        h = [1] + rand_phdr(rng) if primary else [0] + rand_base(rng)
        ops = []
        for _ in range(rng.randrange(1, 11)):
            r = rng.random()
            if r < 0.5:
                k = rng.randrange(9 if primary else 4)
                v = [rng.choice([0, 1, 0xFFFF, 0xF00F, rng.randrange(65536)]), rng.randrange(2), rng.choice([0, 63, 7, 56, rng.randrange(64)]),
                     rng.choice([0, 15, rng.randrange(16)]), rng.choice([0, 255, 256, 65535, rng.randrange(65536)]), rng.randrange(2),
                     rng.randrange(2), rng.randrange(2), rng.randrange(8)][k]
                if rng.random() < 0.06:
                    v = [65536, 1, 64, 16, 65535, 1, 1, 1, 7][k] if rng.random() < 0.5 else [-1, 0, -1, -1, 0, 0, 0, 0, 0][k]
                ops.append([0, k, v])
            elif r < 0.6 and primary:
                n = rng.randrange(8)
                ops.append([0, 8, n]); ops.append([1] + rand_count(rng, n))
            elif r < 0.85:
                ops.append([2])
            elif r < 0.92:
                ops.append([3])
            else:
                ops.append([4])
        cases.append((1631, [h] + ops[:12]))
    yield "hdr_attribute_histories", "exact", cases
    # I. data zone size sweep: every length 0..1100 through set_frame_len + pack and through unpack (with trailing
    #    octets, from a bytearray that is overwritten); 4 KiB and the frame-length limit
    cases = []
    lens = list(range(0, 1101)) + [4095, 4096, 4097]
    for n in lens:
        rule = rng.randrange(8)
        iz, ocf, fecf = rng.choice(IZS), rng.choice(OCFS), rng.choice(FECFS)
        kind = 0 if (rule >= 3 and n % 7 == 3) else 1
        a, raw, ft, tr = sized_frame(rng, rule, n, iz, ocf, fecf, kind=kind, fill=rng.choice([None, None, 0, 0x80, 0xFF]))
        cases.append((1623, a + [[tr, rng.choice([ft, 2])]]))
        sfx = rbytes(rng, rng.choice([0, 0, 1, 2, 600])) if n % 2 else []
        cases.append((1627 if n % 3 else 1625, [raw + sfx, props_for(a, ft, len(raw))]))
    for total in (65534, 65535, 65536):
        for rule in (0, 3, 7):
            iz, ocf, fecf = rng.choice(IZS), rng.choice(OCFS), rng.choice(FECFS)
            hl = 7
            n = total - hl - 1 - (2 if rule < 3 else 0) - sum(len(x) - 1 for x in (iz, ocf, fecf) if x[0])
            a, raw, ft, tr = sized_frame(rng, rule, n, iz, ocf, fecf, vcf_n=0, fill=0x5A)
            cases.append((1623, a + [[0, 2]]))
            cases.append((1625, [raw, props_for(a, ft, len(raw))]))
    for n in (65523, 65524, 65525, 65526, 65527, 65528, 65529):      # around the TFDF limit: refused by the constructor or packed whole
        cases.append((1621, [[0, 5, 0, 1, 1], [7, 0, 0, 0], [0x33] * n, [0], [0], [0], [1, 2]]))
        cases.append((1621, [[0, 5, 0, 1, 1], [0, 0, 1, 9], [0x33] * (n - 2), [0], [0], [0], [0, 0]]))
    # the data field decoder on its own: every exact_len 1..1100 inside a longer buffer
    for ex in range(1, 1101):
        r = rng.randrange(8)
        raw = [(r << 5) | rng.randrange(32)] + rbytes(rng, ex - 1 + rng.choice([0, 1, 2, 40]))
        cases.append((1612, [raw, [rng.randrange(2), ex, rng.choice([0 if r < 3 else 1, 2])]]))
    # headers in front of long buffers (every count length), bytes and bytearray
    for n in range(8):
        for extra in (0, 1, 505, 506, 1093):
            lay = phdr_layout(rand_phdr(rng, n=n))
            cases.append((1601, [lay + rbytes(rng, extra), [12]]))
            cases.append((1603, [base_layout(*rand_base(rng), 1) + rbytes(rng, extra), [12]]))
    yield "exh_frame_dz_sizes", "exact", cases
    # J. every insert-zone / OCF / FECF size combination; absent zone with a configured size; sizes up to the limit
    cases = []
    iz_sizes = [None, 0, 1, 2, 7, 255, 256, 1000]
    fe_sizes = [None, 0, 1, 2, 4, 16, 255, 256, 1000]
    for izn, fen, oc in itertools.product(iz_sizes, fe_sizes, (0, 1)):
        for rep in range(2 if big else 1):
            rule = rng.randrange(8)
            kind = 0 if (rule >= 3 and not oc and rng.random() < 0.25) else 1
            iz = [0] if izn is None else [1] + rbytes(rng, izn)
            fe = [0] if fen is None else [1] + rbytes(rng, fen)
            a, raw, ft, tr = sized_frame(rng, rule, rng.choice([0, 1, 2, 9]), iz, [1, 1, 2, 3, 4] if oc else [0], fe, kind=kind)
            good = props_for(a, ft, len(raw))
            cases.append((1625, [raw, good]))
            cases.append((1623, a + [[tr, ft]]))
            if izn is None:
                for k in (0, 1, 2, 1000):
                    p = list(good); p[5] = 1; p[6] = k; cases.append((1625, [raw, p]))      # absent, but a size is configured
            if fen is None:
                for k in (0, 1, 2, 4, 1000):
                    p = list(good); p[7] = 1; p[8] = k; cases.append((1625, [raw + rbytes(rng, rng.randrange(3)), p]))
            if izn is None and fen is None:
                p = list(good); p[5] = 1; p[6] = 2; p[7] = 1; p[8] = 2; cases.append((1627, [raw, p]))
    for izn, fen in ((65000, None), (None, 65000), (32000, 33000), (-1, 2), (2, -1)):
        rule = rng.choice([0, 7])
        room = 65536 - 7 - (1 + (2 if rule < 3 else 0) + 3) - 4          # what the largest frame leaves for the two zones
        izn = room - fen if izn == -1 else izn
        fen = room - izn if fen == -1 else fen
        iz = [0] if izn is None else [1] + [0x11] * izn
        fe = [0] if fen is None else [1] + [0x22] * fen
        a, raw, ft, tr = sized_frame(rng, rule, 3, iz, [1, 1, 2, 3, 4], fe, vcf_n=0)
        assert len(raw) <= 65536 and max(raw) < 256
        cases.append((1625, [raw, props_for(a, ft, len(raw))]))
        cases.append((1623, a + [[0, ft]]))
    yield "frame_zone_size_combinations", "exact", cases
    # K. three boundaries at once: minimal data field (1..4 octets) x insert zone x OCF x FECF x count length,
    #    frame length field exact / one off, buffer exact / longer
    cases = []
    for rule, tl, izn, oc, fen, n in itertools.product(range(8), (1, 2, 3, 4), (None, 0, 1, 5), (0, 1), (None, 2, 4), (0, 7)):
        if not big and rng.random() < 0.5:
            continue
        hdr = rand_phdr(rng, n=n, ocf=oc)
        body = [(rule << 5) | rng.randrange(32)] + rbytes(rng, tl - 1)
        iz = [] if izn is None else rbytes(rng, izn)
        fe = [] if fen is None else rbytes(rng, fen)
        raw = phdr_layout(hdr) + iz + body + ([9, 8, 7, 6] if oc else []) + fe
        ft = 0 if rule < 3 else 1
        for d in (0, 0, -1, 1):
            m = list(raw); v = (len(raw) - 1 + d) % 65536; m[4], m[5] = v >> 8, v & 0xFF
            p = [ft, 1 - ft, len(raw) if ft == 0 else 9, int(izn is not None), int(fen is not None), int(izn is not None), izn or 0,
                 int(fen is not None), fen or 0]
            cases.append((1625, [m + (rbytes(rng, 3) if rng.random() < 0.3 else []), p]))
    yield "frame_triple_boundaries", "exact", cases
    # L. frames decoded from longer buffers (next frame / >= 512 octets behind) and from bytearrays that are
    #    overwritten afterwards; two frames decoded in a row and both inspected afterwards
    cases = []
    cons = consistent_frames(rng, 2 if big else 1)
    for a, raw, ft, tr in cons:
        good = props_for(a, ft, len(raw))
        b, raw2, ft2, tr2 = rng.choice(cons)
        cases.append((1627, [raw + raw2, good]))
        if rng.random() < 0.3:
            cases.append((1627, [raw + rbytes(rng, rng.choice([512, 513, 1024])), good]))
        cases.append((1628, [raw + rbytes(rng, rng.randrange(3)), good, raw2, props_for(b, ft2, len(raw2))]))
    yield "frame_long_buffers_two_in_a_row", "exact", cases


def streams(tier, rng):
    yield from hdr_streams(tier, rng)
    yield from tfdf_streams(tier, rng)
    yield from frame_streams(tier, rng)
    yield from harden_streams(tier, rng)


# ------------------------------------------------------------------ oracle
def oracle_spec(case, ires):
    op, a = case
    if op == 1600 and phdr_ok(a[0]):
        return [(1650, [a[0]])]
    if op == 1602 and base_ok(a[0]):
        return [(1651, [a[0]])]
    if op == 1601 and ires[0] == [0]:
        return [(1650, [ires[1]])]
    if op == 1603 and ires[0] == [0]:
        return [(1651, [ires[1]])]
    if op in (1621, 1623) and ires[0] == [0] and frame_consistent(a):
        b = set_len(a[:6]) if op == 1623 else a[:6]
        return [(1652, b + [a[6]])]
    return []


def frame_consistent(a, unused_pointer=False):
    """the request is one the standard defines: fields in range, construction rule of the right family for
    the requested frame type, pointer supplied exactly when the standard has one, header kind agrees with
    the truncated flag, OCF flag agrees with the presence of a 4-octet OCF."""
    h, s, d, iz, ocf, fecf, (tr, ft) = a[:7]
    r, i, has, fhp = s
    if not hdr_ok(h) or not (0 <= r <= 7 and 0 <= i <= 31):
        return False
    if (h[0] == 0) != bool(tr):
        return False
    if tr and r < 3:
        return False
    if ft != 2 and (ft == 0) != (r < 3):
        return False
    if has and not 0 <= fhp <= 65535:
        return False
    if unused_pointer:
        # a pointer is supplied although the standard (and pack) has none for this rule
        if not has or has_pointer(r, tr):
            return False
    elif bool(has) != has_pointer(r, tr):
        return False
    has_ocf = bool(ocf and ocf[0])
    if has_ocf and len(ocf) != 5:
        return False
    if h[0] == 1 and bool(h[8]) != has_ocf:
        return False
    if h[0] == 0 and has_ocf:
        return False
    # the constructor documents ValueError for a data zone beyond its size limit (USLP_TFDF_MAX_SIZE minus twice
    # the data field header, i.e. slightly below the standard's 65529)
    if 1 + (2 if has else 0) + len(d) > 65529 - (3 if has else 1):
        return False
    return True


def _err(ires):
    return ires[0][1] if ires[0][0] == 1 else None


def oracle(case, ires, sres):
    op, a = case
    err = ires[0][0] == 1
    code = _err(ires)
    if op in (1600, 1602):
        l = a[0]
        what = "PrimaryHeader.pack" if op == 1600 else "TruncatedPrimaryHeader.pack"
        if not ids_ok(l):
            if not err or code not in (1, 2, 3):
                return ("C17/%s/id-range" % what, "out-of-range identifier not refused with ValueError: %s -> %s" % (l, ires))
            return None
        ok = phdr_ok(l) if op == 1600 else base_ok(l)
        if ok:
            exp = phdr_layout(l) if op == 1600 else base_layout(*l[:4], 1)
            if err or ires[1] != exp or sres[0][1] != exp:
                return ("C17/%s/layout" % what, "pack%s = %s, standard says %s" % (tuple(l), ires, exp))
        return None
    if op in (1601, 1603):
        raw, ver = a[0], a[1][0]
        need = 7 if op == 1601 else 4
        what = "PrimaryHeader.unpack" if op == 1601 else "TruncatedPrimaryHeader.unpack"
        if err:
            if code not in USLP_ERRS and code not in (1, 2, 3):
                return ("C17/%s/undocumented-error" % what, "%s -> %s" % (raw, ires))
            n = (raw[6] & 7) if len(raw) >= 7 else 0
            full = len(raw) >= need + (n if op == 1601 else 0)
            if full and (raw[0] >> 4) == ver and (raw[3] & 1) == (0 if op == 1601 else 1):
                return ("C17/%s/refuses-valid" % what, "well-formed header refused: %s -> %s" % (raw, ires))
            return None
        f = ires[1]
        canon = canon_hdr(raw, ver)
        if op == 1601:
            n = f[8]
            if len(raw) < 7 + n:
                return ("C17/%s/short-accepted" % what, "header cut inside the VCF count accepted: %s" % (raw,))
            if not phdr_ok(f) or phdr_layout(f) != canon[:7 + n] or sres[0][1] != canon[:7 + n] or ires[2] != [7 + n]:
                return ("C17/%s/fields" % what, "decoded fields %s do not encode to %s" % (f, raw[:7 + n]))
        else:
            if not base_ok(f) or base_layout(*f, 1) != canon[:4] or sres[0][1] != canon[:4] or ires[2] != [4]:
                return ("C17/%s/fields" % what, "decoded fields %s do not encode to %s" % (f, raw[:4]))
        return None
    if op in (1605, 1607):
        raw = a[0]
        if not err:
            if ires[1] != canon_hdr(raw, 12, op == 1605)[:len(ires[1])]:
                return ("C17/header.unpack-pack/roundtrip", "encode(decode(%s)) = %s" % (raw, ires))
        elif code not in USLP_ERRS and code not in (1, 2, 3):
            return ("C17/header.unpack-pack/undocumented-error", "%s -> %s" % (raw, ires))
        return None
    if op == 1604:
        raw = a[0]
        if len(raw) < 4:
            if not err or code not in (1, 2, 3):
                return ("C17/determine_header_type/short", "%s -> %s" % (raw, ires))
        elif err or ires[1] != [raw[3] % 2]:
            return ("C17/determine_header_type/value", "%s -> %s" % (raw, ires))
        return None
    if op == 1606:
        if err:
            # a count length outside 0..7 / a count that does not fit it: the unchanged constructor stores anything and pack()
            # fails later; a constructor that refuses such a header with ValueError is as good
            if phdr_ok(a[0]) or code not in (1, 2, 3):
                return ("C17/PrimaryHeader.__init__/refuses-valid", "%s -> %s" % (a[0], ires))
            return None
        if ires[1] != [7 + a[0][8]]:
            return ("C17/PrimaryHeader.len", "%s -> %s" % (a[0], ires))
        return None
    if op == 1612:
        raw, (tr, ex, ft) = a[0], a[1]
        if err:
            if code not in USLP_ERRS and code not in (1, 2, 3):
                return ("C17/TransferFrameDataField.unpack/undocumented-error", "raw=%s truncated=%d exact_len=%d ft=%d -> %s" % (raw, tr, ex, ft, ires))
            return None
        r, i, has, fhp, size = ires[1]
        # whatever exact_len says: the decoded field reports the size of what it holds (pointer + data zone as decoded),
        # which is what it packs to
        if len(ires) > 3 or size != (3 if has else 1) + len(ires[2]):
            return ("C17/TransferFrameDataField.len/decoded-field",
                    "raw=%s (%d octets) truncated=%d exact_len=%d ft=%d: the decoded data field holds a %d-octet header and a %d-octet "
                    "data zone%s but len() = %d" % (raw[:24], len(raw), tr, ex, ft, 3 if has else 1, len(ires[2]),
                                                    " and packs to %d octets" % ires[3][1] if len(ires) > 3 else "", size))
        if 1 <= ex <= len(raw):
            hl = 3 if has else 1
            if ex < hl:
                return ("C17/TransferFrameDataField.unpack/pointer-outside-field", "pointer read beyond the %d-octet data field: %s -> %s" % (ex, raw, ires))
            exp = [r * 32 + i] + (be(2, fhp) if has else []) + ires[2]
            exp_has = ft != 1 and has_pointer(r, bool(tr))
            if exp != raw[:ex] or size != ex or bool(has) != exp_has:
                return ("C17/TransferFrameDataField.unpack/fields", "raw=%s exact_len=%d -> %s" % (raw, ex, ires))
        return None
    if op == 1621 and frame_consistent(a, unused_pointer=True):
        if not err and ires[2] != [len(ires[1])]:
            return ("C17/TransferFrame.len/unused-pointer-counted",
                    "pointer supplied with a rule that has none: len() = %s, packed size %d (%s)" % (ires[2], len(ires[1]), a[:3]))
        return None
    if op in (1621, 1623):
        if not frame_consistent(a):
            return None
        b = set_len(a[:6]) if op == 1623 else a[:6]
        tr = a[6][0]
        exp = frame_layout(b, has_pointer(a[1][0], tr))
        if err:
            return ("C17/TransferFrame.pack/refuses-valid", "consistent frame refused: %s -> %s" % (a, ires))
        if ires[1] != exp or sres[0][1] != exp or sres[0][2] != [int(has_pointer(a[1][0], tr))]:
            return ("C17/TransferFrame.pack/layout", "pack = %s, standard says %s" % (ires[1], exp))
        ln = ires[2] if op == 1621 else ires[3]
        if ln != [len(exp)]:
            return ("C17/TransferFrame.len", "len() = %s, packed size %d" % (ln, len(exp)))
        if op == 1623 and b[0][0] == 1:
            if ires[2] != b[0] or (exp[4] * 256 + exp[5]) != len(exp) - 1:
                return ("C17/TransferFrame.set_frame_len_in_header", "header %s, packed size %d" % (ires[2], len(exp)))
        return None
    if op in (1625, 1627):
        r = oracle_unpack(a, ires, err, code)
        if r and op == 1627 and not err:
            return (r[0].replace("/fields", "/fields-after-buffer-reuse"), r[1])
        return r
    if op == 1628:
        if err:
            return oracle_unpack(a[:2], ires, err, code) if expected_unpack(a[0], a[1]) and expected_unpack(a[0], a[1])[0] == "err" else None
        r = oracle_unpack(a[:2], [[0]] + ires[1:8], False, None)
        if r:
            return ("C17/TransferFrame.unpack/first-frame-after-second", "frame decoded first, inspected after decoding another one: " + r[1])
        return oracle_unpack(a[2:4], [[0]] + ires[8:15], False, None)
    if op == 1631:
        return oracle_hdr_history(a, ires)
    if op == 1633:
        return oracle_wide_history(a, ires)
    if op == 1630:
        if err:
            return None
        tr = a[6][0]
        last_len = None
        for o, out in zip(a[7:], ires[1:]):
            k = o[0] if o else 3
            if k == 2:
                if out[0] == 0 and last_len is not None and a[1][2] == int(has_pointer(a[1][0], tr)) and len(out) - 1 != last_len:
                    return ("C17/TransferFrame.len/stale", "after %s: len() = %d, packed %d" % (a[7:], last_len, len(out) - 1))
            else:
                last_len = out[0]
        return None
    return None



def oracle_hdr_history(a, ires):
    """a header object after any sequence of attribute assignments packs to the standard's octets for its
    current values, reports them, and len() is the packed size; identifiers outside their ranges are refused"""
    h = list(a[0])
    if ires[0] != [0]:
        return None
    for n, (o, row) in enumerate(zip(a[1:], ires[1:])):
        k = o[0] if o else 4
        h0 = list(h)
        if k == 0:
            h[1 + o[1]] = o[2]
        elif k == 1 and h[0] == 1:
            h[10], h[11] = (1, o[2]) if o[1] else (0, 0)
        what = "header %s after %s" % (a[0], a[1:2 + n])
        if k in (0, 1) and row[0] == 1:
            # the assignment was refused (ValueError).  Fine when the header it would have produced is none the standard
            # defines (identifier / length / flag out of range, a count that does not fit its length); the header is then
            # as before, which the following rows show
            if hdr_ok(h):
                return ("C17/header.attributes/refuses-valid", "%s: the assignment was refused although %s is a valid header" % (what, h))
            h = h0
            continue
        if k == 2:
            if not ids_ok(h[1:]):
                if row[0] != 1 or row[1] not in (1, 2, 3):
                    return ("C17/header.attributes/id-range", "%s: out-of-range identifier packed: %s" % (what, row))
            elif hdr_ok(h):
                if row != [0] + hdr_layout(h):
                    return ("C17/header.attributes/pack-layout", "%s: pack() = %s, standard says %s for %s" % (what, row, hdr_layout(h), h))
        elif k == 3:
            if row != [0, 4 if h[0] == 0 else 7 + h[9]]:
                return ("C17/header.attributes/len", "%s: len() = %s" % (what, row))
        else:
            exp = [0] + (h[:5] if h[0] == 0 else h[:10] + ([1, h[11]] if h[10] else [0, 0]))
            if row != exp:
                return ("C17/header.attributes/fields", "%s: object reports %s, expected %s" % (what, row, exp))
    return None


def oracle_wide_history(a, ires):
    """reference simulation of a wide history.  While the object is one the standard defines (frame_consistent) its
    pack() must be the layout of its current parts; while in addition the cached data field size is up to date
    (no pointer assigned since the data zone was last set) len() must be the packed size, set_frame_len_in_header
    must store that minus one, and decoding the packed octets with matching managed parameters must give the same
    parts back."""
    if ires[0] != [0]:
        return None
    h, t, dz, iz, ocf, fe = [list(x) for x in a[:6]]
    tr, ft = a[6][0], a[6][1]
    norm = lambda z: [1] + list(z[1:]) if z and z[0] else [0]
    iz, ocf, fe = norm(iz), norm(ocf), norm(fe)
    fresh = True            # cached size of the data field corresponds to (pointer, data zone)
    rows = list(ires[1:])
    pos = 0

    def state():
        return [h, t, dz, iz, ocf, fe, [tr, ft]]

    def total():
        return frame_total(state()[:6], with_ptr=t[2])

    for n, o in enumerate(a[7:]):
        if pos >= len(rows):
            return None
        row = rows[pos]
        k = o[0] if o else 3
        what = "frame %s, truncated=%d ft=%d, operations %s" % ([x[:12] for x in a[:6]], tr, ft, [x[:8] for x in a[7:8 + n]])
        if row[0] == 1 and k not in (2, 14):
            if k == 13:
                if frame_consistent(state()) and fresh and (h[0] == 0 or h[5] == total() - 1):
                    return ("C17/TransferFrame.unpack/own-output-refused", "%s: unpack(pack()) with matching parameters raised %s" % (what, row))
                pos += 1
                continue
            if k == 12:
                pos += 1
                continue
            if k in (0, 1, 4, 5, 6, 7, 8, 9, 10, 11) and row[1] in (1, 2, 3):
                # a single assignment refused with ValueError (the unchanged classes refuse only a data zone beyond the
                # size limit; a stricter library may refuse a field value outside its range): nothing was assigned, the
                # object is as before -- which the following rows show -- and the history goes on
                pos += 1
                continue
            return None
        if k in (0, 16, 17):
            dz = list(o[1:]); fresh = True
        elif k == 4:
            iz = norm(o[1:])
        elif k == 5:
            ocf = norm(o[1:])
        elif k == 6:
            fe = norm(o[1:])
        elif k == 7:
            h[1 + o[1]] = o[2]
        elif k == 8 and h[0] == 1:
            h[10], h[11] = (1, o[2]) if o[1] else (0, 0)
        elif k == 9:
            t[2], t[3] = (1, o[2]) if o[1] else (0, 0)
            fresh = False
        elif k == 10:
            t[0] = o[1]
        elif k == 11:
            t[1] = o[1]
        elif k == 12:
            t = list(o[1:5]); t[3] = t[3] if t[2] else 0; dz = list(o[5:]); fresh = True
        cons = frame_consistent(state())
        sized = cons and fresh
        if k == 1 and h[0] == 1:
            if sized:
                h[5] = total() - 1
            else:
                h[5] = row[2]          # no opinion on the value: follow the object
        if k == 2:
            if cons:
                exp = frame_layout(state()[:6], has_pointer(t[0], tr))
                if row != [0] + exp:
                    return ("C17/TransferFrame.history/pack-layout", "%s: pack() = %s, standard says %s" % (what, row[:60], exp[:60]))
            pos += 1
            continue
        if k == 14:
            if cons and fresh and (h[0] == 0 or h[5] == total() - 1):
                if row != [0]:
                    return ("C17/TransferFrame.unpack/own-output-refused", "%s: unpack(pack()) with matching parameters raised %s" % (what, row))
                r = check_decoded(state(), rows[pos + 1:pos + 8], what)
                if r:
                    return r
            pos += 8 if row == [0] else 1
            continue
        if k == 13:
            if cons and fresh and (h[0] == 0 or h[5] == total() - 1):
                if h[0] == 1 and not h[10]:
                    h[10], h[11] = 1, 0         # a decoded header always carries a count (0 for length 0)
            else:
                return None                      # outside the defined domain: the rest follows the object
        # view row: [0, len, header frame_len, tfdf len] + header fields + tfdf fields
        hf = h[:5] if h[0] == 0 else h[:10] + ([1, h[11]] if h[10] else [0, 0])
        exp_fields = hf + [t[0], t[1]] + ([1, t[3]] if t[2] else [0, 0])
        got_fields = row[4:4 + len(hf)] + row[4 + len(hf):4 + len(hf) + 4]
        if got_fields != exp_fields:
            return ("C17/TransferFrame.history/fields", "%s: object reports %s, expected %s" % (what, got_fields, exp_fields))
        if sized:
            if row[1] != total() or row[3] != 1 + (2 if t[2] else 0) + len(dz):
                return ("C17/TransferFrame.len/stale", "%s: len() = %d, data field len() = %d; the parts add up to %d / %d" % (
                    what, row[1], row[3], total(), 1 + (2 if t[2] else 0) + len(dz)))
            if k == 1 and h[0] == 1 and row[2] != total() - 1:
                return ("C17/TransferFrame.set_frame_len_in_header", "%s: frame length field %d, packed size %d" % (what, row[2], total()))
        pos += 1
    return None


def check_decoded(st, rows, what):
    h, t, dz, iz, ocf, fe = st[:6]
    if len(rows) < 7:
        return ("C17/TransferFrame.unpack/own-output-fields", "%s: short result %s" % (what, rows))
    hdr, tf, tfdz, giz, gocf, gfe, ln = rows[:7]
    eh = list(h)
    if eh[0] == 1 and not eh[10]:
        eh[10], eh[11] = 1, 0
    exp_hdr = eh[:5] if eh[0] == 0 else eh[:10] + [1, eh[11]]
    tot = frame_total(st[:6], with_ptr=t[2])
    ok = (hdr == exp_hdr and tf[:2] == t[:2] and tf[2:4] == ([1, t[3]] if t[2] else [0, 0]) and tfdz == dz and giz == iz and
          (gocf[1:] if gocf[0] else []) == ocf[1:] and gfe == fe and ln == [tot])
    if not ok:
        return ("C17/TransferFrame.unpack/own-output-fields",
                "%s: decoding the packed object gave %s, the object holds %s" % (what, [r[:24] for r in rows[:7]], [x[:24] for x in st[:6]]))
    return None


def expected_unpack(raw, p):
    """Independent reference decoder for a frame under managed parameters p (the standard's field order and
    the documented refusals).  Returns ('ok', fields) / ('err', allowed codes) / None (no opinion)."""
    ft, fixed, ln, hiz, hfe, izs, izl, fes, fel = p
    if (hiz and not izs) or (hfe and not fes):
        return ("err", {1})
    if (ft == 0) != bool(fixed):
        return ("err", {1}) if ft == 0 else None
    izl = izl if hiz else 0
    fel = fel if hfe else 0
    if izl < 0 or fel < 0 or ln < 0:
        return None
    if len(raw) < 4:
        return ("err", {E_LEN})
    if raw[0] >> 4 != 12:
        return ("err", {E_VERSION, E_LEN, E_TRUNC})
    trunc = raw[3] & 1
    if trunc:
        if ft == 0:
            return ("err", {E_TRUNC, E_LEN})
        hl, total, ocf = 4, ln, 0
    else:
        if len(raw) < 7:
            return ("err", {E_LEN})
        n = raw[6] & 7
        hl = 7 + n
        if len(raw) < hl:
            return ("err", {E_LEN})
        total = raw[4] * 256 + raw[5] + 1
        ocf = (raw[6] >> 3) & 1
        if ft == 0 and total != ln:
            return ("err", {E_LEN})
    if len(raw) < total:
        return ("err", {E_LEN})
    tl = total - hl - izl - 4 * ocf - fel
    if tl < 1:
        return ("err", {E_LEN})
    pos = hl + izl
    rule = raw[pos] >> 5
    if (rule < 3) != (ft == 0):
        return ("err", {E_RULES})
    ptr = rule < 3 and not trunc
    if ptr and tl < 3:
        return ("err", {E_LEN})
    fields = {"rule": rule, "ident": raw[pos] & 31, "fhp": raw[pos + 1] * 256 + raw[pos + 2] if ptr else None,
              "tfdz": raw[pos + (3 if ptr else 1):pos + tl], "iz": raw[hl:hl + izl] if hiz else None,
              "ocf": raw[pos + tl:pos + tl + 4] if ocf else None,
              "fecf": raw[pos + tl + 4 * ocf:pos + tl + 4 * ocf + fel] if hfe else None, "total": total, "hdr": canon_hdr(raw)[:hl]}
    return ("ok", fields)


def oracle_unpack(a, ires, err, code):
    raw, p = a
    if err and code not in USLP_ERRS and code not in (1, 2, 3):
        return ("C17/TransferFrame.unpack/undocumented-error", "raw=%s params=%s -> %s" % (raw, p, ires))
    exp = expected_unpack(raw, p)
    if exp is None:
        return None
    if exp[0] == "err":
        if not err:
            return ("C17/TransferFrame.unpack/mismatch-accepted", "raw=%s params=%s accepted: %s" % (raw, p, ires[1:]))
        if code not in exp[1] and code not in (1, 2, 3) and code not in USLP_ERRS:
            return ("C17/TransferFrame.unpack/wrong-error", "raw=%s params=%s -> %s" % (raw, p, ires))
        return None
    f = exp[1]
    if err:
        return ("C17/TransferFrame.unpack/refuses-valid", "raw=%s params=%s -> %s" % (raw, p, ires))
    hdr, tf, tfdz, iz, ocf, fecf, ln = ires[1:8]
    got_hdr = hdr_layout(hdr)
    un = lambda l: l[1:] if l[0] else None
    ok = (got_hdr == f["hdr"] and tf[0] == f["rule"] and tf[1] == f["ident"] and
          (tf[3] if tf[2] else None) == f["fhp"] and tfdz == f["tfdz"] and un(iz) == f["iz"] and
          un(ocf) == f["ocf"] and un(fecf) == f["fecf"] and ln == [f["total"]])
    if not ok:
        return ("C17/TransferFrame.unpack/fields", "raw=%s params=%s -> %s, expected %s" % (raw, p, ires[1:], f))
    return None


def neighbours(case):
    op, a = case
    out = []
    if op in (1600, 1602, 1606):
        for i in range(len(a[0])):
            for d in (-1, 1):
                l = list(a[0]); l[i] += d; out.append((op, [l]))
    if op in (1601, 1603, 1605, 1607, 1604):
        for i in range(min(8, len(a[0]))):
            for bit in range(8):
                l = list(a[0]); l[i] ^= 1 << bit; out.append((op, [l] + a[1:]))
    if op == 1625:
        for i in range(min(12, len(a[0]))):
            for bit in (0, 3, 5, 7):
                l = list(a[0]); l[i] ^= 1 << bit; out.append((op, [l, a[1]]))
        for k in range(len(a[0])):
            out.append((op, [a[0][:k], a[1]]))
    return out


# ---- registry for the cross-cutting checks C09 / C10
def _valid_phdrs(rng):
    return [phdr_layout(rand_phdr(rng)) for _ in range(40)]


def _valid_thdrs(rng):
    return [base_layout(*rand_base(rng), 1) for _ in range(40)]


def _valid_tfdfs(rng):
    out = []
    for _ in range(40):
        r = rng.randrange(3)
        out.append([r * 32 + rng.randrange(32)] + rbytes(rng, 2 + rng.randrange(9)))
    return out


def _valid_frames(rng, ft):
    return [raw for a, raw, f, tr in consistent_frames(rng) if f == ft and not tr and not a[3][0] and not a[5][0]][:60]


def _valid_frames_fecf(rng, ft):
    return [raw for a, raw, f, tr in consistent_frames(rng) if f == ft and not tr and not a[3][0] and a[5][0] and len(a[5]) == 3][:60]


DECODERS = [
    {"op": 1625, "name": "TransferFrame.unpack(VARIABLE,FECF)", "extra": [[1, 0, 9, 0, 1, 0, 0, 1, 2]],
     "valid": lambda rng: _valid_frames_fecf(rng, 1), "declared_len": lambda b: (b[4] * 256 + b[5] + 1) if not b[3] & 1 else 9},
    {"op": 1601, "name": "PrimaryHeader.unpack", "extra": [[12]], "valid": _valid_phdrs,
     "declared_len": lambda b: 7 + (b[6] & 7)},
    {"op": 1603, "name": "TruncatedPrimaryHeader.unpack", "extra": [[12]], "valid": _valid_thdrs, "declared_len": lambda b: 4},
    {"op": 1604, "name": "determine_header_type", "extra": [], "valid": _valid_thdrs, "declared_len": None},
    {"op": 1612, "name": "TransferFrameDataField.unpack(FIXED)", "extra": [[0, 3, 0]], "valid": _valid_tfdfs, "declared_len": None},
    {"op": 1625, "name": "TransferFrame.unpack(VARIABLE)", "extra": [[1, 0, 9, 0, 0, 0, 0, 0, 0]],
     "valid": lambda rng: _valid_frames(rng, 1), "declared_len": lambda b: (b[4] * 256 + b[5] + 1) if not b[3] & 1 else 9},
]
