"""C18 — reserved CFDP messages (proxy, directory, originating ID) round-trip via TLVs.
Family 11 of run_case (coq/theories/Run/DispMsg.v)."""
import itertools, json, os
from pathlib import Path, PurePosixPath, PureWindowsPath
from harness.core import classify_exception, canon_code, run_impl
from harness import liveprobe
from spacepackets.util import UnsignedByteField, ByteFieldU8, ByteFieldU16, ByteFieldU32, ByteFieldU64
from spacepackets.cfdp.pdu.finished import FinishedParams
from spacepackets.cfdp.tlv import CfdpTlv, TlvType
from spacepackets.cfdp.lv import CfdpLv
from spacepackets.cfdp.defs import ConditionCode, DeliveryCode, FileStatus, TransmissionMode, TransactionId
from spacepackets.cfdp.tlv import (
    MessageToUserTlv, ReservedCfdpMessage, ProxyPutRequestParams, ProxyPutRequest, ProxyCancelRequest,
    ProxyClosureRequest, ProxyTransmissionMode, ProxyPutResponse, ProxyPutResponseParams, DirectoryParams,
    DirListingOptions, DirectoryListingRequest, DirectoryListingResponse, DirectoryListingParameters,
    OriginatingTransactionId,
)

from harness import core
from harness.props import c08 as _c08

ID = "C18"
_T = "spacepackets.cfdp.tlv.defs:"
_M = "SP.Model.MsgToUser."
ENUMS = [
    (_T + "ProxyMessageType.PUT_REQUEST", _M + "PM_PUT_REQUEST"),
    (_T + "ProxyMessageType.MSG_TO_USER", _M + "PM_MSG_TO_USER"),
    (_T + "ProxyMessageType.FS_REQUEST", _M + "PM_FS_REQUEST"),
    (_T + "ProxyMessageType.FAULT_HANDLER_OVERRIDE", _M + "PM_FAULT_HANDLER_OVERRIDE"),
    (_T + "ProxyMessageType.TRANSMISSION_MODE", _M + "PM_TRANSMISSION_MODE"),
    (_T + "ProxyMessageType.FLOW_LABEL", _M + "PM_FLOW_LABEL"),
    (_T + "ProxyMessageType.SEGMENTATION_CTRL", _M + "PM_SEGMENTATION_CTRL"),
    (_T + "ProxyMessageType.PUT_RESPONSE", _M + "PM_PUT_RESPONSE"),
    (_T + "ProxyMessageType.FS_RESPONSE", _M + "PM_FS_RESPONSE"),
    (_T + "ProxyMessageType.PUT_CANCEL", _M + "PM_PUT_CANCEL"),
    (_T + "ProxyMessageType.CLOSURE_REQUEST", _M + "PM_CLOSURE_REQUEST"),
    (_T + "ORIGINATING_TRANSACTION_ID_MSG_TYPE_ID", _M + "ORIGINATING_TRANSACTION_ID_MSG_TYPE_ID"),
    (_T + "DirectoryOperationMessageType.LISTING_REQUEST", _M + "DM_LISTING_REQUEST"),
    (_T + "DirectoryOperationMessageType.LISTING_RESPONSE", _M + "DM_LISTING_RESPONSE"),
    (_T + "DirectoryOperationMessageType.CUSTOM_LISTING_PARAMETERS", _M + "DM_CUSTOM_LISTING_PARAMETERS"),
    (_T + "TlvType.MESSAGE_TO_USER", "SP.Model.Tlv.TLV_MESSAGE_TO_USER"),
    (_T + "ProxyMessageType.PUT_REQUEST", "SP.Spec.MsgSpec.MT_PROXY_PUT_REQUEST"),
    (_T + "ProxyMessageType.TRANSMISSION_MODE", "SP.Spec.MsgSpec.MT_PROXY_TRANSMISSION_MODE"),
    (_T + "ProxyMessageType.PUT_RESPONSE", "SP.Spec.MsgSpec.MT_PROXY_PUT_RESPONSE"),
    (_T + "ProxyMessageType.PUT_CANCEL", "SP.Spec.MsgSpec.MT_PROXY_PUT_CANCEL"),
    (_T + "ProxyMessageType.CLOSURE_REQUEST", "SP.Spec.MsgSpec.MT_PROXY_CLOSURE_REQUEST"),
    (_T + "ORIGINATING_TRANSACTION_ID_MSG_TYPE_ID", "SP.Spec.MsgSpec.MT_ORIGINATING_TRANSACTION_ID"),
    (_T + "DirectoryOperationMessageType.LISTING_REQUEST", "SP.Spec.MsgSpec.MT_DIRECTORY_LISTING_REQUEST"),
    (_T + "DirectoryOperationMessageType.LISTING_RESPONSE", "SP.Spec.MsgSpec.MT_DIRECTORY_LISTING_RESPONSE"),
    (_T + "DirectoryOperationMessageType.CUSTOM_LISTING_PARAMETERS", "SP.Spec.MsgSpec.MT_CUSTOM_LISTING_PARAMETERS"),
]
ASSUMPTIONS = [
    "CPython int / bytes / IntEnum semantics as modelled in Base/Bytes.v; UnsignedByteField is modelled locally as "
    "(value, width) with width in {0,1,2,4,8} (constructor, as_bytes, from_bytes) and tied by the correspondence streams",
    "member sets of ProxyMessageType / DirectoryOperationMessageType / ConditionCode are tied by an exhaustive sweep of "
    "the message-type octet and of the parameter octet (all 256 values each) in addition to the named constants",
]
TRUSTED = []
EXPLORED_ONLY = [
    "explored_path_arguments (op 1199/0): CfdpLv.from_path / DirectoryParams.from_paths / from_strs / ProxyPutRequestParams fed "
    "pathlib objects (Path, PurePosixPath, PureWindowsPath, a user subclass) made from names with '..', '.', '//', trailing '/', "
    "'~', relative names: the message carries exactly str(path), the *_as_str / *_as_path accessors of the built and of the "
    "decoded parameters give it back -- the model has no file-system object types",
    "explored_buffers_handed_out (op 1199/1): two identical messages go through the same history; on one of them a getter that "
    "hands out a FRESH buffer on the unchanged tree (harness/props/fresh_getters.json, measured by tools/gen_fresh_getters.py) is "
    "read and the returned bytearray edited in place: every later observation of the two must agree",
]

PROXY = [0, 1, 2, 3, 4, 5, 6, 7, 8, 9, 11]
DIROP = [0x10, 0x11, 0x15]
CC = sorted(int(x) for x in ConditionCode if int(x) >= 0)
WIDTHS = [1, 2, 4, 8]
CFDP = [99, 102, 100, 112]
GETTERS = list(range(1112, 1120))
BUILD_TO_GET = {1100: 1113, 1102: 1115, 1103: 1116, 1104: 1112, 1105: 1117, 1106: 1118, 1107: 1119, 1108: 1114}
MSG_TYPE = {1100: 0, 1101: 9, 1102: 11, 1103: 4, 1104: 10, 1105: 0x10, 1106: 0x11, 1107: 0x15, 1108: 7}


def _enum(cls, v):
    return core.enum_or_int(cls, v)


def _rb(f):
    try:
        return [0] + list(f())
    except Exception as e:
        return [1, canon_code(classify_exception(e))]


def _view(m):
    return [_rb(m.pack), list(m.value), [m.packet_len], [int(m.tlv_type)]]


def _b(x):
    return bool(x) if x in (0, 1) else x


def _ubf(u):
    return [int(u.value), int(u.byte_len)]


def _pipe1(buf, after, getter, fmt):
    t = MessageToUserTlv.unpack(buf)
    r = t.to_reserved_msg_tlv()
    after(buf)
    if r is None:
        return [[0]]
    x = getter(r)
    if x is None:
        return [[1]]
    return [[2]] + fmt(x)


def _scribble(buf):
    for i in range(len(buf)):
        buf[i] ^= 0xFF


def _pipe(data, getter, fmt):
    """decoded from bytes, and from a bytearray that is overwritten before the parameters are read"""
    def run(mk, after):
        try:
            return _pipe1(mk(data), after, getter, fmt), None
        except Exception as e:
            return None, e
    r1, e1 = run(bytes, lambda b: None)
    r2, e2 = run(bytearray, _scribble)
    if (e1 is None) != (e2 is None) or (e1 is not None and classify_exception(e1) != classify_exception(e2)):
        raise HarnessInvariant("bytes input gives %r, the same octets as bytearray give %r" % (e1 or "an object", e2 or "an object"))
    if e1 is not None:
        raise e1
    if r1 != r2:
        raise HarnessInvariant("decoding a bytearray that is overwritten afterwards gives %s, decoding bytes gives %s" % (r2[:4], r1[:4]))
    return r1


# ------------------------------------------------------------------ live-object histories (ops 1160, 1161)
class HarnessInvariant(Exception):
    """something the adapter itself watches (caller-side parameter objects, input buffers, results handed out
    earlier) changed; marshalled as error class 99 and named by the oracle"""


class _NotApplicable(Exception):
    pass


M_PACK, M_CLASSIFY, M_PARSER, M_TOGENERIC, M_ISRES, M_TORES, M_SETTLV, M_SUBTYPE, M_SETTYPE, M_SETVALUE, M_SETPLEN = range(11)
M_APPLIES = {True: {M_PACK, M_CLASSIFY, M_PARSER, M_TOGENERIC, M_SETTLV, M_SUBTYPE, M_SETTYPE, M_SETVALUE, M_SETPLEN},
             False: {M_PACK, M_ISRES, M_TORES, M_SETTLV, M_SUBTYPE, M_SETTYPE, M_SETVALUE, M_SETPLEN}}
MKINDS = list(range(14))
PARSERS = ["get_originating_transaction_id", "get_proxy_put_request_params", "get_proxy_put_response_params",
           "get_proxy_closure_requested", "get_proxy_transmission_mode", "get_dir_listing_request_params",
           "get_dir_listing_response_params", "get_dir_listing_options"]


def _fl(b):
    return [len(b)] + list(b)


def _flat(k, x):
    """a parser's answer as one integer list (mirror of Model/MsgHist.parser_out)"""
    if x is None:
        return [1]
    if k == 0:
        return [2] + _ubf(x.source_id) + _ubf(x.seq_num)
    if k == 1:
        return [2] + _ubf(x.dest_entity_id) + _fl(x.source_file_name.value) + _fl(x.dest_file_name.value)
    if k == 2:
        return [2, int(x.condition_code), int(x.delivery_code), int(x.file_status)]
    if k in (3, 4):
        return [2, int(x)]
    if k == 5:
        return [2] + _fl(x.dir_path.value) + _fl(x.dir_file_name.value)
    if k == 6:
        return [2, int(x[0])] + _fl(x[1].dir_path.value) + _fl(x[1].dir_file_name.value)
    return [2, int(x.recursive), int(x.all)]


def _ubf_new(v, w, alt):
    if alt and w in (1, 2, 4, 8):
        return {1: ByteFieldU8, 2: ByteFieldU16, 4: ByteFieldU32, 8: ByteFieldU64}[w](v)
    return UnsignedByteField(v, w)


def _utf8(b):
    try:
        s = bytes(b).decode()
    except UnicodeDecodeError:
        return None
    return s


def _lv_new(b, fl):
    """CfdpLv over bytes (flavour 0), a bytearray (1), or through from_str / from_path where the octets are text (2)"""
    if fl == 1:
        return CfdpLv(bytearray(b))
    if fl == 2:
        s = _utf8(b)
        if s is not None and len(b) <= 255:
            return CfdpLv.from_path(Path(s)) if s and 0 not in b and str(Path(s)) == s else CfdpLv.from_str(s)
    return CfdpLv(bytes(b))


def _dir_params(p, n, fl):
    sp, sn = _utf8(p), _utf8(n)
    if fl == 2 and sp is not None and sn is not None:
        if sp and sn and 0 not in p and 0 not in n and str(Path(sp)) == sp and str(Path(sn)) == sn:
            return DirectoryParams.from_paths(Path(sp), Path(sn))
        return DirectoryParams.from_strs(sp, sn)
    return DirectoryParams(_lv_new(p, fl), _lv_new(n, fl))


def _build(kind, fl, a, ctx):
    """message object built by constructor path `kind` with argument flavour fl; ctx["params"] = the caller's
    parameter object (compared before / after)"""
    def keep(p):
        ctx["params"] = p; ctx["params0"] = liveprobe.snap(p)
        return p
    if kind == 0:
        return ProxyPutRequest(keep(ProxyPutRequestParams(_ubf_new(a[0][0], a[0][1], fl), _lv_new(a[1], fl), _lv_new(a[2], fl))))
    if kind == 1:
        return ProxyCancelRequest()
    if kind == 2:
        return ProxyClosureRequest(_b(a[0][0]))
    if kind == 3:
        return ProxyTransmissionMode(_enum(TransmissionMode, a[0][0]))
    if kind == 4:
        return OriginatingTransactionId(keep(TransactionId(_ubf_new(a[0][0], a[0][1], fl), _ubf_new(a[0][2], a[0][3], fl))))
    if kind == 5:
        return DirectoryListingRequest(keep(_dir_params(a[0], a[1], fl)))
    if kind == 6:
        return DirectoryListingResponse(_b(a[0][0]), keep(_dir_params(a[1], a[2], fl)))
    if kind == 7:
        return DirectoryListingParameters(keep(DirListingOptions(_b(a[0][0]), _b(a[0][1]))))
    if kind == 8:
        cc, dc, fs = _enum(ConditionCode, a[0][0]), _enum(DeliveryCode, a[0][1]), _enum(FileStatus, a[0][2])
        if fl:
            return ProxyPutResponse(keep(ProxyPutResponseParams.from_finished_params(keep(FinishedParams(cc, dc, fs)))))
        return ProxyPutResponse(keep(ProxyPutResponseParams(cc, dc, fs)))
    if kind == 9:
        ctx["buf"] = bytearray(a[1]) if fl else bytes(a[1])
        return ReservedCfdpMessage(a[0][0], ctx["buf"])
    if kind == 10:
        ctx["buf"] = bytearray(a[0]) if fl else bytes(a[0])
        return MessageToUserTlv(ctx["buf"])
    if kind in (11, 13):
        if fl:
            buf = bytearray(a[0]); t = MessageToUserTlv.unpack(buf)
        else:
            t = MessageToUserTlv.unpack(bytes(a[0]))
        if kind == 13:
            r = t.to_reserved_msg_tlv()
            if r is None:
                raise _NotApplicable()
            t = r
        if fl:
            for i in range(len(buf)):
                buf[i] ^= 0xFF
        return t
    if kind == 12:
        g = CfdpTlv(_enum(TlvType, a[0][0]), bytes(a[1]))
        return MessageToUserTlv.from_tlv(g)
    raise _NotApplicable()


def _mview(o):
    return [[int(o.tlv_type), int(o.tlv.tlv_type)], list(o.value), [o.packet_len]]


def _mstep(o, reserved, op):
    c = op[0]
    if c not in M_APPLIES[reserved]:
        raise _NotApplicable()
    if c == M_PACK:
        return list(o.pack())
    if c == M_CLASSIFY:
        mt = o.get_reserved_cfdp_message_type()
        p, d, g = o.is_cfdp_proxy_operation(), o.is_directory_operation(), o.is_originating_transaction_id()
        pt, dt = o.get_cfdp_proxy_message_type(), o.get_directory_operation_type()
        return [mt, int(p), int(d), int(g), -1 if pt is None else int(pt), -1 if dt is None else int(dt)]
    if c == M_PARSER:
        if not 0 <= op[1] < 8:
            raise _NotApplicable()
        return _flat(op[1], getattr(o, PARSERS[op[1]])())
    if c == M_TOGENERIC:
        return list(o.to_generic_msg_to_user_tlv().pack())
    if c == M_ISRES:
        return [int(o.is_reserved_cfdp_message())]
    if c == M_TORES:
        r = o.to_reserved_msg_tlv()
        return [0] if r is None else [1, int(r.tlv_type)] + list(r.value)
    if c == M_SETTLV:
        o.tlv = CfdpTlv(_enum(TlvType, op[1]), bytes(op[2:])); return []
    if c == M_SUBTYPE:
        o.tlv.tlv_type = _enum(TlvType, op[1]); return []
    if c == M_SETTYPE:
        o.tlv_type = _enum(TlvType, op[1]); return []
    if c == M_SETVALUE:
        o.value = bytes(op[1:]); return []
    if c == M_SETPLEN:
        o.packet_len = op[1]; return []
    raise _NotApplicable()


def _mstatus(f):
    try:
        return [0] + list(f())
    except _NotApplicable:
        return [1, 99]
    except HarnessInvariant:
        raise
    except Exception as e:
        return [1, canon_code(classify_exception(e))]


def _check_params(ctx):
    if "params" in ctx and liveprobe.snap(ctx["params"]) != ctx["params0"]:
        raise HarnessInvariant("the caller's parameter object (%s) was modified" % type(ctx["params"]).__name__)


def _msg_history(a):
    kind, fl = a[0]
    ctx = {}
    o = _build(kind, fl, a[1:4], ctx)
    _check_params(ctx)
    reserved = kind <= 9 or kind == 13
    out = _mview(o)
    for op in a[4:]:
        out.append(_mstatus(lambda: _mstep(o, reserved, op)))
        out += _mview(o)
        _check_params(ctx)
    again = _mview(_build(kind, fl, a[1:4], {}))
    if again != out[:3]:
        raise HarnessInvariant("building the same message again after the history gives %s, the first one started as %s: "
                               "state is shared between objects" % (again, out[:3]))
    return out


def _two_decodes(a):
    ka, kb = a[2]
    buf = bytearray(a[0])
    ra = MessageToUserTlv.unpack(buf).to_reserved_msg_tlv()
    xa = None if ra is None else getattr(ra, PARSERS[ka])()
    first = [0] if ra is None else _flat(ka, xa)
    for i in range(len(buf)):
        buf[i] ^= 0xFF
    rb = MessageToUserTlv.unpack(bytes(a[1])).to_reserved_msg_tlv()
    second = [0] if rb is None else _flat(kb, getattr(rb, PARSERS[kb])())
    again = [0] if ra is None else _flat(ka, xa)                              # the objects handed out first
    third = [0] if ra is None else _flat(ka, getattr(ra, PARSERS[ka])())      # the first message asked again
    return [first, second, again, third]


# ------------------------------------------------------------------ explorations outside the model (op 1199)
class _UserPath(PurePosixPath):
    """a caller's own path class"""


PATH_CLASSES = [Path, PurePosixPath, PureWindowsPath, _UserPath]
X_PATHS, X_FRESH = 0, 1
PATH_APIS = ["DirectoryParams.from_paths -> DirectoryListingRequest", "DirectoryParams.from_paths -> DirectoryListingResponse",
             "CfdpLv.from_path -> ProxyPutRequestParams -> ProxyPutRequest", "DirectoryParams.from_strs -> DirectoryListingRequest",
             "CfdpLv.from_str -> ProxyPutRequestParams -> ProxyPutRequest"]


def _x_paths(a):
    """names handed over as pathlib objects (or str) arrive as str(argument) -- what pathlib itself yields -- in the LV, in
    the packed message, and in the *_as_str / *_as_path accessors of the caller's and of the decoded parameters"""
    api, pc, idv, idw = a[0][1:5]
    s1, s2 = bytes(a[1]).decode(), bytes(a[2]).decode()
    P = PATH_CLASSES[pc]
    if api in (0, 1, 2):
        x1, x2 = P(s1), P(s2)
    else:
        x1, x2 = s1, s2
    t1, t2 = str(x1), str(x2)
    w1, w2 = t1.encode(), t2.encode()
    what = PATH_APIS[api]
    put = api in (2, 4)
    try:
        if api in (0, 1):
            params = DirectoryParams.from_paths(x1, x2)
        elif api == 3:
            params = DirectoryParams.from_strs(x1, x2)
        else:
            mk = CfdpLv.from_path if api == 2 else CfdpLv.from_str
            params = ProxyPutRequestParams(UnsignedByteField(idv, idw), mk(x1), mk(x2))
    except ValueError as e:
        if len(w1) > 255 or len(w2) > 255:
            return None
        return (what + "/refused", "arguments %r, %r raised %r" % (x1, x2, e))
    if len(w1) > 255 or len(w2) > 255:
        return (what + "/too-long-accepted", "%d / %d octets accepted" % (len(w1), len(w2)))

    def read(pr, who):
        lv1, lv2 = (pr.source_file_name, pr.dest_file_name) if put else (pr.dir_path, pr.dir_file_name)
        if bytes(lv1.value) != w1 or bytes(lv2.value) != w2:
            return (what + "/name-is-not-the-text-of-the-argument",
                    "%s: arguments %r, %r arrive as %r, %r; str() of the arguments is %r, %r" % (who, x1, x2, bytes(lv1.value), bytes(lv2.value), t1, t2))
        acc = ("source_file", "dest_file") if put else ("dir_path", "dir_file_name")
        for nm, t in zip(acc, (t1, t2)):
            got_s, got_p = getattr(pr, nm + "_as_str"), getattr(pr, nm + "_as_path")
            if got_s != t:
                return (what + "/%s_as_str" % nm, "%s: %r instead of %r" % (who, got_s, t))
            if not isinstance(got_p, Path) or got_p != Path(t) or str(got_p) != str(Path(t)):
                return (what + "/%s_as_path" % nm, "%s: %r instead of %r" % (who, got_p, Path(t)))
        return None
    r = read(params, "the caller's parameters")
    if r is not None:
        return r
    idf = lv(be(idv, idw)) if put else []
    f = ([0x80] if api == 1 else []) + idf + lv(w1) + lv(w2)
    mt = 0 if put else 0x11 if api == 1 else 0x10
    try:
        msg = ProxyPutRequest(params) if put else DirectoryListingResponse(True, params) if api == 1 else DirectoryListingRequest(params)
    except ValueError as e:
        if len(f) + 5 > 255:
            return None
        return (what + "/refused", "message of %d octets refused: %r" % (len(f) + 5, e))
    if len(f) + 5 > 255:
        return (what + "/too-long-accepted", "value of %d octets accepted" % (len(f) + 5))
    want = bytes(reserved_tlv(mt, f))
    if bytes(msg.pack()) != want or msg.packet_len != len(want):
        return (what + "/layout", "arguments %r, %r pack to %r, the standard says %r" % (x1, x2, bytes(msg.pack()), want))
    back = MessageToUserTlv.unpack(want + b"\x55").to_reserved_msg_tlv()
    dec = back.get_proxy_put_request_params() if put else back.get_dir_listing_response_params()[1] if api == 1 else back.get_dir_listing_request_params()
    return read(dec, "the decoded parameters")


GETTERS_X = ["value", "pack()", "tlv.value", "tlv.pack()", "to_generic_msg_to_user_tlv().value", "to_generic_msg_to_user_tlv().pack()",
             "to_reserved_msg_tlv().value", "to_reserved_msg_tlv().pack()",
             "get_proxy_put_request_params().source_file_name.value", "get_proxy_put_request_params().dest_file_name.value",
             "get_dir_listing_request_params().dir_path.value", "get_dir_listing_request_params().dir_file_name.value",
             "get_dir_listing_response_params()[1].dir_path.value", "get_dir_listing_response_params()[1].dir_file_name.value",
             "get_originating_transaction_id().source_id.as_bytes",
             "(caller) params: first name LV.value", "(caller) params: second name LV.value", "(caller) value argument"]
EDITS = ["flip every octet", "extend", "truncate", "flip and extend", "clear", "insert in front"]
_FRESH = None


def fresh_getters():
    global _FRESH
    if _FRESH is None:
        try:
            j = json.load(open(os.path.join(os.path.dirname(__file__), "fresh_getters.json")))[ID]
        except Exception:
            j = {}
        _FRESH = {c: {g: set(e["stable"]) for g, e in gs.items() if e.get("fresh")} for c, gs in j.items()}
    return _FRESH


def _get_buffer(o, ctx, g):
    try:
        if g == 0:
            return o.value
        if g == 1:
            return o.pack()
        if g == 2:
            return o.tlv.value
        if g == 3:
            return o.tlv.pack()
        if g in (4, 5):
            t = o.to_generic_msg_to_user_tlv()
            return t.value if g == 4 else t.pack()
        if g in (6, 7):
            t = o.to_reserved_msg_tlv()
            return None if t is None else (t.value if g == 6 else t.pack())
        if g in (8, 9):
            x = o.get_proxy_put_request_params()
            return None if x is None else (x.source_file_name.value if g == 8 else x.dest_file_name.value)
        if g in (10, 11):
            x = o.get_dir_listing_request_params()
            return None if x is None else (x.dir_path.value if g == 10 else x.dir_file_name.value)
        if g in (12, 13):
            x = o.get_dir_listing_response_params()
            return None if x is None else (x[1].dir_path.value if g == 12 else x[1].dir_file_name.value)
        if g == 14:
            x = o.get_originating_transaction_id()
            return None if x is None else x.source_id.as_bytes
        if g in (15, 16):
            pr = ctx.get("params")
            if isinstance(pr, ProxyPutRequestParams):
                return (pr.source_file_name if g == 15 else pr.dest_file_name).value
            if isinstance(pr, DirectoryParams):
                return (pr.dir_path if g == 15 else pr.dir_file_name).value
            return None
        if g == 17:
            return ctx.get("buf")
    except Exception:
        return None
    return None


def _observe(o, reserved):
    def w(f):
        try:
            r = f()
            return [0] + (list(r) if isinstance(r, (bytes, bytearray, list, tuple)) else [int(r)])
        except Exception as e:
            return [1, canon_code(classify_exception(e))]
    obs = [("tlv_type", w(lambda: o.tlv_type)), ("tlv.tlv_type", w(lambda: o.tlv.tlv_type)), ("tlv.value_len", w(lambda: o.tlv.value_len)),
           ("value", w(lambda: o.value)), ("packet_len", w(lambda: o.packet_len)), ("pack()", w(o.pack))]
    if reserved:
        obs.append(("classification", w(lambda: _mstep(o, True, [M_CLASSIFY]))))
        obs.append(("to_generic_msg_to_user_tlv().pack()", w(lambda: o.to_generic_msg_to_user_tlv().pack())))
        for k in range(8):
            obs.append((PARSERS[k] + "()", w(lambda: _flat(k, getattr(o, PARSERS[k])()))))
    else:
        obs.append(("is_reserved_cfdp_message()", w(lambda: [int(o.is_reserved_cfdp_message())])))
        obs.append(("to_reserved_msg_tlv()", w(lambda: _mstep(o, False, [M_TORES]))))
    return obs


def _x_fresh(a):
    """twins (see c08._x_fresh): -> (class name, getter, was a bytearray edited, observations in which the twins differ)"""
    kind, fl = a[1]
    g, how, mask = a[2]
    ops = a[6:]
    reserved = kind <= 9 or kind == 13
    ca, cb = {}, {}
    try:
        A = _build(kind, fl, a[3:6], ca)
        B = _build(kind, fl, a[3:6], cb)
    except Exception:
        return (MNAME[kind], GETTERS_X[g], False, [], False, [])
    edited, differ, applied, names = False, [], False, []
    for n in range(len(ops) + 1):
        if (mask >> n) & 1:
            _get_buffer(A, ca, g)
            buf = _get_buffer(B, cb, g)
            applied = applied or buf is not None
            if isinstance(buf, bytearray):
                _c08._edit(buf, how); edited = True
        for (nm, x), (_, y) in zip(_observe(A, reserved), _observe(B, reserved)):
            if nm not in names:
                names.append(nm)
            if x != y and nm not in differ:
                differ.append(nm)
        if n < len(ops):
            ra = _mstatus(lambda: _mstep(A, reserved, ops[n]))
            rb = _mstatus(lambda: _mstep(B, reserved, ops[n]))
            if ra != rb and "result of the next operation" not in differ:
                differ.append("result of the next operation")
    return (type(A).__name__, GETTERS_X[g], edited, differ, applied, names + ["result of the next operation"])


def _x_fresh_check(a):
    cls, getter, edited, differ = _x_fresh(a)[:4]
    stable = fresh_getters().get(cls, {}).get(getter)
    if stable is None:
        return None
    bad = [d for d in differ if d in stable]
    if bad:
        return ("%s.%s/editing-the-returned-buffer-changes-the-object" % (cls, getter),
                "%s (construction path %d, argument flavour %d): after `%s` was read and the returned bytearray edited (%s) the object "
                "differs from an untouched twin in %s (history %s)" % (cls, a[1][0], a[1][1], getter, EDITS[a[2][1]], bad, [x[:6] for x in a[6:]]))
    return None


def _explore(a):
    if a[0][0] == X_PATHS:
        return _x_paths(a)
    if a[0][0] == X_FRESH:
        return _x_fresh_check(a)
    raise RuntimeError("bad exploration")


def impl(op, a):
    if op == 1199:
        return [[1]] if _explore(a) is None else [[0, a[0][0]]]
    if op == 1160:
        return _msg_history(a)
    if op == 1161:
        return _two_decodes(a)
    if op == 1100:
        return _view(ProxyPutRequest(ProxyPutRequestParams(UnsignedByteField(a[0][0], a[0][1]), CfdpLv(bytes(a[1])), CfdpLv(bytes(a[2])))))
    if op == 1101:
        return _view(ProxyCancelRequest())
    if op == 1102:
        return _view(ProxyClosureRequest(_b(a[0][0])))
    if op == 1103:
        return _view(ProxyTransmissionMode(_enum(TransmissionMode, a[0][0])))
    if op == 1104:
        return _view(OriginatingTransactionId(TransactionId(UnsignedByteField(a[0][0], a[0][1]), UnsignedByteField(a[0][2], a[0][3]))))
    if op == 1105:
        return _view(DirectoryListingRequest(DirectoryParams(CfdpLv(bytes(a[0])), CfdpLv(bytes(a[1])))))
    if op == 1106:
        return _view(DirectoryListingResponse(_b(a[0][0]), DirectoryParams(CfdpLv(bytes(a[1])), CfdpLv(bytes(a[2])))))
    if op == 1107:
        return _view(DirectoryListingParameters(DirListingOptions(_b(a[0][0]), _b(a[0][1]))))
    if op == 1108:
        return _view(ProxyPutResponse(ProxyPutResponseParams(_enum(ConditionCode, a[0][0]), _enum(DeliveryCode, a[0][1]), _enum(FileStatus, a[0][2]))))
    if op == 1109:
        return _view(ReservedCfdpMessage(a[0][0], bytes(a[1])))
    if op == 1110:
        return [[int(MessageToUserTlv(bytes(a[0])).is_reserved_cfdp_message())]]
    if op == 1111:
        t = MessageToUserTlv.unpack(bytes(a[0]))
        r = t.to_reserved_msg_tlv()
        if r is None:
            return [[0]]
        pt, dt = r.get_cfdp_proxy_message_type(), r.get_directory_operation_type()
        return [[1], [r.get_reserved_cfdp_message_type()],
                [int(r.is_cfdp_proxy_operation()), int(r.is_directory_operation()), int(r.is_originating_transaction_id())],
                [-1 if pt is None else int(pt)], [-1 if dt is None else int(dt)], list(r.value),
                _rb(lambda: r.to_generic_msg_to_user_tlv().pack())]
    if op == 1112:
        return _pipe(a[0], lambda r: r.get_originating_transaction_id(), lambda x: [_ubf(x.source_id) + _ubf(x.seq_num)])
    if op == 1113:
        return _pipe(a[0], lambda r: r.get_proxy_put_request_params(),
                     lambda x: [_ubf(x.dest_entity_id), list(x.source_file_name.value), list(x.dest_file_name.value)])
    if op == 1114:
        return _pipe(a[0], lambda r: r.get_proxy_put_response_params(),
                     lambda x: [[int(x.condition_code), int(x.delivery_code), int(x.file_status)]])
    if op == 1115:
        return _pipe(a[0], lambda r: r.get_proxy_closure_requested(), lambda x: [[int(x)]])
    if op == 1116:
        return _pipe(a[0], lambda r: r.get_proxy_transmission_mode(), lambda x: [[int(x)]])
    if op == 1117:
        return _pipe(a[0], lambda r: r.get_dir_listing_request_params(), lambda x: [list(x.dir_path.value), list(x.dir_file_name.value)])
    if op == 1118:
        return _pipe(a[0], lambda r: r.get_dir_listing_response_params(),
                     lambda x: [[int(x[0])], list(x[1].dir_path.value), list(x[1].dir_file_name.value)])
    if op == 1119:
        return _pipe(a[0], lambda r: r.get_dir_listing_options(), lambda x: [[int(x.recursive), int(x.all)]])
    raise RuntimeError("bad op")


# ------------------------------------------------------------------ independent layouts (727.0-B-5 section 6)
def lv(v):
    return [len(v)] + list(v)


def be(v, w):
    return list(int(v).to_bytes(w, "big"))


def fields(op, a):
    """the fields of the message built by op with arguments a, per the standard; None when outside the domain"""
    if op == 1100:
        v, w = a[0]
        if w not in (0, 1, 2, 4, 8) or not 0 <= v < 256 ** w:
            return None
        return lv(be(v, w)) + lv(a[1]) + lv(a[2])
    if op == 1101:
        return []
    if op in (1102, 1103):
        return [a[0][0]] if a[0][0] in (0, 1) else None
    if op == 1104:
        sv, sw, qv, qw = a[0]
        if sw not in WIDTHS or qw not in WIDTHS or not (0 <= sv < 256 ** sw and 0 <= qv < 256 ** qw):
            return None
        return [(sw - 1) * 16 + (qw - 1)] + be(sv, sw) + be(qv, qw)
    if op == 1105:
        return lv(a[0]) + lv(a[1])
    if op == 1106:
        return ([a[0][0] * 128] + lv(a[1]) + lv(a[2])) if a[0][0] in (0, 1) else None
    if op == 1107:
        r, al = a[0]
        return [r * 2 + al] if r in (0, 1) and al in (0, 1) else None
    if op == 1108:
        cc, dc, fs = a[0]
        return [cc * 16 + dc * 4 + fs] if cc in CC and dc in (0, 1) and fs in (0, 1, 2, 3) else None
    return None


def expected_params(op, a):
    """what the matching get_* must return for the message built by (op, a)"""
    if op == 1100:
        return [list(a[0]), a[1], a[2]]
    if op in (1102, 1103, 1107, 1108):
        return [list(a[0])]
    if op == 1104:
        return [list(a[0])]
    if op == 1105:
        return [a[0], a[1]]
    if op == 1106:
        return [list(a[0]), a[1], a[2]]


def parse_lv(b, i):
    if i >= len(b) or i + 1 + b[i] > len(b):
        return None
    return b[i + 1:i + 1 + b[i]], i + 1 + b[i]


def expected_get(g, v):
    """independent reading of the reserved-message value v (starts with 'cfdp', >= 5 octets) by parser g:
    'none' (other kind), 'bad' (fields incomplete / not decodable: must not yield parameters), 'skip', or the list
    of parameter lists"""
    mt, f = v[4], v[5:]
    kind = {1112: 10, 1113: 0, 1114: 7, 1115: 11, 1116: 4, 1117: 0x10, 1118: 0x11, 1119: 0x15}[g]
    if mt != kind:
        return "none"
    if g == 1112:
        if len(f) < 1:
            return "bad"
        sl, ql = ((f[0] >> 4) & 7) + 1, (f[0] & 7) + 1
        if len(f) < 1 + sl + ql or sl not in WIDTHS or ql not in WIDTHS:
            return "bad"
        return [[int.from_bytes(bytes(f[1:1 + sl]), "big"), sl, int.from_bytes(bytes(f[1 + sl:1 + sl + ql]), "big"), ql]]
    if g == 1113:
        r1 = parse_lv(f, 0)
        r2 = parse_lv(f, r1[1]) if r1 else None
        r3 = parse_lv(f, r2[1]) if r2 else None
        if not (r1 and r2 and r3) or len(r1[0]) not in (0, 1, 2, 4, 8):
            return "bad"
        if len(r1[0]) == 0:
            return "skip"
        return [[int.from_bytes(bytes(r1[0]), "big"), len(r1[0])], r2[0], r3[0]]
    if g in (1117, 1118):
        off = 0 if g == 1117 else 1
        if len(f) < off:
            return "bad"
        r1 = parse_lv(f, off)
        r2 = parse_lv(f, r1[1]) if r1 else None
        if not (r1 and r2):
            return "bad"
        return ([[f[0] >> 7]] if g == 1118 else []) + [r1[0], r2[0]]
    if len(f) < 1:
        return "bad"
    if g == 1114:
        return [[f[0] >> 4, (f[0] >> 2) & 1, f[0] & 3]] if (f[0] >> 4) in CC else "bad"
    if g in (1115, 1116):
        return [[f[0] & 1]]
    return [[(f[0] >> 1) & 1, f[0] & 1]]


def reserved_tlv(mt, f):
    v = CFDP + [mt] + list(f)
    return [2, len(v)] + v


# ------------------------------------------------------------------ generators
def rbytes(rng, n):
    return [rng.randrange(256) for _ in range(n)]


def magic_ids(w):
    """ID values whose octets repeat the format's own magic / delimiter octets: the 'cfdp' marker (0x63666470), its tail,
    the ID's own length octet, message-type octets"""
    c = [bytes((CFDP * 2)[:w]), bytes(([0] * 8 + CFDP)[-w:]), bytes((CFDP[1:] + CFDP)[:w]), bytes([w] * w), bytes([0x10] * w),
         bytes(([2, 5] + CFDP + [0, 0])[:w])]
    return [int.from_bytes(x, "big") for x in c]


def rid(rng, w):
    if not w:
        return 0
    return rng.choice([0, 1, 256 ** w - 1, 256 ** w // 2, rng.randrange(256 ** w), rng.choice(magic_ids(w))])


def valid_builds(rng, n):
    out = []
    for _ in range(n):
        w = rng.choice(WIDTHS)
        out.append((1100, [[rid(rng, w), w], rbytes(rng, rng.randrange(0, 9)), rbytes(rng, rng.randrange(0, 9))]))
        out.append((1101, []))
        out.append((1102, [[rng.randrange(2)]]))
        out.append((1103, [[rng.randrange(2)]]))
        sw, qw = rng.choice(WIDTHS), rng.choice(WIDTHS)
        out.append((1104, [[rid(rng, sw), sw, rid(rng, qw), qw]]))
        out.append((1105, [rbytes(rng, rng.randrange(0, 9)), rbytes(rng, rng.randrange(0, 9))]))
        out.append((1106, [[rng.randrange(2)], rbytes(rng, rng.randrange(0, 9)), rbytes(rng, rng.randrange(0, 9))]))
        out.append((1107, [[rng.randrange(2), rng.randrange(2)]]))
        out.append((1108, [[rng.choice(CC), rng.randrange(2), rng.randrange(4)]]))
        # content that repeats the marker / the delimiters of the format
        w = rng.choice(WIDTHS)
        out.append((1100, [[rng.choice(magic_ids(w)), w], rmagic(rng, rng.randrange(4, 12)), rmagic(rng, rng.randrange(0, 12))]))
        out.append((1104, [[rng.choice(magic_ids(4)), 4, rng.choice(magic_ids(sw)), sw]]))
        out.append((1105, [rmagic(rng, rng.randrange(4, 12)), rmagic(rng, rng.randrange(0, 12))]))
        out.append((1106, [[rng.randrange(2)], rmagic(rng, rng.randrange(0, 12)), rmagic(rng, rng.randrange(4, 12))]))
    return out


# ------------------------------------------------------------------ generators of the histories
TAILS = [[0xc2, 0x80], [0xdf, 0xbf], [0xe2, 0x82, 0xac], [0xef, 0xbf, 0xbf], [0xf0, 0x90, 0x80, 0x80], [0xf4, 0x8f, 0xbf, 0xbf]]


def rtext(rng, n):
    """valid UTF-8 of exactly n octets, ending in a multi-octet character when there is room"""
    tails = [t for t in TAILS if len(t) <= n]
    t = rng.choice(tails) if tails and rng.random() < 0.6 else []
    return [rng.randrange(0x21, 0x7f) for _ in range(n - len(t))] + t


MAGIC = [CFDP, CFDP + [0], CFDP + [0x10], CFDP + [10], CFDP * 2, [0x2f] + CFDP + [0x2f], list(b"/data/cfdp/image.bin"), list(b"cfdp.log"),
         [2, 5] + CFDP + [9], [4] + CFDP, CFDP[1:], [0x63], CFDP[:3], [1, 0x63], [0x10, 0x10], [0, 0, 0], [2, 2, 2]]


def rmagic(rng, n):
    """n octets that repeat the format's own magic / delimiter octets: the 'cfdp' marker (at the start, at the end, anywhere,
    twice), a whole message header, an LV of the marker, every octet equal to the length octet in front of the field"""
    if n == 0:
        return []
    if rng.random() < 0.2:
        return [n & 255] * n
    m = rng.choice(MAGIC)
    if len(m) >= n:
        return (m * n)[:n]
    fill = [rng.randrange(0x21, 0x7f) for _ in range(n - len(m))]
    pos = rng.choice([0, len(fill), rng.randrange(len(fill) + 1)])
    return fill[:pos] + m + fill[pos:]


def rspecial_text(rng, n):
    """valid UTF-8 of exactly n octets around a fragment that is not stable under Unicode normalisation / case mapping, or
    that a path library would rewrite ('..', '.', '//', trailing '/', '~', blanks)"""
    f = rng.choice(_c08.NORM + _c08.PATHY) if rng.random() < 0.6 else rng.choice(_c08.PATH_PRE) + rng.choice(_c08.PATH_SUF)
    if len(f) > n:
        return rtext(rng, n)
    fill = [rng.randrange(0x21, 0x7f) for _ in range(n - len(f))]
    pos = rng.choice([0, len(fill), rng.randrange(len(fill) + 1)])
    return fill[:pos] + list(f) + fill[pos:]


def rname(rng, n):
    if n >= 3 and rng.random() < 0.06:
        return [0xef, 0xbb, 0xbf] + rtext(rng, n - 3)     # starts with U+FEFF
    k = rng.randrange(9)
    if k == 6:
        return rmagic(rng, n)
    if k >= 7:
        return rspecial_text(rng, n)
    return [0x80] * n if k == 0 else [0xFF] * n if k == 1 else rbytes(rng, n) if k == 2 else rtext(rng, n)


def build_args(rng, kind, tight=False):
    """arguments (three lists) of constructor path `kind`; tight: names fill the TLV to its limit (+-1)"""
    if kind == 0:
        w = rng.choice(WIDTHS)
        room = 255 - 5 - 3 - w
        l1 = rng.choice([0, 1, room // 2, room]) if tight else rng.randrange(0, 12)
        l2 = room - l1 + rng.choice([-1, 0, 0, 1]) if tight else rng.randrange(0, 12)
        return [[rid(rng, w), w], rname(rng, l1), rname(rng, max(0, l2))]
    if kind == 1:
        return [[], [], []]
    if kind in (2, 3):
        return [[rng.randrange(2)], [], []]
    if kind == 4:
        sw, qw = rng.choice(WIDTHS), rng.choice(WIDTHS)
        return [[rid(rng, sw), sw, rid(rng, qw), qw], [], []]
    if kind in (5, 6):
        room = 255 - 5 - 2 - (1 if kind == 6 else 0)
        l1 = rng.choice([0, 1, room // 2, room]) if tight else rng.randrange(0, 12)
        l2 = room - l1 + rng.choice([-1, 0, 0, 1]) if tight else rng.randrange(0, 12)
        names = [rname(rng, l1), rname(rng, max(0, l2))]
        return names + [[]] if kind == 5 else [[rng.randrange(2)]] + names
    if kind == 7:
        return [[rng.randrange(2), rng.randrange(2)], [], []]
    if kind == 8:
        return [[rng.choice(CC), rng.randrange(2), rng.randrange(4)], [], []]
    if kind == 9:
        pay = rbytes(rng, rng.choice([0, 1, 3, 20, 250])) if rng.random() < 0.6 else rmagic(rng, rng.choice([3, 4, 5, 9, 20, 250]))
        return [[rng.choice(PROXY + DIROP + [10, 12, 255, 0x63, 0x70])], pay, []]
    # message-to-user paths: the octets of some built message (mostly), or arbitrary content
    if rng.random() < 0.8:
        k = rng.randrange(9)
        b = build_args(rng, k, tight and rng.random() < 0.5)
        f = fields(1100 + k, b if k != 5 else b[:2])
        v = (CFDP + [MSG_TYPE[1100 + k]] + f)[:255] if f is not None else CFDP + [9]
    else:
        v = rng.choice([[], CFDP, CFDP[:3] + [0x71, 1], rbytes(rng, 7), CFDP + rbytes(rng, 3)])
    if kind == 10:
        return [v, [], []]
    if kind in (11, 13):
        return [[2, len(v)] + v + rbytes(rng, rng.choice([0, 0, 3, 600])), [], []]
    return [[2 if rng.random() < 0.9 else rng.choice([0, 1, 4, 5, 6])], v, []]


def mhist_op(rng, reserved, c):
    if c == M_PARSER:
        return [c, rng.randrange(8)]
    if c == M_SETTLV:
        ty = 2 if rng.random() < 0.8 else rng.choice([0, 1, 4, 5, 6, 3, 255, 256])
        if rng.random() < 0.7:
            k = rng.randrange(9)
            b = build_args(rng, k)
            f = fields(1100 + k, b if k != 5 else b[:2])
            return [c, ty] + CFDP + [MSG_TYPE[1100 + k]] + (f or [])
        return [c, ty] + rng.choice([[], CFDP, rbytes(rng, 6), CFDP + [10], rbytes(rng, 256)])
    if c in (M_SUBTYPE, M_SETTYPE):
        return [c, rng.choice([2, 2, 2, 0, 5, 6, 3, 0x80, 255, 256, -1])]
    if c == M_SETVALUE:
        return [c] + rbytes(rng, rng.choice([0, 5, 9]))
    if c == M_SETPLEN:
        return [c, rng.choice([0, 7, 255, 70000])]
    return [c]


def mhist_case(rng, kind, fl, ops, tight=False):
    a = build_args(rng, kind, tight)
    return (1160, [[kind, fl]] + a + ops)


def mhist_systematic(rng):
    out = []
    for kind in MKINDS:
        reserved = kind <= 9 or kind == 13
        for fl in (0, 1, 2):
            for c in sorted(M_APPLIES[reserved]):
                for _ in range(2):
                    o, o2 = mhist_op(rng, reserved, c), mhist_op(rng, reserved, c)
                    look = [M_CLASSIFY] if reserved else [M_TORES]
                    shapes = [[o, [M_PACK], [M_PACK]], [[M_PACK], o, [M_PACK]], [o, list(o), look, [M_PACK]],
                              [look, o, look, o2, look, [M_PACK]]]
                    if reserved:
                        shapes.append([[M_PARSER, rng.randrange(8)], o, [M_PARSER, rng.randrange(8)], [M_TOGENERIC]])
                    out.append(mhist_case(rng, kind, fl, rng.choice(shapes), tight=rng.random() < 0.2))
    return out


def mhist_random(rng, kind, fl):
    reserved = kind <= 9 or kind == 13
    codes = sorted(M_APPLIES[reserved])
    weights = [5 if c in (M_PACK, M_PARSER) else 3 if c in (M_CLASSIFY, M_TOGENERIC, M_ISRES, M_TORES) else 1 for c in codes]
    ops = []
    for _ in range(rng.randrange(0, 11)):
        if ops and rng.random() < 0.15:
            ops.append(list(ops[-1]))
        else:
            ops.append(mhist_op(rng, reserved, rng.choices(codes, weights)[0]))
    return mhist_case(rng, kind, fl, ops + ([[M_PACK], [M_PACK]] if rng.random() < 0.6 else []), tight=rng.random() < 0.15)


def built_octets(rng, kind, tight=False):
    """(octets of a packed reserved message of builder `kind`, index of its parser or None)"""
    b = build_args(rng, kind, tight)
    f = fields(1100 + kind, b if kind != 5 else b[:2])
    if f is None or len(f) > 250:
        return built_octets(rng, kind, False)
    k = {0: 1, 2: 3, 3: 4, 4: 0, 5: 5, 6: 6, 7: 7, 8: 2}.get(kind)
    return reserved_tlv(MSG_TYPE[1100 + kind], f), k


def fresh_case(rng, kind, fl, g):
    reserved = kind <= 9 or kind == 13
    codes = sorted(M_APPLIES[reserved])
    weights = [5 if c in (M_PACK, M_PARSER) else 3 if c in (M_CLASSIFY, M_TOGENERIC, M_ISRES, M_TORES) else 1 for c in codes]
    ops = [mhist_op(rng, reserved, rng.choices(codes, weights)[0]) for _ in range(rng.choice([0, 1, 2, 3, 5, 8]))]
    mask = 0
    for _ in range(rng.choice([1, 1, 2, 3])):
        mask |= 1 << rng.randrange(len(ops) + 1)
    return (1199, [[X_FRESH], [kind, fl], [g, rng.randrange(len(EDITS)), mask]] + build_args(rng, kind, rng.random() < 0.15) + ops)


CLASS_OF_KIND = {0: "ProxyPutRequest", 1: "ProxyCancelRequest", 2: "ProxyClosureRequest", 3: "ProxyTransmissionMode",
                 4: "OriginatingTransactionId", 5: "DirectoryListingRequest", 6: "DirectoryListingResponse",
                 7: "DirectoryListingParameters", 8: "ProxyPutResponse", 9: "ReservedCfdpMessage", 10: "MessageToUserTlv",
                 11: "MessageToUserTlv", 12: "MessageToUserTlv", 13: "ReservedCfdpMessage"}


def fresh_cases(rng, reps, every_getter=False):
    out = []
    for kind in MKINDS:
        ok = fresh_getters().get(CLASS_OF_KIND[kind], {})
        for fl in (0, 1, 2):
            for g in range(len(GETTERS_X)):
                if every_getter or GETTERS_X[g] in ok:
                    out += [fresh_case(rng, kind, fl, g) for _ in range(reps)]
    return out


def path_cases(rng, big):
    P = _c08
    names = list(P.PATHY) + [list(f) for f in P.NORM[:16]] + [[], [0x61], list(b"/data/current/../archive"), list(b"../listings/archive.txt"),
                                                                list(b"/data/cfdp/../cfdp/x")]
    for pre in P.PATH_PRE:
        for suf in P.PATH_SUF:
            names.append(pre + rtext(rng, rng.randrange(0, 5)) + suf)
    for n in (120, 124, 125, 126, 200, 250, 255, 256, 300):
        names.append((list(b"a//") * 100)[:n]); names.append((list(b"../") * 100)[:n]); names.append(rspecial_text(rng, n))
    for _ in range(200 if big else 40):
        names.append(rspecial_text(rng, rng.choice([1, 2, 3, 5, 8, 13, 40])))
    out = []
    for nm in names:
        for api in range(len(PATH_APIS)):
            for pc in (range(len(PATH_CLASSES)) if api < 3 else [0]):
                w = rng.choice(WIDTHS)
                other = rng.choice(names)
                if len(other) > 100:      # cut on a character boundary: the names are UTF-8 text
                    other = list(bytes(other[:rng.choice([0, 3, 100])]).decode("utf-8", "ignore").encode("utf-8"))
                a, b = (nm, other) if rng.random() < 0.5 else (other, nm)
                out.append((1199, [[X_PATHS, api, pc, rid(rng, w), w], a, b]))
    return out



def all_getters(data):
    return [(g, [data]) for g in [1111] + GETTERS]


def streams(tier, rng):
    big = tier == "thorough"
    # 1. every message-type octet x every getter, with field octets that suit some kind; every parameter octet
    cases = []
    for mt in range(256):
        for f in ([], [rng.randrange(256)], lv(rbytes(rng, 2)) + lv(rbytes(rng, 1)) + lv(rbytes(rng, 3)),
                  [0x11] + rbytes(rng, 4), [0x80] + lv([65]) + lv([66, 67])):
            cases += all_getters(reserved_tlv(mt, f))
        cases.append((1109, [[mt], rbytes(rng, 3)]))
    for mt in (-1, 256, 257, 2 ** 16):
        cases.append((1109, [[mt], []]))
    for b in range(256):
        for mt in (7, 11, 4, 0x15, 0x11, 10):
            tail = rbytes(rng, 16) if mt == 10 else (lv([65]) + lv([66]) if mt == 0x11 else [])
            cases += [(g, [reserved_tlv(mt, [b] + tail)]) for g in GETTERS]
    yield "exh_type_and_param_octet", "exact", cases
    # 2. is_reserved on arbitrary message content: every first octet, every length 0..8, marker mutations
    cases = []
    for b in range(256):
        for n in (0, 1, 3, 4, 5, 9):
            cases.append((1110, [([b] + rbytes(rng, n))]))
        for i in range(4):
            v = list(CFDP) + [1, 2]; v[i] = b
            cases.append((1110, [v])); cases += [(1111, [[2, len(v)] + v])]
    for n in range(0, 12):
        cases.append((1110, [CFDP[:n] + [7] * max(0, n - 4)])); cases.append((1110, [(CFDP + [0, 0, 0, 0, 0, 0, 0, 0])[:n]]))
    for n in (250, 251, 255, 256, 300):
        cases.append((1110, [CFDP + rbytes(rng, n - 4)]))
    for bad in ([0xff, 0xfe, 0, 0, 0], [0xc3, 0x28, 0x64, 0x70, 1], [0x63, 0x66, 0x64, 0xf0, 0x90], [0x80] * 6, [0xe2, 0x82, 0xac, 0x70, 5, 5]):
        cases.append((1110, [bad])); cases += all_getters([2, len(bad)] + bad)
    yield "exh_marker_octet_substitutions", "exact", cases
    cases = []
    for _ in range(3000 if big else 800):
        v = rbytes(rng, rng.randrange(0, 12))
        cases.append((1110, [v])); cases.append((1111, [[2, len(v)] + v]))
    yield "is_reserved_random", "exact", cases
    # 3. structured valid: every kind, ID widths 1/2/4/8 (+0 and invalid widths), boundary values and name lengths
    cases = []
    for w in [0, 1, 2, 3, 4, 5, 8, 9, -1]:
        for v in ([0, 1, 255, 256, 65535, 65536, 2 ** 32 - 1, 2 ** 32, 2 ** 64 - 1, 2 ** 64, -1]):
            cases.append((1100, [[v, w], rbytes(rng, 3), rbytes(rng, 2)]))
            cases.append((1104, [[v, w, 1, 1]])); cases.append((1104, [[1, 1, v, w]]))
    for sw, qw in itertools.product(WIDTHS, repeat=2):
        for _ in range(6):
            cases.append((1104, [[rid(rng, sw), sw, rid(rng, qw), qw]]))
    for w in WIDTHS:
        for l1, l2 in itertools.product([0, 1, 2, 100, 120, 238 - w, 240 - w], [0, 1, 7, 120, 125]):
            if l1 < 0:
                continue
            cases.append((1100, [[rid(rng, w), w], rbytes(rng, l1), rbytes(rng, l2)]))
    for l1, l2 in itertools.product([0, 1, 2, 100, 124, 125, 200, 246, 247, 248, 255, 256], [0, 1, 2, 120, 123, 124, 125]):
        cases.append((1105, [rbytes(rng, l1), rbytes(rng, l2)]))
        cases.append((1106, [[rng.randrange(2)], rbytes(rng, l1), rbytes(rng, l2)]))
    for x in range(-1, 4):
        cases.append((1102, [[x]])); cases.append((1103, [[x]])); cases.append((1106, [[x], [65], [66]]))
        for y in range(-1, 4):
            cases.append((1107, [[x, y]]))
    cases.append((1101, []))
    for cc in range(-1, 18):
        for dc in (0, 1, 2):
            for fs in (0, 1, 2, 3, 4):
                cases.append((1108, [[cc, dc, fs]]))
    cases += valid_builds(rng, 40 if big else 10)
    yield "structured_valid", "exact", cases
    # 4. decode of built messages (+ suffix), every truncation of the value, mutated nibbles / LV lengths
    cases = []
    for op, a in valid_builds(rng, 12 if big else 4):
        f = fields(op, a)
        d = reserved_tlv(MSG_TYPE[op], f)
        cases += all_getters(d); cases += all_getters(d + rbytes(rng, 3))
        for k in range(0, len(d) - 2):       # value truncated, TLV length octet adjusted: a shorter, still well-formed TLV
            e = [2, k] + d[2:2 + k]
            cases += [(g, [e]) for g in GETTERS] + [(1111, [e])]
        for k in range(len(d)):              # raw truncation
            cases.append((BUILD_TO_GET.get(op, 1111), [d[:k]]))
        for i in range(6, min(len(d), 12)):
            for x in (0, 1, 0x7f, 0x80, 0xff, (d[i] + 1) % 256, (d[i] - 1) % 256):
                e = list(d); e[i] = x
                cases += [(g, [e]) for g in GETTERS]
    yield "targeted_malformed", "exact", cases
    # 5. garbage message-to-user TLVs
    cases = []
    for _ in range(4000 if big else 900):
        n = rng.randrange(0, 24)
        v = rbytes(rng, n)
        if rng.random() < 0.8:
            v = CFDP + v
        if len(v) > 4 and rng.random() < 0.8:
            v[4] = rng.choice(PROXY + DIROP + [10])
        d = [2, len(v)] + v
        if rng.random() < 0.1:
            d[0] = rng.randrange(8)
        if rng.random() < 0.1:
            d[1] = rng.randrange(256)
        cases += all_getters(d)
    yield "garbage", "verdict", cases

    # 6. size sweeps: every name length 0..255 in every LV position of every kind that carries names, with the other
    #    name empty / short / filling the TLV to its limit (+-1); every ID width; built, then decoded
    cases = []
    for l in range(0, 257):
        for kind in (0, 5, 6):
            w = rng.choice(WIDTHS)
            room = 255 - 5 - 2 - (1 if kind == 6 else 0) - ((1 + w) if kind == 0 else 0)
            for other in {0, rng.choice([1, 2, 3]), max(0, room - l - 1), max(0, room - l), max(0, room - l + 1)}:
                for first in (True, False):
                    n1, n2 = (rname(rng, l), rname(rng, other)) if first else (rname(rng, other), rname(rng, l))
                    a = {0: [[rid(rng, w), w], n1, n2], 5: [n1, n2], 6: [[rng.randrange(2)], n1, n2]}[kind]
                    cases.append((1100 + kind, a))
                    f = fields(1100 + kind, a)
                    if f is not None and len(f) <= 250 and len(n1) <= 255 and len(n2) <= 255:
                        d = reserved_tlv(MSG_TYPE[1100 + kind], f)
                        cases.append((BUILD_TO_GET[1100 + kind], [d + rbytes(rng, rng.choice([0, 0, 2, 600]))]))
    for l in list(range(0, 300)) + [1000, 4096, 65536]:
        cases.append((1109, [[rng.choice(PROXY + DIROP + [10])], rbytes(rng, l)]))
        cases.append((1110, [CFDP + rbytes(rng, l)])); cases.append((1110, [rbytes(rng, l)]))
    yield "size_sweep_names", "exact", cases
    # 7. coinciding limits: 8-octet IDs of all-ones AND names that fill the TLV exactly AND special octet patterns
    cases = []
    for w in WIDTHS:
        for v in (0, 1, 256 ** w - 1, 256 ** w // 2, int("80" * w, 16)):
            room = 255 - 5 - 3 - w
            for l1 in (0, 1, room - 1, room):
                for extra in (-1, 0, 1):
                    l2 = room - l1 + extra
                    if l2 < 0:
                        continue
                    a = [[v, w], rname(rng, l1), rname(rng, l2)]
                    cases.append((1100, a))
                    cases.append((1160, [[0, rng.randrange(3)]] + a + [[M_PACK], [M_PARSER, 1], [M_TOGENERIC], [M_PACK]]))
                    if extra <= 0:
                        cases.append((1113, [reserved_tlv(0, fields(1100, a))]))
            for w2 in WIDTHS:
                a = [[v, w, 256 ** w2 - 1, w2]]
                cases.append((1104, a)); cases.append((1112, [reserved_tlv(10, fields(1104, a))]))
                cases.append((1160, [[4, rng.randrange(2)]] + a + [[], []] + [[M_PACK], [M_PARSER, 0], [M_PACK]]))
    yield "coinciding_limits", "exact", cases
    # 7b. content that repeats the format's own magic / delimiter octets (the 'cfdp' marker, a message header, an LV of the
    #     marker, the message-type octet, octets equal to the length octet in front), for every reserved message kind: built
    #     (the oracle reads it back through every parser), decoded, classified
    cases = []
    names = [list(m) for m in MAGIC] + [rmagic(rng, n) for n in (4, 5, 8, 9, 16, 40, 120) for _ in range(4 if big else 2)]
    for nm in names:
        other = rng.choice(names)
        for w in WIDTHS:
            for v in magic_ids(w)[:3] + [rng.choice(magic_ids(w)), rid(rng, w)]:
                cases.append((1100, [[v, w], nm, other]) if rng.random() < 0.5 else (1100, [[v, w], other, nm]))
        cases.append((1105, [nm, other])); cases.append((1105, [other, nm]))
        cases.append((1106, [[rng.randrange(2)], nm, other])); cases.append((1106, [[rng.randrange(2)], other, nm]))
        for mt in PROXY + DIROP + [10, 0x63, 0x70]:
            cases.append((1109, [[mt], nm]))
            cases += all_getters(reserved_tlv(mt, nm))
            cases += all_getters(reserved_tlv(mt, [rng.choice([0, 1, 0x80, 0x33, 0x11, rng.randrange(256)])] + nm))
            if mt in (0, 0x10, 0x11):
                f = ([rng.choice([0, 0x80])] if mt == 0x11 else []) + (lv(rng.choice([CFDP, CFDP * 2, [0x63]])) if mt == 0 else []) + lv(nm) + lv(other)
                if len(f) <= 250:
                    cases += all_getters(reserved_tlv(mt, f))
        cases.append((1110, [nm])); cases.append((1110, [CFDP + nm])); cases.append((1110, [nm + CFDP]))
        cases.append((1160, [[9, rng.randrange(2)], [rng.choice(PROXY + DIROP + [10, 0x63])], nm, [],
                             [M_CLASSIFY], [M_PARSER, rng.randrange(8)], [M_TOGENERIC], [M_PACK]]))
        v = (CFDP + [rng.choice(PROXY + DIROP + [10, 0x63])] + nm)[:255]
        cases.append((1160, [[11, rng.randrange(2)], [2, len(v)] + v, [], [], [M_ISRES], [M_TORES], [M_PACK]]))
        cases.append((1160, [[13, rng.randrange(2)], [2, len(v)] + v, [], [], [M_CLASSIFY], [M_PARSER, rng.randrange(8)], [M_TOGENERIC]]))
    for sw, qw in itertools.product(WIDTHS, repeat=2):
        for sv in magic_ids(sw):
            for qv in magic_ids(qw)[:2] + [rid(rng, qw)]:
                cases.append((1104, [[sv, sw, qv, qw]])); cases.append((1104, [[qv % 256 ** sw, sw, sv % 256 ** qw, qw]]))
    for k in (1, 2, 3, 5, 16):                     # fields made of the message's own type octet / of its own length octets
        for w in WIDTHS:
            cases.append((1100, [[0, w], [0] * k, [0] * k])); cases.append((1100, [[int.from_bytes(bytes([w] * w), "big"), w], [k] * k, [k] * k]))
            cases.append((1104, [[int.from_bytes(bytes([10] * w), "big"), w, int.from_bytes(bytes([10] * w), "big"), w]]))
        cases.append((1105, [[0x10] * k, [0x10] * k])); cases.append((1105, [[k] * k, [k] * k]))
        for ok in (0, 1):
            cases.append((1106, [[ok], [0x11] * k, [0x11] * k])); cases.append((1106, [[ok], [0x80 * ok] * k, [k] * k]))
    yield "magic_content", "exact", cases
    # 8. live-object histories and two messages decoded in a row
    cases = mhist_systematic(rng) + mhist_systematic(rng)
    if big:
        cases += mhist_systematic(rng) + mhist_systematic(rng)
    for kind in MKINDS:
        for fl in (0, 1, 2):
            for _ in range(200 if big else 50):
                cases.append(mhist_random(rng, kind, fl))
    yield "histories", "exact", cases
    cases = []
    kinds = [0, 2, 3, 4, 5, 6, 7, 8]
    for ka in kinds:
        for kb in kinds + [1]:
            for _ in range(20 if big else 6):
                da, pa = built_octets(rng, ka, rng.random() < 0.2)
                db, pb = built_octets(rng, kb, rng.random() < 0.2)
                cases.append((1161, [da, db, [pa, pb if pb is not None else rng.randrange(8)]]))
                if ka == kb:        # same kind and same length, different content; identical content
                    dc = list(da); dc[-1] ^= 0x01
                    cases.append((1161, [da, dc, [pa, pa]])); cases.append((1161, [da, list(da), [pa, pa]]))
        cases.append((1161, [built_octets(rng, ka)[0], [2, 3, 1, 2, 3], [rng.randrange(8), rng.randrange(8)]]))
        cases.append((1161, [[2, 3, 1, 2, 3], built_octets(rng, ka)[0], [rng.randrange(8), rng.randrange(8)]]))
    yield "two_decodes_in_a_row", "exact", cases
    # 9. explorations outside the model (op 1199)
    yield "explored_path_arguments", "exact", path_cases(rng, big)
    yield "explored_buffers_handed_out", "exact", fresh_cases(rng, 6 if big else 2)


# ------------------------------------------------------------------ oracle
def oracle_spec(case, ires):
    op, a = case
    if 1100 <= op <= 1108 and fields(op, a) is not None:
        return [(op + 50, a)]
    return []


PK = {0: 1112, 1: 1113, 2: 1114, 3: 1115, 4: 1116, 5: 1117, 6: 1118, 7: 1119}
MNAME = {0: "ProxyPutRequest", 1: "ProxyCancelRequest", 2: "ProxyClosureRequest", 3: "ProxyTransmissionMode",
         4: "OriginatingTransactionId", 5: "DirectoryListingRequest", 6: "DirectoryListingResponse",
         7: "DirectoryListingParameters", 8: "ProxyPutResponse", 9: "ReservedCfdpMessage", 10: "MessageToUserTlv",
         11: "MessageToUserTlv.unpack", 12: "MessageToUserTlv.from_tlv", 13: "MessageToUserTlv.to_reserved_msg_tlv"}


def _flat_expected(k, v):
    """independent reading of reserved-message value v by parser k, flattened like the adapter does; None = no verdict"""
    e = expected_get(PK[k], v)
    if e == "none":
        return [1]
    if not isinstance(e, list):
        return e
    out = [2]
    for i, x in enumerate(e):
        out += x if (k in (0, 2, 3, 4, 7) or (k in (1, 6) and i == 0)) else [len(x)] + x
    return out


def _mhist_oracle(a, ires):
    kind, fl = a[0]
    name = MNAME[kind]
    ops = a[4:]
    reserved = kind <= 9 or kind == 13
    if ires[0][0] == 1:
        if ires[0][1] == 99 and not (kind == 13):
            try:
                _msg_history(a); why = "not reproducible"
            except Exception as e:
                why = str(e)
            return ("C18/%s.history/caller-object-modified-or-shared-state" % name, why)
        return None
    body = ires[1:]
    if len(body) != 3 + 4 * len(ops):
        return ("oracle-crash", "history result has %d lists for %d operations" % (len(body), len(ops)))
    view = body[:3]
    if kind <= 8:
        b = a[1:4] if kind != 5 else a[1:3]
        f = fields(1100 + kind, b)
        if f is not None and len(CFDP + f) + 1 <= 255 and not (kind == 0 and b[0][1] == 0):
            if view[1] != CFDP + [MSG_TYPE[1100 + kind]] + f:
                return ("C18/%s.pack/layout" % name, "argument flavour %d: value %s, the standard says %s" % (fl, view[1][:16], (CFDP + [MSG_TYPE[1100 + kind]] + f)[:16]))
    last_pack, pos = None, 3
    for n, op in enumerate(ops):
        st, nview = body[pos], body[pos + 1:pos + 4]
        pos += 4
        c = op[0]
        where = "step %d (%s) of %s" % (n + 1, op[:8], [x[:6] for x in ops])
        ok = st[0] == 0
        if c not in M_APPLIES[reserved] or (c == M_PARSER and not 0 <= op[1] < 8):
            view = nview; continue
        if not ok and st[1] == 99:
            return ("C18/%s.history/caller-object-modified" % name, where)
        if c in (M_PACK, M_CLASSIFY, M_PARSER, M_TOGENERIC, M_ISRES, M_TORES) or not ok:
            if nview != view:
                return ("C18/%s.history/observation-changed-the-object" % name, "%s: the object reads %s instead of %s" % (where, nview, view))
        ty, v = nview[0][1], nview[1]
        is_res = len(v) >= 5 and v[:4] == CFDP
        if c == M_PACK:
            if not 0 <= ty <= 255:
                if ok:
                    return ("C18/%s.history/pack-accepts-type-%d" % (name, ty), where)
            elif not ok or st[1:] != [ty, len(v)] + v or len(st) - 1 != nview[2][0]:
                return ("C18/%s.history/pack-is-not-the-current-tlv" % name, "%s -> %s, the object holds type %d value %s (packet_len %s)" % (where, st[:14], ty, v[:12], nview[2]))
            elif last_pack is not None and last_pack != st[1:]:
                return ("C18/%s.history/pack-not-repeatable" % name, where)
            last_pack = st[1:] if ok else None
            view = nview; continue
        if c in (M_SETTLV, M_SUBTYPE):
            last_pack = None
            if not ok and st[1] == 1 and op[1] not in _c08.TLV_TYPES:
                # a type code no TLV has (CfdpTlv.unpack refuses it): the unchanged library stores it and packs / refuses
                # later; building such a TLV / assigning such a type may be refused with ValueError right away (the object
                # is unchanged: checked above)
                view = nview; continue
            if c == M_SETTLV and len(op) - 2 <= 255 and (not ok or nview[0][1] != op[1] or nview[1] != op[2:]):
                return ("C18/%s.history/assignment-not-visible" % name, "%s: the object reads %s" % (where, nview))
            if c == M_SUBTYPE and (not ok or nview[0][1] != op[1]):
                return ("C18/%s.history/assignment-not-visible" % name, "%s: the object reads %s" % (where, nview))
        if c in (M_SETTYPE, M_SETVALUE, M_SETPLEN) and ok:
            return ("C18/%s.history/read-only-property-assigned" % name, where)
        if not ok and c in (M_CLASSIFY, M_PARSER, M_ISRES, M_TORES) and is_res and st[1] not in (1, 2, 3):
            return ("C18/%s.history/undocumented-exception" % name, "%s -> error class %d" % (where, st[1]))
        if c == M_ISRES and st != [0, int(is_res)]:
            return ("C18/MessageToUserTlv.is_reserved_cfdp_message/answer", "%s: content %s -> %s" % (where, v[:8], st))
        if c == M_TORES:
            want = [0, 1, 2] + v if is_res else [0, 0]
            if st != want:
                return ("C18/MessageToUserTlv.to_reserved_msg_tlv/history", "%s: content %s -> %s" % (where, v[:8], st[:12]))
        if c == M_CLASSIFY and is_res:
            mt = v[4]
            want = [0, mt, int(mt in PROXY), int(mt in DIROP), int(mt == 10), mt if mt in PROXY else -1, mt if mt in DIROP else -1]
            if st != want:
                return ("C18/ReservedCfdpMessage/classification", "%s: value %s -> %s" % (where, v[:8], st))
        if c == M_PARSER and is_res:
            e = _flat_expected(op[1], v)
            pname = PARSERS[op[1]]
            if e == "bad" and ok and st != [0, 1]:
                return ("C18/ReservedCfdpMessage.%s/malformed-accepted" % pname, "%s: value %s -> %s" % (where, v[:14], st[:10]))
            if isinstance(e, list) and st != [0] + e:
                return ("C18/ReservedCfdpMessage.%s/fields" % pname, "%s: value %s -> %s, expected %s" % (where, v[:14], st[:12], e[:12]))
        if c == M_TOGENERIC:
            if ty == 2 and (not ok or st[1:] != [2, len(v)] + v):
                return ("C18/ReservedCfdpMessage.to_generic_msg_to_user_tlv/octets", "%s -> %s" % (where, st[:12]))
            if ty != 2 and (ok or st[1] != 6):
                return ("C18/ReservedCfdpMessage.to_generic_msg_to_user_tlv/foreign-type", "%s: wrapped type %d -> %s" % (where, ty, st[:6]))
        view = nview
    return None


def _two_oracle(a, ires):
    if ires[0][0] == 1:
        return None
    da, db, (ka, kb) = a
    if ires[3] != ires[1] or ires[4] != ires[1]:
        return ("C18/ReservedCfdpMessage.%s/earlier-result-changed-by-later-decode" % PARSERS[ka],
                "first message %s read as %s; after decoding %s the same parameters read %s, asked again %s" % (da[:14], ires[1][:10], db[:14], ires[3][:10], ires[4][:10]))
    for d, k, got in ((da, ka, ires[1]), (db, kb, ires[2])):
        if len(d) >= 2 and d[0] == 2 and 2 + d[1] <= len(d):
            v = d[2:2 + d[1]]
            if len(v) >= 5 and v[:4] == CFDP:
                e = _flat_expected(k, v)
                if isinstance(e, list) and got != e:
                    return ("C18/ReservedCfdpMessage.%s/fields" % PARSERS[k], "%s -> %s, expected %s" % (d[:14], got[:12], e[:12]))
            elif got != [0]:
                return ("C18/MessageToUserTlv.to_reserved_msg_tlv/non-reserved", "%s -> %s" % (d[:12], got[:6]))
    return None


def oracle(case, ires, sres):
    """The statement of C18 evaluated on the implementation."""
    op, a = case
    err = ires[0][0] == 1
    code = ires[0][1] if err else None
    if op == 1160:
        return _mhist_oracle(a, ires)
    if op == 1161:
        return _two_oracle(a, ires)
    if op == 1199:
        if ires == [[0], [1]]:
            return None
        try:
            r = _explore(a)
        except Exception as e:
            r = ("exploration-%d/raises" % a[0][0], "%r" % (e,))
        if r is None:
            r = ("exploration-%d/not-reproducible" % a[0][0], "the adapter answered %s" % (ires[:2],))
        return ("C18/" + r[0], r[1])
    if err and code == 99 and (op == 1111 or op in GETTERS):
        try:
            impl(op, a); why = "not reproducible"
        except Exception as e:
            why = str(e)
        return ("C18/MessageToUserTlv.unpack/input-buffer-aliased-or-type-dependent", why)
    if 1100 <= op <= 1108:
        f = fields(op, a)
        if f is None:
            return None
        v = CFDP + [MSG_TYPE[op]] + f
        name = {1100: "ProxyPutRequest", 1101: "ProxyCancelRequest", 1102: "ProxyClosureRequest", 1103: "ProxyTransmissionMode",
                1104: "OriginatingTransactionId", 1105: "DirectoryListingRequest", 1106: "DirectoryListingResponse",
                1107: "DirectoryListingParameters", 1108: "ProxyPutResponse"}[op]
        if any(len(x) > 255 for x in a[1:]):
            return None if err and code in (1, 2, 3) else ("C18/%s/lv-too-long-accepted" % name, "%s" % (ires[:2],))
        if op == 1100 and a[0][1] == 0:
            return None     # zero-width entity ID: outside the property's domain (widths 1/2/4/8)
        if len(v) > 255:
            return None if err and code in (1, 2, 3) else ("C18/%s/too-long-accepted" % name, "value of %d octets -> %s" % (len(v), ires[:2]))
        exp = [2, len(v)] + v
        if err or ires[1] != [0] + exp or ires[2] != v or ires[3] != [len(exp)] or ires[4] != [2] or sres[0][1] != exp:
            return ("C18/%s.pack/layout" % name, "args %s -> %s, standard says %s" % ([x[:10] for x in a], ires[:3], exp[:20]))
        # round trip through MessageToUserTlv.unpack -> is_reserved -> to_reserved_msg_tlv -> get_*
        cl = run_impl(impl, 1111, [exp + [0x55]])
        mt = MSG_TYPE[op]
        want = [[0], [1], [mt], [int(mt in PROXY), int(mt in DIROP), int(mt == 10)], [mt if mt in PROXY else -1],
                [mt if mt in DIROP else -1], v, [0] + exp]
        if cl != want:
            k = next((i for i in range(min(len(cl), len(want))) if cl[i] != want[i]), min(len(cl), len(want)))
            part = ["status", "is reserved", "message type", "proxy / directory / originating", "proxy type", "directory type",
                    "value of the reserved message", "generic TLV octets"][min(k, 7)]
            return ("C18/%s/classification" % name, "the packed message %s decoded through MessageToUserTlv.unpack / to_reserved_msg_tlv differs "
                    "in: %s: %s, expected %s" % (exp[:24], part, cl[k:k + 1], want[k:k + 1]))
        if op in BUILD_TO_GET:
            back = run_impl(impl, BUILD_TO_GET[op], [exp + [0x55]])
            if back != [[0], [2]] + expected_params(op, a):
                return ("C18/%s/roundtrip" % name, "params %s decoded as %s" % ([x[:10] for x in a], back[:5]))
        for g in GETTERS:     # every other parser answers None
            if g != BUILD_TO_GET.get(op):
                o = run_impl(impl, g, [exp])
                if o != [[0], [1]]:
                    return ("C18/%s/foreign-parser" % name, "parser op %d on this message -> %s" % (g, o[:3]))
        return None
    if op == 1110:
        v = a[0]
        if len(v) > 255:
            return None
        exp = int(len(v) >= 5 and v[:4] == CFDP)
        if err:
            return ("C18/MessageToUserTlv.is_reserved_cfdp_message/raises", "content %s -> error class %d instead of %s" % (v[:8], code, bool(exp)))
        if ires[1] != [exp]:
            return ("C18/MessageToUserTlv.is_reserved_cfdp_message/answer", "content %s -> %s" % (v[:8], ires))
        return None
    if op == 1111 or op in GETTERS:
        d = a[0]
        name = {1111: "classification", 1112: "get_originating_transaction_id", 1113: "get_proxy_put_request_params",
                1114: "get_proxy_put_response_params", 1115: "get_proxy_closure_requested", 1116: "get_proxy_transmission_mode",
                1117: "get_dir_listing_request_params", 1118: "get_dir_listing_response_params", 1119: "get_dir_listing_options"}[op]
        if err and code not in (1, 2, 3, 6):
            return ("C18/ReservedCfdpMessage.%s/undocumented-exception" % name, "%s -> error class %d" % (d[:12], code))
        wf = len(d) >= 2 and d[0] == 2 and 2 + d[1] <= len(d)
        if wf:
            v = d[2:2 + d[1]]
            reserved = len(v) >= 5 and v[:4] == CFDP
            if not reserved and ires != [[0], [0]]:
                return ("C18/MessageToUserTlv.to_reserved_msg_tlv/non-reserved", "%s -> %s" % (d[:12], ires[:3]))
            if reserved and op == 1111:
                mt = v[4]
                want = [[0], [1], [mt], [int(mt in PROXY), int(mt in DIROP), int(mt == 10)], [mt if mt in PROXY else -1],
                        [mt if mt in DIROP else -1], v, [0] + d[:2 + d[1]]]
                if ires != want:
                    return ("C18/ReservedCfdpMessage/classification", "%s -> %s" % (d[:12], ires[:6]))
            if reserved and op in GETTERS:
                e = expected_get(op, v)
                if e == "none" and ires != [[0], [1]]:
                    return ("C18/ReservedCfdpMessage.%s/other-kind" % name, "%s -> %s" % (d[:12], ires[:4]))
                if e == "bad" and not err and ires != [[0], [1]]:
                    return ("C18/ReservedCfdpMessage.%s/malformed-accepted" % name, "incomplete fields %s -> %s" % (d[:14], ires[:4]))
                if isinstance(e, list) and ires != [[0], [2]] + e:
                    return ("C18/ReservedCfdpMessage.%s/fields" % name, "%s -> %s, expected %s" % (d[:14], ires[:5], e))
        return None
    if op == 1109:
        mt, v = a[0][0], a[1]
        if 0 <= mt <= 255 and len(v) <= 250:
            exp = [2, len(v) + 5] + CFDP + [mt] + v
            if err or ires[1] != [0] + exp:
                return ("C18/ReservedCfdpMessage.__init__/layout", "(%d, %s) -> %s" % (mt, v[:6], ires[:2]))
        return None
    return None


def neighbours(case):
    op, a = case
    out = []
    if a and a[0] and (op == 1111 or op in GETTERS):
        for i in range(min(10, len(a[0]))):
            for dlt in (-1, 1):
                l = list(a[0]); l[i] = (l[i] + dlt) % 256; out.append((op, [l]))
    return out


def _valid(rng):
    return [reserved_tlv(MSG_TYPE[op], fields(op, a)) for op, a in valid_builds(rng, 3)]


DECODERS = [
    {"op": g, "name": "MessageToUserTlv.unpack/to_reserved_msg_tlv/ReservedCfdpMessage parser %d" % g, "extra": [],
     "valid": _valid, "declared_len": lambda b: b[1] + 2,
     **({"reported_len": lambda view: [len(view[6]) - 1] if len(view) > 6 and view[6][:1] == [0] else []} if g == 1111 else {})}
    for g in [1111] + GETTERS
]
