"""C18 — reserved CFDP messages (proxy, directory, originating ID) round-trip via TLVs.
Family 11 of run_case (coq/theories/Run/DispMsg.v)."""
import itertools
from harness.core import classify_exception, canon_code, run_impl
from spacepackets.util import UnsignedByteField
from spacepackets.cfdp.lv import CfdpLv
from spacepackets.cfdp.defs import ConditionCode, DeliveryCode, FileStatus, TransmissionMode, TransactionId
from spacepackets.cfdp.tlv import (
    MessageToUserTlv, ReservedCfdpMessage, ProxyPutRequestParams, ProxyPutRequest, ProxyCancelRequest,
    ProxyClosureRequest, ProxyTransmissionMode, ProxyPutResponse, ProxyPutResponseParams, DirectoryParams,
    DirListingOptions, DirectoryListingRequest, DirectoryListingResponse, DirectoryListingParameters,
    OriginatingTransactionId,
)

ID = "C18"
_T = "spacepackets.cfdp.tlv.defs:"
_M = "SP.Model.MsgToUser."
ENUMS = [
    (_T + "ProxyMessageType.PUT_REQUEST", _M + "PM_PUT_REQUEST"),
    (_T + "ProxyMessageType.MSG_TO_USER", _M + "PM_MSG_TO_USER"),
    (_T + "ProxyMessageType.FS_REQUEST", _M + "PM_FS_REQUEST"),
    (_T + "ProxyMessageType.FAULT_HANDLER_OVERRIDE", _M + "PM_FAULT_HANDLER_OVERRIDE"),
    (_T + "ProxyMessageType.TRANSMISSION_MODE", _M + "PM_TRANSMISSION_MODE"),
    (_T + "ProxyMessageType.FLOW_LABEL", _M + "PM_FLOW_LABEL"),
    (_T + "ProxyMessageType.SEGMENTATION_CTRL", _M + "PM_SEGMENTATION_CTRL"),
    (_T + "ProxyMessageType.PUT_RESPONSE", _M + "PM_PUT_RESPONSE"),
    (_T + "ProxyMessageType.FS_RESPONSE", _M + "PM_FS_RESPONSE"),
    (_T + "ProxyMessageType.PUT_CANCEL", _M + "PM_PUT_CANCEL"),
    (_T + "ProxyMessageType.CLOSURE_REQUEST", _M + "PM_CLOSURE_REQUEST"),
    (_T + "ORIGINATING_TRANSACTION_ID_MSG_TYPE_ID", _M + "ORIGINATING_TRANSACTION_ID_MSG_TYPE_ID"),
    (_T + "DirectoryOperationMessageType.LISTING_REQUEST", _M + "DM_LISTING_REQUEST"),
    (_T + "DirectoryOperationMessageType.LISTING_RESPONSE", _M + "DM_LISTING_RESPONSE"),
    (_T + "DirectoryOperationMessageType.CUSTOM_LISTING_PARAMETERS", _M + "DM_CUSTOM_LISTING_PARAMETERS"),
    (_T + "TlvType.MESSAGE_TO_USER", "SP.Model.Tlv.TLV_MESSAGE_TO_USER"),
    (_T + "ProxyMessageType.PUT_REQUEST", "SP.Spec.MsgSpec.MT_PROXY_PUT_REQUEST"),
    (_T + "ProxyMessageType.TRANSMISSION_MODE", "SP.Spec.MsgSpec.MT_PROXY_TRANSMISSION_MODE"),
    (_T + "ProxyMessageType.PUT_RESPONSE", "SP.Spec.MsgSpec.MT_PROXY_PUT_RESPONSE"),
    (_T + "ProxyMessageType.PUT_CANCEL", "SP.Spec.MsgSpec.MT_PROXY_PUT_CANCEL"),
    (_T + "ProxyMessageType.CLOSURE_REQUEST", "SP.Spec.MsgSpec.MT_PROXY_CLOSURE_REQUEST"),
    (_T + "ORIGINATING_TRANSACTION_ID_MSG_TYPE_ID", "SP.Spec.MsgSpec.MT_ORIGINATING_TRANSACTION_ID"),
    (_T + "DirectoryOperationMessageType.LISTING_REQUEST", "SP.Spec.MsgSpec.MT_DIRECTORY_LISTING_REQUEST"),
    (_T + "DirectoryOperationMessageType.LISTING_RESPONSE", "SP.Spec.MsgSpec.MT_DIRECTORY_LISTING_RESPONSE"),
    (_T + "DirectoryOperationMessageType.CUSTOM_LISTING_PARAMETERS", "SP.Spec.MsgSpec.MT_CUSTOM_LISTING_PARAMETERS"),
]
ASSUMPTIONS = [
    "CPython int / bytes / IntEnum semantics as modelled in Base/Bytes.v; UnsignedByteField is modelled locally as "
    "(value, width) with width in {0,1,2,4,8} (constructor, as_bytes, from_bytes) and tied by the correspondence streams",
    "member sets of ProxyMessageType / DirectoryOperationMessageType / ConditionCode are tied by an exhaustive sweep of "
    "the message-type octet and of the parameter octet (all 256 values each) in addition to the named constants",
]
TRUSTED = []
EXPLORED_ONLY = []

PROXY = [0, 1, 2, 3, 4, 5, 6, 7, 8, 9, 11]
DIROP = [0x10, 0x11, 0x15]
CC = sorted(int(x) for x in ConditionCode if int(x) >= 0)
WIDTHS = [1, 2, 4, 8]
CFDP = [99, 102, 100, 112]
GETTERS = list(range(1112, 1120))
BUILD_TO_GET = {1100: 1113, 1102: 1115, 1103: 1116, 1104: 1112, 1105: 1117, 1106: 1118, 1107: 1119, 1108: 1114}
MSG_TYPE = {1100: 0, 1101: 9, 1102: 11, 1103: 4, 1104: 10, 1105: 0x10, 1106: 0x11, 1107: 0x15, 1108: 7}


def _enum(cls, v):
    try:
        return cls(v)
    except ValueError:
        return v


def _rb(f):
    try:
        return [0] + list(f())
    except Exception as e:
        return [1, canon_code(classify_exception(e))]


def _view(m):
    return [_rb(m.pack), list(m.value), [m.packet_len], [int(m.tlv_type)]]


def _b(x):
    return bool(x) if x in (0, 1) else x


def _ubf(u):
    return [int(u.value), int(u.byte_len)]


def _pipe(data, getter, fmt):
    t = MessageToUserTlv.unpack(bytes(data))
    r = t.to_reserved_msg_tlv()
    if r is None:
        return [[0]]
    x = getter(r)
    if x is None:
        return [[1]]
    return [[2]] + fmt(x)


def impl(op, a):
    if op == 1100:
        return _view(ProxyPutRequest(ProxyPutRequestParams(UnsignedByteField(a[0][0], a[0][1]), CfdpLv(bytes(a[1])), CfdpLv(bytes(a[2])))))
    if op == 1101:
        return _view(ProxyCancelRequest())
    if op == 1102:
        return _view(ProxyClosureRequest(_b(a[0][0])))
    if op == 1103:
        return _view(ProxyTransmissionMode(_enum(TransmissionMode, a[0][0])))
    if op == 1104:
        return _view(OriginatingTransactionId(TransactionId(UnsignedByteField(a[0][0], a[0][1]), UnsignedByteField(a[0][2], a[0][3]))))
    if op == 1105:
        return _view(DirectoryListingRequest(DirectoryParams(CfdpLv(bytes(a[0])), CfdpLv(bytes(a[1])))))
    if op == 1106:
        return _view(DirectoryListingResponse(_b(a[0][0]), DirectoryParams(CfdpLv(bytes(a[1])), CfdpLv(bytes(a[2])))))
    if op == 1107:
        return _view(DirectoryListingParameters(DirListingOptions(_b(a[0][0]), _b(a[0][1]))))
    if op == 1108:
        return _view(ProxyPutResponse(ProxyPutResponseParams(_enum(ConditionCode, a[0][0]), _enum(DeliveryCode, a[0][1]), _enum(FileStatus, a[0][2]))))
    if op == 1109:
        return _view(ReservedCfdpMessage(a[0][0], bytes(a[1])))
    if op == 1110:
        return [[int(MessageToUserTlv(bytes(a[0])).is_reserved_cfdp_message())]]
    if op == 1111:
        t = MessageToUserTlv.unpack(bytes(a[0]))
        r = t.to_reserved_msg_tlv()
        if r is None:
            return [[0]]
        pt, dt = r.get_cfdp_proxy_message_type(), r.get_directory_operation_type()
        return [[1], [r.get_reserved_cfdp_message_type()],
                [int(r.is_cfdp_proxy_operation()), int(r.is_directory_operation()), int(r.is_originating_transaction_id())],
                [-1 if pt is None else int(pt)], [-1 if dt is None else int(dt)], list(r.value),
                _rb(lambda: r.to_generic_msg_to_user_tlv().pack())]
    if op == 1112:
        return _pipe(a[0], lambda r: r.get_originating_transaction_id(), lambda x: [_ubf(x.source_id) + _ubf(x.seq_num)])
    if op == 1113:
        return _pipe(a[0], lambda r: r.get_proxy_put_request_params(),
                     lambda x: [_ubf(x.dest_entity_id), list(x.source_file_name.value), list(x.dest_file_name.value)])
    if op == 1114:
        return _pipe(a[0], lambda r: r.get_proxy_put_response_params(),
                     lambda x: [[int(x.condition_code), int(x.delivery_code), int(x.file_status)]])
    if op == 1115:
        return _pipe(a[0], lambda r: r.get_proxy_closure_requested(), lambda x: [[int(x)]])
    if op == 1116:
        return _pipe(a[0], lambda r: r.get_proxy_transmission_mode(), lambda x: [[int(x)]])
    if op == 1117:
        return _pipe(a[0], lambda r: r.get_dir_listing_request_params(), lambda x: [list(x.dir_path.value), list(x.dir_file_name.value)])
    if op == 1118:
        return _pipe(a[0], lambda r: r.get_dir_listing_response_params(),
                     lambda x: [[int(x[0])], list(x[1].dir_path.value), list(x[1].dir_file_name.value)])
    if op == 1119:
        return _pipe(a[0], lambda r: r.get_dir_listing_options(), lambda x: [[int(x.recursive), int(x.all)]])
    raise RuntimeError("bad op")


# ------------------------------------------------------------------ independent layouts (727.0-B-5 section 6)
def lv(v):
    return [len(v)] + list(v)


def be(v, w):
    return list(int(v).to_bytes(w, "big"))


def fields(op, a):
    """the fields of the message built by op with arguments a, per the standard; None when outside the domain"""
    if op == 1100:
        v, w = a[0]
        if w not in (0, 1, 2, 4, 8) or not 0 <= v < 256 ** w:
            return None
        return lv(be(v, w)) + lv(a[1]) + lv(a[2])
    if op == 1101:
        return []
    if op in (1102, 1103):
        return [a[0][0]] if a[0][0] in (0, 1) else None
    if op == 1104:
        sv, sw, qv, qw = a[0]
        if sw not in WIDTHS or qw not in WIDTHS or not (0 <= sv < 256 ** sw and 0 <= qv < 256 ** qw):
            return None
        return [(sw - 1) * 16 + (qw - 1)] + be(sv, sw) + be(qv, qw)
    if op == 1105:
        return lv(a[0]) + lv(a[1])
    if op == 1106:
        return ([a[0][0] * 128] + lv(a[1]) + lv(a[2])) if a[0][0] in (0, 1) else None
    if op == 1107:
        r, al = a[0]
        return [r * 2 + al] if r in (0, 1) and al in (0, 1) else None
    if op == 1108:
        cc, dc, fs = a[0]
        return [cc * 16 + dc * 4 + fs] if cc in CC and dc in (0, 1) and fs in (0, 1, 2, 3) else None
    return None


def expected_params(op, a):
    """what the matching get_* must return for the message built by (op, a)"""
    if op == 1100:
        return [list(a[0]), a[1], a[2]]
    if op in (1102, 1103, 1107, 1108):
        return [list(a[0])]
    if op == 1104:
        return [list(a[0])]
    if op == 1105:
        return [a[0], a[1]]
    if op == 1106:
        return [list(a[0]), a[1], a[2]]


def parse_lv(b, i):
    if i >= len(b) or i + 1 + b[i] > len(b):
        return None
    return b[i + 1:i + 1 + b[i]], i + 1 + b[i]


def expected_get(g, v):
    """independent reading of the reserved-message value v (starts with 'cfdp', >= 5 octets) by parser g:
    'none' (other kind), 'bad' (fields incomplete / not decodable: must not yield parameters), 'skip', or the list
    of parameter lists"""
    mt, f = v[4], v[5:]
    kind = {1112: 10, 1113: 0, 1114: 7, 1115: 11, 1116: 4, 1117: 0x10, 1118: 0x11, 1119: 0x15}[g]
    if mt != kind:
        return "none"
    if g == 1112:
        if len(f) < 1:
            return "bad"
        sl, ql = ((f[0] >> 4) & 7) + 1, (f[0] & 7) + 1
        if len(f) < 1 + sl + ql or sl not in WIDTHS or ql not in WIDTHS:
            return "bad"
        return [[int.from_bytes(bytes(f[1:1 + sl]), "big"), sl, int.from_bytes(bytes(f[1 + sl:1 + sl + ql]), "big"), ql]]
    if g == 1113:
        r1 = parse_lv(f, 0)
        r2 = parse_lv(f, r1[1]) if r1 else None
        r3 = parse_lv(f, r2[1]) if r2 else None
        if not (r1 and r2 and r3) or len(r1[0]) not in (0, 1, 2, 4, 8):
            return "bad"
        if len(r1[0]) == 0:
            return "skip"
        return [[int.from_bytes(bytes(r1[0]), "big"), len(r1[0])], r2[0], r3[0]]
    if g in (1117, 1118):
        off = 0 if g == 1117 else 1
        if len(f) < off:
            return "bad"
        r1 = parse_lv(f, off)
        r2 = parse_lv(f, r1[1]) if r1 else None
        if not (r1 and r2):
            return "bad"
        return ([[f[0] >> 7]] if g == 1118 else []) + [r1[0], r2[0]]
    if len(f) < 1:
        return "bad"
    if g == 1114:
        return [[f[0] >> 4, (f[0] >> 2) & 1, f[0] & 3]] if (f[0] >> 4) in CC else "bad"
    if g in (1115, 1116):
        return [[f[0] & 1]]
    return [[(f[0] >> 1) & 1, f[0] & 1]]


def reserved_tlv(mt, f):
    v = CFDP + [mt] + list(f)
    return [2, len(v)] + v


# ------------------------------------------------------------------ generators
def rbytes(rng, n):
    return [rng.randrange(256) for _ in range(n)]


def rid(rng, w):
    return rng.choice([0, 1, 256 ** w - 1, 256 ** w // 2, rng.randrange(256 ** w)]) if w else 0


def valid_builds(rng, n):
    out = []
    for _ in range(n):
        w = rng.choice(WIDTHS)
        out.append((1100, [[rid(rng, w), w], rbytes(rng, rng.randrange(0, 9)), rbytes(rng, rng.randrange(0, 9))]))
        out.append((1101, []))
        out.append((1102, [[rng.randrange(2)]]))
        out.append((1103, [[rng.randrange(2)]]))
        sw, qw = rng.choice(WIDTHS), rng.choice(WIDTHS)
        out.append((1104, [[rid(rng, sw), sw, rid(rng, qw), qw]]))
        out.append((1105, [rbytes(rng, rng.randrange(0, 9)), rbytes(rng, rng.randrange(0, 9))]))
        out.append((1106, [[rng.randrange(2)], rbytes(rng, rng.randrange(0, 9)), rbytes(rng, rng.randrange(0, 9))]))
        out.append((1107, [[rng.randrange(2), rng.randrange(2)]]))
        out.append((1108, [[rng.choice(CC), rng.randrange(2), rng.randrange(4)]]))
    return out


def all_getters(data):
    return [(g, [data]) for g in [1111] + GETTERS]


def streams(tier, rng):
    big = tier == "thorough"
    # 1. every message-type octet x every getter, with field octets that suit some kind; every parameter octet
    cases = []
    for mt in range(256):
        for f in ([], [rng.randrange(256)], lv(rbytes(rng, 2)) + lv(rbytes(rng, 1)) + lv(rbytes(rng, 3)),
                  [0x11] + rbytes(rng, 4), [0x80] + lv([65]) + lv([66, 67])):
            cases += all_getters(reserved_tlv(mt, f))
        cases.append((1109, [[mt], rbytes(rng, 3)]))
    for mt in (-1, 256, 257, 2 ** 16):
        cases.append((1109, [[mt], []]))
    for b in range(256):
        for mt in (7, 11, 4, 0x15, 0x11, 10):
            tail = rbytes(rng, 16) if mt == 10 else (lv([65]) + lv([66]) if mt == 0x11 else [])
            cases += [(g, [reserved_tlv(mt, [b] + tail)]) for g in GETTERS]
    yield "exh_type_and_param_octet", "exact", cases
    # 2. is_reserved on arbitrary message content: every first octet, every length 0..8, marker mutations
    cases = []
    for b in range(256):
        for n in (0, 1, 3, 4, 5, 9):
            cases.append((1110, [([b] + rbytes(rng, n))]))
        for i in range(4):
            v = list(CFDP) + [1, 2]; v[i] = b
            cases.append((1110, [v])); cases += [(1111, [[2, len(v)] + v])]
    for n in range(0, 12):
        cases.append((1110, [CFDP[:n] + [7] * max(0, n - 4)])); cases.append((1110, [(CFDP + [0, 0, 0, 0, 0, 0, 0, 0])[:n]]))
    for n in (250, 251, 255, 256, 300):
        cases.append((1110, [CFDP + rbytes(rng, n - 4)]))
    for bad in ([0xff, 0xfe, 0, 0, 0], [0xc3, 0x28, 0x64, 0x70, 1], [0x63, 0x66, 0x64, 0xf0, 0x90], [0x80] * 6, [0xe2, 0x82, 0xac, 0x70, 5, 5]):
        cases.append((1110, [bad])); cases += all_getters([2, len(bad)] + bad)
    yield "exh_marker_octet_substitutions", "exact", cases
    cases = []
    for _ in range(3000 if big else 800):
        v = rbytes(rng, rng.randrange(0, 12))
        cases.append((1110, [v])); cases.append((1111, [[2, len(v)] + v]))
    yield "is_reserved_random", "exact", cases
    # 3. structured valid: every kind, ID widths 1/2/4/8 (+0 and invalid widths), boundary values and name lengths
    cases = []
    for w in [0, 1, 2, 3, 4, 5, 8, 9, -1]:
        for v in ([0, 1, 255, 256, 65535, 65536, 2 ** 32 - 1, 2 ** 32, 2 ** 64 - 1, 2 ** 64, -1]):
            cases.append((1100, [[v, w], rbytes(rng, 3), rbytes(rng, 2)]))
            cases.append((1104, [[v, w, 1, 1]])); cases.append((1104, [[1, 1, v, w]]))
    for sw, qw in itertools.product(WIDTHS, repeat=2):
        for _ in range(6):
            cases.append((1104, [[rid(rng, sw), sw, rid(rng, qw), qw]]))
    for w in WIDTHS:
        for l1, l2 in itertools.product([0, 1, 2, 100, 120, 238 - w, 240 - w], [0, 1, 7, 120, 125]):
            if l1 < 0:
                continue
            cases.append((1100, [[rid(rng, w), w], rbytes(rng, l1), rbytes(rng, l2)]))
    for l1, l2 in itertools.product([0, 1, 2, 100, 124, 125, 200, 246, 247, 248, 255, 256], [0, 1, 2, 120, 123, 124, 125]):
        cases.append((1105, [rbytes(rng, l1), rbytes(rng, l2)]))
        cases.append((1106, [[rng.randrange(2)], rbytes(rng, l1), rbytes(rng, l2)]))
    for x in range(-1, 4):
        cases.append((1102, [[x]])); cases.append((1103, [[x]])); cases.append((1106, [[x], [65], [66]]))
        for y in range(-1, 4):
            cases.append((1107, [[x, y]]))
    cases.append((1101, []))
    for cc in range(-1, 18):
        for dc in (0, 1, 2):
            for fs in (0, 1, 2, 3, 4):
                cases.append((1108, [[cc, dc, fs]]))
    cases += valid_builds(rng, 40 if big else 10)
    yield "structured_valid", "exact", cases
    # 4. decode of built messages (+ suffix), every truncation of the value, mutated nibbles / LV lengths
    cases = []
    for op, a in valid_builds(rng, 12 if big else 4):
        f = fields(op, a)
        d = reserved_tlv(MSG_TYPE[op], f)
        cases += all_getters(d); cases += all_getters(d + rbytes(rng, 3))
        for k in range(0, len(d) - 2):       # value truncated, TLV length octet adjusted: a shorter, still well-formed TLV
            e = [2, k] + d[2:2 + k]
            cases += [(g, [e]) for g in GETTERS] + [(1111, [e])]
        for k in range(len(d)):              # raw truncation
            cases.append((BUILD_TO_GET.get(op, 1111), [d[:k]]))
        for i in range(6, min(len(d), 12)):
            for x in (0, 1, 0x7f, 0x80, 0xff, (d[i] + 1) % 256, (d[i] - 1) % 256):
                e = list(d); e[i] = x
                cases += [(g, [e]) for g in GETTERS]
    yield "targeted_malformed", "exact", cases
    # 5. garbage message-to-user TLVs
    cases = []
    for _ in range(4000 if big else 900):
        n = rng.randrange(0, 24)
        v = rbytes(rng, n)
        if rng.random() < 0.8:
            v = CFDP + v
        if len(v) > 4 and rng.random() < 0.8:
            v[4] = rng.choice(PROXY + DIROP + [10])
        d = [2, len(v)] + v
        if rng.random() < 0.1:
            d[0] = rng.randrange(8)
        if rng.random() < 0.1:
            d[1] = rng.randrange(256)
        cases += all_getters(d)
    yield "garbage", "verdict", cases


# ------------------------------------------------------------------ oracle
def oracle_spec(case, ires):
    op, a = case
    if 1100 <= op <= 1108 and fields(op, a) is not None:
        return [(op + 50, a)]
    return []


def oracle(case, ires, sres):
    """The statement of C18 evaluated on the implementation."""
    op, a = case
    err = ires[0][0] == 1
    code = ires[0][1] if err else None
    if 1100 <= op <= 1108:
        f = fields(op, a)
        if f is None:
            return None
        v = CFDP + [MSG_TYPE[op]] + f
        name = {1100: "ProxyPutRequest", 1101: "ProxyCancelRequest", 1102: "ProxyClosureRequest", 1103: "ProxyTransmissionMode",
                1104: "OriginatingTransactionId", 1105: "DirectoryListingRequest", 1106: "DirectoryListingResponse",
                1107: "DirectoryListingParameters", 1108: "ProxyPutResponse"}[op]
        if any(len(x) > 255 for x in a[1:]):
            return None if err and code in (1, 2, 3) else ("C18/%s/lv-too-long-accepted" % name, "%s" % (ires[:2],))
        if op == 1100 and a[0][1] == 0:
            return None     # zero-width entity ID: outside the property's domain (widths 1/2/4/8)
        if len(v) > 255:
            return None if err and code in (1, 2, 3) else ("C18/%s/too-long-accepted" % name, "value of %d octets -> %s" % (len(v), ires[:2]))
        exp = [2, len(v)] + v
        if err or ires[1] != [0] + exp or ires[2] != v or ires[3] != [len(exp)] or ires[4] != [2] or sres[0][1] != exp:
            return ("C18/%s.pack/layout" % name, "args %s -> %s, standard says %s" % ([x[:10] for x in a], ires[:3], exp[:20]))
        # round trip through MessageToUserTlv.unpack -> is_reserved -> to_reserved_msg_tlv -> get_*
        cl = run_impl(impl, 1111, [exp + [0x55]])
        mt = MSG_TYPE[op]
        want = [[0], [1], [mt], [int(mt in PROXY), int(mt in DIROP), int(mt == 10)], [mt if mt in PROXY else -1],
                [mt if mt in DIROP else -1], v, [0] + exp]
        if cl != want:
            return ("C18/%s/classification" % name, "decoded classification %s, expected %s" % (cl[:6], want[:6]))
        if op in BUILD_TO_GET:
            back = run_impl(impl, BUILD_TO_GET[op], [exp + [0x55]])
            if back != [[0], [2]] + expected_params(op, a):
                return ("C18/%s/roundtrip" % name, "params %s decoded as %s" % ([x[:10] for x in a], back[:5]))
        for g in GETTERS:     # every other parser answers None
            if g != BUILD_TO_GET.get(op):
                o = run_impl(impl, g, [exp])
                if o != [[0], [1]]:
                    return ("C18/%s/foreign-parser" % name, "parser op %d on this message -> %s" % (g, o[:3]))
        return None
    if op == 1110:
        v = a[0]
        if len(v) > 255:
            return None
        exp = int(len(v) >= 5 and v[:4] == CFDP)
        if err:
            return ("C18/MessageToUserTlv.is_reserved_cfdp_message/raises", "content %s -> error class %d instead of %s" % (v[:8], code, bool(exp)))
        if ires[1] != [exp]:
            return ("C18/MessageToUserTlv.is_reserved_cfdp_message/answer", "content %s -> %s" % (v[:8], ires))
        return None
    if op == 1111 or op in GETTERS:
        d = a[0]
        name = {1111: "classification", 1112: "get_originating_transaction_id", 1113: "get_proxy_put_request_params",
                1114: "get_proxy_put_response_params", 1115: "get_proxy_closure_requested", 1116: "get_proxy_transmission_mode",
                1117: "get_dir_listing_request_params", 1118: "get_dir_listing_response_params", 1119: "get_dir_listing_options"}[op]
        if err and code not in (1, 2, 3, 6):
            return ("C18/ReservedCfdpMessage.%s/undocumented-exception" % name, "%s -> error class %d" % (d[:12], code))
        wf = len(d) >= 2 and d[0] == 2 and 2 + d[1] <= len(d)
        if wf:
            v = d[2:2 + d[1]]
            reserved = len(v) >= 5 and v[:4] == CFDP
            if not reserved and ires != [[0], [0]]:
                return ("C18/MessageToUserTlv.to_reserved_msg_tlv/non-reserved", "%s -> %s" % (d[:12], ires[:3]))
            if reserved and op == 1111:
                mt = v[4]
                want = [[0], [1], [mt], [int(mt in PROXY), int(mt in DIROP), int(mt == 10)], [mt if mt in PROXY else -1],
                        [mt if mt in DIROP else -1], v, [0] + d[:2 + d[1]]]
                if ires != want:
                    return ("C18/ReservedCfdpMessage/classification", "%s -> %s" % (d[:12], ires[:6]))
            if reserved and op in GETTERS:
                e = expected_get(op, v)
                if e == "none" and ires != [[0], [1]]:
                    return ("C18/ReservedCfdpMessage.%s/other-kind" % name, "%s -> %s" % (d[:12], ires[:4]))
                if e == "bad" and not err and ires != [[0], [1]]:
                    return ("C18/ReservedCfdpMessage.%s/malformed-accepted" % name, "incomplete fields %s -> %s" % (d[:14], ires[:4]))
                if isinstance(e, list) and ires != [[0], [2]] + e:
                    return ("C18/ReservedCfdpMessage.%s/fields" % name, "%s -> %s, expected %s" % (d[:14], ires[:5], e))
        return None
    if op == 1109:
        mt, v = a[0][0], a[1]
        if 0 <= mt <= 255 and len(v) <= 250:
            exp = [2, len(v) + 5] + CFDP + [mt] + v
            if err or ires[1] != [0] + exp:
                return ("C18/ReservedCfdpMessage.__init__/layout", "(%d, %s) -> %s" % (mt, v[:6], ires[:2]))
        return None
    return None


def neighbours(case):
    op, a = case
    out = []
    if a and a[0] and (op == 1111 or op in GETTERS):
        for i in range(min(10, len(a[0]))):
            for dlt in (-1, 1):
                l = list(a[0]); l[i] = (l[i] + dlt) % 256; out.append((op, [l]))
    return out


def _valid(rng):
    return [reserved_tlv(MSG_TYPE[op], fields(op, a)) for op, a in valid_builds(rng, 3)]


DECODERS = [
    {"op": g, "name": "MessageToUserTlv.unpack/to_reserved_msg_tlv/ReservedCfdpMessage parser %d" % g, "extra": [],
     "valid": _valid, "declared_len": lambda b: b[1] + 2} for g in [1111] + GETTERS
]
