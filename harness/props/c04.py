"""C04 — a corrupted CRC-protected packet is never accepted.
Fault enumeration on the implementation (single-bit flips and bursts <= 16 bits at every bit
offset outside the length-determining fields) + correspondence with the model on every corrupted
packet + exhaustive tie of crcmod's byte-update function to the bitwise Coq CRC."""
import importlib, random
from harness import pus_common as pc
from harness.props import c02, c03, c07, c15
from spacepackets.crc import CRC16_CCITT_FUNC

ID = "C04"
ENUMS = c02.ENUMS + [e for e in c03.ENUMS if e not in c02.ENUMS]
ENUMS += [e for e in c15.ENUMS if e not in ENUMS]
ASSUMPTIONS = [
    "crcmod's C implementation is tied to the bitwise Coq definition by exhaustive comparison of the byte-update "
    "function on all 2^16 states x byte 0 and all 2^8 bytes x state 0 (a linear basis; linearity itself is proved "
    "for the Coq definition, sampled for crcmod) plus random (state, byte) pairs and whole messages",
    "error patterns are applied to validly packed packets; bits of length-determining fields (space packet length "
    "field; CFDP octets 1-3) are not flipped, as the property states",
]
TRUSTED = ["crcmod 1.7 (C extension)"]
ORACLE_LIMIT = {"quick": 200000, "thorough": 2000000}

_PARTS = {5: c02, 6: c03, 7: c15, 14: c07}
for _n in ("c06a", "c06b", "c06c"):
    try:
        _m = importlib.import_module("harness.props." + _n)
        _PARTS[13] = _PARTS.get(13, [])
        _PARTS[13].append(_m)
    except ModuleNotFoundError:
        pass


def _part(op):
    p = _PARTS[op // 100]
    if isinstance(p, list):
        for m in p:
            if m.OP_RANGE[0] <= op <= m.OP_RANGE[1]:
                return m
        raise RuntimeError("no part for %d" % op)
    return p


def impl(op, a):
    if op == 1700:
        return [[CRC16_CCITT_FUNC(bytes(a[0]))]]
    if op == 1701:
        return [[CRC16_CCITT_FUNC(bytes([a[0][1]]), a[0][0])]]
    if op == 1702:
        return [[CRC16_CCITT_FUNC(bytes(a[1]), a[0][0])]]
    if op in ROUTE_OPS:
        return _part(op).impl(op, a)
    return _part(op).impl(op, a[:-2])   # the last two lists (original packet, kind tag) are for the oracle only


# ---------------------------------------------------------------- units under test
def _tc_units(rng, n):
    out = []
    for _ in range(n):
        a = pc.rand_tc_args(rng, 12)
        out.append(pc.tc_layout(*a[0], a[1]))
    return out


def _tm_units(rng, n):
    out = []
    for _ in range(n):
        a = pc.rand_tm_args(rng, 10)
        out.append((pc.tm_layout(*a[0], a[1], a[2]), len(a[1])))
    return out


def _fd_units(rng, n):
    out = []
    while len(out) < n:
        a = c07._rand_pdu(rng, crc=1)
        a[3] = a[3][:12]
        if c07.valid_fd(a):
            out.append(c07.lay(a))
    return out


# kinds: tag -> (decode op, protected octets, flag bit (octet, lsb index) or None, name)
KINDS = {
    1: (502, (4, 5), None, "PusTc.unpack"),
    2: (602, (4, 5), None, "PusTm.unpack"),
    3: (1402, (1, 2, 3), (0, 1), "FileDataPdu.unpack"),
    4: (506, (), None, "check_pus_crc"),
    5: (611, (4, 5), None, "Service17Tm.unpack"),
    6: (743, (4, 5), None, "Service1Tm.unpack"),
}
# tag 0: an uncorrupted packet (must be accepted).  ROUTE_OPS: serialisation / decoding routes of the part modules (same
# case lines as there, no tag lists) whose own oracle states what the octets and the CRC trailer must be: pack, calc_crc,
# pack(recalc_crc=False), to_space_packet, round trips, histories, decoding from a buffer that continues behind the packet
ROUTE_OPS = {501, 504, 505, 509, 510, 513, 520, 601, 604, 605, 610, 612, 613, 614, 620, 741, 742, 767}


def _route_cases(part_cases):
    out = []
    for op, a in part_cases:
        if op in ROUTE_OPS:
            out.append((op, a))
        else:                                   # a plain decode of an uncorrupted packet
            out.append((op, list(a) + [list(a[0]), [0]]))
    return out


def cfdp_force_trailer(unit, target):
    """the CRC-flagged PDU `unit` with the last two octets of its header's entity-ID / sequence-number area rewritten such
    that its CRC trailer becomes `target` (any entity IDs / sequence numbers are valid); None when it has no CRC"""
    u = list(unit)
    if len(u) < 8 or not u[0] & 2:
        return None
    hl = 4 + 2 * (((u[3] >> 4) & 7) + 1) + (u[3] & 7) + 1
    n = hl + u[1] * 256 + u[2]
    if n != len(u) or hl < 6:
        return None
    x = pc.solve_window(u[:hl - 2], u[hl:n - 2], target)
    u[hl - 2] = x >> 8; u[hl - 1] = x & 0xFF
    u[n - 2] = target >> 8; u[n - 1] = target & 0xFF
    assert pc.fcrc(u) == 0
    return u


# directive PDU decoders (family 13) come from the registries of the part modules
def _directive_kinds():
    out = []
    mods = _PARTS.get(13, [])
    tag = 10
    for m in mods:
        for d in getattr(m, "DECODERS", []):
            if "FileDirectivePduBase" in d["name"]:
                continue    # the base class does not verify a checksum
            out.append((tag, d))
            KINDS[tag] = (d["op"], (1, 2, 3), (0, 1), d["name"])
            tag += 1
    return out


def _crc_units(rng, d, n):
    out = []
    for _ in range(60):
        for u in d["valid"](rng):
            if u[0] & 2 and len(u) <= 80:
                out.append(list(u))
        if len(out) >= n:
            break
    return out[:n]


def bursts(rng, nbits, lengths, exhaustive_small=False):
    """error patterns as (start_bit, list of set bit offsets) in MSB-first bit numbering"""
    for start in range(nbits):
        for L in lengths:
            if start + L > nbits:
                continue
            if L == 1:
                yield [start]
            elif L == 2:
                yield [start, start + 1]
            else:
                if exhaustive_small and L <= 6:
                    for mid in range(1 << (L - 2)):
                        yield [start] + [start + 1 + k for k in range(L - 2) if mid >> k & 1] + [start + L - 1]
                else:
                    mid = rng.getrandbits(L - 2)
                    yield [start] + [start + 1 + k for k in range(L - 2) if mid >> k & 1] + [start + L - 1]


def apply_bits(pkt, bits):
    q = list(pkt)
    for b in bits:
        q[b // 8] ^= 0x80 >> (b % 8)
    return q


def corrupted_cases(rng, pkt, tag, extra, lengths, exhaustive_small):
    op, prot, flag, _ = KINDS[tag]
    prot_bits = {8 * o + k for o in prot for k in range(8)}
    flag_bit = None if flag is None else 8 * flag[0] + (7 - flag[1])
    for bits in bursts(rng, 8 * len(pkt), lengths, exhaustive_small):
        if prot_bits.intersection(bits):
            continue
        if flag_bit is not None and flag_bit in bits:
            continue
        yield (op, [apply_bits(pkt, bits)] + extra + [list(pkt), [tag]])


def streams(tier, rng):
    big = tier == "thorough"
    # 1. crcmod's update function vs the bitwise definition: linear basis, exhaustively
    cases = [(1701, [[s, 0]]) for s in range(65536)] + [(1701, [[0, b]]) for b in range(256)]
    yield "exh_crc_update_basis", "exact", cases
    cases = [(1701, [[rng.randrange(65536), rng.randrange(256)]]) for _ in range(200000 if big else 30000)]
    for s in (0, 0xFFFF, 0x8000, 0x1021):
        cases += [(1701, [[s, b]]) for b in range(256)]
    yield "crc_update_random", "exact", cases
    cases = []
    for n in list(range(0, 40)) + [255, 256, 1000] + ([65536] if big else [4096]):
        cases.append((1700, [pc.rbytes(rng, n)]))
    for _ in range(3000 if big else 400):
        cases.append((1702, [[rng.randrange(65536)], pc.rbytes(rng, rng.randrange(0, 64))]))
    cases.append((1700, [[0x31, 0x32, 0x33, 0x34, 0x35, 0x36, 0x37, 0x38, 0x39]]))
    yield "crc_messages", "exact", cases
    # 2. fault enumeration
    lengths = list(range(1, 17)) if big else [1, 2, 3, 8, 15, 16]
    ntc, ntm, nfd = (60, 60, 60) if big else (10, 10, 10)
    cases = []
    for pkt in _tc_units(rng, ntc):
        cases += list(corrupted_cases(rng, pkt, 1, [], lengths, big))
    yield "tc_bursts", "exact", cases
    cases = []
    for pkt in _tc_units(rng, ntc):
        cases += list(corrupted_cases(rng, pkt, 4, [], lengths, False))
    yield "check_pus_crc_bursts", "exact", cases
    cases = []
    for pkt, tl in _tm_units(rng, ntm):
        cases += list(corrupted_cases(rng, pkt, 2, [[tl]], lengths, big))
    yield "tm_bursts", "exact", cases
    cases = []
    for pkt in _fd_units(rng, nfd):
        cases += list(corrupted_cases(rng, pkt, 3, [], lengths, big))
    yield "file_data_bursts", "exact", cases
    dk = _directive_kinds()
    for tag, d in dk:
        cases = []
        for pkt in _crc_units(rng, d, 20 if big else 5):
            cases += list(corrupted_cases(rng, pkt, tag, list(d["extra"]), lengths, False))
        yield "bursts_" + d["name"], "exact", cases
    # 3. the CRC flag bit itself (known finding: protocol-inherent)
    cases = []
    for pkt in _fd_units(rng, 40):
        cases.append((1402, [apply_bits(pkt, [6]), list(pkt), [3]]))
    for tag, d in dk:
        for pkt in _crc_units(rng, d, 20):
            cases.append((d["op"], [apply_bits(pkt, [6])] + list(d["extra"]) + [list(pkt), [tag]]))
    yield "crc_flag_flips", "exact", cases
    # 4. uncorrupted packets pass
    cases = []
    for pkt in _tc_units(rng, 100):
        cases.append((506, [pkt, pkt, [0]])); cases.append((502, [pkt, pkt, [0]]))
    for pkt, tl in _tm_units(rng, 100):
        cases.append((506, [pkt, pkt, [0]])); cases.append((602, [pkt, [tl], pkt, [0]]))
    for pkt in _fd_units(rng, 100):
        cases.append((1402, [pkt, pkt, [0]]))
    for tag, d in dk:
        for pkt in _crc_units(rng, d, 30):
            cases.append((d["op"], [pkt] + list(d["extra"]) + [pkt, [0]]))
    yield "uncorrupted", "exact", cases
    # 5. every packet length: the standalone check and the decoder agree on uncorrupted packets of
    #    every size (length-field carries: ..., 0x00F8..0x0107, 0x01F8.., ...)
    cases = []
    top = 4200 if big else 1100
    for n in range(0, top):
        pkt = pc.tc_layout(17, 1, 0x123, n % 16384, 7, 15, [(n + i) & 0xFF for i in range(n)])
        cases.append((506, [pkt, pkt, [0]]))
        if n % 8 == 0 or n % 256 > 246 or n % 256 < 8:
            cases.append((502, [pkt, pkt, [0]]))
        pkt = pc.tm_layout(3, 25, 0x42, n % 16384, 9, 0, 1, 0, [1, 2, 3, 4, 5, 6, 7], [(n * 3 + i) & 0xFF for i in range(n)])
        cases.append((506, [pkt, pkt, [0]]))
        if n % 8 == 0 or n % 256 > 246 or n % 256 < 8:
            cases.append((602, [pkt, [7], pkt, [0]]))
    for n in [65520, 65527 - 7]:
        pkt = pc.tm_layout(3, 25, 0x42, 1, 9, 0, 1, 0, [1, 2, 3, 4, 5, 6, 7], [i & 0xFF for i in range(n)])
        cases.append((506, [pkt, pkt, [0]]))
    yield "exh_uncorrupted_every_length", "exact", cases
    # 6. value coincidences of the CRC: every kind of packet with the trailer 00 00 / FF FF (and other special octets)
    #    must be accepted; corrupting it must still be refused
    cases = []
    targets = (0x0000, 0xFFFF, 0x00FF, 0xFF00, 0x0001, 0x8000) if big else (0x0000, 0xFFFF, 0x00FF, 0xFF00)
    for t in targets:
        for n in (0, 1, 2, 9) + ((250, 1100) if big else ()):
            f = pc.rand_tc_args(rng, 1)[0]
            pkt = c02._layout_fast(*f, c02._force_crc(f, pc.rbytes(rng, n), t) if n >= 2 else [])
            if n < 2:           # no application data to solve for: the source ID is
                body = pc._force_prefix(pc.tc_layout(*f, pc.rbytes(rng, n))[:-2], 11 + n, t, [9])
                pkt = body + [t >> 8, t & 0xFF]
            assert pc.fcrc(pkt) == 0 and pkt[-2:] == [t >> 8, t & 0xFF]
            cases.append((506, [pkt, pkt, [0]])); cases.append((502, [pkt, pkt, [0]]))
            cases += list(corrupted_cases(rng, pkt, 1, [], [1, 16], False))[:: 7]
            tl = rng.choice([0, 7])
            f = pc.rand_tm_args(rng, 1)[0]
            st = pc.rbytes(rng, tl)
            body = pc._force_prefix(pc.tm_layout(*f, st, pc.rbytes(rng, n))[:-2], 13 + tl + n, t, [13 + tl + n - 2] if n >= 2 else [11])
            pkt = body + [t >> 8, t & 0xFF]
            assert pc.fcrc(pkt) == 0
            cases.append((506, [pkt, pkt, [0]])); cases.append((602, [pkt, [tl], pkt, [0]]))
            cases += list(corrupted_cases(rng, pkt, 2, [[tl]], [1, 16], False))[:: 7]
            f17 = list(f); f17[0] = 17
            body = pc._force_prefix(pc.tm_layout(*f17, st, pc.rbytes(rng, n))[:-2], 13 + tl + n, t, [11])
            pkt = body + [t >> 8, t & 0xFF]
            cases.append((611, [pkt, [tl], pkt, [0]]))
        for k in range(1, 9):
            a = None
            while a is None:
                a0 = c15.rand_report(rng, k, tl=rng.choice([0, 7]))
                a = c15.report_with_crc_coincidence(rng, a0, len(c15.report_octets(a0)) - 2, t)
            pkt = c15.report_octets(a)
            assert pkt[-2:] == [t >> 8, t & 0xFF]
            cases.append((743, [pkt, [len(a[1])] + a[6], pkt, [0]]))
            cases += list(corrupted_cases(rng, pkt, 6, [[len(a[1])] + a[6]], [1, 16], False))[:: 11]
        for pkt in _fd_units(rng, 6):
            q = cfdp_force_trailer(pkt, t)
            if q is not None:
                cases.append((1402, [q, q, [0]]))
                cases += list(corrupted_cases(rng, q, 3, [], [1, 16], False))[:: 11]
        for tag, d in dk:
            for pkt in _crc_units(rng, d, 4):
                q = cfdp_force_trailer(pkt, t)
                if q is not None:
                    cases.append((d["op"], [q] + list(d["extra"]) + [q, [0]]))
                    cases += list(corrupted_cases(rng, q, tag, list(d["extra"]), [1, 16], False))[:: 11]
    yield "crc_trailer_value_coincidences", "exact", cases
    # 7. "the trailer is always the CRC-16/CCITT-FALSE of all octets before it, whatever fields were set or changed
    #    before packing": packets SEARCHED such that the running CRC over a prefix the serialiser could chain at is
    #    0x0000 / 0xFFFF, through calc_crc / crc16 / pack(recalc_crc=False) / to_space_packet / pack / decode
    cases = []
    for part in (c02, c03, c15):
        cases += _route_cases(part.crc_coincidence_cases(rng, big))
    yield "crc_prefix_value_coincidences", "exact", cases
    # 8. a valid packet decoded from a buffer that continues behind it (fill octets, the next packet): the decoded object
    #    must carry the PACKET's trailer - crc16, pack(recalc_crc=False), pack(), equality (PusTc, PusTm, Service17Tm,
    #    Service1Tm)
    cases = []
    for part in (c02, c03, c15):
        cases += _route_cases(part.suffix_observable_cases(rng, big))
    yield "decode_with_suffix_every_observable", "exact", cases
    # 9. "an uncorrupted packet always passes, whatever was set before packing": the live-object histories of the TC / TM
    #    modules (every setter, sub-object edits through sp_header / the secondary header, packs with and without CRC
    #    recalculation, calc_crc, to_space_packet in any order), judged by those modules' own history oracles
    cases = []
    for part in (c02, c03):
        for sname, _mode, pcases in part.streams(tier, random.Random(rng.random())):
            if sname in ("live_object_every_route_then_views", "histories_live_object"):
                pcases = [c for c in pcases if c[0] in ROUTE_OPS]
                cases += rng.sample(pcases, min(len(pcases), 5000 if big else 700))
    yield "histories_then_every_route", "exact", cases


def oracle_spec(case, ires):
    op, a = case
    if op in ROUTE_OPS and hasattr(_part(op), "oracle_spec"):
        return _part(op).oracle_spec((op, a), ires)
    return []


def oracle(case, ires, sres):
    op, a = case
    err = ires[0][0] == 1
    code = ires[0][1] if err else None
    if op in (1700, 1702):
        st = 0xFFFF if op == 1700 else a[0][0]
        data = a[0] if op == 1700 else a[1]
        if ires[1] != [pc.crc16(data, st)]:
            return ("C04/crcmod/message", "crcmod differs from the bitwise CRC on %s" % (data[:16],))
        return None
    if op == 1701:
        s, b = a[0]
        if ires[1] != [pc.crc16([b], s)]:
            return ("C04/crcmod/update", "update(state=%#x, byte=%#x) = %s" % (s, b, ires[1]))
        return None
    if op in ROUTE_OPS:
        r = _part(op).oracle((op, a), ires, sres)
        if r is None:
            return None
        return ("C04/" + r[0].split("/", 1)[1], r[1])
    tag = a[-1][0]
    orig = a[-2]
    corrupted = a[0]
    if tag == 0:
        if op == 506:
            if ires[1] != [1]:
                return ("C04/check_pus_crc/valid-refused", "uncorrupted packet fails the check: %s" % (orig[:16],))
        elif err:
            nm = next((v[3] for v in KINDS.values() if v[0] == op), "op%d" % op)
            return ("C04/%s/valid-refused" % nm, "uncorrupted packet refused: %s -> %s" % (orig[:16], ires))
        return None
    _, prot, flag, name = KINDS[tag]
    diff = [i for i in range(len(orig)) if orig[i] != corrupted[i]]
    if op == 506:
        if ires[1] != [0]:
            return ("C04/check_pus_crc/corruption-accepted", "corrupted packet passes the standalone check: octets %s of %s" % (diff, orig[:24]))
        return None
    if not err:
        if flag is not None and diff == [flag[0]] and (orig[flag[0]] ^ corrupted[flag[0]]) == (1 << flag[1]):
            return ("C04/%s/crc-flag-bit" % name, "CRC flag bit flipped: PDU accepted without verification")
        return ("C04/%s/corruption-accepted" % name, "corrupted packet accepted: octets %s changed in %s" % (diff, orig[:24]))
    if code in (20, 21, 22, 23, 24, 25, 99):
        return ("C04/%s/undocumented-error" % name, "corrupted packet raises %s: octets %s changed in %s" % (ires, diff, orig[:24]))
    return None


DECODERS = []
