"""C20 — unsigned byte fields (spacepackets/util.py).  Streams, implementation adapter, oracle.
Op 299 = exploration outside the model (argument TYPES of the value setter): a[0] = [value, width, construction path],
a[1] = [kind of bytes-like object (BYTES_LIKE), octets...].  Statement evaluated by the adapter: assigning an object that
is bytes-like but neither bytes nor bytearray is either refused / ignored (every view as before) or has exactly the
effect of assigning bytes(obj) on a twin field, and every view stays as it is when the caller overwrites its buffer
afterwards and when the (overwritten) object is assigned a second time the same alternative holds again."""
import array, itertools
from spacepackets import util as U
from harness import core

ID = "C20"
ENUMS = []   # util.py's anchored code uses no enum / module constant (widths are literals in the code and the model)
ASSUMPTIONS = [
    "CPython int / bytes / struct semantics as modelled in Base/Bytes.v (struct.pack range errors, struct.unpack size errors)",
    "widths 0, 1, 2 are enumerated completely on the implementation; for widths 4 and 8 the theorems cover the full "
    "32/64-bit range (be_encode lemmas, no sweep) and the implementation is compared on boundary, single-bit and random values",
    "hash: the model's hash key is the pair (value, byte_len); the adapter checks hash(f) == hash((f.value, f.byte_len)) "
    "on the implementation (CPython's tuple hash itself is outside the model)",
]
TRUSTED = []
EXPLORED_ONLY = [
    "the public byte_len setter only re-declares the width: value and octets keep what they held until the next "
    "assignment to `value` (judged a two-step resize protocol by design, not a defect: narrowing must be followed by a "
    "new value anyway).  Modelled faithfully (Model/UtilHist.v); the oracle demands coherent views after every ACCEPTED "
    "assignment in the current width and an untouched object after every refused operation",
    "non-int / bool constructor arguments (value setter silently ignores other types)",
    "ByteFieldU8/U16/U32/U64.from_bytes inherited from the base class raises TypeError (cls(val, len) against a "
    "one-argument __init__); not an entry point the property names",
    "IntByteConversion.to_unsigned(n, negative) answers struct.error and to_signed refuses -2^(8n-1): outside the helpers' accepted range",
    "stream explored_bytes_like_assignment (op 299): value = <memoryview of a writable / read-only buffer, a slice or a strided "
    "view of a larger buffer, array.array('B'), a bytes subclass, a bytearray subclass> for every width and construction path: "
    "refused / ignored with all views unchanged, or exactly the effect of assigning bytes(obj); the views do not follow the "
    "caller's buffer afterwards.  Argument types other than int / bytes / bytearray are outside the model",
]

WIDTHS = (0, 1, 2, 4, 8)
VALUE_ERR = (1, 2, 3)


def _obs(f):
    hs = f.hex_str
    if hs is None:
        hx = [0]
    else:
        if not hs.startswith("0x"):
            raise RuntimeError("hex_str without 0x prefix: %r" % hs)
        hx = [1] + [int(c, 16) for c in hs[2:]]
    return [[f.value, f.byte_len, int(f), len(f)], list(f.as_bytes), hx]


def _mk(l):
    v, w = l[0], l[1]
    if len(l) > 2 and l[2] == 1 and w in (1, 2, 4, 8):
        return U.ByteFieldGenerator.from_int(w, v)
    return U.UnsignedByteField(v, w)


def impl(op, a):
    if op == 299:
        return _explore_bytes_like(a)
    if op == 200:
        return _obs(_mk(a[0]))
    if op == 201:
        f = _mk(a[0]); f.value = a[1][0]; return _obs(f)
    if op == 202:
        f = _mk(a[0]); f.value = bytes(a[1]) if (len(a[0]) < 3 or a[0][2] != 2) else bytearray(a[1]); return _obs(f)
    if op == 203:
        return _obs(U.UnsignedByteField.from_bytes(bytes(a[0])))
    if op == 204:
        return _obs(U.ByteFieldGenerator.from_int(a[0][0], a[0][1]))
    if op == 205:
        return _obs(U.ByteFieldGenerator.from_bytes(a[0][0], bytes(a[1])))
    if op == 206:
        return _obs(U.ByteFieldU8.from_u8_bytes(bytes(a[0])))
    if op == 207:
        return _obs(U.ByteFieldU16.from_u16_bytes(bytes(a[0])))
    if op == 208:
        return _obs(U.ByteFieldU32.from_u32_bytes(bytes(a[0])))
    if op == 209:
        return _obs(U.ByteFieldU64.from_u64_bytes(bytes(a[0])))
    if op == 210:
        f, g = _mk(a[0]), _mk(a[1])
        eq = f == g
        hk = (hash(f) == hash((f.value, f.byte_len)) and hash(g) == hash((g.value, g.byte_len))
              and (not eq or hash(f) == hash(g)) and ((f != g) == (not eq)))
        return [[int(eq), int(hk)]]
    if op == 211:
        return [[int(_mk(a[0]) == bytes(a[1]))]]
    if op == 212:
        return [list(U.IntByteConversion.to_unsigned(a[0][0], a[0][1]))]
    if op == 213:
        return [list(U.IntByteConversion.to_signed(a[0][0], a[0][1]))]
    if op == 214:
        return _obs(U.ByteFieldEmpty(a[0][0]))
    if op == 215:
        f = _mk(a[0])
        out = _obs(f)
        for o in a[1:]:
            try:
                if o[0] == 0:
                    f.value = o[1]
                elif o[0] == 1:
                    f.value = bytes(o[1:])
                else:
                    raise RuntimeError("bad history op")
                out += [[0]] + _obs(f)
            except RuntimeError:
                raise
            except Exception as e:  # a refused assignment: record class, object must be unchanged
                out.append([1, core.classify_exception(e)])
        return out
    if op == 216:
        f = _mk(a[0])
        return [[int(U.UnsignedByteField.from_bytes(f.as_bytes) == f)]]
    if op == 217:
        f = _mk_any(a[0])
        out = _obs_any(f)
        kept = bytearray()            # the caller's buffer, re-used (and edited in place) across assignments
        # a field copied half-way (copy.copy / copy.deepcopy) is an independent field in the same state: mode 2 goes
        # on with the copy, mode 3 goes on with the original; the other one must show the same views at the end
        import copy
        mode = (len(a) * 7 + (a[0][0] % 5 if isinstance(a[0][0], int) else 0)) % 4 if len(a) >= 3 else 0
        fork_at = (len(a) - 1) // 2
        frozen = snap = None
        for i_, o in enumerate(a[1:]):
            if i_ == fork_at and mode in (2, 3):
                snap = _obs_any(f)
                g = copy.copy(f) if a[0][1] % 2 == 0 else copy.deepcopy(f)
                if mode == 2:
                    frozen, f = f, g
                else:
                    frozen = g
            k = o[0]
            try:
                if k == 0:
                    f.value = o[1]
                elif k == 1:
                    f.value = bytes(o[1:])
                elif k in (2, 6):
                    if k == 2:
                        kept = bytearray(o[1:])
                    elif list(kept) != o[1:]:
                        raise RuntimeError("history op 6 does not carry the buffer's present content")
                    try:
                        f.value = kept
                    finally:      # the caller re-uses its buffer: the field must not follow
                        _scramble(kept)
                elif k == 3:
                    f.byte_len = o[1]
                elif k == 4:
                    f.value = f.value
                elif k == 5:
                    f.value = f.as_bytes
                else:
                    raise RuntimeError("bad history op")
                st = [0]
            except RuntimeError:
                raise
            except Exception as e:
                st = [1, core.canon_code(core.classify_exception(e))]
            out += [st] + _obs_any(f)
        if frozen is not None and _obs_any(frozen) != snap:
            out[-1] = [-1] + out[-1][1:]
        return out
    raise RuntimeError("bad op")


def _scramble(buf):
    for i in range(len(buf)):
        buf[i] ^= 0xFF
    buf.extend(b"\x5a")


def scrambled(b):
    """content of the caller's bytearray after the adapter has edited it in place"""
    return [x ^ 0xFF for x in b] + [0x5A]


def _mk_any(l):
    """the initial object of a history through every construction path (l = [value, width, path])"""
    v, w, kind = l[0], l[1], (l[2] if len(l) > 2 else 0)
    if kind == 1 and w in (1, 2, 4, 8):
        return U.ByteFieldGenerator.from_int(w, v)
    if kind == 2:
        return U.UnsignedByteField.from_bytes(bytes(be(w, v)))
    if kind == 3 and w in (1, 2, 4, 8):
        return U.ByteFieldGenerator.from_bytes(w, bytes(be(w, v)) + b"\xa5")
    if kind == 4 and w == 0:
        return U.ByteFieldEmpty()
    if kind == 5:
        buf = bytearray(be(w, v))
        f = U.UnsignedByteField.from_bytes(buf)
        _scramble(buf)
        return f
    return U.UnsignedByteField(v, w)


def _obs_any(f):
    """views of a live object plus the verdicts that need the object itself: equality with a freshly
    built twin (both directions, !=, hash), hash key, equality with its own octets, rebuild from octets"""
    o = _obs(f)
    v, w = f.value, f.byte_len
    hk = hash(f) == hash((v, w))
    eqb = isinstance(f.as_bytes, bytes) and (f == f.as_bytes)
    eq = rt = True
    if isinstance(v, int) and valid(v, w) and list(f.as_bytes) == be(w, v):
        twin = U.UnsignedByteField(v, w)
        eq = (f == twin) and (twin == f) and not (f != twin) and hash(twin) == hash(f)
        rt = U.UnsignedByteField.from_bytes(f.as_bytes) == f
        if w in (1, 2, 4, 8):
            rt = rt and U.ByteFieldGenerator.from_bytes(w, f.as_bytes) == f
    return o + [[int(eq), int(hk), int(eqb), int(rt)]]



# ---------------------------------------------------------------- exploration: bytes-like arguments of the value setter
class _Frame(bytes):
    """a downstream bytes subclass (adds nothing)"""


class _Buffer(bytearray):
    """a downstream bytearray subclass (adds nothing)"""


BYTES_LIKE = ["memoryview of a bytearray", "memoryview of bytes (read-only)", "array.array('B')", "bytes subclass",
              "bytearray subclass", "memoryview slice of a larger receive buffer", "strided memoryview",
              "memoryview of an array.array('B')"]


def _bytes_like(kind, octets):
    """(object to assign, the writable buffer behind it or None)"""
    if kind == 0:
        buf = bytearray(octets)
        return memoryview(buf), buf
    if kind == 1:
        return memoryview(bytes(octets)), None
    if kind == 2:
        buf = array.array("B", octets)
        return buf, buf
    if kind == 3:
        return _Frame(octets), None
    if kind == 4:
        buf = _Buffer(octets)
        return buf, buf
    if kind == 5:
        buf = bytearray([0xEE] * 3 + list(octets) + [0xDD] * 2)
        return memoryview(buf)[3:3 + len(octets)], buf
    if kind == 6:
        buf = bytearray(2 * len(octets))
        buf[::2] = bytearray(octets)
        return memoryview(buf)[::2], buf
    if kind == 7:
        buf = array.array("B", octets)
        return memoryview(buf), buf
    raise RuntimeError("bad kind")


def _views(f):
    try:
        return _obs_any(f) + [[int(type(f.as_bytes) is bytes), int(type(f.value) is int)]]
    except RuntimeError:
        raise
    except Exception as e:      # a field whose views cannot even be read any more: equal to no healthy state
        return [[-1], [-1, core.classify_exception(e)]]


def _explore_bytes_like(a):
    kind, octets = a[1][0], a[1][1:]
    f, twin = _mk_any(a[0]), _mk_any(a[0])
    obj, buf = _bytes_like(kind, octets)
    for rnd in (0, 1):
        before = _views(f)
        try:
            twin.value = bytes(obj)
            t_ok = True
        except ValueError:
            t_ok = False
        try:
            f.value = obj
            refused = False
        except Exception:
            refused = True
        after = _views(f)
        if refused and after != before:
            return [[0, 1, rnd, kind]]
        if not refused and after != before and not (t_ok and after == _views(twin)):
            return [[0, 2, rnd, kind] + after[1][:8]]
        if buf is not None:          # the caller re-uses its buffer
            for i in range(len(buf)):
                buf[i] ^= 0xFF
            if _views(f) != after:
                return [[0, 3, rnd, kind] + _views(f)[1][:8]]
    return [[1]]


# ---------------------------------------------------------------- independent reference
def be(w, v):
    """big-endian octets of v in exactly w octets, arithmetic only"""
    return [(v // 256 ** (w - 1 - i)) % 256 for i in range(w)]


def be_dec(b):
    v = 0
    for x in b:
        v = v * 256 + x
    return v


def hexd(b):
    out = []
    for x in b:
        out += [x // 16, x % 16]
    return out


def valid(v, w):
    return w in WIDTHS and 0 <= v < 256 ** w


def bnd(w):
    """Appendix B boundary set of a w-octet field, plus refusal values."""
    bits = 8 * w
    good = {0, 1, 2, 2 ** (bits - 1) - 1, 2 ** (bits - 1), 2 ** bits - 2, 2 ** bits - 1} | {1 << i for i in range(bits)}
    good |= {(1 << i) - 1 for i in range(1, bits + 1)} | {0x42 * (256 ** i) for i in range(w)}
    good = sorted(x for x in good if 0 <= x < 2 ** bits)
    bad = [-1, -2, 2 ** bits, 2 ** bits + 1, 2 ** 64, 2 ** 64 + 1, -(2 ** 63), 2 ** 70]
    return good, [x for x in bad if not 0 <= x < 2 ** bits]


def bad_ints(w, rng):
    """integers a w-octet field must refuse: every magnitude 2^(8w+k), k = 0..80 (the power, the value below
    the next power, a random one in between), and negatives of every magnitude"""
    out = []
    for k in range(0, 81):
        lo = 2 ** (8 * w + k)
        out += [lo, 2 * lo - 1, rng.randrange(lo, 2 * lo)]
        if k % 8 == 0:
            out += [lo + 1, -lo, -lo - 1]
    out += [-1, -2, -255, -256]
    return [x for x in out if not 0 <= x < 256 ** w]


def _good_val(rng, w):
    if w == 0:
        return 0
    r = rng.random()
    if r < 0.5:
        return rng.choice(bnd(w)[0])
    return rng.randrange(256 ** w)


def _rand_hop(rng, w):
    """one random operation on a live field whose current width is w"""
    k = rng.random()
    if k < 0.17:
        return [0, _good_val(rng, w)]
    if k < 0.27:
        return [0, rng.choice(bad_ints(w, rng))]
    if k < 0.42:
        return [rng.choice([1, 2])] + be(w, _good_val(rng, w)) + [rng.choice([0, 0x80, 0xFF, rng.randrange(256)]) for _ in range(rng.choice([0, 0, 1, 3, 9, 600]))]
    if k < 0.50:
        return [rng.choice([1, 2])] + [rng.randrange(256) for _ in range(rng.randrange(0, max(w, 1)))]
    if k < 0.68:
        return [3, rng.choice(WIDTHS)]
    if k < 0.74:
        return [3, rng.choice([-1, 3, 5, 6, 7, 9, 16, 64])]
    if k < 0.88:
        return [4]
    return [5]


def streams(tier, rng):
    big = tier == "thorough"
    # 1. exhaustive widths 0, 1, 2: every representable value through every entry point
    cases = [(200, [[0, 0]]), (216, [[0, 0]]), (203, [[]]), (204, [[0, 0]]), (205, [[0], []]), (212, [[0, 0]]),
             (213, [[0, 0]]), (214, [[0]]), (210, [[0, 0], [0, 0]]), (211, [[0, 0], []]), (202, [[0, 0], []]),
             (201, [[0, 0], [0]])]
    for v in range(256):
        b = be(1, v)
        cases += [(200, [[v, 1]]), (216, [[v, 1]]), (203, [b]), (204, [[1, v]]), (205, [[1], b + [rng.randrange(256)]]),
                  (206, [b]), (212, [[1, v]]), (201, [[rng.randrange(256), 1], [v]]), (202, [[rng.randrange(256), 1], b]),
                  (211, [[v, 1], b]), (210, [[v, 1], [v, 1, 1]])]
    for v in range(-130, 131):
        cases.append((213, [[1, v]]))
    yield "exh_width0_width1", "exact", cases
    cases = []
    for v in range(65536):
        b = be(2, v)
        cases.append((200, [[v, 2]]))
        cases.append((203, [b]))
        cases.append((212, [[2, v]]))
        if big or v % 4 == 0 or v < 300 or v > 65200:
            cases += [(216, [[v, 2]]), (204, [[2, v]]), (207, [b + [0xAA]]), (205, [[2], b]),
                      (202, [[rng.randrange(65536), 2], b + [1, 2]]), (201, [[rng.randrange(65536), 2], [v]])]
    yield "exh_width2", "exact", cases
    cases = []
    for v in range(-32770, 32771):
        if big or v % 2 == 0 or abs(v) > 32700 or abs(v) < 200:
            cases.append((213, [[2, v]]))
    yield "exh_to_signed_width2", "exact", cases
    # 2. widths 4 and 8 (and again 1, 2): boundaries, every single bit, refusals, random interior
    cases = []
    for w in (1, 2, 4, 8):
        good, bad = bnd(w)
        vals = good + [rng.randrange(256 ** w) for _ in range(4000 if big else 600)]
        for v in vals:
            b = be(w, v)
            cases += [(200, [[v, w]]), (216, [[v, w]]), (203, [b]), (204, [[w, v]]), (205, [[w], b + [7] * rng.randrange(3)]),
                      (205 + {1: 1, 2: 2, 4: 3, 8: 4}[w], [b + [9] * rng.randrange(2)]), (212, [[w, v]]),
                      (201, [[rng.choice(good), w], [v]]), (202, [[rng.choice(good), w, rng.choice([0, 2])], b + [3] * rng.randrange(4)]),
                      (211, [[v, w], b]), (211, [[v, w], be(w, rng.choice(good))])]
        for v in bad:
            cases += [(200, [[v, w]]), (204, [[w, v]]), (212, [[w, v]]), (201, [[rng.choice(good), w], [v]]), (216, [[v, w]])]
    for w in (0,):
        for v in (-1, 1, 255, 256, 2 ** 64):
            cases += [(200, [[v, w]]), (201, [[0, 0], [v]]), (212, [[0, v]]), (213, [[0, v]]), (213, [[0, -v]])]
        for b in ([], [0], [1, 2]):
            cases += [(202, [[0, 0], b]), (211, [[0, 0], b])]
        for n in (0, 1, 2, 4, 8, 3, -1):
            cases.append((214, [[n]]))
    yield "boundaries_all_widths", "exact", cases
    # 3. unsupported widths: every width -2..20 at every entry point that takes one
    cases = []
    for w in list(range(-2, 21)) + [32, 64, 255, 256, 2 ** 32]:
        for v in (0, 1, 255, 256, -1):
            cases += [(200, [[v, w]]), (204, [[w, v]]), (212, [[w, v]]), (213, [[w, v]])]
        if w >= 0 and w <= 64:
            for ln in {0, 1, max(w - 1, 0), w, w + 1}:
                cases.append((205, [[w], [rng.randrange(256) for _ in range(ln)]]))
        cases.append((214, [[w]]))
    yield "unsupported_widths", "exact", cases
    # 4. from-bytes direction: all octet-string lengths 0..20, truncations of valid fields, random octets
    cases = []
    for ln in range(0, 21):
        for _ in range(60 if big else 12):
            b = [rng.randrange(256) for _ in range(ln)]
            cases += [(203, [b]), (206, [b]), (207, [b]), (208, [b]), (209, [b])]
            for w in (1, 2, 4, 8):
                cases.append((205, [[w], b]))
                cases.append((202, [[0, w], b]))
    for b in ([0] * 8, [255] * 8, [128] + [0] * 7, [0] * 7 + [1], [255] * 4, [128, 0, 0, 0], [0, 0, 0, 1]):
        for n in range(len(b) + 1):
            cases += [(203, [b[:n]]), (208, [b[:n]]), (209, [b[:n]]), (205, [[len(b)], b[:n]]), (202, [[1, len(b)], b[:n]])]
    yield "from_bytes_lengths", "exact", cases
    # 5. equality / hashing over pairs (same value at other widths, neighbouring values, CPython hash collisions)
    cases = []
    pool = []
    for w in WIDTHS:
        good = [0] if w == 0 else bnd(w)[0][:12] + [256 ** w - 1]
        pool += [(v, w) for v in good]
    pool += [(2 ** 61 - 1, 8), (2 ** 61, 8), (2 ** 62 - 2, 8)]   # hash(2^61-1) == hash(0) in CPython
    for (x, y) in itertools.product(pool, pool):
        if big or x == y or x[0] == y[0] or rng.random() < 0.25:
            cases.append((210, [[x[0], x[1], rng.randrange(2)], [y[0], y[1], rng.randrange(2)]]))
    for (v, w) in pool:
        cases.append((211, [[v, w], be(w, v)]))
        cases.append((211, [[v, w], be(w, v) + [0]]))
        cases.append((211, [[v, w], [0] + be(w, v)]))
    yield "eq_hash_pairs", "exact", cases
    # 6. setter histories: value re-assigned by int and by octets, accepted and refused, views after every step
    cases = []
    for _ in range(6000 if big else 1200):
        w = rng.choice(WIDTHS)
        good, bad = ([0], [-1, 1, 256]) if w == 0 else bnd(w)
        ops = []
        for _ in range(rng.randrange(1, 7)):
            k = rng.random()
            if k < 0.35:
                ops.append([0, rng.choice(good) if rng.random() < 0.5 else rng.randrange(256 ** w)])
            elif k < 0.5:
                ops.append([0, rng.choice(bad)])
            elif k < 0.85:
                ops.append([1] + be(w, rng.randrange(256 ** w)) + [rng.randrange(256) for _ in range(rng.choice([0, 0, 1, 3]))])
            else:
                ops.append([1] + [rng.randrange(256) for _ in range(rng.randrange(0, max(w, 1)))])
        cases.append((215, [[rng.choice(good), w]] + ops))
    yield "setter_histories", "exact", cases
    # 6b. one live object through EVERY public setter (value by int / bytes / bytearray incl. longer buffers,
    #     byte_len, re-assignment of the value it already holds), observed after every op, refused or not
    cases = []
    for _ in range(8000 if big else 1500):
        w = rng.choice(WIDTHS)
        ops = []
        kept = None
        for _ in range(rng.randrange(1, 11)):
            if kept is not None and rng.random() < 0.2:
                ops.append([6] + kept)
            else:
                ops.append(_rand_hop(rng, w))
            if ops[-1][0] in (2, 6):
                kept = scrambled(ops[-1][1:])
            if ops[-1][0] == 3 and ops[-1][1] in WIDTHS:
                w = ops[-1][1]
        w0 = rng.choice(WIDTHS)
        cases.append((217, [[_good_val(rng, w0), w0, rng.randrange(6)]] + ops))
    yield "live_setter_histories", "exact", cases
    # 6c. refusals, systematically: every width x every kind of refused operation (integers of every magnitude
    #     above the limit and below zero, octet strings of every too-short length, every unsupported width),
    #     followed by re-assignments: nothing may have changed
    cases = []
    for w in WIDTHS:
        vals = [0] if w == 0 else [0, 1, 256 ** w - 1, 0x0102030405060708 % 256 ** w, rng.randrange(256 ** w)]
        for bad in bad_ints(w, rng):
            v0 = rng.choice(vals)
            cases.append((217, [[v0, w, rng.randrange(6)], [0, bad], [rng.choice([4, 5])], [0, bad], [0, rng.choice(vals)]]))
        for n in range(0, w):
            v0 = rng.choice(vals)
            b = [rng.randrange(256) for _ in range(n)]
            cases.append((217, [[v0, w, rng.randrange(6)], [rng.choice([1, 2])] + b, [4], [5]]))
        for bw in list(range(-2, 20)) + [32, 64, 255, 256, 2 ** 32, -8]:
            if bw not in WIDTHS:
                v0 = rng.choice(vals)
                cases.append((217, [[v0, w, rng.randrange(6)], [3, bw], [4], [5], [0, v0]]))
    yield "exh_refused_then_inspect", "exact", cases
    # 6d. resize matrix: every (old width, new width) pair x boundary values x every way to (re-)assign afterwards
    cases = []
    for w1, w2 in itertools.product(WIDTHS, WIDTHS):
        vals = [0] if w1 == 0 else sorted({0, 1, 5, 0x7F, 0x80, 0xFF, 0xBEEF % 256 ** w1, 256 ** w1 - 1, 2 ** (8 * w1 - 1), rng.randrange(256 ** w1)})
        for v in vals:
            other = _good_val(rng, w2)
            same_new = [[1] + be(w2, v), [2] + be(w2, v) + [0xFF]] if valid(v, w2) else []   # the same number, octets of the new width
            for follow in [[4], [5], [0, v], [0, other], [1] + be(w1, v), [1] + be(w2, other) + [9, 9], [2] + be(w2, other),
                           [3, w1], [0, v ^ 1]] + same_new:
                cases.append((217, [[v, w1, rng.randrange(6)], [3, w2], follow, [4], [0, v ^ 1], [0, v], [5]]))
            b0 = be(w1, v) + [0x80, 0xFF] * 4
            cases.append((217, [[v, w1, rng.randrange(6)], [2] + b0, [6] + scrambled(b0), [3, w2], [6] + scrambled(scrambled(b0)), [4]]))
    yield "exh_resize_matrix", "exact", cases
    # 6e. buffer sizes: every octet-string length 0..1100 (thorough 0..4200) at every entry point that takes octets
    cases = []
    for n in list(range(0, 4201 if big else 1101)) + [65535, 65536, 65537]:
        b = [rng.choice([0, 0x80, 0xFF, rng.randrange(256)]) for _ in range(min(n, 9))] + [rng.randrange(256)] * max(n - 9, 0)
        w = WIDTHS[n % 5]
        cases += [(203, [b]), (205, [[(1, 2, 4, 8)[n % 4]], b]), (206 + n % 4, [b]),
                  (202, [[0, w, rng.choice([0, 2])], b]),
                  (217, [[_good_val(rng, w), w, 0], [1 + n % 2] + b, [5], [3, WIDTHS[(n // 5) % 5]], [1 + (n // 2) % 2] + b])]
    yield "exh_buffer_sizes", "exact", cases
    # 6f. exploration only: bytes-like objects that are neither bytes nor bytearray assigned to `value`
    cases = []
    for w in WIDTHS:
        vals = [0] if w == 0 else [0, 1, 256 ** w - 1, 0x8040201008040201 % 256 ** w]
        for kind in range(len(BYTES_LIKE)):
            for path in range(6):
                for extra in (0, 1, 9) + ((600,) if path == 0 else ()):
                    nv = _good_val(rng, w)
                    cases.append((299, [[rng.choice(vals), w, path], [kind] + be(w, nv) + [rng.choice([0, 0x80, 0xFF, rng.randrange(256)]) for _ in range(extra)]]))
                for n in sorted({0, max(w - 1, 0)}):
                    if n < w:
                        cases.append((299, [[rng.choice(vals), w, path], [kind] + [rng.randrange(256) for _ in range(n)]]))
    for _ in range(6000 if big else 800):
        w = rng.choice(WIDTHS)
        n = rng.choice([w, w, w + 1, w + rng.randrange(0, 40), rng.randrange(0, max(w, 1))])
        cases.append((299, [[_good_val(rng, w), w, rng.randrange(6)], [rng.randrange(len(BYTES_LIKE))] + [rng.randrange(256) for _ in range(n)]]))
    yield "explored_bytes_like_assignment", "exact", cases
    # 7. conversion helpers: signed / unsigned boundaries for every width
    cases = []
    for n in (1, 2, 4, 8):
        h = 2 ** (8 * n - 1)
        vals = {0, 1, -1, h - 1, h, h + 1, -h + 1, -h, -h - 1, 2 * h - 1, 2 * h, 2 * h + 1, -2 * h, 2 ** 64, -(2 ** 64)}
        vals |= {1 << i for i in range(8 * n)} | {-(1 << i) for i in range(8 * n)}
        vals |= {rng.randrange(-h, h) for _ in range(3000 if big else 400)}
        for v in sorted(vals):
            cases += [(213, [[n, v]]), (212, [[n, v]])]
    yield "conversion_helpers", "exact", cases


# ---------------------------------------------------------------- oracle: the property statement on the implementation
def _views_ok(o, v, w):
    """o = [fields, octets, hex] as observed; all views of the field (v, w) agree and the octets are big-endian."""
    if o[0] != [v, w, v, w]:
        return "value/width/int()/len() views %s for field (%d, %d)" % (o[0], v, w)
    if o[1] != be(w, v):
        return "octets %s are not the big-endian encoding of %d in %d octets" % (o[1], v, w)
    if w > 0 and o[2] != [1] + hexd(be(w, v)):
        return "hex view %s does not spell the octets %s" % (o[2], be(w, v))
    return None


def oracle_spec(case, ires):
    op, a = case
    if core.is_err(ires):
        return []
    if op in (200, 203, 204, 205, 206, 207, 208, 209, 214, 201, 202) and len(ires) >= 3:
        v, w = ires[1][0], ires[1][1]
        if isinstance(w, int) and 0 <= w <= 8:
            return [(250, [[w, v]]), (251, [ires[2]])]
    if op == 213 and a[0][0] in (1, 2, 4, 8):
        return [(252, [[a[0][0], a[0][1]]])]
    if op == 212 and a[0][0] in WIDTHS:
        return [(250, [[a[0][0], a[0][1]]])]
    return []


def oracle(case, ires, sres):
    op, a = case
    err = core.is_err(ires)
    code = ires[0][1] if err else None
    verr = err and code in VALUE_ERR

    def field_result(name, v, w):
        """the call must have returned the field (v, w) with coherent views"""
        if err:
            return ("C20/%s/refuses-valid" % name, "%s refused a representable field (value %d, width %d): %s" % (name, v, w, ires))
        m = _views_ok(ires[1:], v, w)
        if m:
            return ("C20/%s/views" % name, m)
        if sres and (sres[0][1] != ires[2] or (w > 0 and [1] + sres[1][1] != ires[3])):
            return ("C20/%s/layout" % name, "octets %s / hex %s differ from Spec layout %s" % (ires[2], ires[3], sres))
        return None

    def must_refuse(name, why):
        if not verr:
            return ("C20/%s/%s" % (name, why), "%s: expected ValueError, got %s for args %s" % (name, ires, a))
        return None

    if op == 200:
        v, w = a[0][0], a[0][1]
        return field_result("UnsignedByteField.__init__", v, w) if valid(v, w) else must_refuse("UnsignedByteField.__init__", "range")
    if op == 214:
        w = a[0][0]
        return field_result("ByteFieldEmpty", 0, w) if w in WIDTHS else must_refuse("ByteFieldEmpty", "range")
    if op == 216:
        v, w = a[0][0], a[0][1]
        if not valid(v, w):
            return must_refuse("UnsignedByteField.__init__", "range")
        if err or ires[1] != [1]:
            return ("C20/UnsignedByteField.from_bytes/%s" % ("empty-field" if w == 0 else "roundtrip"),
                    "from_bytes(UnsignedByteField(%d, %d).as_bytes) does not give back an equal field: %s" % (v, w, ires))
        return None
    if op == 203:
        raw = a[0]
        if len(raw) in WIDTHS:
            r = field_result("UnsignedByteField.from_bytes", be_dec(raw), len(raw))
            if r and len(raw) == 0:
                return ("C20/UnsignedByteField.from_bytes/empty-field", r[1])
            return r
        return must_refuse("UnsignedByteField.from_bytes", "unsupported-width")
    if op == 204:
        w, v = a[0]
        if w in (1, 2, 4, 8) and valid(v, w):
            return field_result("ByteFieldGenerator.from_int", v, w)
        return must_refuse("ByteFieldGenerator.from_int", "range")
    if op in (205, 206, 207, 208, 209):
        if op == 205:
            w, s, name = a[0][0], a[1], "ByteFieldGenerator.from_bytes"
        else:
            w, s = {206: 1, 207: 2, 208: 4, 209: 8}[op], a[0]
            name = "ByteFieldU%d.from_u%d_bytes" % (8 * w, 8 * w)
        if w in (1, 2, 4, 8) and len(s) >= w:
            return field_result(name, be_dec(s[:w]), w)
        return must_refuse(name, "short-or-unsupported")
    if op == 210:
        x, y = a[0], a[1]
        if not (valid(x[0], x[1]) and valid(y[0], y[1])):
            return None
        want = int((x[0], x[1]) == (y[0], y[1]))
        if err or ires[1] != [want, 1]:
            return ("C20/UnsignedByteField.__eq__/value-width", "fields %s, %s: (==, hash coherent) = %s, expected [%d, 1]" % (x[:2], y[:2], ires, want))
        return None
    if op == 211:
        v, w = a[0][0], a[0][1]
        if valid(v, w) and (err or ires[1] != [int(be(w, v) == a[1])]):
            return ("C20/UnsignedByteField.__eq__/bytes", "field (%d, %d) == %s gave %s" % (v, w, a[1], ires))
        return None
    if op in (201, 202):
        v0, w = a[0][0], a[0][1]
        if not valid(v0, w):
            return None
        if op == 201:
            nv = a[1][0]
            return field_result("UnsignedByteField.value=int", nv, w) if valid(nv, w) else must_refuse("UnsignedByteField.value=int", "range")
        s = a[1]
        if len(s) >= w:
            r = field_result("UnsignedByteField.value=bytes", be_dec(s[:w]), w)
            if r and w == 0:
                return ("C20/UnsignedByteField.from_bytes/empty-field", r[1])
            return r
        return must_refuse("UnsignedByteField.value=bytes", "short")
    if op == 215:
        v, w = a[0][0], a[0][1]
        if not valid(v, w) or err:
            return None
        cur = v
        pos = 1
        m = _views_ok(ires[pos:pos + 3], cur, w)
        if m:
            return ("C20/UnsignedByteField.__init__/views", m)
        pos += 3
        for o in a[1:]:
            if o[0] == 0:
                ok, nv = valid(o[1], w), o[1]
            else:
                ok, nv = len(o) - 1 >= w, be_dec(o[1:1 + w])
            if pos >= len(ires):
                return ("C20/setter/history-shape", "result too short: %s" % (ires,))
            if ok:
                if ires[pos] != [0]:
                    sig = "C20/UnsignedByteField.from_bytes/empty-field" if (w == 0 and o[0] == 1) else "C20/UnsignedByteField.value/refuses-valid"
                    return (sig, "valid assignment %s refused on width %d: %s" % (o, w, ires[pos]))
                cur = nv
                m = _views_ok(ires[pos + 1:pos + 4], cur, w)
                if m:
                    return ("C20/UnsignedByteField.value/views", "after %s: %s" % (o, m))
                pos += 4
            else:
                if ires[pos][0] != 1 or ires[pos][1] not in VALUE_ERR:
                    return ("C20/UnsignedByteField.value/range", "invalid assignment %s on width %d not refused with ValueError: %s" % (o, w, ires[pos:pos + 4]))
                pos += 1
        return None
    if op == 217:
        return _oracle_live(a, ires)
    if op == 299:
        if err:
            return ("C20/UnsignedByteField.value/bytes-like-argument", "exploration could not be driven: %s" % (ires,))
        if ires[1] == [1]:
            return None
        d = ires[1]
        what = {1: "refused-but-changed", 2: "bytes-like-differs-from-bytes", 3: "keeps-view-of-caller-buffer"}.get(d[1], "bytes-like-argument")
        return ("C20/UnsignedByteField.value/" + what,
                "field %s (value, width, construction path), value = <%s of %s>%s: %s" % (
                    a[0], BYTES_LIKE[a[1][0]], a[1][1:12], " (second assignment, after the caller overwrote its buffer)" if d[2] else "",
                    {1: "the assignment raised, yet the views changed",
                     2: "accepted with an effect that is neither 'ignored' nor that of assigning bytes(obj); octets now %s" % (d[4:],),
                     3: "the views changed when the caller overwrote its buffer afterwards; octets now %s" % (d[4:],)}.get(d[1], str(d))))
    if op == 212:
        n, v = a[0]
        if n not in WIDTHS:
            return must_refuse("IntByteConversion.to_unsigned", "unsupported-width")
        if n == 0:
            return None if (not err and ires[1] == []) else ("C20/IntByteConversion.to_unsigned/empty", "%s" % (ires,))
        if 0 <= v < 256 ** n:
            if err or ires[1] != be(n, v) or (sres and sres[0][1] != ires[1]):
                return ("C20/IntByteConversion.to_unsigned/encoding", "to_unsigned(%d, %d) = %s, big-endian is %s" % (n, v, ires, be(n, v)))
            return None
        if v >= 256 ** n:
            return must_refuse("IntByteConversion.to_unsigned", "range")
        return None if err else ("C20/IntByteConversion.to_unsigned/negative-accepted", "to_unsigned(%d, %d) = %s" % (n, v, ires))
    if op == 213:
        n, v = a[0]
        if n not in WIDTHS:
            return must_refuse("IntByteConversion.to_signed", "unsupported-width")
        if n == 0:
            return None if (not err and ires[1] == []) else ("C20/IntByteConversion.to_signed/empty", "%s" % (ires,))
        h = 2 ** (8 * n - 1)
        if err:
            if -h < v < h:
                return ("C20/IntByteConversion.to_signed/refuses-valid", "to_signed(%d, %d) -> %s" % (n, v, ires))
            return None
        exp = be(n, v % 256 ** n)
        if not -h <= v < h or ires[1] != exp or (sres and sres[0][1] != exp):
            return ("C20/IntByteConversion.to_signed/encoding", "to_signed(%d, %d) = %s, two's complement is %s" % (n, v, ires, exp))
        return None
    return None


def _oracle_live(a, ires):
    """History on one live object.  The property on every step: an accepted assignment to `value` (by int or by
    octets) leaves ALL views in step with the field's current width; a refused operation raises ValueError and
    leaves every view exactly as it was; equality / hash / rebuild-from-octets verdicts hold whenever the object
    is coherent.  The byte_len setter only re-declares the width (by design the octets follow at the next
    assignment): after it the width views show the new width and value / octets are either untouched or already
    re-encoded."""
    v, w = a[0][0], a[0][1]
    if core.is_err(ires):
        return ("C20/UnsignedByteField.__init__/refuses-valid", "construction path %s of field (%d, %d) raised %s" % (a[0][2:], v, w, ires)) if valid(v, w) else None
    if not valid(v, w):
        return None
    n_ops = len(a) - 1
    if len(ires) != 1 + 4 + 5 * n_ops:
        return ("C20/setter/history-shape", "result has %d lines for %d ops" % (len(ires), n_ops))
    prev = ires[1:5]
    m = _views_ok(prev, v, w)
    if m:
        return ("C20/UnsignedByteField.__init__/views", m)
    if prev[3] != [1, 1, 1, 1]:
        return ("C20/UnsignedByteField.__eq__/live-object", "fresh field (%d, %d): (== twin, hash key, == own octets, rebuild) = %s" % (v, w, prev[3]))
    coherent = True
    for i, o in enumerate(a[1:]):
        st, obs = ires[5 + 5 * i], ires[6 + 5 * i:10 + 5 * i]
        k = o[0]
        cur_b = prev[1]
        what = {0: "value = %s" % (o[1:2],), 1: "value = bytes(%s)" % (o[1:12],), 2: "value = bytearray(%s)" % (o[1:12],),
                3: "byte_len = %s" % (o[1:2],), 4: "value = value", 5: "value = as_bytes",
                6: "value = <the caller's re-used bytearray, now %s>" % (o[1:12],)}[k]
        if k == 3:
            if o[1] in WIDTHS and not valid(v, o[1]) and st[0] == 1 and st[1] in VALUE_ERR:
                # narrowing to a width the present value does not fit: the unchanged setter only re-declares the width and
                # leaves the field incoherent until the next assignment; refusing the narrowing (ValueError, field as it
                # was) is as good -- the property speaks of assignments to `value`
                if obs != prev:
                    return ("C20/UnsignedByteField.byte_len/refused-but-changed",
                            "step %d: %s was refused, yet the views changed from %s to %s" % (i, what, prev, obs))
                continue
            if o[1] in WIDTHS:
                if st != [0]:
                    return ("C20/UnsignedByteField.byte_len/refuses-valid", "step %d: %s refused: %s" % (i, what, st))
                if obs[0][1] != o[1] or obs[0][3] != o[1] or obs[0][0] != v or obs[0][2] != v:
                    return ("C20/UnsignedByteField.byte_len/views", "step %d: after %s the width / value views are %s (value was %d)" % (i, what, obs[0], v))
                w = o[1]
                coherent = valid(v, w) and obs[1] == be(w, v)
                if not coherent and obs[1] != cur_b:
                    return ("C20/UnsignedByteField.byte_len/views", "step %d: after %s the octets changed to %s, neither the old ones nor the new encoding" % (i, what, obs[1]))
                prev = obs
                continue
            ok = False
        elif k in (0, 4):
            nv = o[1] if k == 0 else v
            ok = valid(nv, w)
        else:
            src = o[1:] if k in (1, 2, 6) else cur_b
            ok = len(src) >= w
            nv = be_dec(src[:w])
        if ok:
            if st != [0]:
                return ("C20/UnsignedByteField.value/refuses-valid", "step %d: valid assignment %s refused on width %d: %s" % (i, what, w, st))
            v = nv
            m = _views_ok(obs, v, w)
            if m:
                return ("C20/UnsignedByteField.value/views", "step %d, after %s on a field of width %d: %s" % (i, what, w, m))
            coherent = True
        else:
            if st[0] != 1 or st[1] not in VALUE_ERR:
                return ("C20/UnsignedByteField.%s/range" % ("byte_len" if k == 3 else "value"),
                        "step %d: invalid %s on width %d not refused with ValueError: %s" % (i, what, w, st))
            if obs != prev:
                return ("C20/UnsignedByteField.%s/refused-but-changed" % ("byte_len" if k == 3 else "value"),
                        "step %d: %s was refused, yet the views changed from %s to %s" % (i, what, prev, obs))
        if obs[3][:1] == [-1]:
            return ("C20/UnsignedByteField.copy/diverged", "a field copied (copy.copy / copy.deepcopy) half-way through the history "
                    "and the field it was copied from do not stay independent: the views of the one left alone changed while the other was used")
        if obs[3] != [1, 1, 1, 1]:
            return ("C20/UnsignedByteField.__eq__/live-object", "step %d, after %s: (== twin, hash key, == own octets, rebuild) = %s for views %s" % (i, what, obs[3], obs[:2]))
        prev = obs
    return None


def neighbours(case):
    op, a = case
    out = []
    if op in (200, 201, 204, 212, 213, 216, 210):
        for i in range(min(2, len(a[0]))):
            for d in (-1, 1):
                l = [list(x) for x in a]; l[0][i] += d; out.append((op, l))
    if op in (203, 206, 207, 208, 209):
        b = a[0]
        out += [(op, [b[:-1]]), (op, [b + [0]])]
        for i in range(min(8, len(b))):
            l = list(b); l[i] ^= 0x80; out.append((op, [l]))
    if op in (205, 202):
        b = a[1]
        out += [(op, [a[0], b[:-1]]), (op, [a[0], b + [0]])]
    # always probe the empty field and the width edges
    out += [(216, [[0, 0]]), (203, [[]]), (200, [[255, 1]]), (200, [[256, 1]]), (200, [[2 ** 64 - 1, 8]]), (200, [[2 ** 64, 8]])]
    return out


# ---- registry for the cross-cutting checks C09 / C10
def _valid_fields(w):
    def gen(rng):
        return [be(w, rng.randrange(256 ** w)) for _ in range(20)] + [be(w, 0), be(w, 256 ** w - 1)]
    return gen


DECODERS = [
    {"op": 203, "name": "UnsignedByteField.from_bytes", "extra": [],
     "valid": lambda rng: [be(w, rng.randrange(256 ** w)) for w in (1, 2, 4, 8) for _ in range(8)], "declared_len": None},
    {"op": 206, "name": "ByteFieldU8.from_u8_bytes", "extra": [], "valid": _valid_fields(1), "declared_len": lambda b: 1},
    {"op": 207, "name": "ByteFieldU16.from_u16_bytes", "extra": [], "valid": _valid_fields(2), "declared_len": lambda b: 2},
    {"op": 208, "name": "ByteFieldU32.from_u32_bytes", "extra": [], "valid": _valid_fields(4), "declared_len": lambda b: 4},
    {"op": 209, "name": "ByteFieldU64.from_u64_bytes", "extra": [], "valid": _valid_fields(8), "declared_len": lambda b: 8},
]
