"""C06, part B — CFDP Finished PDU and Metadata PDU (ops 1340-1369).
Streams, implementation adapter, oracle.  Dispatcher: coq/theories/Run/DispPduB.v."""
import itertools
from harness import core
from harness.props import c05 as h5
from harness.props import c08 as h8
from spacepackets.cfdp.pdu.finished import FinishedPdu, FinishedParams
from spacepackets.cfdp.pdu.metadata import MetadataPdu, MetadataParams
from spacepackets.cfdp.defs import ConditionCode, DeliveryCode, FileStatus, ChecksumType
from spacepackets.cfdp.lv import CfdpLv
from spacepackets.cfdp.tlv import (CfdpTlv, EntityIdTlv, FileStoreResponseTlv, TlvType, FilestoreActionCode,
                                   FilestoreResponseStatusCode)

ID = "C06"
OP_RANGE = (1340, 1369)
_F = "SP.Model.Finished."
_M = "SP.Model.Metadata."
_D = "SP.Model.FileDirective."
_H = "SP.Model.PduHeader."
_DEF = "spacepackets.cfdp.defs:"
ENUMS = [(_DEF + "ConditionCode." + n, _F + "CC_" + n) for n in (
    "NO_CONDITION_FIELD", "NO_ERROR", "POSITIVE_ACK_LIMIT_REACHED", "KEEP_ALIVE_LIMIT_REACHED",
    "INVALID_TRANSMISSION_MODE", "FILESTORE_REJECTION", "FILE_CHECKSUM_FAILURE", "FILE_SIZE_ERROR",
    "NAK_LIMIT_REACHED", "INACTIVITY_DETECTED", "CHECK_LIMIT_REACHED", "UNSUPPORTED_CHECKSUM_TYPE",
    "SUSPEND_REQUEST_RECEIVED", "CANCEL_REQUEST_RECEIVED")] + [
    (_DEF + "DeliveryCode.DATA_COMPLETE", _F + "DC_DATA_COMPLETE"),
    (_DEF + "DeliveryCode.DATA_INCOMPLETE", _F + "DC_DATA_INCOMPLETE"),
    (_DEF + "FileStatus.DISCARDED_DELIBERATELY", _F + "FS_DISCARDED_DELIBERATELY"),
    (_DEF + "FileStatus.DISCARDED_FILESTORE_REJECTION", _F + "FS_DISCARDED_FILESTORE_REJECTION"),
    (_DEF + "FileStatus.FILE_RETAINED", _F + "FS_FILE_RETAINED"),
    (_DEF + "FileStatus.FILE_STATUS_UNREPORTED", _F + "FS_FILE_STATUS_UNREPORTED"),
    (_DEF + "ChecksumType.MODULAR", _M + "CS_MODULAR"),
    (_DEF + "ChecksumType.CRC_32_PROXIMITY_1", _M + "CS_CRC_32_PROXIMITY_1"),
    (_DEF + "ChecksumType.CRC_32C", _M + "CS_CRC_32C"),
    (_DEF + "ChecksumType.CRC_32", _M + "CS_CRC_32"),
    (_DEF + "ChecksumType.NULL_CHECKSUM", _M + "CS_NULL_CHECKSUM"),
    ("spacepackets.cfdp.pdu.file_directive:DirectiveType.FINISHED_PDU", _D + "DT_FINISHED"),
    ("spacepackets.cfdp.pdu.file_directive:DirectiveType.METADATA_PDU", _D + "DT_METADATA"),
    ("spacepackets.cfdp.pdu.finished:DirectiveType.FINISHED_PDU", "SP.Spec.PduBSpec.D_FINISHED"),
    ("spacepackets.cfdp.pdu.metadata:DirectiveType.METADATA_PDU", "SP.Spec.PduBSpec.D_METADATA"),
    ("spacepackets.cfdp.pdu.finished:Direction.TOWARDS_SENDER", _H + "DIR_TOWARDS_SENDER"),
    ("spacepackets.cfdp.pdu.metadata:Direction.TOWARDS_RECEIVER", _H + "DIR_TOWARDS_RECEIVER"),
    ("spacepackets.cfdp.pdu.finished:CrcFlag.WITH_CRC", _H + "CRC_WITH_CRC"),
    ("spacepackets.cfdp.pdu.metadata:LargeFileFlag.LARGE", _H + "FILE_LARGE"),
    ("spacepackets.cfdp.pdu.finished:TlvType.FILESTORE_RESPONSE", "SP.Model.Tlv.TLV_FILESTORE_RESPONSE"),
    ("spacepackets.cfdp.pdu.finished:TlvType.ENTITY_ID", "SP.Model.Tlv.TLV_ENTITY_ID"),
]
ASSUMPTIONS = h5.ASSUMPTIONS + [
    "crcmod's crc-ccitt-false equals the bitwise CRC-16 of Base/Crc16.v (tied exhaustively in family 17 / C04); "
    "every packed CRC trailer is additionally recomputed bitwise by the oracle",
    "copy.copy(pdu_conf) is shallow and nothing else aliases the caller's PduConfig; the caller's PduConfig and "
    "parameter object are compared field by field after construction (model: returned caller_conf_after / params_after)",
    "a Python str file name is represented by its UTF-8 octets (names with lone surrogates are outside the model); "
    "MetadataParams.closure_requested is a bool (0/1); FinishedParams.file_store_responses None / [] / omitted are all driven "
    "through the constructor in the operation histories (Run/DirHist.v, fin_new_none)",
    "Finished file-store responses are FileStoreResponseTlv objects and the fault location an EntityIdTlv; Metadata options "
    "are CfdpTlv objects (other AbstractTlvBase subclasses pack through the same CfdpTlv.pack)",
    "the member sets of ConditionCode / DeliveryCode / FileStatus / ChecksumType are tied by exhaustive sweeps of the first "
    "parameter octet (all 256 values) through both decoders, in addition to the named constants",
]
TRUSTED = ["crcmod 1.7 (C extension) as CRC-16/CCITT-FALSE"]
EXPLORED_ONLY = []

WIDTHS = (1, 2, 4, 8)
CCS = sorted(int(x) for x in ConditionCode)
CSTYPES = sorted(int(x) for x in ChecksumType)
DOC = lambda code: code not in core.UNDOCUMENTED and code != 97
VALUE_CODES = (1, 2, 3)


# ------------------------------------------------------------------ adapter
def _enum(cls, v):
    return core.enum_or_int(cls, v)


def _resp(l):
    action, status, l1, l2 = l[:4]
    r = l[4:]
    msg = CfdpLv(bytes(r[l1 + l2:]))
    return FileStoreResponseTlv(_enum(FilestoreActionCode, action), _enum(FilestoreResponseStatusCode, status),
                                bytes(r[:l1]).decode(), bytes(r[l1:l1 + l2]).decode(), msg)


def _resp_enc(r):
    f = list(r.first_file_name.encode()); s = list(r.second_file_name.encode())
    return [int(r.action_code), int(r.status_code), len(f), len(s)] + f + s + list(r.filestore_msg.value)


def _fault(l):
    return EntityIdTlv(bytes(l[1:])) if l and l[0] == 1 else None


def _fault_enc(f):
    return [0] if f is None else [1] + list(f.value)


def _res(f):
    try:
        return [0] + [int(x) for x in f()]
    except Exception as e:  # embedded result, class compared like a top-level one
        return [1, core.canon_code(core.classify_exception(e))]


def _unpack(cls, octs):
    """K.unpack from bytes or -- every third input, and half of the inputs of 512 octets or more -- from a bytearray
    (a receive buffer) that is overwritten after the call: the decoded object must not depend on it any more"""
    if (len(octs) + sum(octs[:8])) % 3 and not (len(octs) >= 512 and sum(octs[:8]) % 2):
        return cls.unpack(bytes(octs))
    buf = bytearray(octs)
    p = cls.unpack(buf)
    buf[:] = b"\xa5" * len(buf)
    return p


def _fin_n(a):
    return a[4][0] if len(a) > 4 and a[4] else 0


def _fin(a):
    conf = h5._conf(a[0], a[1])
    fl = _fault(a[3])
    n = _fin_n(a)
    rs = [_resp(x) for x in a[5:5 + n]]
    cc, dc, fs = a[2]
    params = FinishedParams(condition_code=_enum(ConditionCode, cc), delivery_code=_enum(DeliveryCode, dc),
                            file_status=_enum(FileStatus, fs), file_store_responses=rs, fault_location=fl)
    return FinishedPdu(conf, params), conf, params


def _fn_fields(q):
    rs = q.file_store_responses
    return [[int(q.condition_code), int(q.delivery_code), int(q.file_status)], _fault_enc(q.fault_location),
            [len(rs)]] + [_resp_enc(r) for r in rs]


def _fin_fields(p):
    return (h5._fields(p.pdu_header) + [[int(p.pdu_file_directive.directive_type), p.packet_len]]
            + _fn_fields(p.finished_params))


def _conf_lists(c):
    return [[c.source_entity_id.value, c.source_entity_id.byte_len, c.dest_entity_id.value, c.dest_entity_id.byte_len,
             c.transaction_seq_num.value, c.transaction_seq_num.byte_len],
            [int(c.trans_mode), int(c.file_flag), int(c.crc_flag), int(c.direction), int(c.seg_ctrl)]]


def _opt_name(l):
    return bytes(l[1:]).decode() if l and l[0] != 0 else None


def _name_enc(s):
    return [0] if s is None else [1] + list(s.encode())


def _md_n(a):
    return a[5][1] if len(a) > 5 and len(a[5]) > 1 else 0


def _tlv(l):
    return CfdpTlv(_enum(TlvType, l[0]), bytes(l[1:]))


def _md_opts(a):
    if len(a) <= 5 or not a[5] or a[5][0] == 0:
        return None
    return [_tlv(x) for x in a[6:6 + _md_n(a)]]


def _md(a):
    conf = h5._conf(a[0], a[1])
    opts = _md_opts(a)
    cl, cs, fsize = a[2]
    params = MetadataParams(bool(cl), _enum(ChecksumType, cs), fsize, _opt_name(a[3]), _opt_name(a[4]))
    return MetadataPdu(conf, params, opts), conf, params


def _getter(f):
    try:
        return _name_enc(f())
    except UnicodeDecodeError:
        return [2]


def _opts_enc(o):
    if o is None:
        return [[0, 0]]
    return [[1, len(o)]] + [[int(t.tlv_type)] + list(t.value) for t in o]


def _mp_fields(q):
    return [[int(q.closure_requested), int(q.checksum_type), q.file_size], _name_enc(q.source_file_name),
            _name_enc(q.dest_file_name)]


def _md_fields(p):
    return (h5._fields(p.pdu_header) + [[int(p.pdu_file_directive.directive_type), p.packet_len],
                                        [int(p.closure_requested), int(p.checksum_type), p.file_size],
                                        list(p._source_file_name_lv.value), list(p._dest_file_name_lv.value),
                                        _getter(lambda: p.source_file_name), _getter(lambda: p.dest_file_name)]
            + _opts_enc(p.options))


def impl(op, a):
    if op in (1346, 1356):
        from harness.props import c06h
        return c06h.impl(op, a)
    if op == 1340:
        p, conf, params = _fin(a)
        return _fin_fields(p) + _conf_lists(conf) + _fn_fields(params)
    if op == 1341:
        return [list(_fin(a)[0].pack())]
    if op == 1342:
        return _fin_fields(_unpack(FinishedPdu, a[0]))
    if op == 1343:
        return [list(_unpack(FinishedPdu, a[0]).pack())]
    if op == 1344:
        p = _fin(a)[0]
        b = p.pack()
        ex = a[5 + _fin_n(a):]
        p2 = _unpack(FinishedPdu, list(b) + list(ex[0] if ex else []))
        return [_res(lambda: [p2 == p]), _res(p2.pack)] + _fin_fields(p2)
    if op == 1345:
        p = _fin(a)[0]
        ops = a[5 + _fin_n(a):]
        i = 0
        while i < len(ops):
            o = ops[i]; i += 1
            if not o:
                continue
            if o[0] == 0:
                p.fault_location = None
            elif o[0] == 1:
                p.fault_location = EntityIdTlv(bytes(o[1:]))
            elif o[0] == 2:
                p.file_store_responses = None
            elif o[0] == 3 and len(o) > 1:
                p.file_store_responses = [_resp(x) for x in ops[i:i + o[1]]]; i += o[1]
            elif o[0] == 4 and len(o) > 1:
                p.condition_code = _enum(ConditionCode, o[1])
        return [[p.packet_len], _res(p.pack), _res(p.pack)] + _fin_fields(p)
    if op == 1350:
        p, conf, params = _md(a)
        return _md_fields(p) + _conf_lists(conf) + _mp_fields(params)
    if op == 1351:
        return [list(_md(a)[0].pack())]
    if op == 1352:
        return _md_fields(_unpack(MetadataPdu, a[0]))
    if op == 1353:
        return [list(_unpack(MetadataPdu, a[0]).pack())]
    if op == 1354:
        p = _md(a)[0]
        b = p.pack()
        ex = a[6 + _md_n(a):]
        p2 = _unpack(MetadataPdu, list(b) + list(ex[0] if ex else []))
        return [[int(p2 == p)], _res(p2.pack)] + _md_fields(p2)
    if op == 1355:
        p = _md(a)[0]
        ops = a[6 + _md_n(a):]
        i = 0
        while i < len(ops):
            o = ops[i]; i += 1
            if not o:
                continue
            if o[0] == 0:
                p.options = None
            elif o[0] == 1 and len(o) > 1:
                p.options = [_tlv(x) for x in ops[i:i + o[1]]]; i += o[1]
            elif o[0] == 2:
                p.source_file_name = None
            elif o[0] == 3:
                p.source_file_name = bytes(o[1:]).decode()
            elif o[0] == 4:
                p.dest_file_name = None
            elif o[0] == 5:
                p.dest_file_name = bytes(o[1:]).decode()
        return [[p.packet_len], _res(p.pack), _res(p.pack)] + _md_fields(p)
    raise RuntimeError("bad op")


# ------------------------------------------------------------------ independent transcription (727.0-B-5 5.2.3, 5.2.5)
TWO = (2, 3, 4)


def resp_bytes(r):
    action, status, l1, l2 = r[:4]
    first, second, msg = r[4:4 + l1], r[4 + l1:4 + l1 + l2], r[4 + l1 + l2:]
    return h8.tlv_bytes(1, h8.fs_value(action, status % 16, first, second, msg))


def _finish(ids, flags, direction, code, body, keep_direction=None, meta=0):
    mode, large, crc, d, seg = flags
    dlen = 1 + len(body) + (2 if crc else 0)
    pre = h5.layout(ids, [mode, large, crc, direction if keep_direction is None else keep_direction, seg], [0, meta, dlen]) + [code] + body
    if crc:
        c = h5.crc16_bitwise(pre)
        pre = pre + [c >> 8, c & 0xFF]
    return pre


def fin_layout(ids, flags, codes, fault, resps, keep_direction=None, code=5, meta=0):
    cc, dc, fs = codes
    body = [cc * 16 + dc * 4 + fs]
    for r in resps:
        body += resp_bytes(r)
    if fault and fault[0] == 1 and cc not in (0, 11):
        body += h8.tlv_bytes(6, fault[1:])
    return _finish(ids, flags, 1, code, body, keep_direction, meta)


def md_layout(ids, flags, par, src, dst, opts, keep_direction=None, code=7, meta=0):
    cl, cs, fsize = par
    body = [cl * 64 + cs] + list(fsize.to_bytes(8 if flags[1] else 4, "big"))
    body += h8.lv_bytes(src[1:] if src and src[0] != 0 else [])
    body += h8.lv_bytes(dst[1:] if dst and dst[0] != 0 else [])
    for t in opts or []:
        body += h8.tlv_bytes(t[0], t[1:])
    return _finish(ids, flags, 0, code, body, keep_direction, meta)


def fin_lay(a):
    return fin_layout(a[0], a[1], a[2], a[3], a[5:5 + _fin_n(a)])


def md_lay(a):
    return md_layout(a[0], a[1], a[2], a[3], a[4], a[6:6 + _md_n(a)] if a[5][0] else None)


def valid_resp(r):
    if len(r) < 4:
        return False
    action, status, l1, l2 = r[:4]
    if l1 < 0 or l2 < 0 or 4 + l1 + l2 > len(r):
        return False
    first, second, msg = r[4:4 + l1], r[4 + l1:4 + l1 + l2], r[4 + l1 + l2:]
    if not (0 <= action <= 8 and status in h8.STATUS and status >= 0 and status >> 4 == action):
        return False
    if not (h8.utf8_ok(first) and h8.utf8_ok(second)):
        return False
    return len(h8.fs_value(action, status % 16, first, second, msg)) <= 255


def valid_fin(a):
    if not h5.valid_args(a[0], a[1], [0, 0, 0]):
        return False
    cc, dc, fs = a[2]
    if cc not in CCS or cc < 0 or dc not in (0, 1) or fs not in (0, 1, 2, 3):
        return False
    if a[3] and a[3][0] == 1 and len(a[3]) - 1 > 255:
        return False
    n = _fin_n(a)
    if len(a) < 5 + n or not all(valid_resp(r) for r in a[5:5 + n]):
        return False
    return len(fin_lay(a)) - (4 + 2 * a[0][1] + a[0][5]) <= 65535


def valid_md(a):
    if not h5.valid_args(a[0], a[1], [0, 0, 0]):
        return False
    cl, cs, fsize = a[2]
    if cl not in (0, 1) or cs not in CSTYPES or not 0 <= fsize < 256 ** (8 if a[1][1] else 4):
        return False
    for nm in (a[3], a[4]):
        if nm and nm[0] != 0 and (len(nm) - 1 > 255 or not h8.utf8_ok(nm[1:])):
            return False
    n = _md_n(a)
    if a[5][0] and (len(a) < 6 + n or not all(t and t[0] in h8.TLV_TYPES and len(t) - 1 <= 255 for t in a[6:6 + n])):
        return False
    return len(md_lay(a)) - (4 + 2 * a[0][1] + a[0][5]) <= 65535


def norm_resp(r):
    action, status, l1, l2 = r[:4]
    first, second, msg = r[4:4 + l1], r[4 + l1:4 + l1 + l2], r[4 + l1 + l2:]
    if action not in TWO:
        second = []
    return [action, status, len(first), len(second)] + list(first) + list(second) + list(msg)


# ------------------------------------------------------------------ generators
# Name CONTENT that a text-processing step would rewrite (a file name is carried as the UTF-8 octets of exactly the
# str it was given as; nothing may normalise it): sequences that are not stable under Unicode normalisation
# (NFC composes base letter + combining mark, Hangul jamo, and replaces singletons / CJK compatibility ideographs;
# NFD decomposes precomposed letters and syllables; NFKC / NFKD additionally fold ligatures, fullwidth forms, no-break
# and ideographic spaces, superscripts), under case mapping, under removal of ignorable characters, and spellings
# path normalisation would collapse.
NORM_UNITS = [list(x.encode()) for x in (
    "e\u0301", "u\u0308", "A\u030a", "o\u0302\u0323", "a\u0323\u0301", "a\u0301\u0323", "\u0301",
    "\u212b", "\u2126", "\u212a", "\u0340", "\u0374", "\u1f71",
    "\uf900", "\uf9ff", "\ufa10", "\ufa30", "\ufad9", "\U0002f800",
    "\u1100\u1161", "\u1112\u1161\u11ab", "\uac00\u11a8",
    "\u00e9", "\u00c5", "\u1e69", "\uac00", "\ud7a3", "\u0958",
    "\ufb01", "\uff21", "\uff0f", "\uff61", "\u00a0", "\u3000", "\u00b2", "\u2460", "\u2024", "\u00bd", "\u3392",
    "\u0130", "\u00df", "\u1e9e", "\u03c2", "\u01c5",
    "\u00ad", "\u200b", "\u200d", "\u200e", "\u2060", "\ufe0f")]
PATH_UNITS = [list(x.encode()) for x in ("//", "/./", "/../", "./", "../", "\\", "C:\\", " ", "\t", ".", "..", "~", "%2F", "%20", "a/", "\r\n")]
NAME_UNITS = NORM_UNITS + NORM_UNITS + PATH_UNITS


def rname(rng, n, ascii_only=False):
    """valid UTF-8 of exactly n octets; about every third name holds one to three of the units above (at the start, in
    the middle, at the end)"""
    if n < 1 or rng.random() < 0.65:
        return h8.rname(rng, n, ascii_only)
    units, room = [], n
    for _ in range(rng.choice([1, 1, 2, 3])):
        u = rng.choice(PATH_UNITS if ascii_only else NAME_UNITS)
        if len(u) <= room:
            units.append(u); room -= len(u)
    if not units:
        return h8.rname(rng, n, ascii_only)
    cuts = sorted(rng.choice([0, room, rng.randrange(room + 1)]) for _ in units)
    out, prev = [], 0
    for c, u in zip(cuts, units):
        out += h8.rname(rng, c - prev, ascii_only) + u; prev = c
    return out + h8.rname(rng, room - prev, ascii_only)


def _rand_conf(rng, sl=None, ql=None, crc=None, large=None):
    sl = sl or rng.choice(WIDTHS); ql = ql or rng.choice(WIDTHS)
    ids = [rng.randrange(256 ** sl), sl, rng.randrange(256 ** sl), sl, rng.randrange(256 ** ql), ql]
    flags = [rng.randrange(2) for _ in range(5)]
    if crc is not None: flags[2] = crc
    if large is not None: flags[1] = large
    return ids, flags


def _rand_resp(rng, small=False):
    action = rng.randrange(9)
    status = h8.rstatus(rng, action)
    first = rname(rng, rng.choice([0, 1, 3, 8] if small else [0, 1, 2, 5, 9, 30]))
    second = rname(rng, rng.choice([0, 2, 6])) if (action in TWO or rng.random() < 0.2) else []
    msg = h8.rbytes(rng, rng.choice([0, 0, 1, 4] if small else [0, 0, 1, 4, 17]))
    return [action, status, len(first), len(second)] + first + second + msg


def _rand_fault(rng, p=0.5):
    if rng.random() > p:
        return [0]
    return [1] + h8.rbytes(rng, rng.choice([1, 1, 2, 4, 8, 0, 3]))


def _rand_fin(rng, nresp=None, small=False, **kw):
    ids, flags = _rand_conf(rng, **kw)
    cc = rng.choice([c for c in CCS if c >= 0])
    n = rng.choice([0, 0, 1, 2, 3]) if nresp is None else nresp
    return [ids, flags, [cc, rng.randrange(2), rng.randrange(4)], _rand_fault(rng), [n]] + [_rand_resp(rng, small) for _ in range(n)]


def _rand_tlv(rng, small=False):
    return [rng.choice(h8.TLV_TYPES)] + h8.rbytes(rng, rng.choice([0, 1, 2, 5] if small else [0, 1, 2, 5, 12, 40]))


def _rand_name(rng, none_ok=True):
    r = rng.random()
    if none_ok and r < 0.15:
        return [0]
    if r < 0.3:
        return [1]
    return [1] + rname(rng, rng.choice([1, 2, 3, 7, 12, 24]))


def _rand_fsize(rng, large):
    w = 8 if large else 4
    return rng.choice([0, 1, 255, 256, 2 ** (8 * w - 1), 256 ** w - 1, rng.randrange(256 ** w)])


def _rand_md(rng, nopt=None, small=False, **kw):
    ids, flags = _rand_conf(rng, **kw)
    if nopt is None:
        nopt = rng.choice([None, None, 1, 2, 3])
    opts = [] if nopt is None else [_rand_tlv(rng, small) for _ in range(nopt)]
    return [ids, flags, [rng.randrange(2), rng.choice(CSTYPES), _rand_fsize(rng, flags[1])], _rand_name(rng), _rand_name(rng),
            [0, 0] if nopt is None else [1, nopt]] + opts


def _suffix(rng):
    return rng.choice([
        h8.rbytes(rng, rng.randrange(1, 18)),
        [rng.randrange(256)],
        h8.tlv_bytes(rng.choice(h8.TLV_TYPES), h8.rbytes(rng, rng.randrange(0, 6))),
        resp_bytes(_rand_resp(rng, True)),
        h8.tlv_bytes(6, h8.rbytes(rng, rng.choice([1, 2]))),
        fin_lay(_rand_fin(rng, small=True)) if rng.random() < 0.5 else md_lay(_rand_md(rng, small=True)),
        [1, 0], [6, 0], [2, 0], [0, 0], [0],
    ])


def _fix_crc(q, hl):
    """recompute the CRC trailer of q (a list) for its declared length when the CRC flag is set"""
    dl = q[1] * 256 + q[2]
    if q[0] & 2 and hl + dl <= len(q) and dl >= 2:
        c = h5.crc16_bitwise(q[:hl + dl - 2]); q[hl + dl - 2:hl + dl] = [c >> 8, c & 0xFF]
    return q


def _malformed(rng, p, hl, op, interesting):
    """every truncation; substitutions at header / length / directive / chosen octets; length field +-1 (CRC made right)"""
    cases = []
    for n in range(len(p) + 1):
        cases.append((op, [p[:n]]))
    for i in sorted(set(list(range(4)) + [hl, hl + 1] + interesting)):
        if i >= len(p):
            continue
        for v in {0, 1, 2, 4, 5, 6, 7, 0x0F, 0x3F, 0x40, 0x7F, 0x80, 0x90, 0xB0, 0xC0, 0xFF, (p[i] + 1) % 256, (p[i] - 1) % 256,
                  p[i] ^ 0x08, p[i] ^ 0x02, p[i] ^ 0x01, p[i] ^ 0x10}:
            q = list(p); q[i] = v
            cases.append((op, [q]))
            if i >= 4:
                cases.append((op, [_fix_crc(list(q), hl)]))
            cases.append((op, [q + h8.rbytes(rng, 3)]))
    dl0 = len(p) - hl
    for dl in (0, 1, 2, 3, 4, 5, 6, 7, 8, 9, 10, 11, 12, dl0 - 2, dl0 - 1, dl0 + 1, dl0 + 2, 65535):
        if dl < 0:
            continue
        q = list(p); q[1] = dl >> 8; q[2] = dl & 0xFF
        cases.append((op, [q]))
        cases.append((op, [_fix_crc(list(q), hl)]))
        cases.append((op, [_fix_crc(list(q) + [6, 1, 9], hl)]))
    return cases


def _tlv_offsets_fin(a, hl):
    """indices of TLV type / length octets and name-length octets inside a packed Finished PDU"""
    out, i = [], hl + 2
    for r in a[5:5 + _fin_n(a)]:
        out += [i, i + 1, i + 2, i + 3]
        i += len(resp_bytes(r))
    out += [i, i + 1]
    return out


def streams(tier, rng):
    big = tier == "thorough"
    # 1. exhaustive leaf domains of the Finished PDU: every condition code (+ non-members) x delivery code x file status
    #    x CRC x fault location present/absent
    cases = []
    for cc in CCS + [9, 12, 13, 16]:
        for dc in (0, 1, 2):
            for fs in (0, 1, 2, 3, 4):
                for crc in (0, 1):
                    for fl in ([0], [1, 7], [1, 1, 2]):
                        ids, flags = _rand_conf(rng, crc=crc)
                        a = [ids, flags, [cc, dc, fs], fl, [0]]
                        cases.append((1341, a)); cases.append((1344, a + [[]]))
                        if fl != [1, 1, 2] or big:
                            cases.append((1340, a))
    yield "exh_fin_codes", "exact", cases
    # 2. exhaustive: all 256 values of the first parameter octet through both decoders (enum member sets),
    #    bare and followed by a TLV; CRC off and on (trailer made right)
    cases = []
    for v in range(256):
        for crc in (0, 1):
            ids, flags = _rand_conf(rng, crc=crc)
            for tail in ([], h8.tlv_bytes(6, [5]), resp_bytes(_rand_resp(rng, True))):
                body = [v] + tail
                q = _finish(ids, flags, 1, 5, body)
                cases.append((1342, [q]))
                if crc == 0 or not tail:
                    cases.append((1343, [q]))
            large = flags[1]
            body = [v] + h8.rbytes(rng, 8 if large else 4) + [1, 0x61, 0]
            q = _finish(ids, flags, 0, 7, body)
            cases.append((1352, [q])); cases.append((1353, [q]))
    yield "exh_first_param_octet_unpack", "exact", cases
    # 3. every header configuration (CRC x large x 16 width pairs x segctrl x mode x direction), both kinds
    cases = []
    for crc, large, seg, mode, direction in itertools.product((0, 1), repeat=5):
        for sl, ql in itertools.product(WIDTHS, WIDTHS):
            ids = [rng.choice(h5.bnd(sl)), sl, rng.choice(h5.bnd(sl)), sl, rng.choice(h5.bnd(ql)), ql]
            flags = [mode, large, crc, direction, seg]
            a = _rand_fin(rng, small=True); a[0], a[1] = ids, flags
            cases.append((1341, a)); cases.append((1344, a + [[]]))
            b = _rand_md(rng, small=True); b[0], b[1] = ids, flags; b[2][2] = _rand_fsize(rng, large)
            cases.append((1351, b)); cases.append((1354, b + [[]]))
            if big or rng.random() < 0.25:
                cases.append((1340, a)); cases.append((1350, b))
    yield "exh_configs_pack_roundtrip", "exact", cases
    # 4. every checksum type (+ non-members) x closure x large x CRC, file-size boundaries
    cases = []
    for cs in list(range(17)) + [255, 256, -1]:
        for cl in (0, 1):
            for crc, large in itertools.product((0, 1), (0, 1)):
                ids, flags = _rand_conf(rng, crc=crc, large=large)
                a = [ids, flags, [cl, cs, _rand_fsize(rng, large)], _rand_name(rng), _rand_name(rng), [0, 0]]
                cases.append((1351, a)); cases.append((1354, a + [[]])); cases.append((1350, a))
    for large in (0, 1):
        for fsize in [0, 1, 2 ** 31 - 1, 2 ** 31, 2 ** 32 - 1, 2 ** 32, 2 ** 32 + 1, 2 ** 63, 2 ** 64 - 1, 2 ** 64, 2 ** 64 + 1, 2 ** 65, -1, -2 ** 31]:
            for crc in (0, 1):
                ids, flags = _rand_conf(rng, crc=crc, large=large)
                a = [ids, flags, [rng.randrange(2), rng.choice(CSTYPES), fsize], _rand_name(rng), _rand_name(rng), [0, 0]]
                cases.append((1351, a)); cases.append((1354, a + [[]])); cases.append((1350, a))
    yield "exh_md_codes_filesizes", "exact", cases
    # 5. lists of 0..5 responses / options (+ an occasional longer one), names incl. non-ASCII UTF-8 and empty
    cases = []
    for n in list(range(6)) * (12 if big else 4) + [8, 13]:
        for crc in (0, 1):
            a = _rand_fin(rng, nresp=n, crc=crc)
            cases.append((1341, a)); cases.append((1344, a + [[]])); cases.append((1340, a))
            b = _rand_md(rng, nopt=n, crc=crc)
            cases.append((1351, b)); cases.append((1354, b + [[]])); cases.append((1350, b))
            if n == 0:
                b = list(b); b[5] = [0, 0]
                cases.append((1351, b)); cases.append((1354, b + [[]])); cases.append((1350, b))
    yield "lists_0_to_5", "exact", cases
    # 6. names: None, empty, ASCII, 2/3/4-octet sequences, 254/255/256 octets; oversize TLV values and response fields
    cases = []
    names = [[0], [1]] + [[1] + c for c in h8.CH] + [[1] + rname(rng, n) for n in (63, 64, 127, 128, 254, 255, 256, 300)]
    names += [[1] + u for u in NORM_UNITS + PATH_UNITS]                  # every unit alone, ...
    names += [[1] + rname(rng, rng.randrange(0, 9), True) + u + rname(rng, rng.randrange(0, 9), True) for u in NORM_UNITS]    # ... inside ASCII, ...
    names += [[1] + (lambda u: rname(rng, 255 - len(u)) + u)(rng.choice(NORM_UNITS)) for _ in range(4)]    # ... and ending a name of 255 octets
    for nm in names:
        ids, flags = _rand_conf(rng)
        other = _rand_name(rng)
        for src, dst in ((nm, other), (other, nm)):
            a = [ids, flags, [1, 3, 5], src, dst, [0, 0]]
            cases.append((1351, a)); cases.append((1354, a + [[]])); cases.append((1350, a))
    for n in (254, 255, 256):
        ids, flags = _rand_conf(rng)
        a = [ids, flags, [0, 0, 0], [1, 0x61], [1, 0x62], [1, 1], [2] + h8.rbytes(rng, n)]
        cases.append((1351, a)); cases.append((1350, a)); cases.append((1354, a + [[]]))
        a = [ids, flags, [4, 0, 1], [1] + h8.rbytes(rng, n), [0]]
        cases.append((1341, a)); cases.append((1340, a)); cases.append((1344, a + [[]]))
        for l1, lm in ((n - 6, 0), (5, n - 8), (n - 4, 0), (3, n - 5)):
            r = [0, 0, l1, 0] + rname(rng, l1, True) + h8.rbytes(rng, lm)
            a = [ids, flags, [4, 0, 1], [0], [1], r]
            cases.append((1341, a)); cases.append((1340, a)); cases.append((1344, a + [[]]))
    # responses whose status code does not belong to the action code / is INVALID; TLV types outside the enum as options
    for _ in range(40):
        r = _rand_resp(rng, True); r[1] = rng.choice(h8.STATUS)
        ids, flags = _rand_conf(rng)
        a = [ids, flags, [4, 0, 1], [0], [1], r]
        cases.append((1341, a)); cases.append((1344, a + [[]]))
    for ty in (3, 7, 255, 256, -1):
        ids, flags = _rand_conf(rng)
        a = [ids, flags, [0, 0, 0], [1, 0x61], [1, 0x62], [1, 1], [ty, 1, 2]]
        cases.append((1351, a)); cases.append((1354, a + [[]])); cases.append((1350, a))
    yield "names_and_sizes", "exact", cases
    # 7. data-field length limit 65535: many maximal TLVs
    cases = []
    big_tlv = [2] + [7] * 255
    for n in (254, 255, 256):
        ids, flags = _rand_conf(rng, crc=0, large=0, sl=1, ql=1)
        a = [ids, flags, [0, 0, 0], [1] + [0x61] * (255 if n != 254 else 100), [1] + [0x62] * 241, [1, n]] + [big_tlv] * n
        cases.append((1350, a))
        if n == 254:
            cases.append((1354, a + [[]]))
    big_resp = [0, 0, 240, 0] + [0x61] * 240 + [9] * 12
    for n in (254, 255, 256, 257, 258):
        ids, flags = _rand_conf(rng, crc=0, sl=1, ql=1)
        a = [ids, flags, [4, 0, 1], [0], [n]] + [big_resp] * n
        cases.append((1340, a))
    yield "length_limit", "exact", cases
    # 7b. size sweeps (every value of each length-carrying field; packet lengths across every multiple of 256 up to
    #     ~1300; names ending in a 4-octet UTF-8 sequence; 0x80 / 0xFF octets in TLV values)
    def _nm(n):
        if n >= 4 and rng.random() < 0.5:
            return rname(rng, n - 4) + rng.choice([c for c in h8.CH if len(c) == 4])
        return rname(rng, n)
    def _val(n):
        return [rng.choice([0x00, 0x80, 0xFF, rng.randrange(256)]) for _ in range(n)]
    cases = []
    for n in range(0, 257):                      # source / destination name length
        for which in ((3, 4) if big or n > 250 else (3 + n % 2,)):
            ids, flags = _rand_conf(rng)
            a = [ids, flags, [rng.randrange(2), rng.choice(CSTYPES), _rand_fsize(rng, flags[1])], [1] + _nm(rng.choice([0, 1, 7])),
                 [1] + _nm(rng.choice([0, 1, 7])), [0, 0]]
            a[which] = [1] + _nm(n)
            cases.append((1354, a + [[]]))
            if n > 250:
                cases.append((1350, a)); cases.append((1351, a))
    for n in range(0, 257):                      # option value length; number of options
        ids, flags = _rand_conf(rng)
        a = [ids, flags, [0, 0, 5], [1, 0x61], [1, 0x62], [1, 1], [rng.choice(h8.TLV_TYPES)] + _val(n)]
        cases.append((1354, a + [[]]))
        if n > 250:
            cases.append((1350, a)); cases.append((1351, a))
        if big or n <= 40 or n % 32 in (31, 0, 1):
            ids, flags = _rand_conf(rng)
            a = [ids, flags, [0, 0, 5], [1, 0x61], [1, 0x62], [1, n]] + [[rng.choice(h8.TLV_TYPES)] + _val(rng.choice([0, 0, 1])) for _ in range(n)]
            cases.append((1354, a + [[]]))
    for k in range(0, 5):                        # total length: k options of 257 octets + a name of n octets
        for n in range(k % 9, 256, 1 if big else 9):
            ids, flags = _rand_conf(rng)
            a = [ids, flags, [1, 3, 5], [1] + _nm(n), [1, 0x62], [1, k]] + [[2] + _val(255) for _ in range(k)]
            cases.append((1354, a + [[]]))
    # the same sweep around every multiple of 256 / 512 of the packet length up to 1300 (+-8)
    for target in list(range(256, 1301, 256)) + [4096]:      # ... and 4 KiB
        for d in (range(-8, 9) if target < 4096 else range(-3, 4)):
            ids, flags = _rand_conf(rng)
            hl = 4 + 2 * ids[1] + ids[5]
            fixed = hl + 1 + 1 + (8 if flags[1] else 4) + 1 + 1 + (2 if flags[2] else 0)     # with empty names, no options
            rest = target + d - fixed
            k = max(0, (rest - 200)) // 257
            rest -= 257 * k
            if rest < 0:
                continue
            sn = min(rest, 255); dn = min(rest - sn, 255)
            a = [ids, flags, [1, 3, 5], [1] + _nm(sn), [1] + _nm(dn), [1, k]] + [[2] + _val(255) for _ in range(k)]
            cases.append((1354, a + [[]]))
    yield "sizes_metadata", "exact", cases
    cases = []
    for n in range(0, 257):                      # fault-location length; first-name length of one response
        if big or n <= 16 or n >= 246 or n % 3 == 0 or n % 64 in (63, 1):
            ids, flags = _rand_conf(rng)
            a = [ids, flags, [rng.choice([4, 6, 15]), 0, 1], [1] + _val(n), [0]]
            cases.append((1344, a + [[]]))
            if n > 250:
                cases.append((1340, a)); cases.append((1341, a))
        if n <= 252 and (big or n % 2 or n > 240):
            ids, flags = _rand_conf(rng)
            r = [0, 0, n, 0] + _nm(n)
            a = [ids, flags, [rng.choice([0, 4]), 1, 2], _rand_fault(rng), [1], r]
            cases.append((1344, a + [[]]))
    for n in list(range(0, 34)) + [63, 64, 65, 127, 128, 129] + ([255, 256, 257] if big else []):      # number of responses
        ids, flags = _rand_conf(rng)
        a = [ids, flags, [4, 0, 1], _rand_fault(rng), [n]] + [_rand_resp(rng, True) for _ in range(n)]
        cases.append((1344, a + [[]]))
    for target in list(range(256, 1301, 256)) + [4096]:         # packet length +-8 around every multiple of 256, 4 KiB
        for d in (range(-8, 9) if target < 4096 else range(-3, 4)):
            ids, flags = _rand_conf(rng)
            hl = 4 + 2 * ids[1] + ids[5]
            rest = target + d - (hl + 2 + (2 if flags[2] else 0))
            resps = []
            while rest >= 5:
                n = min(rest - 5, 240)
                resps.append([0, 0, n, 0] + _nm(n)); rest -= 5 + n
            fault = [1] + _val(rest - 2) if rest >= 2 else [0]
            a = [ids, flags, [4, 0, 1], fault, [len(resps)]] + resps
            cases.append((1344, a + [[]]))
    yield "sizes_finished", "exact", cases
    # 8. random PDUs: pack, round trip, round trip with look-alike suffixes, decode of layout ++ suffix
    cases = []
    for _ in range(6000 if big else 800):
        a = _rand_fin(rng)
        cases.append((1341, a)); cases.append((1344, a + [[]]))
        sfx = _suffix(rng)
        cases.append((1344, a + [sfx]))
        if valid_fin(a):
            cases.append((1342, [fin_lay(a) + sfx])); cases.append((1343, [fin_lay(a)]))
        b = _rand_md(rng)
        cases.append((1351, b)); cases.append((1354, b + [[]]))
        sfx = _suffix(rng)
        cases.append((1354, b + [sfx]))
        if valid_md(b):
            cases.append((1352, [md_lay(b) + sfx])); cases.append((1353, [md_lay(b)]))
    yield "random_roundtrip_suffix", "exact", cases
    # 9. targeted malformed
    cases = []
    for _ in range(120 if big else 19):
        a = _rand_fin(rng, small=True, nresp=rng.choice([0, 1, 2]))
        if valid_fin(a):
            hl = 4 + 2 * a[0][1] + a[0][5]
            cases += _malformed(rng, fin_lay(a), hl, 1342, _tlv_offsets_fin(a, hl))
        b = _rand_md(rng, small=True, nopt=rng.choice([None, 1, 2]))
        if valid_md(b):
            hl = 4 + 2 * b[0][1] + b[0][5]
            fss = 8 if b[1][1] else 4
            i = hl + 2 + fss
            j = i + 1 + (len(b[3]) - 1 if b[3][0] else 0)
            k = j + 1 + (len(b[4]) - 1 if b[4][0] else 0)
            cases += _malformed(rng, md_lay(b), hl, 1352, [i, j, k, k + 1, k + 2])
    # minimal packets: header + directive code + 0..14 parameter octets, for each (crc, large), correct CRC
    for crc, large, dl in itertools.product((0, 1), (0, 1), range(0, 16)):
        for code, op in ((5, 1342), (7, 1352)):
            ids, flags = _rand_conf(rng, crc=crc, large=large)
            hdr = h5.layout(ids, [flags[0], large, crc, flags[3], flags[4]], [0, 0, dl])
            body = ([code] + [rng.choice([0, 1, 2, 3, 6, 0x41, 0x20, rng.randrange(256)]) for _ in range(dl)])[:dl]
            q = hdr + body
            if crc and dl >= 2:
                c = h5.crc16_bitwise(q[:-2]); q[-2:] = [c >> 8, c & 0xFF]
            cases.append((op, [q])); cases.append((op + 1, [q])); cases.append((op, [q + [rng.randrange(256)]]))
            cases.append((op, [q + h8.rbytes(rng, 6)]))
    # invalid UTF-8 inside names (Metadata: accepted, the getter raises; Finished responses: refused)
    for bad in h8.BADUTF:
        ids, flags = _rand_conf(rng, crc=0)
        body = [3] + h8.rbytes(rng, 8 if flags[1] else 4) + h8.lv_bytes(bad) + h8.lv_bytes([0x61])
        cases.append((1352, [_finish(ids, flags, 0, 7, body)]))
        body = [3] + h8.rbytes(rng, 8 if flags[1] else 4) + h8.lv_bytes([0x61]) + h8.lv_bytes(bad)
        cases.append((1352, [_finish(ids, flags, 0, 7, body)]))
        body = [0x41] + h8.tlv_bytes(1, h8.fs_value(0, 0, bad, [], []))
        cases.append((1342, [_finish(ids, flags, 1, 5, body)]))
    # Finished: TLV order variants (entity ID first, two entity IDs, entity ID with NO_ERROR, foreign TLV types)
    for _ in range(60 if big else 20):
        ids, flags = _rand_conf(rng)
        r1, r2 = resp_bytes(_rand_resp(rng, True)), resp_bytes(_rand_resp(rng, True))
        e1, e2 = h8.tlv_bytes(6, h8.rbytes(rng, 2)), h8.tlv_bytes(6, h8.rbytes(rng, 1))
        for cc in (0, 4, 11):
            for seq in ([e1, r1], [r1, e1, r2], [e1, e2], [r1, e1, e2], [r1, h8.tlv_bytes(2, [1])], [h8.tlv_bytes(0, [0, 1, 0x61])],
                        [r1, [1]], [r1, [6]], [e1, [1, 200]]):
                body = [cc * 16 + 2] + [x for part in seq for x in part]
                q = _finish(ids, flags, 1, 5, body)
                cases.append((1342, [q])); cases.append((1343, [q]))
    yield "targeted_malformed", "exact", cases
    # 10. histories of setter calls
    cases = []
    for _ in range(3000 if big else 500):
        a = _rand_fin(rng, small=True)
        ops = []
        for _ in range(rng.randrange(0, 5)):
            k = rng.randrange(5)
            if k == 0:
                ops.append([0])
            elif k == 1:
                ops.append([1] + h8.rbytes(rng, rng.choice([1, 2, 4, 8, 3])))
            elif k == 2:
                ops.append([2])
            elif k == 3:
                n = rng.randrange(0, 4)
                ops.append([3, n]); ops += [_rand_resp(rng, True) for _ in range(n)]
            else:
                ops.append([4, rng.choice([c for c in CCS if c >= 0])])
        cases.append((1345, a + ops))
        b = _rand_md(rng, small=True)
        ops = []
        for _ in range(rng.randrange(0, 5)):
            k = rng.randrange(6)
            if k == 0:
                ops.append([0])
            elif k == 1:
                n = rng.randrange(0, 4)
                ops.append([1, n]); ops += [_rand_tlv(rng, True) for _ in range(n)]
            elif k in (2, 4):
                ops.append([k])
            else:
                ops.append([k] + rname(rng, rng.choice([0, 1, 5, 20, 255, 256])))
        cases.append((1355, b + ops))
    yield "setter_histories", "exact", cases
    # PDUs whose (correct) CRC-16 trailer is 0x0000 / 0xFFFF / has a zero octet / a single bit (a derived quantity random
    # packets hit once in 65536; found by steering the sequence number, c05.steer_crc): decode, re-pack, round trip
    cases = []
    for sl, ql in (itertools.product(WIDTHS, WIDTHS) if big else [(1, 1), (1, 2), (2, 1), (2, 4), (4, 8), (8, 8)]):
        for target in h5.crc_targets(rng):
            for gen, ok, layf, base, tail in ((_rand_fin, valid_fin, fin_lay, 1340, lambda a: 5 + _fin_n(a)), (_rand_md, valid_md, md_lay, 1350, lambda a: 6 + _md_n(a))):
                for _ in range(50):
                    a = gen(rng, small=True, sl=sl, ql=ql, crc=1)
                    if ok(a):
                        break
                b2 = h5.steer_crc(layf(a), target)
                a2 = [list(x) for x in a]; a2[0] = h5.ids_of(b2)
                if layf(a2) != b2:
                    raise RuntimeError("steered PDU is not the layout of its arguments")
                cases.append((base + 2, [b2])); cases.append((base + 3, [b2])); cases.append((base + 4, a2 + [[]])); cases.append((base + 1, a2))
                cases.append((base + 2, [b2 + [rng.randrange(256) for _ in range(rng.choice([1, 3]))]]))
                q = list(b2); q[-1 - rng.randrange(2)] ^= 1 << rng.randrange(8)
                cases.append((base + 2, [q]))
    yield "crc_trailer_special_values", "exact", cases
    # 11. garbage: random octets biased to file-directive headers with valid widths, consistent lengths, right CRC
    cases = []
    for _ in range(24000 if big else 3000):
        n = rng.randrange(0, 56)
        d = h8.rbytes(rng, n)
        if d and rng.random() < 0.85:
            d[0] = 0x20 | (d[0] & 0x0F)
        hl = None
        if len(d) > 3 and rng.random() < 0.85:
            d[3] = (d[3] & 0x88) | rng.choice([0, 1, 3, 7]) << 4 | rng.choice([0, 1, 3, 7])
            hl = 4 + 2 * (((d[3] >> 4) & 7) + 1) + (d[3] & 7) + 1
        code = rng.choice([5, 7])
        if hl is not None and len(d) > hl:
            if rng.random() < 0.8:
                d[hl] = code
            if len(d) > hl + 2 and rng.random() < 0.6:       # TLV-looking continuation
                k = rng.randrange(hl + 2, len(d))
                d[k] = rng.choice([1, 6, 2, 0, 4, 5])
                if k + 1 < len(d):
                    d[k + 1] = rng.choice([0, 1, 2, len(d) - k - 2, max(0, len(d) - k - 4)]) & 0xFF
            if rng.random() < 0.8:
                dl = len(d) - hl - rng.choice([0, 0, 0, 1, 2])
                if dl >= 0:
                    d[1] = dl >> 8; d[2] = dl & 0xFF
                    if d[0] & 2 and dl >= 2 and rng.random() < 0.8:
                        c = h5.crc16_bitwise(d[:hl + dl - 2]); d[hl + dl - 2:hl + dl] = [c >> 8, c & 0xFF]
        op = 1342 if (code == 5) ^ (rng.random() < 0.1) else 1352
        cases.append((op, [d]))
        if rng.random() < 0.3:
            cases.append((op + 1, [d]))
    yield "garbage", "verdict", cases
    # 12. operation histories (harness/props/c06h.py, model Run/DirHist.v)
    from harness.props import c06h
    for st in c06h.streams_for(["fin", "md"], tier, rng, "b"):
        yield st
    yield "histories_limit_b", "exact", c06h.limit_cases("fin", rng, big) + c06h.limit_cases("md", rng, big)


# ------------------------------------------------------------------ oracle
def oracle_spec(case, ires):
    op, a = case
    if op in (1341, 1344) and valid_fin(a):
        return [(1360, a[:5 + _fin_n(a)])]
    if op in (1351, 1354) and valid_md(a):
        return [(1361, a[:6 + _md_n(a)])]
    return []


def _hl(ids):
    return 4 + 2 * ids[1] + ids[5]


def _split_fin_fields(f):
    """f = result lists after the status list: hdr(4) + [dirtype, plen] + codes + fault + [n] + n responses (+ rest)"""
    hd, ids, flags, lens, (dt, plen), codes, fault, (n,) = f[:8]
    return hd, ids, flags, lens, dt, plen, codes, fault, f[8:8 + n], f[8 + n:]


def _split_md_fields(f):
    hd, ids, flags, lens, (dt, plen), par, srcv, dstv, srcg, dstg, (has, n) = f[:11]
    return hd, ids, flags, lens, dt, plen, par, srcv, dstv, srcg, dstg, (f[11:11 + n] if has else None), f[11 + n:]


def _canon_fin(p, hl, crc):
    """A Finished PDU up to what the decoder is lenient about: CRC trailer stripped, spare bit masked, responses in
    order and the last entity-ID TLV (the decoder takes the entity ID at any position and keeps the last one).
    None if the TLV area is not a sequence of complete response / entity-ID TLVs."""
    end = len(p) - (2 if crc else 0)
    if end < hl + 2:
        return None
    i = hl + 2
    resps, ent = [], None
    while i < end:
        if i + 2 > end or i + 2 + p[i + 1] > end:
            return None
        t = p[i:i + 2 + p[i + 1]]
        if p[i] == 1:
            resps.append(t)
        elif p[i] == 6:
            ent = t
        else:
            return None
        i += len(t)
    return (p[:1] + p[3:hl + 1] + [p[hl + 1] & 0xF7], resps, ent)


def _check_decoded_fin(b, f, what):
    """decoded parameters must be a function of b[:declared length] only: laying them out again gives those octets
    (up to the spare bit and the position of the entity-ID TLV), and the reported lengths are those of that layout"""
    hd, ids, flags, lens, dt, plen, codes, fault, resps, _ = _split_fin_fields(f)
    hl = _hl(ids)
    pl = hl + b[1] * 256 + b[2]
    if flags[2] == 1 and len(b) >= pl and h5.crc16_bitwise(b[:pl]) != 0:
        return ("C06/FinishedPdu.unpack/corrupted-accepted", "octets %s carry the CRC flag, their CRC-16 does not check, "
                "and they were accepted" % list(b[:48]))
    if hd[0] != 0 or dt != 5:
        return None      # a different PDU decoded as Finished: the caller's responsibility (docstring)
    try:
        exp = fin_layout(ids, flags, codes, fault, resps, keep_direction=flags[3], meta=hd[1])   # direction / metadata flag: kept as found
    except (OverflowError, ValueError):
        exp = None
    got = list(b[:pl])
    ok = exp is not None and lens == [hl, len(exp)] and plen == len(exp) and hd[2] == len(exp) - hl
    if ok and exp != got:
        g = _canon_fin(got, hl, flags[2])
        ok = g is not None and g == _canon_fin(exp, hl, flags[2])
    if not ok:
        return ("C06/FinishedPdu.unpack/%s" % what,
                "octets %s (declared packet length %d) decoded to lens %s packet_len %d codes %s fault %s, %d responses, which is the "
                "encoding of %s" % (list(b[:48]), pl, lens, plen, codes, fault, len(resps), None if exp is None else exp[:48]))
    return None


def _check_decoded_md(b, f, what):
    hd, ids, flags, lens, dt, plen, par, srcv, dstv, srcg, dstg, opts, _ = _split_md_fields(f)
    hl = _hl(ids)
    pl = hl + b[1] * 256 + b[2]
    if flags[2] == 1 and len(b) >= pl and h5.crc16_bitwise(b[:pl]) != 0:
        return ("C06/MetadataPdu.unpack/corrupted-accepted", "octets %s carry the CRC flag, their CRC-16 does not check, "
                "and they were accepted" % list(b[:48]))
    if hd[0] != 0 or dt != 7:
        return None
    try:
        exp = md_layout(ids, flags, par, [1] + srcv, [1] + dstv, opts, keep_direction=flags[3], meta=hd[1])
    except (OverflowError, ValueError):
        exp = None
    got = list(b[:pl])
    if exp is not None and exp != got and len(got) > hl + 1 and (got[hl + 1] & 0xB0):
        # reserved bits of the first parameter octet are ignored by the decoder
        got[hl + 1] &= 0x4F
        if flags[2]:
            exp, got = exp[:-2], got[:-2]
    if exp != got or lens != [hl, pl] or plen != pl:
        return ("C06/MetadataPdu.unpack/%s" % what,
                "octets %s (declared packet length %d) decoded to lens %s packet_len %d params %s names %s %s options %s, which is "
                "the encoding of %s" % (list(b[:48]), pl, lens, plen, par, srcv[:12], dstv[:12], opts, None if exp is None else exp[:48]))
    return None


def oracle(case, ires, sres):
    """The property itself, evaluated on the implementation's observable behaviour."""
    op, a = case
    if op in (1346, 1356):
        from harness.props import c06h
        return c06h.oracle(case, ires, sres)
    err = ires[0][0] == 1
    code = ires[0][1] if err else None
    # ---------------- Finished
    if op == 1341:
        if not valid_fin(a):
            return None
        exp = fin_lay(a)
        if err or ires[1] != exp or not sres or sres[0][1] != exp:
            return ("C06/FinishedPdu.pack/layout", "pack%s = %s, standard says %s" % ([x[:16] for x in a[:8]], ires[1][:56] if not err else ires, exp[:56]))
        return None
    if op == 1340:
        if not valid_fin(a):
            return None
        if err:
            return ("C06/FinishedPdu.__init__/refuses-valid", "valid parameters refused: %s" % ires)
        exp = fin_lay(a)
        hd, ids, flags, lens, dt, plen, codes, fault, resps, rest = _split_fin_fields(ires[1:])
        hl = _hl(a[0])
        if lens != [hl, len(exp)] or hd[2] != len(exp) - hl or plen != len(exp):
            return ("C06/FinishedPdu/data-field-len", "header_len/packet_len %s, packet_len %d, data field length %d; %d octets are packed "
                    "(condition code %d, fault location %s)" % (lens, plen, hd[2], len(exp), a[2][0], a[3]))
        if rest[0:2] != [a[0], a[1]]:
            return ("C11/FinishedPdu.__init__/caller-conf-modified", "caller's PduConfig %s -> %s" % ([a[0], a[1]], rest[0:2]))
        n = _fin_n(a)
        if rest[2:] != [a[2], a[3] if a[3] and a[3][0] == 1 else [0], [n]] + [list(x) for x in a[5:5 + n]]:
            return ("C11/FinishedPdu.__init__/caller-params-modified", "caller's FinishedParams %s -> %s" % (a[2:5 + n], rest[2:]))
        return None
    if op == 1344:
        if not valid_fin(a):
            return None
        n = _fin_n(a)
        sfx = a[5 + n] if len(a) > 5 + n else []
        exp = fin_lay(a)
        if err:
            if sfx and DOC(code):
                return None         # C09: a PDU followed by further octets may be refused with a documented error
            if sfx:
                return ("C09/FinishedPdu.unpack/suffix-undocumented-error", "own output + suffix %s escaped with %s" % (sfx[:12], core.ERR_NAMES.get(code)))
            return ("C06/FinishedPdu.unpack/roundtrip-refused", "own output refused (%s): %s" % (core.ERR_NAMES.get(code), exp[:56]))
        eq, repack = ires[1], ires[2]
        hd, ids, flags, lens, dt, plen, codes, fault, resps, _ = _split_fin_fields(ires[3:])
        tag = "-suffix" if sfx else ""
        hl = _hl(a[0])
        want_fault = a[3] if (a[3] and a[3][0] == 1 and a[2][0] not in (0, 11)) else [0]
        if codes != a[2] or fault != want_fault:
            return ("C06/FinishedPdu.unpack/codes-fault" + tag, "codes %s fault %s decoded as %s %s" % (a[2], want_fault, codes, fault))
        if resps != [norm_resp(r) for r in a[5:5 + n]]:
            return ("C06/FinishedPdu.unpack/responses" + tag, "responses %s decoded as %s (crc=%d, %d suffix octets)" % (a[5:5 + n], resps, a[1][2], len(sfx)))
        if lens != [hl, len(exp)] or plen != len(exp) or hd != [0, 0, len(exp) - hl] or dt != 5:
            return ("C06/FinishedPdu.unpack/length" + tag, "decoded header %s lens %s packet_len %d, packed PDU has %d octets (header %d)" % (hd, lens, plen, len(exp), hl))
        if ids != a[0] or flags != [a[1][0], a[1][1], a[1][2], 1, a[1][4]]:
            return ("C06/FinishedPdu.unpack/header-fields" + tag, "%s %s decoded as %s %s" % (a[0], a[1], ids, flags))
        # a fault location together with NO_ERROR / UNSUPPORTED_CHECKSUM_TYPE is not a parameter set of 727.0-B-5
        # (the location is not transmitted), so equality is only required of valid parameter sets
        if eq != [0, 1] and want_fault == (a[3] if a[3] and a[3][0] == 1 else [0]):
            return ("C06/FinishedPdu.__eq__/roundtrip" + tag, "decoded PDU compared with the original: %s" % eq)
        if repack != [0] + exp:
            return ("C06/FinishedPdu.pack/repack" + tag, "re-packed %s, original %s" % (repack[:56], exp[:56]))
        if sres and sres[0][1] != exp:
            return ("C06/FinishedPdu.pack/layout", "Coq spec layout differs from the packed octets")
        return None
    if op == 1342:
        b = a[0]
        if err:
            if not DOC(code):
                return ("C10/FinishedPdu.unpack/undocumented-error", "unpack(%s) escaped with %s" % (b[:48], core.ERR_NAMES.get(code, code)))
            return None
        return _check_decoded_fin(b, ires[1:], "fold-in")
    if op == 1345:
        if err:
            return None
        plen, p1, p2 = ires[1], ires[2], ires[3]
        hd, ids, flags, lens, dt, plen2, codes, fault, resps, _ = _split_fin_fields(ires[4:])
        if p1 != p2:
            return ("C11/FinishedPdu.pack/not-repeatable", "two packs differ")
        if p1[0] == 0:
            if plen != [len(p1) - 1] or lens[1] != len(p1) - 1:
                return ("C11/FinishedPdu.setters/length", "packet_len %s after %s (condition code %d, fault location %s), %d octets packed"
                        % (plen, [o[:6] for o in a[5 + _fin_n(a):]], codes[0], fault, len(p1) - 1))
            final = [a[0], a[1], codes, fault, [len(resps)]] + resps
            if valid_fin(final) and p1[1:] != fin_lay(final):
                return ("C11/FinishedPdu.setters/fresh", "octets after setters differ from a fresh PDU with the same values")
        return None
    # ---------------- Metadata
    if op == 1351:
        ids, flags = a[0], a[1]
        cl, cs, fsize = a[2]
        if h5.valid_args(ids, flags, [0, 0, 0]) and cl in (0, 1) and cs in CSTYPES and not 0 <= fsize < 256 ** (8 if flags[1] else 4):
            if not err:
                return ("C06/MetadataPdu.pack/file-size-range", "file size %d packed with the %s flag: %s" % (fsize, "large" if flags[1] else "normal", ires[1][:32]))
            return None
        if not valid_md(a):
            return None
        exp = md_lay(a)
        if err or ires[1] != exp or not sres or sres[0][1] != exp:
            return ("C06/MetadataPdu.pack/layout", "pack%s = %s, standard says %s" % ([x[:16] for x in a[:8]], ires[1][:56] if not err else ires, exp[:56]))
        return None
    if op == 1350:
        if not valid_md(a):
            return None
        if err:
            return ("C06/MetadataPdu.__init__/refuses-valid", "valid parameters refused: %s" % ires)
        exp = md_lay(a)
        hd, ids, flags, lens, dt, plen, par, srcv, dstv, srcg, dstg, opts, rest = _split_md_fields(ires[1:])
        hl = _hl(a[0])
        if lens != [hl, len(exp)] or hd[2] != len(exp) - hl or plen != len(exp):
            return ("C06/MetadataPdu/data-field-len", "header_len/packet_len %s, data field length %d; %d octets are packed" % (lens, hd[2], len(exp)))
        if rest[0:2] != [a[0], a[1]]:
            return ("C11/MetadataPdu.__init__/caller-conf-modified", "caller's PduConfig %s -> %s" % ([a[0], a[1]], rest[0:2]))
        nm = lambda l: [0] if (not l or l[0] == 0) else [1] + list(l[1:])
        if rest[2:5] != [a[2], nm(a[3]), nm(a[4])]:
            return ("C11/MetadataPdu.__init__/caller-params-modified", "caller's MetadataParams %s -> %s" % (a[2:5], rest[2:5]))
        return None
    if op == 1354:
        if not valid_md(a):
            return None
        n = _md_n(a)
        sfx = a[6 + n] if len(a) > 6 + n else []
        exp = md_lay(a)
        if err:
            if sfx and DOC(code):
                return None
            if sfx:
                return ("C09/MetadataPdu.unpack/suffix-undocumented-error", "own output + suffix %s escaped with %s" % (sfx[:12], core.ERR_NAMES.get(code)))
            return ("C06/MetadataPdu.unpack/roundtrip-refused", "own output refused (%s): %s" % (core.ERR_NAMES.get(code), exp[:56]))
        eq, repack = ires[1], ires[2]
        hd, ids, flags, lens, dt, plen, par, srcv, dstv, srcg, dstg, opts, _ = _split_md_fields(ires[3:])
        tag = "-suffix" if sfx else ""
        hl = _hl(a[0])
        nmv = lambda l: [] if (not l or l[0] == 0) else list(l[1:])
        nmg = lambda l: [0] if (not l or len(l) <= 1) else [1] + list(l[1:])
        if par != a[2]:
            return ("C06/MetadataPdu.unpack/params" + tag, "%s decoded as %s" % (a[2], par))
        if srcv != nmv(a[3]) or dstv != nmv(a[4]) or srcg != nmg(a[3]) or dstg != nmg(a[4]):
            return ("C06/MetadataPdu.unpack/names" + tag, "names %s %s decoded as %s %s (getters %s %s)" % (a[3][:20], a[4][:20], srcv[:20], dstv[:20], srcg[:20], dstg[:20]))
        want = [list(t) for t in a[6:6 + n]] if a[5][0] else []
        if (opts or []) != want:
            return ("C06/MetadataPdu.unpack/options" + tag, "options %s decoded as %s (crc=%d, %d suffix octets)" % (want, opts, a[1][2], len(sfx)))
        if lens != [hl, len(exp)] or plen != len(exp) or hd != [0, 0, len(exp) - hl] or dt != 7:
            return ("C06/MetadataPdu.unpack/length" + tag, "decoded header %s lens %s packet_len %d, packed PDU has %d octets" % (hd, lens, plen, len(exp)))
        if ids != a[0] or flags != [a[1][0], a[1][1], a[1][2], 0, a[1][4]]:
            return ("C06/MetadataPdu.unpack/header-fields" + tag, "%s %s decoded as %s %s" % (a[0], a[1], ids, flags))
        if eq != [1]:
            return ("C06/MetadataPdu.__eq__/roundtrip" + tag, "decoded PDU not equal to the original (options given: %s, decoded: %s)" % (a[5], opts))
        if repack != [0] + exp:
            return ("C06/MetadataPdu.pack/repack" + tag, "re-packed %s, original %s" % (repack[:56], exp[:56]))
        if sres and sres[0][1] != exp:
            return ("C06/MetadataPdu.pack/layout", "Coq spec layout differs from the packed octets")
        return None
    if op == 1352:
        b = a[0]
        if err:
            if not DOC(code):
                return ("C10/MetadataPdu.unpack/undocumented-error", "unpack(%s) escaped with %s" % (b[:48], core.ERR_NAMES.get(code, code)))
            return None
        return _check_decoded_md(b, ires[1:], "fold-in")
    if op == 1355:
        if err:
            return None
        plen, p1, p2 = ires[1], ires[2], ires[3]
        hd, ids, flags, lens, dt, plen2, par, srcv, dstv, srcg, dstg, opts, _ = _split_md_fields(ires[4:])
        if p1 != p2:
            return ("C11/MetadataPdu.pack/not-repeatable", "two packs differ")
        if p1[0] == 0:
            if plen != [len(p1) - 1] or lens[1] != len(p1) - 1:
                return ("C11/MetadataPdu.setters/length", "packet_len %s after %s, %d octets packed" % (plen, [o[:6] for o in a[6 + _md_n(a):]], len(p1) - 1))
            final = [a[0], a[1], par, [1] + srcv, [1] + dstv, [0, 0] if opts is None else [1, len(opts)]] + (opts or [])
            if valid_md(final) and p1[1:] != md_lay(final):
                return ("C11/MetadataPdu.setters/fresh", "octets after setters differ from a fresh PDU with the same values")
        return None
    return None


def neighbours(case):
    op, a = case
    out = []
    if op in (1342, 1343, 1352, 1353):
        for n in range(min(len(a[0]), 48)):
            out.append((op, [a[0][:n]]))
        for i in range(min(4, len(a[0]))):
            for bit in range(8):
                l = list(a[0]); l[i] ^= 1 << bit; out.append((op, [l]))
        out.append((op, [a[0] + [0]])); out.append((op, [a[0] + [6, 1, 1]]))
    if op in (1340, 1341, 1344, 1345):
        n = _fin_n(a)
        for crc in (0, 1):
            b = [list(x) for x in a[:5 + n]]; b[1][2] = crc
            out.append((1344, b + [[]])); out.append((1344, b + [[0]])); out.append((1340, b)); out.append((1341, b))
        for cc in (0, 4, 11):
            b = [list(x) for x in a[:5 + n]]; b[2][0] = cc; b[3] = [1, 1]
            out.append((1340, b)); out.append((1344, b + [[]]))
    if op in (1350, 1351, 1354, 1355):
        n = _md_n(a)
        for crc in (0, 1):
            b = [list(x) for x in a[:6 + n]]; b[1][2] = crc
            out.append((1354, b + [[]])); out.append((1354, b + [[2, 1, 7]])); out.append((1350, b)); out.append((1351, b))
        b = [list(x) for x in a[:5]] + [[1, 0]]
        out.append((1354, b + [[]]))
    return out


# ---- registry for the cross-cutting checks C09 / C10
def _valid_fins(rng):
    out = []
    while len(out) < 40:
        a = _rand_fin(rng, small=True)
        if valid_fin(a):
            out.append(fin_lay(a))
    return out


def _valid_mds(rng):
    out = []
    while len(out) < 40:
        a = _rand_md(rng, small=True)
        if valid_md(a):
            out.append(md_lay(a))
    return out


def _declared(b):
    return h5._declared(b) + b[1] * 256 + b[2]


DECODERS = [
    {"op": 1342, "name": "FinishedPdu.unpack", "extra": [], "valid": _valid_fins, "declared_len": _declared},
    {"op": 1352, "name": "MetadataPdu.unpack", "extra": [], "valid": _valid_mds, "declared_len": _declared},
]
