"""C13 — space-packet stream parser under any fragmentation.

One case (op 900) is a whole history:
  a0 = default packet ids as flat (ptype, shf, apid) triples
  a1 = ground truth of the stream for the oracle (ignored by model and implementation):
       segment lengths in stream order, +n = a well-formed registered packet of n octets,
       -n = n octets of junk in which no two-octet window is a registered id; [] = unknown
  a2.. = operations: [0, chunk...] = deque.append(bytearray(chunk)), [3, chunk...] = deque.append(bytes(chunk)),
       [1] = parse with the default ids, [2, triples...] = parse with those ids (ids are passed as a
       list or as a tuple, alternating with the operation index).
Observed after every operation: the returned packets and the complete deque contents.  After every
parse call the adapter behaves like a caller that reuses its buffers: it overwrites the chunk objects
it had appended (they have been consumed) and the packets it was just given, and counts the calls
after which the queue or a packet handed out earlier changed thereby (last line of the result; 0).
Op 902 = the same history, observed at the parse operations only (large backlogs), model side through
the linear-time formulation Model/ParserFast.v (proved equal to the one behind op 900).
Timing: the property quantifies over all interleavings of append and parse calls, however long the pauses between
them.  Two histories out of three run under a simulated clock (class _Clock): every clock function of the `time`
module (and every such function / the datetime class a library module imported by name) answers, for the calling
thread only, the real reading plus an offset that the adapter advances between consecutive parser calls - by
fractions of a second up to ten minutes in one third of the histories, by hours up to a century in another third."""
import datetime as _dt, itertools, resource, sys, threading, time as _time, types
from collections import deque
from spacepackets.ccsds import spacepacket as sp

# The extracted model uses the non-tail-recursive list functions of the Coq library (app, map, firstn):
# a backlog of more than about 500 000 octets overflows the default 8 MiB stack of the model driver.
# Child processes inherit the soft limit: raise it for the driver (streams() leaves the largest backlogs
# out when the limit cannot be raised).
BIG_STACK = False
try:
    _soft, _hard = resource.getrlimit(resource.RLIMIT_STACK)
    _want = 1 << 30
    if _soft == resource.RLIM_INFINITY or _soft >= _want:
        BIG_STACK = True
    elif _hard == resource.RLIM_INFINITY or _hard >= _want:
        resource.setrlimit(resource.RLIMIT_STACK, (_want, _hard))
        BIG_STACK = True
except Exception:      # noqa
    pass

ID = "C13"
ENUMS = [
    ("spacepackets.ccsds.spacepacket:CCSDS_HEADER_LEN", "SP.Model.SpacePacket.CCSDS_HEADER_LEN"),
    ("spacepackets.ccsds.spacepacket:SPACE_PACKET_HEADER_SIZE", "SP.Model.SpacePacket.CCSDS_HEADER_LEN"),
    ("spacepackets.ccsds.spacepacket:PACKET_ID_MASK", "SP.Model.SpacePacket.PACKET_ID_MASK"),
]
ASSUMPTIONS = [
    "collections.deque append/popleft/clear and bytearray.extend/slicing as modelled (queue = list of octet strings)",
    "the theorems quantify over all octet streams, cut sets and append/parse interleavings; the tie enumerates all "
    "2^(n-1) fragmentations only for short streams and all single/double cuts of longer ones",
    "sizes: every packet length 7..1100 (thorough ..4200), +-8 of every multiple of 256 up to 4 KiB, every multiple of "
    "4 KiB (thorough 1 KiB) up to the largest packet (65542 octets); backlogs queued before one parse call up to 1 MiB "
    "(thorough 2 MiB), incl. one-octet reads; large backlogs (op 902) go through Model/ParserFast.v, proved equal to the "
    "mirror of the code for every queue and operation list (C13_run_ops_fast_eq)",
    "the adapter overwrites the caller's consumed chunk objects and the packets handed out after every parse call: the "
    "model's values are values, so any sharing of memory between queue, results and caller buffers is a disagreement",
    "pauses between parser calls are simulated, not waited for: two histories out of three run with the clock functions of "
    "the time module (monotonic, time, perf_counter, process_time, thread_time, clock_gettime and their _ns variants, also "
    "when imported by name into a library module, and datetime.now / utcnow / today there) shifted forward between "
    "consecutive parser calls by 0.25 s .. 10 min or by 1 h .. 100 years; the model has no notion of time, so any "
    "dependence of the result on elapsed time is a disagreement.  A clock read through another route (os.times, a C "
    "extension) is not simulated",
]
TRUSTED = []
ORACLE_LIMIT = {"quick": 40000, "thorough": 60000}   # the exhaustive streams are oracle-checked in full in the quick tier


def _ids(tr):
    return [sp.PacketId(sp.PacketType(tr[i]), bool(tr[i + 1]), tr[i + 2]) for i in range(0, len(tr) - 2, 3)]


def _obs(pk, q):
    return [[len(pk), len(q)]] + [list(x) for x in pk] + [list(x) for x in q]


_COMPLEMENT = bytes(b ^ 0xFF for b in range(256))


def _flip(x):
    """overwrite a buffer in place (every octet complemented); immutable octet strings are left alone"""
    if isinstance(x, bytes) or (isinstance(x, memoryview) and x.readonly):
        return bytes(x)
    x[:] = bytes(x).translate(_COMPLEMENT)
    return bytes(x)


# ------------------------------------------------------------------ simulated clock
_CLOCK_NAMES = ("monotonic", "monotonic_ns", "time", "time_ns", "perf_counter", "perf_counter_ns", "process_time",
                "process_time_ns", "thread_time", "thread_time_ns", "clock_gettime", "clock_gettime_ns")
_REAL = {n: getattr(_time, n) for n in _CLOCK_NAMES if hasattr(_time, n)}
_TL = threading.local()      # .offset_ns exists only while this thread is inside a history with a simulated clock


def _shifted(name):
    real, ns = _REAL[name], name.endswith("_ns")

    def clock(*args):
        off = getattr(_TL, "offset_ns", None)
        v = real(*args)
        if off is None:             # another thread of the harness (thread probe, the main loop): the real clock
            return v
        return v + off if ns else v + off / 1e9
    clock.__name__ = clock.__qualname__ = name
    return clock


_SHIFTED = {n: _shifted(n) for n in _REAL}


class _ShiftedDatetime(_dt.datetime):
    """datetime whose 'now' follows the simulated clock of the calling thread"""
    @classmethod
    def now(cls, tz=None):
        return cls.fromtimestamp(_SHIFTED["time"](), tz)

    @classmethod
    def today(cls):
        return cls.fromtimestamp(_SHIFTED["time"]())

    @classmethod
    def utcnow(cls):
        return cls.fromtimestamp(_SHIFTED["time"](), _dt.timezone.utc).replace(tzinfo=None)


_DT_MODULE = types.ModuleType("datetime")
_DT_MODULE.__dict__.update({k: v for k, v in vars(_dt).items() if not k.startswith("__")})
_DT_MODULE.datetime = _ShiftedDatetime

# amounts (seconds) by which the clock is advanced before a parser call, by mode of the history and call number
_JUMPS = {1: (0.25, 1.5, 4.5, 5.5, 31.0, 61.0, 600.0), 2: (3600.0, 7201.0, 86400.0, 1.0e6, 3.2e9, 43200.0)}


class _Clock:
    """process-wide installation (reference-counted: the thread probe runs histories concurrently) of clock
    functions that are shifted for the threads inside such a history and real for every other thread"""
    lock = threading.Lock()
    users = 0
    saved = []       # (namespace dict, name, original value)

    def __init__(self, mode):
        self.mode = mode

    def __enter__(self):
        if self.mode:
            with _Clock.lock:
                if _Clock.users == 0:
                    _Clock._install()
                _Clock.users += 1
            _TL.offset_ns = 0
        return self

    def advance(self, k):
        if self.mode:
            j = _JUMPS[self.mode]
            _TL.offset_ns += int(j[k % len(j)] * 1e9)

    def __exit__(self, *exc):
        if self.mode:
            del _TL.offset_ns
            with _Clock.lock:
                _Clock.users -= 1
                if _Clock.users == 0:
                    for d, n, v in reversed(_Clock.saved):
                        d[n] = v
                    _Clock.saved = []
        return False

    plan = None      # [(namespace dict, name, replacement)], recomputed when modules were imported since
    plan_key = None

    @staticmethod
    def _install():
        if _Clock.plan is None or _Clock.plan_key != len(sys.modules):
            plan = [(vars(_time), n, f) for n, f in _SHIFTED.items()]
            # names a library module bound at import time (from time import monotonic / from datetime import datetime / import datetime)
            for mname, mod in list(sys.modules.items()):
                if mod is None or not (mname == "spacepackets" or mname.startswith("spacepackets.")):
                    continue
                for k, v in list(vars(mod).items()):
                    for n, real in _REAL.items():
                        if v is real:
                            plan.append((vars(mod), k, _SHIFTED[n]))
                    if v is _dt.datetime:
                        plan.append((vars(mod), k, _ShiftedDatetime))
                    elif v is _dt:
                        plan.append((vars(mod), k, _DT_MODULE))
            _Clock.plan, _Clock.plan_key = plan, len(sys.modules)
        for d, n, v in _Clock.plan:
            _Clock.saved.append((d, n, d[n]))
            d[n] = v


def _clock_mode(a):
    """0 = the real clock, 1 = pauses of up to ten minutes, 2 = pauses of hours and more; a function of the case only"""
    return (len(a) + sum(len(o) for o in a[2:5])) % 3


def _history(a, observe_appends):
    with _Clock(_clock_mode(a)) as clock:
        return _history_clocked(a, observe_appends, clock)


def _history_clocked(a, observe_appends, clock):
    dflt = _ids(a[0])
    q = deque()
    out = []
    mine = []        # chunk objects the caller appended and has not overwritten yet
    handed = []      # (packet object handed out, its content after the caller's edit)
    aliased = 0
    shared = []      # one list object the caller keeps and edits in place between calls
    for k, o in enumerate(a[2:]):
        if o and o[0] in (0, 3):
            c = bytearray(o[1:]) if o[0] == 0 else bytes(o[1:])
            if o[0] == 0 and (k + len(o)) % 3 == 2:
                c = memoryview(c)      # recv_into() idiom: the chunk is a view of the caller's receive buffer
            q.append(c)
            mine.append(c)
            if observe_appends:
                out += _obs([], q)
            continue
        ids = _ids(o[1:]) if o and o[0] == 2 else dflt
        if o and o[0] == 2 and k % 4 < 2:
            shared[:] = ids
            ids = shared
        clock.advance(k)
        pk = sp.parse_space_packets(q, tuple(ids) if k % 2 else ids)
        out += _obs(pk, q)
        # the caller reuses its receive buffers and edits the packets it was given
        qsnap = [bytes(x) for x in q]
        for c in mine:
            _flip(c)
        mine = []
        new = []
        for x in pk:
            before = bytes(x)
            _flip(x)
            new.append((x, before.translate(_COMPLEMENT) if not isinstance(x, bytes) else before))
        handed = (handed if len(handed) < 64 else handed[-64:]) + new
        if [bytes(x) for x in q] != qsnap or any(bytes(x) != exp for x, exp in handed):
            aliased += 1
    return out + [[aliased]]


def impl(op, a):
    if op == 900:
        return _history(a, True)
    if op == 902:
        return _history(a, False)
    if op == 901:
        q = deque(bytearray(x[1:]) for x in a[1:])
        return _obs(sp.parse_space_packets(q, _ids(a[0])), q)
    raise RuntimeError("bad op")


# ------------------------------------------------------------------ generators
def raw_id(t, s, ap):
    return t * 4096 + s * 2048 + ap


def make_packet(rng, triple, n, ver=None, fill=None):
    """a space packet of n >= 7 octets with the given identification.  fill: None = random data;
    'hdr' = the data field repeats the packet's own header (every 6th position looks like the start
    of a registered packet: the parser must not resynchronise inside a packet); 'ff' / '00' / '80' =
    constant octets; 'short' = header look-alikes whose length field is 0"""
    t, s, ap = triple
    v = rng.randrange(8) if ver is None else ver
    w0 = v * 8192 + raw_id(t, s, ap)
    w1 = rng.randrange(65536)
    d = n - 7
    h = [w0 >> 8, w0 & 255, w1 >> 8, w1 & 255, d >> 8, d & 255]
    m = n - 6
    if fill is None:
        data = [rng.randrange(256) for _ in range(m)]
    elif fill == "hdr":
        data = (h * (m // 6 + 1))[:m]
    elif fill == "short":
        data = ((h[:4] + [0, 0]) * (m // 6 + 1))[:m]
    else:
        data = [{"ff": 0xFF, "00": 0, "80": 0x80}[fill]] * m
    return h + data


FILLS = [None, None, None, "hdr", "short", "ff", "00", "80"]


def clean(stream, segs, raws):
    """no two-octet window starting inside a junk segment carries a registered id"""
    pos = 0
    for n in segs:
        if n < 0:
            for i in range(pos, pos - n):
                if i + 1 < len(stream) and ((stream[i] * 256 + stream[i + 1]) & 0x1FFF) in raws:
                    return False
        pos += abs(n)
    return True


def make_stream(rng, triples, segs, fills=False):
    """segs: +n packet / -n junk.  Returns the stream (junk resampled until clean)."""
    raws = {raw_id(*t) for t in triples}
    for _ in range(1000):
        st = []
        for n in segs:
            if n > 0:
                st += make_packet(rng, rng.choice(triples), n, fill=rng.choice(FILLS) if fills else None)
            else:
                st += [rng.choice([0, 0xFF, rng.randrange(256), rng.randrange(256)]) for _ in range(-n)]
        if clean(st, segs, raws):
            return st
    raise RuntimeError("could not build a clean stream")


def flat(triples):
    return [x for t in triples for x in t]


def chunks_of(stream, cuts):
    cuts = [0] + sorted(cuts) + [len(stream)]
    return [stream[cuts[i]:cuts[i + 1]] for i in range(len(cuts) - 1)]


def hist(triples, segs, chunks, parse_mask=None, final_parses=1, op=900, as_bytes=0):
    """append every chunk; parse after chunk i when bit i of parse_mask is set (None = always);
    chunk i is appended as an immutable bytes object when bit i of as_bytes is set"""
    ops = []
    for i, c in enumerate(chunks):
        ops.append([3 if as_bytes >> i & 1 else 0] + c)
        if parse_mask is None or parse_mask >> i & 1:
            ops.append([1])
    ops += [[1]] * final_parses
    return (op, [flat(triples), list(segs)] + ops)


def cut_every(stream, k):
    return chunks_of(stream, list(range(k, len(stream), k)))


def random_cuts(rng, n, k):
    return sorted(rng.sample(range(1, n), min(k, n - 1))) if n > 1 else []


def length_case(rng, n, variant, ids):
    """one history around a packet of total length n (7 <= n <= 65542), by variant number"""
    m = 7 + (n * 7) % 13
    fill = FILLS[(n // 7) % len(FILLS)]
    t = ids[n % len(ids)]
    big = make_packet(rng, t, n, fill=fill)
    small = make_packet(rng, ids[0], m)
    v = variant % 8
    if v == 0:        # everything in one chunk
        return hist(ids, [n, m], [big + small], final_parses=0)
    if v == 1:        # cut inside the primary header
        return hist(ids, [n, m], chunks_of(big + small, [1 + (n // 8) % 6]), final_parses=0)
    if v == 2:        # the last octet arrives later
        return hist(ids, [n, m], chunks_of(big + small, [n - 1]), final_parses=0)
    if v == 3:        # cut exactly at the packet boundary and inside the next header
        return hist(ids, [n, m], chunks_of(big + small, [n, n + 3]), final_parses=0, as_bytes=2)
    if v == 4:        # junk in front, one random cut
        j = 1 + n % 5
        st = make_stream(rng, ids, [-j]) + big + small
        if not clean(st, [-j, n, m], {raw_id(*x) for x in ids}):
            st, j = big + small, 0
        segs = ([-j] if j else []) + [n, m]
        return hist(ids, segs, chunks_of(st, random_cuts(rng, len(st), 1)))
    if v == 5:        # the small packet first, then the big one in 256-octet reads, parse at the end only
        return hist(ids, [m, n], cut_every(small + big, 256), parse_mask=0, final_parses=2, op=902)
    if v == 6:        # the big packet twice (same length, different data), two random cuts
        big2 = make_packet(rng, t, n, fill=None)
        return hist(ids, [n, n, m], chunks_of(big + big2 + small, random_cuts(rng, 2 * n + m, 2)))
    # the big packet complete, followed by the first 1..6 octets of the next one, completed later
    k = 1 + n % 6
    return hist(ids, [n, m], chunks_of(big + small, [n + k]), as_bytes=1)


def backlog_case(rng, ids, sizes, chunking, tail=True):
    """packets of the given total lengths queued in chunks BEFORE the first parse call; then a second
    parse, one more packet and a last parse.  chunking: ('every', k) | ('cuts', k) | ('prefix', share, k)"""
    st = []
    for n in sizes:
        st += make_packet(rng, rng.choice(ids), n, fill=rng.choice(FILLS))
    segs = list(sizes)
    if chunking[0] == "every":
        ops = [[0] + c for c in cut_every(st, chunking[1])]
    elif chunking[0] == "cuts":
        ops = [[0] + c for c in chunks_of(st, random_cuts(rng, len(st), chunking[1]))]
    else:                             # a share of the stream in reads of k octets, parse, the rest, parse
        cut = int(len(st) * chunking[1])
        ops = [[0] + c for c in cut_every(st[:cut], chunking[2])] + [[1]] + [[0] + c for c in cut_every(st[cut:], chunking[2])]
    ops += [[1], [1]]
    if tail:
        last = make_packet(rng, ids[0], 7 + rng.randrange(40))
        segs.append(len(last))
        ops += [[0] + last[:3], [0] + last[3:], [1]]
    return (902, [flat(ids), segs] + ops)


def sizes_for(rng, total, lo, hi):
    """packet lengths in lo..hi adding up to exactly total (total >= 7)"""
    out, left = [], total
    while left > 0:
        n = rng.randrange(lo, hi + 1)
        if left - n < 7:
            n = left
        if n > 65542:
            n = left - 7 if left - 7 <= 65542 and left - 7 >= 7 else 65542
        out.append(n)
        left -= n
    return out


IDS1 = [(0, 1, 3)]
IDS3 = [(0, 1, 3), (1, 1, 0x7FF), (0, 0, 0)]


def streams(tier, rng):
    big = tier == "thorough"
    # 1. every fragmentation (all 2^(n-1) cut sets), parse after every append
    layouts = [([7, 9], IDS1), ([16], IDS1), ([8, 8], IDS3), ([-1, 7, 8], IDS1), ([7, -2, 7], IDS3), ([7, 7, -2], IDS1),
               ([-3, 13], IDS3), ([9, -7], IDS1), ([7], IDS1), ([-5], IDS1), ([7, 7], IDS3), ([-2, 7, -1], IDS1)]
    cases, sampled = [], []
    for k, (segs, ids) in enumerate(layouts):
        st = make_stream(rng, ids, segs)
        n = len(st)
        full = big or k < 1 or n <= 12
        for m in range(1 << (n - 1)):
            if not full and m % 8 != 0 and m < (1 << (n - 1)) - 64:
                continue
            cuts = [i + 1 for i in range(n - 1) if m >> i & 1]
            (cases if full else sampled).append(hist(ids, segs, chunks_of(st, cuts), final_parses=0))
    yield "exh_fragmentations_len_le16", "exact", cases
    if sampled:     # quick tier: the longer layouts are enumerated completely only in the thorough tier
        yield "sampled_fragmentations_len_13_16", "exact", sampled
    # 1b. every fragmentation x every subset of parse points, short streams
    cases = []
    for segs, ids in [([7], IDS1), ([8], IDS3), ([-1, 7], IDS1), ([7, -1], IDS1)] + ([([9], IDS1), ([-2, 7], IDS3)] if big else []):
        st = make_stream(rng, ids, segs)
        n = len(st)
        for m in range(1 << (n - 1)):
            cuts = [i + 1 for i in range(n - 1) if m >> i & 1]
            ch = chunks_of(st, cuts)
            for pm in range(1 << len(ch)):
                cases.append(hist(ids, segs, ch, parse_mask=pm, final_parses=1))
    yield "exh_fragmentations_x_parse_points", "exact", cases
    # 2. all single and double cuts of streams of 3-5 packets with junk
    cases = []
    for r in range(6 if big else 2):
        for segs in [[12, -3, 7, 20], [-2, 7, 7, -1, 9, 15], [10, 8, -6, 7, 11, -2, 7], [7, -7, 7, -6, 7], [9, 30, -1, 8, 7, -4]]:
            ids = IDS3 if (r + len(segs)) % 2 else IDS1
            st = make_stream(rng, ids, segs)
            n = len(st)
            for c in range(1, n):
                cases.append(hist(ids, segs, chunks_of(st, [c])))
            for c1, c2 in itertools.combinations(range(1, n), 2):
                if big or r == 0 or (c1 * 7 + c2) % 3 == 0:
                    cases.append(hist(ids, segs, chunks_of(st, [c1, c2])))
    yield "single_double_cuts", "exact", cases
    # 3. random streams, random cuts, random interleavings of append / parse (repeated parses,
    #    parses on an empty queue, empty chunks)
    cases = []
    for _ in range(40000 if big else 6000):
        ids = rng.choice([IDS1, IDS3, [(rng.randrange(2), rng.randrange(2), rng.randrange(2048)) for _ in range(rng.randrange(1, 4))]])
        segs = []
        for _ in range(rng.randrange(1, 7)):
            if rng.random() < 0.3:
                segs.append(-rng.randrange(1, 10))
            segs.append(rng.choice([7, 7, 8, 9, 12, 13, rng.randrange(7, 60)]))
        if rng.random() < 0.3:
            segs.append(-rng.randrange(1, 10))
        st = make_stream(rng, ids, segs, fills=True)
        n = len(st)
        ncut = rng.choice([0, 1, 2, 3, rng.randrange(0, n), n - 1])
        cuts = sorted(rng.sample(range(1, n), min(ncut, n - 1)))
        ops = []
        for c in chunks_of(st, cuts):
            while rng.random() < 0.15:
                ops.append([1])
            if rng.random() < 0.05:
                ops.append([rng.choice([0, 3])])
            ops.append([0 if rng.random() < 0.8 else 3] + c)
            if rng.random() < 0.6:
                ops.append([1])
        ops.append([1])
        cases.append((900, [flat(ids), segs] + ops))
    yield "random_interleavings", "exact", cases
    # 4. arbitrary octets (false synchronisation allowed), changing id sets between calls, odd
    #    length fields, direct calls on given queues
    cases = []
    for _ in range(20000 if big else 4000):
        ids = rng.choice([IDS1, IDS3, []])
        raws = [raw_id(*t) for t in ids] or [0]
        st = []
        for _ in range(rng.randrange(0, 5)):
            k = rng.random()
            if k < 0.4:
                st += make_packet(rng, rng.choice(ids or IDS1), rng.randrange(7, 24))
            elif k < 0.6:   # registered id, length field pointing far beyond / exactly to the end
                r = rng.choice(raws)
                st += [r >> 8, r & 255, rng.randrange(256), rng.randrange(256), rng.choice([0, 0, 0xFF, rng.randrange(256)]), rng.randrange(24)] + [rng.randrange(256) for _ in range(rng.randrange(0, 12))]
            else:
                st += [rng.choice([0, 8, 0x18, 3, 0xFF, rng.randrange(256)]) for _ in range(rng.randrange(0, 12))]
        n = len(st)
        cuts = sorted(rng.sample(range(1, n), min(rng.randrange(0, 4), n - 1))) if n > 1 else []
        ops = []
        vary = rng.random() < 0.3
        for c in chunks_of(st, cuts) if n else [[]]:
            ops.append([0] + c)
            if rng.random() < 0.7:
                ops.append([2] + flat(rng.choice([IDS1, IDS3, []])) if vary else [1])
        ops.append([1])
        cases.append((900, [flat(ids), []] + ops))
    for ln in range(0, 16):
        for _ in range(40):
            b = [rng.choice([8, 3, 0, rng.randrange(256)]) for _ in range(ln)]
            cases.append((901, [flat(IDS1), [0] + b]))
            k = rng.randrange(0, ln + 1)
            cases.append((901, [flat(IDS3), [0] + b[:k], [0] + b[k:]]))
    cases.append((901, [flat(IDS1)]))
    cases.append((901, [flat(IDS1), [0]]))
    cases.append((901, [flat(IDS1), [0], [0]]))
    cases.append((901, [[], [0, 8, 3, 0, 0, 0, 0, 0]]))
    yield "arbitrary_octets_and_queues", "exact", cases
    # 5. size sweep of the packet length: EVERY total length 7..1100 (thorough: ..4200) as one chunk, and
    #    once more in a variant rotating with the length (cut in the header / before the last octet / at the
    #    boundary, junk in front, 256-octet reads queued before the first parse, twice the same length,
    #    partial next header); data fields of constant octets and of header look-alikes
    cases = []
    for n in range(7, 4201 if big else 1101):
        ids = IDS3 if n % 3 == 0 else IDS1
        cases.append(length_case(rng, n, 0, ids))
        cases.append(length_case(rng, n, 1 + n % 7, ids))
    yield "packet_length_sweep", "exact", cases
    # 6. lengths within +-8 of every multiple of 256 up to 4 KiB, around 8/16/32/64 KiB and the largest
    #    packet there is (length field 0xFFFF: 65542 octets); thorough: around every multiple of 1 KiB
    cases = []
    for m in ([] if big else range(1280, 4097, 256)):      # thorough: covered by the sweep above
        for d in range(-8, 9):
            cases.append(length_case(rng, m + d, (m // 256 + d) % 8, IDS1 if d % 2 else IDS3))
    for m in (list(range(5120, 65537, 1024)) if big else list(range(8192, 65537, 4096))):
        pow2 = m & (m - 1) == 0
        for k, d in enumerate((-8, -7, -1, 0, 1, 6, 7, 8) if big else (-1, 0, 1, 6) if pow2 else (0, 1 if m % 8192 else -1)):
            if m + d <= 65542:
                cases.append(length_case(rng, m + d, (0, 2, 5, 7, 1, 3)[(k + m // 1024) % 6], IDS1))
    for n, v in ((65541, 0), (65542, 2), (65535, 5), (65542, 5), (65530, 7)):
        cases.append(length_case(rng, n, v, IDS3))
    for k in range(200 if big else 12):                      # random lengths above 4 KiB
        cases.append(length_case(rng, rng.randrange(4097, 65543), k, IDS1))
    yield "packet_length_boundaries_to_64k", "exact", cases
    # 7. backlogs: many chunks queued before the first parse call (1 KiB .. 1 MiB, thorough .. 2 MiB):
    #    reads of a fixed size, one-octet reads, a few random cuts, a parse in the middle; totals at and
    #    around 64 KiB + 6 (the largest packet) and other powers of two
    cases = []
    for total in [1024, 2048, 4096, 8192, 16384, 32768]:
        for r in range(3 if big else 1):
            sz = sizes_for(rng, total + rng.randrange(-8, 9), 60, 1100)
            cases.append(backlog_case(rng, IDS3, sz, ("every", 512 if total <= 8192 else 4096)))
            cases.append(backlog_case(rng, IDS1, sz, ("cuts", 1 + r)))
            cases.append(backlog_case(rng, IDS1, sz, ("prefix", 0.6, 1000)))
            if total <= 4096:
                cases.append(backlog_case(rng, IDS1, sz, ("every", 1)))
                cases.append(backlog_case(rng, IDS3, sz, ("every", 3)))
    for k, total in enumerate([65535, 65536, 65537, 65541, 65542, 65543, 65549, 65550, 66000]):
        sz = sizes_for(rng, total, 3000, 9000)
        cases.append(backlog_case(rng, IDS1, sz, [("cuts", 1), ("every", 4096), ("cuts", 5)][k % 3], tail=k % 2 == 0))
    cases.append(backlog_case(rng, IDS1, [1000] * 100, ("every", 4096)))
    cases.append(backlog_case(rng, IDS3, sizes_for(rng, 131072 + rng.randrange(4096), 4000, 20000), ("cuts", 3)))
    cases.append(backlog_case(rng, IDS1, sizes_for(rng, 262144, 65542, 65542), ("every", 65536)))
    if BIG_STACK:
        cases.append(backlog_case(rng, IDS1, sizes_for(rng, 1048576 + 4096 + rng.randrange(100), 50000, 65542), ("every", 65536), tail=False))
    if big:
        for total in (300000, 524288, 1048576, 2097152) if BIG_STACK else (300000, 400000):
            cases.append(backlog_case(rng, IDS1, sizes_for(rng, total + rng.randrange(100), 30000, 65542), ("every", 8192)))
            cases.append(backlog_case(rng, IDS3, sizes_for(rng, total // 2, 500, 65542), ("cuts", 7)))
        for _ in range(40):
            total = rng.choice([65542, 70000, 100000, 131072]) + rng.randrange(-10, 11)
            cases.append(backlog_case(rng, IDS3, sizes_for(rng, total, 200, 30000), rng.choice([("every", rng.randrange(1000, 9000)), ("cuts", rng.randrange(1, 9)), ("prefix", rng.random(), 4096)])))
    yield "backlog_before_first_parse", "exact", cases
    # 8. dependence on the NUMBER of earlier calls: one queue, thousands of parser calls (every packet in one to three
    #    chunks, a parse after every chunk, junk now and then), compared call by call with the model and with the
    #    generator's ground truth (the one-parse Spec comparison is quadratic in the stream length and left out here)
    cases = []
    for n_pk, ids in ((30000, IDS3), (20000, IDS1)) if big else ((8000, IDS3), (5000, IDS1)):
        ops, segs = [], []
        raws = {raw_id(*t) for t in ids}
        for j in range(n_pk):
            pk = make_packet(rng, ids[j % len(ids)], 7 + (j * 5) % 11, fill=FILLS[j % len(FILLS)])
            if j % 401 == 400:      # junk in front of this packet (no window starting in it may look like a registered id)
                for _ in range(50):
                    junk = [rng.choice([0, 0xFF, rng.randrange(256)]) for _ in range(1 + j % 5)]
                    if clean(junk + pk[:1], [-len(junk)], raws):
                        segs.append(-len(junk))
                        ops += [[0] + junk, [1]]
                        break
            segs.append(len(pk))
            for c in chunks_of(pk, random_cuts(rng, len(pk), j % 3)):
                ops += [[0 if j % 7 else 3] + c, [1]]
        cases.append((902, [flat(ids), segs] + ops + [[1]]))
    yield "many_calls_one_queue", "exact", cases


# ------------------------------------------------------------------ oracle
def split_obs(ires, nops):
    """[(packets, queue)] per observed operation from the flat observation, and what follows them"""
    out, i = [], 1
    for _ in range(nops):
        npk, nq = ires[i]
        out.append((ires[i + 1:i + 1 + npk], ires[i + 1 + npk:i + 1 + npk + nq]))
        i += 1 + npk + nq
    return out, ires[i:]


def _is_append(o):
    return bool(o) and o[0] in (0, 3)


SPEC_LIMIT = 20000     # longer streams: the ground truth of the generator decides alone


def _const_ids(ops):
    return all(not (o and o[0] == 2) for o in ops)


def oracle_spec(case, ires):
    op, a = case
    if op in (900, 902) and ires[0] == [0] and _const_ids(a[2:]):
        tr = a[0]
        raws = [raw_id(tr[i], tr[i + 1], tr[i + 2]) for i in range(0, len(tr) - 2, 3)]
        stream = [x for o in a[2:] if _is_append(o) for x in o[1:]]
        if len(stream) <= SPEC_LIMIT or not a[1]:
            return [(950, [raws, stream])]
    return []


def oracle(case, ires, sres):
    op, a = case
    if op not in (900, 902):
        return None
    if ires[0][0] == 1:
        return ("C13/parse_space_packets/raises", "parser raised on an octet stream: %s" % (ires,))
    ops = a[2:]
    obs, rest = split_obs(ires, len(ops) if op == 900 else sum(1 for o in ops if not _is_append(o)))
    r = _oracle_history(op, a, ops, obs, sres)
    if r is None and rest != [[0]]:
        return ("C13/parse_space_packets/aliased-buffers",
                "overwriting the chunk objects the caller had appended (consumed by the call) or the packets it was handed "
                "changed the queue or a packet handed out earlier after %s parse call(s): the results share memory" % (rest,))
    return r


def _oracle_history(op, a, ops, obs, sres):
    if op == 902:       # appends are not observed: (no packets, queue unknown)
        it = iter(obs)
        obs = [([], None) if _is_append(o) else next(it) for o in ops]
    if not _const_ids(ops):
        return None
    segs = a[1]
    # ground truth
    bounds, pos = [], 0       # (start, end) of every packet
    for n in segs:
        if n > 0:
            bounds.append((pos, pos + n))
        pos += abs(n)
    stream, returned, appended = [], [], 0
    nb = 0                # number of packets complete in the octets appended so far (bounds are in stream order)
    for o, (pk, q) in zip(ops, obs):
        if _is_append(o):
            stream += o[1:]
            appended = len(stream)
            continue
        qcat = [x for c in q for x in c]
        if segs:
            # (incremental form of: everything returned so far == every packet complete so far)
            n0 = len(returned)
            while nb < len(bounds) and bounds[nb][1] <= appended:
                nb += 1
            if pk != [stream[s:e] for (s, e) in bounds[n0:nb]]:
                return ("C13/parse_space_packets/lost-or-duplicated-packet",
                        "after %d octets: %d packets returned so far, %d complete in the stream (segments %s)" % (appended, n0 + len(pk), nb, segs[:40]))
            e_last = bounds[nb - 1][1] if nb else 0
            s_next = min(bounds[nb][0] if nb < len(bounds) else pos, appended)
            k = appended - len(qcat)
            if qcat != stream[k:appended] or not (e_last <= k <= s_next) or not (k == s_next or appended - k <= 6):
                return ("C13/parse_space_packets/queue-tail",
                        "after %d octets the queue holds %d octets; the incomplete tail starts at %d (last complete packet ends at %d)" % (appended, len(qcat), s_next, e_last))
        returned += pk
    # chunked parsing = one parse over everything (Spec.spec_stream), when the history ends with a parse
    if sres and ops and not _is_append(ops[-1]):
        sp_ = sres[0]
        npk = sp_[1][0]
        spk, srem = sp_[2:2 + npk], sp_[2 + npk]
        qcat = [x for c in obs[-1][1] for x in c]
        if returned != spk:
            return ("C13/parse_space_packets/chunked-differs-from-whole",
                    "chunked calls returned %d packets, one parse over the whole stream gives %d" % (len(returned), npk))
        # the queue must hold the unconsumed remainder; only leading octets that cannot start a
        # registered packet id (junk) may be missing from it
        drop = len(srem) - len(qcat)
        tr = a[0]
        raws = {raw_id(tr[i], tr[i + 1], tr[i + 2]) for i in range(0, len(tr) - 2, 3)}
        if drop < 0 or qcat != srem[drop:] or any(((srem[i] * 256 + srem[i + 1]) & 0x1FFF) in raws for i in range(drop) if i + 1 < len(srem)):
            return ("C13/parse_space_packets/queue-tail", "queue after the last parse holds %d octets, the unconsumed remainder of the stream has %d" % (len(qcat), len(srem)))
    return None


def neighbours(case):
    op, a = case
    out = []
    if op in (900, 902):
        ops = a[2:]
        st = [x for o in ops if _is_append(o) for x in o[1:]]
        if len(ops) <= 40 and len(st) <= 4096:
            for i in range(len(ops)):       # drop one operation / add a parse
                out.append((900, [a[0], []] + ops[:i] + ops[i + 1:] + [[1]]))   # ground truth no longer applies
        cuts = range(1, len(st)) if len(st) <= 64 else sorted({1, 3, 6, 7, len(st) // 2, len(st) - 7, len(st) - 1})
        for c in cuts:
            out.append((op, [a[0], a[1], [0] + st[:c], [1], [0] + st[c:], [1]]))
    return out


def search_cases(broken, rng):
    """when an obligation breaks: the single-cut sweep of a 3-packet stream"""
    st = make_stream(rng, IDS1, [9, 7, 12])
    return [hist(IDS1, [9, 7, 12], chunks_of(st, [c])) for c in range(1, len(st))]


DECODERS = []   # parse_space_packets is a stream scanner, not a unit decoder
