"""C13 — space-packet stream parser under any fragmentation.

One case (op 900) is a whole history:
  a0 = default packet ids as flat (ptype, shf, apid) triples
  a1 = ground truth of the stream for the oracle (ignored by model and implementation):
       segment lengths in stream order, +n = a well-formed registered packet of n octets,
       -n = n octets of junk in which no two-octet window is a registered id; [] = unknown
  a2.. = operations: [0, chunk...] = deque.append(bytearray(chunk)), [1] = parse with the default
       ids, [2, triples...] = parse with those ids.
Observed after every operation: the returned packets and the complete deque contents."""
import itertools
from collections import deque
from spacepackets.ccsds import spacepacket as sp

ID = "C13"
ENUMS = [
    ("spacepackets.ccsds.spacepacket:CCSDS_HEADER_LEN", "SP.Model.SpacePacket.CCSDS_HEADER_LEN"),
    ("spacepackets.ccsds.spacepacket:SPACE_PACKET_HEADER_SIZE", "SP.Model.SpacePacket.CCSDS_HEADER_LEN"),
    ("spacepackets.ccsds.spacepacket:PACKET_ID_MASK", "SP.Model.SpacePacket.PACKET_ID_MASK"),
]
ASSUMPTIONS = [
    "collections.deque append/popleft/clear and bytearray.extend/slicing as modelled (queue = list of octet strings)",
    "the theorems quantify over all octet streams, cut sets and append/parse interleavings; the tie enumerates all "
    "2^(n-1) fragmentations only for short streams and all single/double cuts of longer ones",
]
TRUSTED = []
ORACLE_LIMIT = {"quick": 40000, "thorough": 60000}   # the exhaustive streams are oracle-checked in full in the quick tier


def _ids(tr):
    return [sp.PacketId(sp.PacketType(tr[i]), bool(tr[i + 1]), tr[i + 2]) for i in range(0, len(tr) - 2, 3)]


def _obs(pk, q):
    return [[len(pk), len(q)]] + [list(x) for x in pk] + [list(x) for x in q]


def impl(op, a):
    if op == 900:
        dflt = _ids(a[0])
        q = deque()
        out = []
        for o in a[2:]:
            if o and o[0] == 0:
                q.append(bytearray(o[1:]))
                out += _obs([], q)
            else:
                ids = _ids(o[1:]) if o and o[0] == 2 else dflt
                out += _obs(sp.parse_space_packets(q, ids), q)
        return out
    if op == 901:
        q = deque(bytearray(x[1:]) for x in a[1:])
        return _obs(sp.parse_space_packets(q, _ids(a[0])), q)
    raise RuntimeError("bad op")


# ------------------------------------------------------------------ generators
def raw_id(t, s, ap):
    return t * 4096 + s * 2048 + ap


def make_packet(rng, triple, n, ver=None):
    """a space packet of n >= 7 octets with the given identification"""
    t, s, ap = triple
    v = rng.randrange(8) if ver is None else ver
    w0 = v * 8192 + raw_id(t, s, ap)
    w1 = rng.randrange(65536)
    d = n - 7
    return [w0 >> 8, w0 & 255, w1 >> 8, w1 & 255, d >> 8, d & 255] + [rng.randrange(256) for _ in range(n - 6)]


def clean(stream, segs, raws):
    """no two-octet window starting inside a junk segment carries a registered id"""
    pos = 0
    for n in segs:
        if n < 0:
            for i in range(pos, pos - n):
                if i + 1 < len(stream) and ((stream[i] * 256 + stream[i + 1]) & 0x1FFF) in raws:
                    return False
        pos += abs(n)
    return True


def make_stream(rng, triples, segs):
    """segs: +n packet / -n junk.  Returns the stream (junk resampled until clean)."""
    raws = {raw_id(*t) for t in triples}
    for _ in range(1000):
        st = []
        for n in segs:
            if n > 0:
                st += make_packet(rng, rng.choice(triples), n)
            else:
                st += [rng.choice([0, 0xFF, rng.randrange(256), rng.randrange(256)]) for _ in range(-n)]
        if clean(st, segs, raws):
            return st
    raise RuntimeError("could not build a clean stream")


def flat(triples):
    return [x for t in triples for x in t]


def chunks_of(stream, cuts):
    cuts = [0] + sorted(cuts) + [len(stream)]
    return [stream[cuts[i]:cuts[i + 1]] for i in range(len(cuts) - 1)]


def hist(triples, segs, chunks, parse_mask=None, final_parses=1):
    """append every chunk; parse after chunk i when bit i of parse_mask is set (None = always)"""
    ops = []
    for i, c in enumerate(chunks):
        ops.append([0] + c)
        if parse_mask is None or parse_mask >> i & 1:
            ops.append([1])
    ops += [[1]] * final_parses
    return (900, [flat(triples), list(segs)] + ops)


IDS1 = [(0, 1, 3)]
IDS3 = [(0, 1, 3), (1, 1, 0x7FF), (0, 0, 0)]


def streams(tier, rng):
    big = tier == "thorough"
    # 1. every fragmentation (all 2^(n-1) cut sets), parse after every append
    layouts = [([7, 9], IDS1), ([16], IDS1), ([8, 8], IDS3), ([-1, 7, 8], IDS1), ([7, -2, 7], IDS3), ([7, 7, -2], IDS1),
               ([-3, 13], IDS3), ([9, -7], IDS1), ([7], IDS1), ([-5], IDS1), ([7, 7], IDS3), ([-2, 7, -1], IDS1)]
    cases, sampled = [], []
    for k, (segs, ids) in enumerate(layouts):
        st = make_stream(rng, ids, segs)
        n = len(st)
        full = big or k < 1 or n <= 12
        for m in range(1 << (n - 1)):
            if not full and m % 8 != 0 and m < (1 << (n - 1)) - 64:
                continue
            cuts = [i + 1 for i in range(n - 1) if m >> i & 1]
            (cases if full else sampled).append(hist(ids, segs, chunks_of(st, cuts), final_parses=0))
    yield "exh_fragmentations_len_le16", "exact", cases
    if sampled:     # quick tier: the longer layouts are enumerated completely only in the thorough tier
        yield "sampled_fragmentations_len_13_16", "exact", sampled
    # 1b. every fragmentation x every subset of parse points, short streams
    cases = []
    for segs, ids in [([7], IDS1), ([8], IDS3), ([-1, 7], IDS1), ([7, -1], IDS1)] + ([([9], IDS1), ([-2, 7], IDS3)] if big else []):
        st = make_stream(rng, ids, segs)
        n = len(st)
        for m in range(1 << (n - 1)):
            cuts = [i + 1 for i in range(n - 1) if m >> i & 1]
            ch = chunks_of(st, cuts)
            for pm in range(1 << len(ch)):
                cases.append(hist(ids, segs, ch, parse_mask=pm, final_parses=1))
    yield "exh_fragmentations_x_parse_points", "exact", cases
    # 2. all single and double cuts of streams of 3-5 packets with junk
    cases = []
    for r in range(6 if big else 2):
        for segs in [[12, -3, 7, 20], [-2, 7, 7, -1, 9, 15], [10, 8, -6, 7, 11, -2, 7], [7, -7, 7, -6, 7], [9, 30, -1, 8, 7, -4]]:
            ids = IDS3 if (r + len(segs)) % 2 else IDS1
            st = make_stream(rng, ids, segs)
            n = len(st)
            for c in range(1, n):
                cases.append(hist(ids, segs, chunks_of(st, [c])))
            for c1, c2 in itertools.combinations(range(1, n), 2):
                if big or r == 0 or (c1 * 7 + c2) % 3 == 0:
                    cases.append(hist(ids, segs, chunks_of(st, [c1, c2])))
    yield "single_double_cuts", "exact", cases
    # 3. random streams, random cuts, random interleavings of append / parse (repeated parses,
    #    parses on an empty queue, empty chunks)
    cases = []
    for _ in range(40000 if big else 6000):
        ids = rng.choice([IDS1, IDS3, [(rng.randrange(2), rng.randrange(2), rng.randrange(2048)) for _ in range(rng.randrange(1, 4))]])
        segs = []
        for _ in range(rng.randrange(1, 7)):
            if rng.random() < 0.3:
                segs.append(-rng.randrange(1, 10))
            segs.append(rng.choice([7, 7, 8, 9, 12, 13, rng.randrange(7, 60)]))
        if rng.random() < 0.3:
            segs.append(-rng.randrange(1, 10))
        st = make_stream(rng, ids, segs)
        n = len(st)
        ncut = rng.choice([0, 1, 2, 3, rng.randrange(0, n), n - 1])
        cuts = sorted(rng.sample(range(1, n), min(ncut, n - 1)))
        ops = []
        for c in chunks_of(st, cuts):
            while rng.random() < 0.15:
                ops.append([1])
            if rng.random() < 0.05:
                ops.append([0])
            ops.append([0] + c)
            if rng.random() < 0.6:
                ops.append([1])
        ops.append([1])
        cases.append((900, [flat(ids), segs] + ops))
    yield "random_interleavings", "exact", cases
    # 4. arbitrary octets (false synchronisation allowed), changing id sets between calls, odd
    #    length fields, direct calls on given queues
    cases = []
    for _ in range(20000 if big else 4000):
        ids = rng.choice([IDS1, IDS3, []])
        raws = [raw_id(*t) for t in ids] or [0]
        st = []
        for _ in range(rng.randrange(0, 5)):
            k = rng.random()
            if k < 0.4:
                st += make_packet(rng, rng.choice(ids or IDS1), rng.randrange(7, 24))
            elif k < 0.6:   # registered id, length field pointing far beyond / exactly to the end
                r = rng.choice(raws)
                st += [r >> 8, r & 255, rng.randrange(256), rng.randrange(256), rng.choice([0, 0, 0xFF, rng.randrange(256)]), rng.randrange(24)] + [rng.randrange(256) for _ in range(rng.randrange(0, 12))]
            else:
                st += [rng.choice([0, 8, 0x18, 3, 0xFF, rng.randrange(256)]) for _ in range(rng.randrange(0, 12))]
        n = len(st)
        cuts = sorted(rng.sample(range(1, n), min(rng.randrange(0, 4), n - 1))) if n > 1 else []
        ops = []
        vary = rng.random() < 0.3
        for c in chunks_of(st, cuts) if n else [[]]:
            ops.append([0] + c)
            if rng.random() < 0.7:
                ops.append([2] + flat(rng.choice([IDS1, IDS3, []])) if vary else [1])
        ops.append([1])
        cases.append((900, [flat(ids), []] + ops))
    for ln in range(0, 16):
        for _ in range(40):
            b = [rng.choice([8, 3, 0, rng.randrange(256)]) for _ in range(ln)]
            cases.append((901, [flat(IDS1), [0] + b]))
            k = rng.randrange(0, ln + 1)
            cases.append((901, [flat(IDS3), [0] + b[:k], [0] + b[k:]]))
    cases.append((901, [flat(IDS1)]))
    cases.append((901, [flat(IDS1), [0]]))
    cases.append((901, [flat(IDS1), [0], [0]]))
    cases.append((901, [[], [0, 8, 3, 0, 0, 0, 0, 0]]))
    yield "arbitrary_octets_and_queues", "exact", cases


# ------------------------------------------------------------------ oracle
def split_obs(ires, nops):
    """[(packets, queue)] per operation from the flat observation"""
    out, i = [], 1
    for _ in range(nops):
        npk, nq = ires[i]
        out.append((ires[i + 1:i + 1 + npk], ires[i + 1 + npk:i + 1 + npk + nq]))
        i += 1 + npk + nq
    return out


def _const_ids(ops):
    return all(not (o and o[0] == 2) for o in ops)


def oracle_spec(case, ires):
    op, a = case
    if op == 900 and ires[0] == [0] and _const_ids(a[2:]):
        tr = a[0]
        raws = [raw_id(tr[i], tr[i + 1], tr[i + 2]) for i in range(0, len(tr) - 2, 3)]
        stream = [x for o in a[2:] if o and o[0] == 0 for x in o[1:]]
        return [(950, [raws, stream])]
    return []


def oracle(case, ires, sres):
    op, a = case
    if op != 900:
        return None
    if ires[0][0] == 1:
        return ("C13/parse_space_packets/raises", "parser raised on an octet stream: %s" % (ires,))
    ops = a[2:]
    if not _const_ids(ops):
        return None
    obs = split_obs(ires, len(ops))
    segs = a[1]
    # ground truth
    bounds, pos = [], 0       # (start, end) of every packet
    for n in segs:
        if n > 0:
            bounds.append((pos, pos + n))
        pos += abs(n)
    stream, returned, appended = [], [], 0
    for o, (pk, q) in zip(ops, obs):
        if o and o[0] == 0:
            stream += o[1:]
            appended = len(stream)
            continue
        returned += pk
        qcat = [x for c in q for x in c]
        if segs:
            exp = [stream[s:e] for (s, e) in bounds if e <= appended]
            if returned != exp:
                return ("C13/parse_space_packets/lost-or-duplicated-packet",
                        "after %d octets: %d packets returned so far, %d complete in the stream (segments %s)" % (appended, len(returned), len(exp), segs))
            e_last = max([e for (s, e) in bounds if e <= appended] + [0])
            s_next = min([s for (s, e) in bounds if e > appended] + [pos])
            s_next = min(s_next, appended)
            k = appended - len(qcat)
            if qcat != stream[k:appended] or not (e_last <= k <= s_next) or not (k == s_next or appended - k <= 6):
                return ("C13/parse_space_packets/queue-tail",
                        "after %d octets the queue holds %d octets; the incomplete tail starts at %d (last complete packet ends at %d)" % (appended, len(qcat), s_next, e_last))
    # chunked parsing = one parse over everything (Spec.spec_stream), when the history ends with a parse
    if sres and ops and not (ops[-1] and ops[-1][0] == 0):
        sp_ = sres[0]
        npk = sp_[1][0]
        spk, srem = sp_[2:2 + npk], sp_[2 + npk]
        qcat = [x for c in obs[-1][1] for x in c]
        if returned != spk:
            return ("C13/parse_space_packets/chunked-differs-from-whole",
                    "chunked calls returned %d packets, one parse over the whole stream gives %d" % (len(returned), npk))
        # the queue must hold the unconsumed remainder; only leading octets that cannot start a
        # registered packet id (junk) may be missing from it
        drop = len(srem) - len(qcat)
        tr = a[0]
        raws = {raw_id(tr[i], tr[i + 1], tr[i + 2]) for i in range(0, len(tr) - 2, 3)}
        if drop < 0 or qcat != srem[drop:] or any(((srem[i] * 256 + srem[i + 1]) & 0x1FFF) in raws for i in range(drop) if i + 1 < len(srem)):
            return ("C13/parse_space_packets/queue-tail", "queue after the last parse holds %d octets, the unconsumed remainder of the stream has %d" % (len(qcat), len(srem)))
    return None


def neighbours(case):
    op, a = case
    out = []
    if op == 900:
        ops = a[2:]
        for i in range(len(ops)):       # drop one operation / add a parse
            out.append((900, [a[0], []] + ops[:i] + ops[i + 1:] + [[1]]))   # ground truth no longer applies
        st = [x for o in ops if o and o[0] == 0 for x in o[1:]]
        for c in range(1, len(st)):
            out.append((900, [a[0], a[1], [0] + st[:c], [1], [0] + st[c:], [1]]))
    return out


def search_cases(broken, rng):
    """when an obligation breaks: the single-cut sweep of a 3-packet stream"""
    st = make_stream(rng, IDS1, [9, 7, 12])
    return [hist(IDS1, [9, 7, 12], chunks_of(st, [c])) for c in range(1, len(st))]


DECODERS = []   # parse_space_packets is a stream scanner, not a unit decoder
