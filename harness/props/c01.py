"""C01 — space packet primary header.  Streams, implementation adapter, oracle."""
import itertools
from spacepackets.ccsds import spacepacket as sp

ID = "C01"
ENUMS = [
    ("spacepackets.ccsds.spacepacket:CCSDS_HEADER_LEN", "SP.Model.SpacePacket.CCSDS_HEADER_LEN"),
    ("spacepackets.ccsds.spacepacket:SPACE_PACKET_HEADER_SIZE", "SP.Model.SpacePacket.CCSDS_HEADER_LEN"),
    ("spacepackets.ccsds.spacepacket:SEQ_FLAG_MASK", "SP.Model.SpacePacket.SEQ_FLAG_MASK"),
    ("spacepackets.ccsds.spacepacket:APID_MASK", "SP.Model.SpacePacket.APID_MASK"),
    ("spacepackets.ccsds.spacepacket:PACKET_ID_MASK", "SP.Model.SpacePacket.PACKET_ID_MASK"),
    ("spacepackets.ccsds.spacepacket:MAX_SEQ_COUNT", "SP.Model.SpacePacket.MAX_SEQ_COUNT"),
    ("spacepackets.ccsds.spacepacket:MAX_APID", "SP.Model.SpacePacket.MAX_APID"),
    ("spacepackets.ccsds.spacepacket:PacketType.TM", "SP.Model.SpacePacket.PT_TM"),
    ("spacepackets.ccsds.spacepacket:PacketType.TC", "SP.Model.SpacePacket.PT_TC"),
    ("spacepackets.ccsds.spacepacket:SequenceFlags.CONTINUATION_SEGMENT", "SP.Model.SpacePacket.SF_CONT"),
    ("spacepackets.ccsds.spacepacket:SequenceFlags.FIRST_SEGMENT", "SP.Model.SpacePacket.SF_FIRST"),
    ("spacepackets.ccsds.spacepacket:SequenceFlags.LAST_SEGMENT", "SP.Model.SpacePacket.SF_LAST"),
    ("spacepackets.ccsds.spacepacket:SequenceFlags.UNSEGMENTED", "SP.Model.SpacePacket.SF_UNSEG"),
]
ASSUMPTIONS = [
    "CPython int / bytes / struct / IntEnum semantics as modelled in Base/Bytes.v",
    "independence of the three 16-bit header words is a theorem of the model; on the implementation each word's "
    "domain is enumerated completely and the combination is sampled (2^48 cannot be enumerated)",
]
TRUSTED = []


def _ptype(t):
    return sp.PacketType(t) if t in (0, 1) else t


def _flags(f):
    return sp.SequenceFlags(f) if f in (0, 1, 2, 3) else f


def _hdr(l):
    t, a, c, d, s, f, v = l
    return sp.SpacePacketHeader(packet_type=_ptype(t), apid=a, seq_count=c, data_len=d,
                                sec_header_flag=bool(s) if s in (0, 1) else s, seq_flags=_flags(f), ccsds_version=v)


def _fields(h):
    return [h.ccsds_version, int(h.packet_type), int(h.sec_header_flag), h.apid, int(h.seq_flags), h.seq_count, h.data_len]


def impl(op, a):
    if op == 100:
        h = _hdr(a[0]); return [_fields(h), [h.packet_len]]
    if op == 101:
        return [list(_hdr(a[0]).pack())]
    if op == 102:
        h = sp.SpacePacketHeader.unpack(bytes(a[0])); return [_fields(h), [h.packet_len]]
    if op == 103:
        t, s, ap = a[0]; return [[sp.PacketId(_ptype(t), bool(s) if s in (0, 1) else s, ap).raw()]]
    if op == 104:
        p = sp.PacketId.from_raw(a[0][0]); return [[int(p.ptype), int(p.sec_header_flag), p.apid]]
    if op == 105:
        f, c = a[0]; return [[sp.PacketSeqCtrl(_flags(f), c).raw()]]
    if op == 106:
        p = sp.PacketSeqCtrl.from_raw(a[0][0]); return [[int(p.seq_flags), p.seq_count]]
    if op == 107:
        t, s, ap, v = a[0]; b1, b2 = sp.get_space_packet_id_bytes(_ptype(t), bool(s) if s in (0, 1) else s, ap, v); return [[b1, b2]]
    if op == 108:
        t, s, ap = a[0]; return [[sp.get_sp_packet_id_raw(_ptype(t), bool(s) if s in (0, 1) else s, ap)]]
    if op == 109:
        f, c = a[0]; return [[sp.get_sp_psc_raw(_flags(f), c)]]
    if op == 110:
        return [[sp.get_apid_from_raw_space_packet(bytes(a[0]))]]
    if op == 111:
        return [[sp.get_total_space_packet_len_from_len_field(a[0][0])]]
    if op == 112:
        h = _hdr(a[0])
        sec = bytes(a[1][1:]) if a[1] and a[1][0] else None
        ud = bytes(a[2][1:]) if a[2] and a[2][0] else None
        return [list(sp.SpacePacket(h, sec, ud).pack())]
    if op == 113:
        return [list(sp.SpacePacketHeader.unpack(bytes(a[0])).pack())]
    raise RuntimeError("bad op")


def layout(v, t, s, ap, f, c, d):
    """CCSDS 133.0-B-2 4.1.3, arithmetic only (second, independent transcription used by the
    oracle; the Coq Spec.sph_layout is evaluated too via op 150)."""
    return [v * 32 + t * 16 + s * 8 + ap // 256, ap % 256, f * 64 + c // 256, c % 256, d // 256, d % 256]


BND = {
    "apid": [0, 1, 2, 1023, 1024, 2046, 2047] + [1 << i for i in range(11)],
    "count": [0, 1, 8191, 8192, 16382, 16383] + [1 << i for i in range(14)],
    "dlen": [0, 1, 255, 256, 32767, 32768, 65534, 65535] + [1 << i for i in range(16)],
    "bad": [-1, -2 ** 63, 2 ** 64, 2 ** 16, 2 ** 16 + 1],
}


def streams(tier, rng):
    big = tier == "thorough"
    # 1. exhaustive per 16-bit word through unpack (fields) and unpack->pack
    for wi in range(3):
        base = [rng.randrange(256) for _ in range(6)]
        cases = []
        for w in range(65536):
            b = list(base); b[2 * wi] = w >> 8; b[2 * wi + 1] = w & 0xFF
            cases.append((102, [b + [0x55]]))
            if big or w % 3 == 0 or w < 64 or w > 65472:
                cases.append((113, [b]))
        yield "exh_word%d_unpack" % wi, "exact", cases
    # 2. exhaustive packet-id / psc words
    cases = []
    for raw in range(8192):
        cases.append((104, [[raw]]))
        cases.append((103, [[raw >> 12 & 1, raw >> 11 & 1, raw & 0x7FF]]))
        cases.append((108, [[raw >> 12 & 1, raw >> 11 & 1, raw & 0x7FF]]))
    for raw in [8192, 8193, 65535, 65536, 2 ** 32 + 5, -1, -4096, 2 ** 64 + 4095]:
        cases.append((104, [[raw]]))
    yield "exh_packet_id", "exact", cases
    cases = []
    for raw in range(65536):
        cases.append((106, [[raw]]))
        if big or raw % 2 == 0 or raw > 65500:
            cases.append((105, [[raw >> 14, raw & 0x3FFF]]))
    for raw in [65536, 65537, 2 ** 16 + 16383, 2 ** 32, -1, -16384, 2 ** 64, -(2 ** 63)]:
        cases.append((106, [[raw]]))
    yield "exh_seq_ctrl", "exact", cases
    # 3. constructor boundaries (accept / refuse), pairwise
    cases = []
    aps = BND["apid"] + BND["bad"] + [2048, 2049]
    cts = BND["count"] + BND["bad"] + [16384, 16385]
    dls = BND["dlen"] + BND["bad"]
    for ap, c in itertools.product(aps, cts):
        cases.append((100, [[rng.randrange(2), ap, c, rng.choice(BND["dlen"]), rng.randrange(2), rng.randrange(4), rng.randrange(8)]]))
    for ap, d in itertools.product(aps, dls):
        cases.append((100, [[rng.randrange(2), ap, rng.choice(BND["count"]), d, rng.randrange(2), rng.randrange(4), rng.randrange(8)]]))
    for c, d in itertools.product(cts, dls):
        cases.append((101, [[rng.randrange(2), rng.choice(BND["apid"]), c, d, rng.randrange(2), rng.randrange(4), rng.randrange(8)]]))
    for v in [8, 9, 255, -1]:   # version is not validated by the constructor: pack fails (struct.error) in both
        cases.append((101, [[0, 1, 1, 1, 0, 3, v]]))
    for ap, c in itertools.product(aps, cts):
        cases.append((103, [[1, 1, ap]])); cases.append((105, [[3, c]]))
        cases.append((108, [[0, 1, ap]])); cases.append((109, [[2, c]]))
    yield "ctor_boundaries", "exact", cases
    # 4. random full headers: pack, and all pairwise boundary combinations
    n = 100000 if big else 15000
    cases = []
    for _ in range(n):
        cases.append((101, [[rng.randrange(2), rng.randrange(2048), rng.randrange(16384), rng.randrange(65536),
                             rng.randrange(2), rng.randrange(4), rng.randrange(8)]]))
    for ap, c, d in itertools.product(BND["apid"][:9], BND["count"][:8], BND["dlen"][:8]):
        for v in (0, 7):
            cases.append((101, [[rng.randrange(2), ap, c, d, rng.randrange(2), rng.randrange(4), v]]))
    yield "random_headers_pack", "exact", cases
    # 5. helpers and SpacePacket.pack
    cases = []
    for _ in range(20000 if big else 4000):
        t, s, ap, v = rng.randrange(2), rng.randrange(2), rng.randrange(2048), rng.randrange(8)
        cases.append((107, [[t, s, ap, v]]))
    for w in range(0, 65536, 1 if big else 5):
        cases.append((107, [[w >> 12 & 1, w >> 11 & 1, w & 0x7FF, w >> 13]]))
    for ln in list(range(0, 12)) + [64]:
        for _ in range(20):
            cases.append((110, [[rng.randrange(256) for _ in range(ln)]]))
    for lf in BND["dlen"]:
        cases.append((111, [[lf]]))
    for _ in range(3000 if big else 600):
        h = [rng.randrange(2), rng.randrange(2048), rng.randrange(16384), rng.randrange(65536), rng.randrange(2), rng.randrange(4), rng.randrange(8)]
        sec = [rng.randrange(2)] ; sec += [rng.randrange(256) for _ in range(rng.randrange(6))] if sec[0] else []
        ud = [rng.randrange(2)] ; ud += [rng.randrange(256) for _ in range(rng.randrange(9))] if ud[0] else []
        cases.append((112, [h, sec, ud]))
    yield "helpers_and_space_packet", "exact", cases
    # 6. unpack of short and random inputs
    cases = []
    for ln in range(0, 9):
        for _ in range(50):
            cases.append((102, [[rng.randrange(256) for _ in range(ln)]]))
    for _ in range(20000 if big else 3000):
        cases.append((102, [[rng.randrange(256) for _ in range(rng.randrange(6, 20))]]))
    yield "unpack_random", "exact", cases


def in_range(l):
    t, a, c, d, s, f, v = l
    return 0 <= a <= 2047 and 0 <= c <= 16383 and 0 <= d <= 65535


def oracle_spec(case, ires):
    op, a = case
    if op == 101 and in_range(a[0]) and 0 <= a[0][6] < 8:
        t, ap, c, d, s, f, v = a[0]
        return [(150, [[v, t, s, ap, f, c, d]])]
    if op == 102 and ires[0] == [0]:
        return [(150, [ires[1]])]
    return []


def oracle(case, ires, sres):
    """The property itself, evaluated on the implementation's observable behaviour."""
    op, a = case
    err = ires[0][0] == 1
    code = ires[0][1] if err else None
    if op in (100, 101):
        t, ap, c, d, s, f, v = a[0]
        if not in_range(a[0]):
            if not err or code not in (1, 2, 3):
                return ("C01/SpacePacketHeader.__init__/range", "out-of-range field accepted or wrong error: args=%s -> %s" % (a[0], ires))
            return None
        if op == 100:
            if err:
                return ("C01/SpacePacketHeader.__init__/refuses-valid", "valid fields refused: %s" % (a[0],))
            if ires[1] != [v, t, s, ap, f, c, d] or ires[2] != [d + 7]:
                return ("C01/SpacePacketHeader/fields", "fields or packet_len wrong: %s -> %s" % (a[0], ires))
            return None
        if 0 <= v < 8:
            exp = layout(v, t, s, ap, f, c, d)
            if err or ires[1] != exp or (sres and sres[0][1] != exp):
                return ("C01/SpacePacketHeader.pack/layout", "pack%s = %s, standard says %s" % (tuple(a[0]), ires, exp))
        return None
    if op == 102:
        b = a[0]
        if len(b) < 6:
            if not err or code not in (1, 2, 3):
                return ("C01/SpacePacketHeader.unpack/short", "short input not refused with ValueError: %s" % ires)
            return None
        if err:
            return ("C01/SpacePacketHeader.unpack/refuses", ">= 6 octets refused: %s -> %s" % (b[:6], ires))
        v, t, s, ap, f, c, d = ires[1]
        if layout(v, t, s, ap, f, c, d) != b[:6] or sres[0][1] != b[:6] or not (0 <= v < 8 and t in (0, 1) and s in (0, 1) and 0 <= ap < 2048 and 0 <= f < 4 and 0 <= c < 16384 and 0 <= d < 65536):
            return ("C01/SpacePacketHeader.unpack/fields", "decoded fields %s do not encode to %s" % (ires[1], b[:6]))
        if ires[2] != [d + 7]:
            return ("C01/SpacePacketHeader.packet_len", "packet_len %s for data length %d" % (ires[2], d))
        return None
    if op == 113:
        b = a[0]
        if len(b) >= 6 and (err or ires[1] != b[:6]):
            return ("C01/SpacePacketHeader.unpack-pack/roundtrip", "encode(decode(%s)) = %s" % (b[:6], ires))
        return None
    if op in (103, 108):
        t, s, ap = a[0]
        if 0 <= ap <= 2047:
            if err or ires[1] != [t * 4096 + s * 2048 + ap]:
                return ("C01/PacketId.raw/bits", "raw(%s) = %s" % (a[0], ires))
        elif not err or code not in (1, 2, 3):
            return ("C01/PacketId.__init__/range", "APID %d not refused: %s" % (ap, ires))
        return None
    if op == 104:
        raw = a[0][0]
        if 0 <= raw < 8192 and (err or ires[1] != [raw // 4096, raw // 2048 % 2, raw % 2048]):
            return ("C01/PacketId.from_raw/bits", "from_raw(%d) = %s" % (raw, ires))
        return None
    if op in (105, 109):
        f, c = a[0]
        if 0 <= c <= 16383:
            if err or ires[1] != [f * 16384 + c]:
                return ("C01/PacketSeqCtrl.raw/bits", "raw(%s) = %s" % (a[0], ires))
        elif not err or code not in (1, 2, 3):
            return ("C01/PacketSeqCtrl.__init__/range", "count %d not refused: %s" % (c, ires))
        return None
    if op == 106:
        raw = a[0][0]
        if 0 <= raw < 65536:
            if err or ires[1] != [raw // 16384, raw % 16384]:
                return ("C01/PacketSeqCtrl.from_raw/bits", "from_raw(%d) = %s" % (raw, ires))
        return None
    if op == 107:
        t, s, ap, v = a[0]
        if 0 <= ap < 2048 and 0 <= v < 8 and ires[1] != layout(v, t, s, ap, 0, 0, 0)[:2]:
            return ("C01/get_space_packet_id_bytes", "%s -> %s" % (a[0], ires))
        return None
    if op == 110:
        b = a[0]
        if len(b) >= 6 and (err or ires[1] != [(b[0] % 8) * 256 + b[1]]):
            return ("C01/get_apid_from_raw_space_packet", "%s -> %s" % (b[:6], ires))
        if len(b) < 6 and (not err or code not in (1, 2, 3)):
            return ("C01/get_apid_from_raw_space_packet/short", "%s -> %s" % (b, ires))
        return None
    if op == 111:
        if ires[1] != [a[0][0] + 7]:
            return ("C01/total_len", "%s -> %s" % (a[0], ires))
        return None
    if op == 112:
        h, sec, ud = a
        t, ap, c, d, s, f, v = h
        hb = layout(v, t, s, ap, f, c, d)
        secb = sec[1:] if sec and sec[0] else None
        udb = ud[1:] if ud and ud[0] else None
        if s:
            exp = None if secb is None else hb + secb + (udb or [])
        else:
            exp = None if udb is None else hb + udb
        if exp is None:
            if not err or code not in (1, 2, 3):
                return ("C01/SpacePacket.pack/mandatory", "missing mandatory part accepted: %s" % (ires,))
        elif err or ires[1] != exp:
            return ("C01/SpacePacket.pack/layout", "%s -> %s expected %s" % (a, ires, exp))
        return None
    return None


def neighbours(case):
    op, a = case
    out = []
    if op in (100, 101):
        for i in range(7):
            for dlt in (-1, 1):
                l = list(a[0]); l[i] += dlt; out.append((op, [l]))
    if op in (102, 113):
        for i in range(min(6, len(a[0]))):
            for bit in range(8):
                l = list(a[0]); l[i] ^= 1 << bit; out.append((op, [l]))
    if op in (103, 104, 105, 106, 108, 109):
        for i in range(len(a[0])):
            for dlt in (-1, 1):
                l = list(a[0]); l[i] += dlt; out.append((op, [l]))
    return out


# ---- registry used by the cross-cutting checks C09 (no over-read) and C10 (total decoding).
# Each entry: decode op taking args [data] + extra; `valid(rng)` yields packed valid units;
# `declared_len(data)` is the length the unit declares (None when not self-delimiting).
def _valid_headers(rng):
    out = []
    for _ in range(40):
        out.append(layout(rng.randrange(8), rng.randrange(2), rng.randrange(2), rng.randrange(2048),
                          rng.randrange(4), rng.randrange(16384), rng.randrange(65536)))
    return out


DECODERS = [
    {"op": 102, "name": "SpacePacketHeader.unpack", "extra": [], "valid": _valid_headers, "declared_len": lambda b: 6},
    {"op": 110, "name": "get_apid_from_raw_space_packet", "extra": [], "valid": _valid_headers, "declared_len": None},
]
