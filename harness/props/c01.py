"""C01 — space packet primary header.  Streams, implementation adapter, oracle."""
import itertools
from spacepackets.ccsds import spacepacket as sp
from harness import core

ID = "C01"
ENUMS = [
    ("spacepackets.ccsds.spacepacket:CCSDS_HEADER_LEN", "SP.Model.SpacePacket.CCSDS_HEADER_LEN"),
    ("spacepackets.ccsds.spacepacket:SPACE_PACKET_HEADER_SIZE", "SP.Model.SpacePacket.CCSDS_HEADER_LEN"),
    ("spacepackets.ccsds.spacepacket:SEQ_FLAG_MASK", "SP.Model.SpacePacket.SEQ_FLAG_MASK"),
    ("spacepackets.ccsds.spacepacket:APID_MASK", "SP.Model.SpacePacket.APID_MASK"),
    ("spacepackets.ccsds.spacepacket:PACKET_ID_MASK", "SP.Model.SpacePacket.PACKET_ID_MASK"),
    ("spacepackets.ccsds.spacepacket:MAX_SEQ_COUNT", "SP.Model.SpacePacket.MAX_SEQ_COUNT"),
    ("spacepackets.ccsds.spacepacket:MAX_APID", "SP.Model.SpacePacket.MAX_APID"),
    ("spacepackets.ccsds.spacepacket:PacketType.TM", "SP.Model.SpacePacket.PT_TM"),
    ("spacepackets.ccsds.spacepacket:PacketType.TC", "SP.Model.SpacePacket.PT_TC"),
    ("spacepackets.ccsds.spacepacket:SequenceFlags.CONTINUATION_SEGMENT", "SP.Model.SpacePacket.SF_CONT"),
    ("spacepackets.ccsds.spacepacket:SequenceFlags.FIRST_SEGMENT", "SP.Model.SpacePacket.SF_FIRST"),
    ("spacepackets.ccsds.spacepacket:SequenceFlags.LAST_SEGMENT", "SP.Model.SpacePacket.SF_LAST"),
    ("spacepackets.ccsds.spacepacket:SequenceFlags.UNSEGMENTED", "SP.Model.SpacePacket.SF_UNSEG"),
]
ASSUMPTIONS = [
    "CPython int / bytes / struct / IntEnum semantics as modelled in Base/Bytes.v",
    "independence of the three 16-bit header words is a theorem of the model; on the implementation each word's "
    "domain is enumerated completely and the combination is sampled (2^48 cannot be enumerated)",
]
TRUSTED = []


def _ptype(t):
    # the library's enum member - or, for every fifth case of a stream, the equal plain int ("0 for Telemetery, 1 for
    # Telecommands" as the constructor documents)
    return core.enum_or_int(sp.PacketType, t)


def _flags(f):
    return core.enum_or_int(sp.SequenceFlags, f)


def _b(s):
    if s in (0, 1):
        return int(s) if core.PLAIN_INTS else bool(s)
    return s


def _hdr(l):
    # core.build: by keyword, and for every seventh case of a stream positionally in the documented order
    t, a, c, d, s, f, v = l
    return core.build(sp.SpacePacketHeader, packet_type=_ptype(t), apid=a, seq_count=c, data_len=d,
                      sec_header_flag=_b(s), seq_flags=_flags(f), ccsds_version=v)


def _pid(t, s, ap):
    return core.build(sp.PacketId, ptype=_ptype(t), sec_header_flag=_b(s), apid=ap)


def _psc(f, c):
    return core.build(sp.PacketSeqCtrl, seq_flags=_flags(f), seq_count=c)


def _fcall(key, fn, names, *vals):
    """module-level helper functions: called positionally as documented, and by the documented parameter names for every
    third case (chosen from the case's own numbers, so that a replay makes the same call)"""
    if key % 3 == 0 and not core.POSITIONAL:
        return fn(**dict(zip(names, vals)))
    return fn(*vals)


def _spkt(h, sec, ud):
    return core.build(sp.SpacePacket, sp_header=h, sec_header=sec, user_data=ud)


def _fields(h):
    return [h.ccsds_version, int(h.packet_type), int(h.sec_header_flag), h.apid, int(h.seq_flags), h.seq_count, h.data_len]


def _row(fn):
    """one observation row of a history: [0] + values, or [1, exception class]"""
    from harness import core
    try:
        return [0] + [int(x) for x in fn()]
    except BaseException as e:  # noqa
        if isinstance(e, (KeyboardInterrupt, SystemExit, MemoryError)):
            raise
        return [1, core.canon_code(core.classify_exception(e))]


def _view(h):
    return _fields(h) + [h.packet_len, h.packet_id.raw(), h.packet_seq_control.raw(), h.header_len]


def _fresh_hdr(h):
    return core.build(sp.SpacePacketHeader, packet_type=h.packet_type, apid=h.apid, seq_count=h.seq_count, data_len=h.data_len,
                      sec_header_flag=h.sec_header_flag, seq_flags=h.seq_flags, ccsds_version=h.ccsds_version)


def _eq_fresh(h):
    fresh = _fresh_hdr(h)
    e1 = h == fresh; e2 = fresh == h
    comp = core.build(sp.SpacePacketHeader.from_composite_fields, packet_id=h.packet_id, psc=h.packet_seq_control,
                      data_length=h.data_len, packet_version=h.ccsds_version)
    e3 = h == comp; e4 = comp == h
    return [e1, e2, e3, e4]


def _set_hdr(h, k, v):
    """the public setters of SpacePacketHeader, and the same assignments through the public sub-objects"""
    if k == 0:
        h.apid = v
    elif k == 1:
        h.seq_count = v
    elif k == 2:
        h.seq_flags = _flags(v)
    elif k == 3:
        h.packet_type = _ptype(v)
    elif k == 4:
        h.sec_header_flag = _b(v)
    elif k == 5:
        h.data_len = v
    elif k == 6:
        h.packet_id.apid = v
    elif k == 7:
        h.packet_seq_control.seq_count = v
    elif k == 11:
        h.packet_id.ptype = _ptype(v)
    elif k == 12:
        h.packet_id.sec_header_flag = _b(v)
    elif k == 13:
        h.packet_seq_control.seq_flags = _flags(v)


def _refusal(e):
    """[1, exception class] for an exception raised by ONE step of a history (an assignment the library refuses); the
    step's row is this prefix followed by what the object shows afterwards, and the history goes on"""
    if isinstance(e, (KeyboardInterrupt, SystemExit, MemoryError)):
        raise e
    return [1, core.canon_code(core.classify_exception(e))]


def _hdr_op(h, o):
    k = o[0] if o else 9
    try:
        _set_hdr(h, k, o[1] if len(o) > 1 else 0)
    except BaseException as e:  # noqa
        # a setter that validates at assignment time: one row of the history (the unchanged library never raises here,
        # so its rows keep their format), not the end of the case
        return _refusal(e) + _view(h)
    if k == 8:
        return _row(h.pack)
    if k == 10:
        return _row(lambda: _eq_fresh(h))
    return _view(h)


def _part(l, as_bytearray):
    if not (l and l[0]):
        return None
    return bytearray(l[1:]) if as_bytearray else bytes(l[1:])


def _spkt_eq_fresh(p):
    q = _spkt(_fresh_hdr(p.sp_header), None if p.sec_header is None else bytes(p.sec_header),
              None if p.user_data is None else bytearray(p.user_data))
    e1 = p == q; e2 = q == p
    return [e1, e2, p == q, q == p]


def impl(op, a):
    if op == 100:
        h = _hdr(a[0]); return [_fields(h), [h.packet_len]]
    if op == 101:
        return [list(_hdr(a[0]).pack())]
    if op == 102:
        h = sp.SpacePacketHeader.unpack(bytes(a[0])); return [_fields(h), [h.packet_len]]
    if op == 103:
        t, s, ap = a[0]; return [[_pid(t, s, ap).raw()]]
    if op == 104:
        p = sp.PacketId.from_raw(a[0][0]); return [[int(p.ptype), int(p.sec_header_flag), p.apid]]
    if op == 105:
        f, c = a[0]; return [[_psc(f, c).raw()]]
    if op == 106:
        p = sp.PacketSeqCtrl.from_raw(a[0][0]); return [[int(p.seq_flags), p.seq_count]]
    if op == 107:
        t, s, ap, v = a[0]; b1, b2 = _fcall(ap + v, sp.get_space_packet_id_bytes, ("packet_type", "secondary_header_flag", "apid", "version"), _ptype(t), _b(s), ap, v); return [[b1, b2]]
    if op == 108:
        t, s, ap = a[0]; return [[_fcall(ap, sp.get_sp_packet_id_raw, ("packet_type", "secondary_header_flag", "apid"), _ptype(t), _b(s), ap)]]
    if op == 109:
        f, c = a[0]; return [[_fcall(c, sp.get_sp_psc_raw, ("seq_flags", "seq_count"), _flags(f), c)]]
    if op == 110:
        return [[_fcall(sum(a[0]), sp.get_apid_from_raw_space_packet, ("raw_packet",), bytearray(a[0]) if len(a[0]) % 2 else bytes(a[0]))]]
    if op == 111:
        return [[_fcall(a[0][0], sp.get_total_space_packet_len_from_len_field, ("len_field",), a[0][0])]]
    if op == 112:
        h = _hdr(a[0])
        sec = bytes(a[1][1:]) if a[1] and a[1][0] else None
        ud = bytes(a[2][1:]) if a[2] and a[2][0] else None
        return [list(_spkt(h, sec, ud).pack())]
    if op == 113:
        return [list(sp.SpacePacketHeader.unpack(bytes(a[0])).pack())]
    if op == 114:
        h = _hdr(a[0])
        sec = _part(a[1], a[3][0]); ud = _part(a[2], a[3][1])
        keep = [(x, bytes(x)) for x in (sec, ud) if x is not None]
        p = _spkt(h, sec, ud)
        b1 = p.pack(); c1 = bytes(b1)
        b1.extend(b"\x00\x01")           # the caller edits what it got back
        b2 = p.pack()
        return [list(c1), list(b2), [int(all(bytes(x) == y for x, y in keep))]]
    if op == 120:
        l = a[0]; kind = a[1][0]
        t, ap, c, d, s, f, v = l
        pid = psc = None
        if kind == 1:
            pid = _pid(t, s, ap); psc = _psc(f, c)
            if v == 0:
                h = core.build(sp.SpacePacketHeader.from_composite_fields, packet_id=pid, psc=psc, data_length=d)
            else:
                h = core.build(sp.SpacePacketHeader.from_composite_fields, packet_id=pid, psc=psc, data_length=d, packet_version=v)
        elif kind == 2:
            h = sp.SpacePacketHeader.unpack(bytearray(_hdr(l).pack()) + b"\xa5\x5a")
        else:
            h = _hdr(l)
        rows = [_hdr_op(h, o) for o in a[2:]]
        if pid is not None:
            rows.append([int(pid.ptype), int(pid.sec_header_flag), pid.apid, int(psc.seq_flags), psc.seq_count])
        else:
            rows.append([t, s, ap, f, c])
        return rows
    if op == 121:
        buf = bytearray(a[0])
        h = sp.SpacePacketHeader.unpack(buf)
        v1 = _view(h)
        for i in range(len(buf)):
            buf[i] ^= 0xFF
        return [v1, _row(h.pack), _view(h)]
    if op == 122:
        x = sp.SpacePacketHeader.unpack(bytes(a[0]))
        vx = _view(x)
        y = sp.SpacePacketHeader.unpack(bytearray(a[1]))
        return [vx, _view(y), _view(x), _row(lambda: [x == y, y == x, x == y, y == x])]
    if op == 123:
        h = _hdr(a[0])
        sec = _part(a[1], a[3][0]); ud = _part(a[2], a[3][1])
        keep = [(x, bytes(x)) for x in (sec, ud) if x is not None]
        p = _spkt(h, sec, ud)
        rows = []
        for o in a[4:]:
            k = o[0] if o else 9
            try:
                if 20 <= k < 30:
                    _set_hdr(p.sp_header, k - 20, o[1] if len(o) > 1 else 0)
                elif k in (30, 31):
                    x = _part(o[1:], len(o) % 2)
                    if x is not None:
                        keep.append((x, bytes(x)))
                    if k == 30:
                        p.sec_header = x
                    else:
                        p.user_data = x
            except BaseException as e:  # noqa
                # a refused assignment is one row (class + what the packet shows afterwards); the history goes on
                rows.append(_refusal(e) + [p.apid, p.seq_count, int(p.sec_header_flag), p.sp_header.data_len])
                continue
            if k == 32:
                rows.append(_row(p.pack))
            elif k == 33:
                rows.append(_row(lambda: _spkt_eq_fresh(p)))
            else:
                rows.append([p.apid, p.seq_count, int(p.sec_header_flag), p.sp_header.data_len])
        rows.append([int(all(bytes(x) == y for x, y in keep))])
        return rows
    if op in (124, 125):
        k0, m, o = a[0], a[1], a[2]
        if op == 124:
            p = sp.PacketId.from_raw(k0[1]) if k0[0] == 1 else sp.PacketId.empty() if k0[0] == 2 else \
                _pid(k0[1], k0[2], k0[3])
            if m[0]:
                p.ptype = _ptype(m[1])
            if m[2]:
                p.sec_header_flag = _b(m[3])
            if m[4]:
                p.apid = m[5]
            q = _pid(o[0], o[1], o[2])
        else:
            p = sp.PacketSeqCtrl.from_raw(k0[1]) if k0[0] == 1 else sp.PacketSeqCtrl.empty() if k0[0] == 2 else \
                _psc(k0[1], k0[2])
            if m[0]:
                p.seq_flags = _flags(m[1])
            if m[2]:
                p.seq_count = m[3]
            q = _psc(o[0], o[1])
        return [[p.raw(), int(p == q), int(q == p), int(p == 17)]]
    raise RuntimeError("bad op")


def layout(v, t, s, ap, f, c, d):
    """CCSDS 133.0-B-2 4.1.3, arithmetic only (second, independent transcription used by the
    oracle; the Coq Spec.sph_layout is evaluated too via op 150)."""
    return [v * 32 + t * 16 + s * 8 + ap // 256, ap % 256, f * 64 + c // 256, c % 256, d // 256, d % 256]


BND = {
    "apid": [0, 1, 2, 1023, 1024, 2046, 2047] + [1 << i for i in range(11)],
    "count": [0, 1, 8191, 8192, 16382, 16383] + [1 << i for i in range(14)],
    "dlen": [0, 1, 255, 256, 32767, 32768, 65534, 65535] + [1 << i for i in range(16)],
    "bad": [-1, -2 ** 63, 2 ** 64, 2 ** 16, 2 ** 16 + 1],
}


def streams(tier, rng):
    big = tier == "thorough"
    # 1. exhaustive per 16-bit word through unpack (fields) and unpack->pack
    for wi in range(3):
        base = [rng.randrange(256) for _ in range(6)]
        cases = []
        for w in range(65536):
            b = list(base); b[2 * wi] = w >> 8; b[2 * wi + 1] = w & 0xFF
            cases.append((102, [b + [0x55]]))
            if big or w % 3 == 0 or w < 64 or w > 65472:
                cases.append((113, [b]))
        yield "exh_word%d_unpack" % wi, "exact", cases
    # 2. exhaustive packet-id / psc words
    cases = []
    for raw in range(8192):
        cases.append((104, [[raw]]))
        cases.append((103, [[raw >> 12 & 1, raw >> 11 & 1, raw & 0x7FF]]))
        cases.append((108, [[raw >> 12 & 1, raw >> 11 & 1, raw & 0x7FF]]))
    for raw in [8192, 8193, 65535, 65536, 2 ** 32 + 5, -1, -4096, 2 ** 64 + 4095]:
        cases.append((104, [[raw]]))
    yield "exh_packet_id", "exact", cases
    cases = []
    for raw in range(65536):
        cases.append((106, [[raw]]))
        if big or raw % 2 == 0 or raw > 65500:
            cases.append((105, [[raw >> 14, raw & 0x3FFF]]))
    for raw in [65536, 65537, 2 ** 16 + 16383, 2 ** 32, -1, -16384, 2 ** 64, -(2 ** 63)]:
        cases.append((106, [[raw]]))
    yield "exh_seq_ctrl", "exact", cases
    # 3. constructor boundaries (accept / refuse), pairwise
    cases = []
    aps = BND["apid"] + BND["bad"] + [2048, 2049]
    cts = BND["count"] + BND["bad"] + [16384, 16385]
    dls = BND["dlen"] + BND["bad"]
    for ap, c in itertools.product(aps, cts):
        cases.append((100, [[rng.randrange(2), ap, c, rng.choice(BND["dlen"]), rng.randrange(2), rng.randrange(4), rng.randrange(8)]]))
    for ap, d in itertools.product(aps, dls):
        cases.append((100, [[rng.randrange(2), ap, rng.choice(BND["count"]), d, rng.randrange(2), rng.randrange(4), rng.randrange(8)]]))
    for c, d in itertools.product(cts, dls):
        cases.append((101, [[rng.randrange(2), rng.choice(BND["apid"]), c, d, rng.randrange(2), rng.randrange(4), rng.randrange(8)]]))
    for v in [8, 9, 255, -1]:   # version is not validated by the constructor: pack fails (struct.error) in both
        cases.append((101, [[0, 1, 1, 1, 0, 3, v]]))
    for ap, c in itertools.product(aps, cts):
        cases.append((103, [[1, 1, ap]])); cases.append((105, [[3, c]]))
        cases.append((108, [[0, 1, ap]])); cases.append((109, [[2, c]]))
    rng.shuffle(cases)      # calling style (plain ints every 5th, positional every 7th case) must not align with the loops
    yield "ctor_boundaries", "exact", cases
    # 4. random full headers: pack, and all pairwise boundary combinations
    n = 100000 if big else 15000
    cases = []
    for _ in range(n):
        cases.append((101, [[rng.randrange(2), rng.randrange(2048), rng.randrange(16384), rng.randrange(65536),
                             rng.randrange(2), rng.randrange(4), rng.randrange(8)]]))
    for ap, c, d in itertools.product(BND["apid"][:9], BND["count"][:8], BND["dlen"][:8]):
        for v in (0, 7):
            cases.append((101, [[rng.randrange(2), ap, c, d, rng.randrange(2), rng.randrange(4), v]]))
    yield "random_headers_pack", "exact", cases
    # 5. helpers and SpacePacket.pack
    cases = []
    for _ in range(20000 if big else 4000):
        t, s, ap, v = rng.randrange(2), rng.randrange(2), rng.randrange(2048), rng.randrange(8)
        cases.append((107, [[t, s, ap, v]]))
    for w in range(0, 65536, 1 if big else 5):
        cases.append((107, [[w >> 12 & 1, w >> 11 & 1, w & 0x7FF, w >> 13]]))
    for ln in list(range(0, 12)) + [64]:
        for _ in range(20):
            cases.append((110, [[rng.randrange(256) for _ in range(ln)]]))
    for lf in BND["dlen"]:
        cases.append((111, [[lf]]))
    for _ in range(3000 if big else 600):
        h = [rng.randrange(2), rng.randrange(2048), rng.randrange(16384), rng.randrange(65536), rng.randrange(2), rng.randrange(4), rng.randrange(8)]
        sec = [rng.randrange(2)] ; sec += [rng.randrange(256) for _ in range(rng.randrange(6))] if sec[0] else []
        ud = [rng.randrange(2)] ; ud += [rng.randrange(256) for _ in range(rng.randrange(9))] if ud[0] else []
        cases.append((112, [h, sec, ud]))
    yield "helpers_and_space_packet", "exact", cases
    # 6. unpack of short and random inputs
    cases = []
    for ln in range(0, 9):
        for _ in range(50):
            cases.append((102, [[rng.randrange(256) for _ in range(ln)]]))
    for _ in range(20000 if big else 3000):
        cases.append((102, [[rng.randrange(256) for _ in range(rng.randrange(6, 20))]]))
    yield "unpack_random", "exact", cases
    yield from hist_streams(tier, rng)


# ------------------------------------------------------------------ histories, object re-use, sizes
HDR_RANGES = {0: 2048, 6: 2048, 1: 16384, 7: 16384, 2: 4, 13: 4, 3: 2, 11: 2, 4: 2, 12: 2, 5: 65536}
HDR_BND = {2048: BND["apid"], 16384: BND["count"], 65536: BND["dlen"], 4: [0, 1, 2, 3], 2: [0, 1]}
HDR_BAD = {2048: [2048, 4095, 4096, -1, 2 ** 16], 16384: [16384, 32768, 65535, -1, 2 ** 16], 65536: [65536, -1, 2 ** 32],
           4: [4, 7], 2: [2, 3]}
RANGE_SETTERS = (0, 6, 1, 7, 5)          # the setters of the three fields whose ranges the property names
OUT_OF_RANGE = {2048: [2048, 2049, 4095, 4096, 6143, 32767, 32768, 65535, 65536, 65537, 2 ** 32, 2 ** 64, -1, -2, -2048, -2 ** 63],
                16384: [16384, 16385, 32767, 32768, 49151, 49152, 65535, 65536, 65537, 2 ** 32, 2 ** 64, -1, -2, -16384, -2 ** 63],
                65536: [65536, 65537, 131071, 2 ** 32, 2 ** 64, -1, -2, -65536, -2 ** 63]}
FIELD_OF = {0: 1, 6: 1, 1: 2, 7: 2, 5: 3, 4: 4, 12: 4, 2: 5, 13: 5, 3: 0, 11: 0}   # position in the constructor arguments


def rand_hdr_args(rng):
    return [rng.randrange(2), rng.choice(BND["apid"]) if rng.random() < 0.4 else rng.randrange(2048),
            rng.choice(BND["count"]) if rng.random() < 0.4 else rng.randrange(16384),
            rng.choice(BND["dlen"]) if rng.random() < 0.4 else rng.randrange(65536), rng.randrange(2), rng.randrange(4),
            rng.choice([0, 0, 7, rng.randrange(8)])]


def rand_hdr_setter(rng, bad=0.12, setters=(0, 1, 2, 3, 4, 5, 6, 7, 11, 12, 13)):
    k = rng.choice(setters)
    m = HDR_RANGES[k]
    r = rng.random()
    if r < bad:
        return [k, rng.choice(HDR_BAD[m])]
    return [k, rng.choice(HDR_BND[m]) if r < 0.55 else rng.randrange(m)]


def rand_hdr_ops(rng, n, bad=0.12):
    ops, last = [], None
    for _ in range(n):
        r = rng.random()
        if ops and len(ops[-1]) > 1 and ops[-1][0] in RANGE_SETTERS and not 0 <= ops[-1][1] < HDR_RANGES[ops[-1][0]] and r < 0.6:
            r = 0.6               # an APID / count / data length was just pushed out of range: pack() follows more often than not
        if r < 0.5:
            o = rand_hdr_setter(rng, bad)
            if rng.random() < 0.1 and last is not None:
                o = list(last)            # the same value assigned twice
            last = o
        elif r < 0.75:
            o = [8]
        elif r < 0.9:
            o = [10]
        else:
            o = [9]
        ops.append(o)
    return ops


def hist_streams(tier, rng):
    big = tier == "thorough"
    # 7. operation histories over one header object (up to 10 operations), all three construction paths
    cases = []
    for _ in range(20000 if big else 5000):
        cases.append((120, [rand_hdr_args(rng), [rng.randrange(3)]] + rand_hdr_ops(rng, rng.randrange(1, 11))))
    # three boundary values at once, each through either route, then every observer
    for ap, c, d in itertools.product(BND["apid"][:7], BND["count"][:6], BND["dlen"][:8]):
        ops = [[rng.choice([0, 6]), ap], [rng.choice([1, 7]), c], [5, d]]
        rng.shuffle(ops)
        cases.append((120, [rand_hdr_args(rng), [rng.randrange(3)]] + ops + [[8], [10], [9], [8]]))
    yield "hdr_setter_histories", "exact", cases
    # 8. every value of every setter (five assignments + pack per history), both routes
    cases = []
    for ks, m, step in (((0, 6), 2048, 1), ((1, 7), 16384, 1 if big else 3), ((5,), 65536, 1 if big else 11)):
        vals = sorted(set(range(0, m, step)) | set(v for v in HDR_BND[m]) | set(range(m - 70, m)))
        for k in ks:
            for i in range(0, len(vals), 5):
                ops = []
                for v in vals[i:i + 5]:
                    ops += [[k, v], [8]]
                cases.append((120, [rand_hdr_args(rng), [rng.randrange(3)]] + ops))
    for t, s_, f in itertools.product(range(2), range(2), range(4)):
        for kt, ks_, kf in itertools.product((3, 11), (4, 12), (2, 13)):
            cases.append((120, [rand_hdr_args(rng), [rng.randrange(3)], [kt, t], [ks_, s_], [kf, f], [8], [10], [9]]))
    yield "exh_setter_values", "exact", cases
    # 8b. APID / sequence count / data length pushed out of range through every setter route: pack() follows
    #     immediately (must refuse with ValueError, nothing encoded), the object is looked at, compared, packed again,
    #     then healed by an in-range assignment and packed; two and three fields out of range healed one by one
    cases = []
    for k in RANGE_SETTERS:
        m = HDR_RANGES[k]
        for v in OUT_OF_RANGE[m]:
            good = rng.choice(HDR_BND[m])
            cases.append((120, [rand_hdr_args(rng), [rng.randrange(3)], [k, v], [8], [9], [10], [8], [k, good], [8], [10], [9]]))
            cases.append((120, [rand_hdr_args(rng), [rng.randrange(3)], [8], [k, v], [8], [8], [9]]))
        near = list(range(m, m + (300 if big else 40))) + list(range(-(60 if big else 12), 0)) + \
            [x for x in range(65536 - 6, 65536 + 6) if x >= m]
        for i in range(0, len(near), 4):
            ops = []
            for v in near[i:i + 4]:
                ops += [[k, v], [8]]
            cases.append((120, [rand_hdr_args(rng), [rng.randrange(3)]] + ops + [[k, rng.randrange(m)], [8]]))
    for _ in range(1500 if big else 300):
        ks = rng.sample([rng.choice([0, 6]), rng.choice([1, 7]), 5], rng.choice([2, 3]))
        ops = [[k, rng.choice(OUT_OF_RANGE[HDR_RANGES[k]])] for k in ks] + [[8], [9]]
        rng.shuffle(ks)
        for k in ks:
            ops += [[k, rng.choice(HDR_BND[HDR_RANGES[k]]) if rng.random() < 0.5 else rng.randrange(HDR_RANGES[k])], [8]]
        cases.append((120, [rand_hdr_args(rng), [rng.randrange(3)]] + ops + [[10], [9]]))
    for k in RANGE_SETTERS:           # the same through a SpacePacket's header
        m = HDR_RANGES[k]
        for v in OUT_OF_RANGE[m]:
            h = rand_hdr_args(rng)
            sec = [1] + [rng.randrange(256) for _ in range(rng.choice([0, 1, 4]))]
            ud = [1] + [rng.randrange(256) for _ in range(rng.choice([0, 1, 9]))]
            cases.append((123, [h, sec, ud, [rng.randrange(2), rng.randrange(2)], [20 + k, v], [32], [34], [33], [32],
                                [20 + k, rng.randrange(m)], [32], [33], [34]]))
    yield "hdr_out_of_range_pack", "exact", cases
    # 9. decoding from (long) bytearrays that are overwritten afterwards: every buffer length 6..1100,
    #    4 KiB, 64 KiB; two headers decoded in a row (equal, differing in one bit, unrelated)
    cases = []
    for ln in list(range(0, 1101)) + [4095, 4096, 4097, 65535, 65536, 65542]:
        cases.append((121, [[rng.randrange(256) for _ in range(6)] + [rng.choice([0, 0x80, 0xFF, rng.randrange(256)]) for _ in range(ln - 6)]
                            if ln >= 6 else [rng.randrange(256) for _ in range(ln)]]))
    for _ in range(3000 if big else 600):
        x = [rng.randrange(256) for _ in range(6)]
        r = rng.random()
        if r < 0.3:
            y = list(x)
        elif r < 0.7:
            y = list(x); i = rng.randrange(48); y[i // 8] ^= 1 << (i % 8)
        else:
            y = [rng.randrange(256) for _ in range(6)]
        cases.append((122, [x + [rng.randrange(256) for _ in range(rng.randrange(3))], y + [0xFF] * rng.randrange(3)]))
    x = [rng.randrange(256) for _ in range(6)]
    for i in range(48):
        y = list(x); y[i // 8] ^= 1 << (i % 8)
        cases.append((122, [x, y]))
    for ln in (6, 7, 255, 256, 257, 511, 512, 513, 1024, 4096, 65542):
        cases.append((110, [[rng.randrange(256) for _ in range(ln)]]))
    yield "hdr_bytearray_and_rows", "exact", cases
    # 10. SpacePacket objects: parts given as bytes or bytearray, header edited through sp_header,
    #     parts replaced, pack repeated, equality with an independently built packet
    cases = []
    for _ in range(6000 if big else 1200):
        h = rand_hdr_args(rng)
        sec = [rng.randrange(2)]; sec += [rng.randrange(256) for _ in range(rng.choice([0, 1, 4, 7]))] if sec[0] else []
        ud = [rng.randrange(2)]; ud += [rng.randrange(256) for _ in range(rng.choice([0, 1, 2, 9, 30]))] if ud[0] else []
        ops = []
        for _ in range(rng.randrange(1, 11)):
            r = rng.random()
            if ops and len(ops[-1]) > 1 and ops[-1][0] - 20 in RANGE_SETTERS and not 0 <= ops[-1][1] < HDR_RANGES[ops[-1][0] - 20]:
                r = 0.5 if r < 0.7 else r     # the header was just pushed out of range: pack() follows
            if r < 0.3:
                o = rand_hdr_setter(rng, 0.12, (0, 1, 2, 3, 4, 5, 6, 7))
                o = [20 + o[0], o[1]]
            elif r < 0.45:
                o = [rng.choice([30, 31]), 1] + [rng.randrange(256) for _ in range(rng.choice([0, 1, 3, 8]))] if rng.random() < 0.8 \
                    else [rng.choice([30, 31]), 0]
            elif r < 0.8:
                o = [32]
            elif r < 0.92:
                o = [33]
            else:
                o = [34]
            ops.append(o)
        cases.append((123, [h, sec, ud, [rng.randrange(2), rng.randrange(2)]] + ops))
    yield "space_packet_histories", "exact", cases
    # 11. SpacePacket.pack for every user-data length 0..1100 (bytes and bytearray), secondary headers around
    #     the multiples of 256, 4 KiB / 64 KiB parts; packed twice
    cases = []
    around = sorted({m + d for m in (0, 256, 512, 768, 1024) for d in range(-8, 9) if m + d >= 0})
    big_parts = [4095, 4096, 65535, 65536]
    for n in list(range(0, 1101)) + big_parts:
        h = rand_hdr_args(rng); h[4] = n % 2
        fill = rng.choice([0, 0x80, 0xFF, None])
        ud = [1] + [fill if fill is not None else rng.randrange(256) for _ in range(n)]
        sec = [1] + [rng.randrange(256) for _ in range(rng.choice([0, 1, 7]))] if h[4] else [0]
        cases.append((114, [h, sec, ud, [rng.randrange(2), n % 3 == 0]]))
    for n in around + big_parts:
        h = rand_hdr_args(rng); h[4] = 1
        cases.append((114, [h, [1] + [rng.randrange(256) for _ in range(n)], [rng.randrange(2)] + [1, 2, 3][:rng.randrange(4)],
                            [n % 2, rng.randrange(2)]]))
    yield "exh_space_packet_sizes", "exact", cases
    # 12. PacketId / PacketSeqCtrl objects: constructor, from_raw, empty(); attribute assignment; raw(); ==
    cases = []
    for _ in range(20000 if big else 3000):
        kind = rng.randrange(3)
        t, s_, ap = rng.randrange(2), rng.randrange(2), rng.choice(BND["apid"]) if rng.random() < 0.4 else rng.randrange(2048)
        k0 = [0, t, s_, ap] if kind == 0 else [1, rng.randrange(8192)] if kind == 1 else [2]
        m = [rng.randrange(2), rng.randrange(2), rng.randrange(2), rng.randrange(2), rng.randrange(2),
             rng.choice(BND["apid"]) if rng.random() < 0.5 else rng.randrange(2048)]
        o = [rng.randrange(2), rng.randrange(2), rng.choice([ap, m[5], 0, rng.randrange(2048)])]
        cases.append((124, [k0, m, o]))
        f, c = rng.randrange(4), rng.choice(BND["count"]) if rng.random() < 0.4 else rng.randrange(16384)
        k0 = [0, f, c] if kind == 0 else [1, rng.randrange(65536)] if kind == 1 else [2]
        m = [rng.randrange(2), rng.randrange(4), rng.randrange(2), rng.choice(BND["count"]) if rng.random() < 0.5 else rng.randrange(16384)]
        o = [rng.randrange(4), rng.choice([c, m[3], 0, rng.randrange(16384)])]
        cases.append((125, [k0, m, o]))
    yield "packet_id_psc_objects", "exact", cases


def in_range(l):
    t, a, c, d, s, f, v = l
    return 0 <= a <= 2047 and 0 <= c <= 16383 and 0 <= d <= 65535


# ---- refusals: the exception CLASS is part of the property ("refused with ValueError")
_UNDOC = set(core.UNDOCUMENTED) | {97}
_ROW_OPS = (120, 121, 122, 123)          # ops whose result rows can be [1, exception class] themselves
ENTRY = {100: "SpacePacketHeader.__init__", 101: "SpacePacketHeader.pack", 102: "SpacePacketHeader.unpack",
         103: "PacketId.__init__", 104: "PacketId.from_raw", 105: "PacketSeqCtrl.__init__", 106: "PacketSeqCtrl.from_raw",
         107: "get_space_packet_id_bytes", 108: "get_sp_packet_id_raw", 109: "get_sp_psc_raw",
         110: "get_apid_from_raw_space_packet", 111: "get_total_space_packet_len_from_len_field", 112: "SpacePacket.pack",
         113: "SpacePacketHeader.unpack-pack", 114: "SpacePacket.pack", 120: "SpacePacketHeader.history",
         121: "SpacePacketHeader.unpack", 122: "SpacePacketHeader.unpack", 123: "SpacePacket.history", 124: "PacketId",
         125: "PacketSeqCtrl"}


def _undoc_rows(op, ires):
    """positions of the result at which the implementation escaped with an undocumented exception class"""
    out = []
    if ires and len(ires[0]) == 2 and ires[0][0] == 1 and ires[0][1] in _UNDOC:
        out.append(0)
    elif op in _ROW_OPS:
        out += [i for i, r in enumerate(ires) if i and len(r) == 2 and r[0] == 1 and r[1] in _UNDOC]
    return out


def _refused_steps(op, a, ires):
    """positions (in the operation list of a history) of the assignments the library refused at once: such a step
    changed nothing, so the unchanged code run WITHOUT these steps is what the rest of the history is compared with"""
    if op not in (120, 123) or ires[0] != [0]:
        return []
    ops, n = (a[2:], 11) if op == 120 else (a[4:], 4)
    return [j for j, (o, r) in enumerate(zip(ops, ires[1:])) if _refused_step(r, n) and
            ((o[0] if o else 9) in HDR_FIELD_POS if op == 120 else 20 <= (o[0] if o else 9) < 32)]


def oracle_spec(case, ires):
    op, a = case
    out = []
    if op == 101 and in_range(a[0]) and 0 <= a[0][6] < 8:
        t, ap, c, d, s, f, v = a[0]
        out = [(150, [[v, t, s, ap, f, c, d]])]
    elif op == 102 and ires[0] == [0]:
        out = [(150, [ires[1]])]
    if _undoc_rows(op, ires):
        # what the faithful model of the unchanged code does on the very same call (always last) - for a history in which
        # the library refused assignments at once: on the history without those (no-op) steps
        first = 2 if op == 120 else 4
        drop = set(_refused_steps(op, a, ires))
        out.append((op, a[:first] + [o for j, o in enumerate(a[first:]) if j not in drop] if drop else a))
    return out


def oracle_undocumented(op, a, ires, sres):
    """Every refusal the property speaks of is a ValueError.  The unchanged code escapes with struct.error / TypeError
    in a few places the constructor does not validate (e.g. version 8 in pack()); those are mirrored statement by
    statement in the model.  An undocumented exception class at a position where the model of the unchanged code
    answers anything else (a ValueError, a value) is a refusal of the wrong class."""
    und = _undoc_rows(op, ires)
    if not und:
        return None
    model = sres[-1] if sres else None
    drop = _refused_steps(op, a, ires)
    for i in und:
        mi = i - sum(1 for j in drop if j + 1 < i)       # the model ran without the refused steps (see oracle_spec)
        m = model[mi] if model is not None and mi < len(model) else (model[0] if model and model[0][:1] == [1] else None)
        if m != ires[i]:
            what = "raises" if i == 0 else "observation %d raises" % i
            return ("C01/%s/undocumented-exception-class" % ENTRY.get(op, "op%d" % op),
                    "%s %s where the property prescribes %s: args %s" % (
                        what, core.ERR_NAMES.get(ires[i][1], ires[i][1]),
                        "ValueError" if m and m[:1] == [1] and m[1] in (1, 2, 3) else "the model's answer %s" % (m,),
                        str([list(x)[:12] for x in a])[:300]))
    return None


def oracle(case, ires, sres):
    """The property itself, evaluated on the implementation's observable behaviour."""
    op, a = case
    r = oracle_undocumented(op, a, ires, sres)
    if r is not None:
        return r
    err = ires[0][0] == 1
    code = ires[0][1] if err else None
    if op in (100, 101):
        t, ap, c, d, s, f, v = a[0]
        if not in_range(a[0]):
            if not err or code not in (1, 2, 3):
                return ("C01/SpacePacketHeader.__init__/range", "out-of-range field accepted or wrong error: args=%s -> %s" % (a[0], ires))
            return None
        if op == 100:
            if err:
                return ("C01/SpacePacketHeader.__init__/refuses-valid", "valid fields refused: %s" % (a[0],))
            if ires[1] != [v, t, s, ap, f, c, d] or ires[2] != [d + 7]:
                return ("C01/SpacePacketHeader/fields", "fields or packet_len wrong: %s -> %s" % (a[0], ires))
            return None
        if 0 <= v < 8:
            exp = layout(v, t, s, ap, f, c, d)
            if err or ires[1] != exp or (sres and sres[0][1] != exp):
                return ("C01/SpacePacketHeader.pack/layout", "pack%s = %s, standard says %s" % (tuple(a[0]), ires, exp))
        return None
    if op == 102:
        b = a[0]
        if len(b) < 6:
            if not err or code not in (1, 2, 3):
                return ("C01/SpacePacketHeader.unpack/short", "short input not refused with ValueError: %s" % ires)
            return None
        if err:
            return ("C01/SpacePacketHeader.unpack/refuses", ">= 6 octets refused: %s -> %s" % (b[:6], ires))
        v, t, s, ap, f, c, d = ires[1]
        if layout(v, t, s, ap, f, c, d) != b[:6] or sres[0][1] != b[:6] or not (0 <= v < 8 and t in (0, 1) and s in (0, 1) and 0 <= ap < 2048 and 0 <= f < 4 and 0 <= c < 16384 and 0 <= d < 65536):
            return ("C01/SpacePacketHeader.unpack/fields", "decoded fields %s do not encode to %s" % (ires[1], b[:6]))
        if ires[2] != [d + 7]:
            return ("C01/SpacePacketHeader.packet_len", "packet_len %s for data length %d" % (ires[2], d))
        return None
    if op == 113:
        b = a[0]
        if len(b) >= 6 and (err or ires[1] != b[:6]):
            return ("C01/SpacePacketHeader.unpack-pack/roundtrip", "encode(decode(%s)) = %s" % (b[:6], ires))
        return None
    if op in (103, 108):
        t, s, ap = a[0]
        if 0 <= ap <= 2047:
            if err or ires[1] != [t * 4096 + s * 2048 + ap]:
                return ("C01/PacketId.raw/bits", "raw(%s) = %s" % (a[0], ires))
        elif not err or code not in (1, 2, 3):
            return ("C01/PacketId.__init__/range", "APID %d not refused: %s" % (ap, ires))
        return None
    if op == 104:
        raw = a[0][0]
        if 0 <= raw < 8192 and (err or ires[1] != [raw // 4096, raw // 2048 % 2, raw % 2048]):
            return ("C01/PacketId.from_raw/bits", "from_raw(%d) = %s" % (raw, ires))
        return None
    if op in (105, 109):
        f, c = a[0]
        if 0 <= c <= 16383:
            if err or ires[1] != [f * 16384 + c]:
                return ("C01/PacketSeqCtrl.raw/bits", "raw(%s) = %s" % (a[0], ires))
        elif not err or code not in (1, 2, 3):
            return ("C01/PacketSeqCtrl.__init__/range", "count %d not refused: %s" % (c, ires))
        return None
    if op == 106:
        raw = a[0][0]
        if 0 <= raw < 65536:
            if err or ires[1] != [raw // 16384, raw % 16384]:
                return ("C01/PacketSeqCtrl.from_raw/bits", "from_raw(%d) = %s" % (raw, ires))
        return None
    if op == 107:
        t, s, ap, v = a[0]
        if 0 <= ap < 2048 and 0 <= v < 8 and ires[1] != layout(v, t, s, ap, 0, 0, 0)[:2]:
            return ("C01/get_space_packet_id_bytes", "%s -> %s" % (a[0], ires))
        return None
    if op == 110:
        b = a[0]
        if len(b) >= 6 and (err or ires[1] != [(b[0] % 8) * 256 + b[1]]):
            return ("C01/get_apid_from_raw_space_packet", "%s -> %s" % (b[:6], ires))
        if len(b) < 6 and (not err or code not in (1, 2, 3)):
            return ("C01/get_apid_from_raw_space_packet/short", "%s -> %s" % (b, ires))
        return None
    if op == 111:
        if ires[1] != [a[0][0] + 7]:
            return ("C01/total_len", "%s -> %s" % (a[0], ires))
        return None
    if op == 120:
        return oracle_hdr_history(a, ires)
    if op == 121:
        b = a[0]
        if len(b) < 6:
            if not err or code not in (1, 2, 3):
                return ("C01/SpacePacketHeader.unpack/short", "short input not refused with ValueError: %s" % (ires,))
            return None
        if err:
            return ("C01/SpacePacketHeader.unpack/refuses", ">= 6 octets (bytearray of %d) refused: %s" % (len(b), ires))
        v1, pk, v2 = ires[1:4]
        if layout(*_vtsafcd(v1)) != b[:6] or v1[7:] != expected_view(v1[:7])[7:]:
            return ("C01/SpacePacketHeader.unpack/fields", "decoded from a bytearray of %d octets: %s, octets %s" % (len(b), v1, b[:6]))
        if pk != [0] + b[:6] or v2 != v1:
            return ("C01/SpacePacketHeader.unpack/aliases-input",
                    "the header decoded from a bytearray changed when the caller overwrote the buffer: before %s, after %s, pack %s" % (v1, v2, pk))
        return None
    if op == 122:
        x, y = a
        if len(x) < 6 or len(y) < 6 or err:
            return None
        vx, vy, vx2, eq = ires[1:5]
        if layout(*_vtsafcd(vx)) != x[:6] or layout(*_vtsafcd(vy)) != y[:6]:
            return ("C01/SpacePacketHeader.unpack/fields", "two headers in a row: %s -> %s, %s -> %s" % (x[:6], vx, y[:6], vy))
        if vx2 != vx:
            return ("C01/SpacePacketHeader.unpack/shared-state", "decoding %s changed the header decoded before from %s to %s" % (y[:6], vx, vx2))
        same = int(x[:6] == y[:6])
        if eq != [0, same, same, same, same]:
            return ("C01/SpacePacketHeader.__eq__", "headers %s and %s: == answered %s" % (x[:6], y[:6], eq))
        return None
    if op in (114, 123):
        return oracle_space_packet(op, a, ires, err, code)
    if op in (124, 125):
        k0, m, o = a
        if err:
            return ("C01/%s/valid-refused" % ("PacketId" if op == 124 else "PacketSeqCtrl"), "%s -> %s" % (a, ires))
        if op == 124:
            cur = [k0[1], k0[2], k0[3]] if k0[0] == 0 else [k0[1] // 4096 % 2, k0[1] // 2048 % 2, k0[1] % 2048] if k0[0] == 1 else [0, 0, 0]
            for i in range(3):
                if m[2 * i]:
                    cur[i] = m[2 * i + 1]
            mine = cur[0] * 4096 + cur[1] * 2048 + cur[2]; other = o[0] * 4096 + o[1] * 2048 + o[2]
        else:
            cur = [k0[1], k0[2]] if k0[0] == 0 else [k0[1] // 16384, k0[1] % 16384] if k0[0] == 1 else [0, 0]
            for i in range(2):
                if m[2 * i]:
                    cur[i] = m[2 * i + 1]
            mine = cur[0] * 16384 + cur[1]; other = o[0] * 16384 + o[1]
        same = int(mine == other)
        if ires[1] != [mine, same, same, 0]:
            return ("C01/%s/raw-after-assignment" % ("PacketId" if op == 124 else "PacketSeqCtrl"),
                    "%s: raw / == / == / ==17 answered %s, fields %s encode to %d, the other object to %d" % (a, ires[1], cur, mine, other))
        return None
    if op == 112:
        h, sec, ud = a
        t, ap, c, d, s, f, v = h
        hb = layout(v, t, s, ap, f, c, d)
        secb = sec[1:] if sec and sec[0] else None
        udb = ud[1:] if ud and ud[0] else None
        if s:
            exp = None if secb is None else hb + secb + (udb or [])
        else:
            exp = None if udb is None else hb + udb
        if exp is None:
            if not err or code not in (1, 2, 3):
                return ("C01/SpacePacket.pack/mandatory", "missing mandatory part accepted: %s" % (ires,))
        elif err or ires[1] != exp:
            return ("C01/SpacePacket.pack/layout", "%s -> %s expected %s" % (a, ires, exp))
        return None
    return None



def _vtsafcd(view):
    """(v, t, s, ap, f, c, d) of a view row"""
    return tuple(view[:7])


def expected_view(fields):
    v, t, s, ap, f, c, d = fields
    return [v, t, s, ap, f, c, d, d + 7, t * 4096 + s * 2048 + ap, f * 16384 + c, 6]


def fields_valid(fl):
    v, t, s, ap, f, c, d = fl
    return 0 <= v < 8 and t in (0, 1) and s in (0, 1) and 0 <= ap < 2048 and 0 <= f < 4 and 0 <= c < 16384 and 0 <= d < 65536


HDR_FIELD_POS = {0: 3, 6: 3, 1: 5, 7: 5, 2: 4, 13: 4, 3: 1, 11: 1, 4: 2, 12: 2, 5: 6}    # setter -> position in (v,t,s,ap,f,c,d)


def range_ok(fl):
    """the three fields whose ranges the property names: APID, sequence count, data length"""
    v, t, s, ap, f, c, d = fl
    return 0 <= ap < 2048 and 0 <= c < 16384 and 0 <= d < 65536


def others_ok(fl):
    """version, packet type, secondary header flag, sequence flags (never validated by the library; a history that
    leaves them outside their ranges is mirrored by the model only)"""
    v, t, s, ap, f, c, d = fl
    return 0 <= v < 8 and t in (0, 1) and s in (0, 1) and 0 <= f < 4


def _refused(row):
    return len(row) == 2 and row[0] == 1 and row[1] in (1, 2, 3)


def out_of_range_pack(entry, what, cur, row):
    """pack() in a state whose APID / sequence count / data length is out of range: 'refused with ValueError instead of
    being encoded'"""
    bad = [n for n, x, hi in (("APID", cur[3], 2048), ("sequence count", cur[5], 16384), ("data length", cur[6], 65536)) if not 0 <= x < hi]
    if row[:1] == [0]:
        return ("C01/%s/out-of-range-encoded" % entry,
                "%s: %s out of range (fields %s), yet pack() encoded it: %s" % (what, " and ".join(bad), cur, " ".join("%02x" % x for x in row[1:13])))
    if not _refused(row):
        return ("C01/%s/out-of-range-wrong-error" % entry,
                "%s: %s out of range (fields %s): pack() raised %s, the property prescribes ValueError" % (
                    what, " and ".join(bad), cur, core.ERR_NAMES.get(row[1], row[1]) if len(row) > 1 else row))
    return None


def _refused_step(row, n):
    """a history row of a setter step the library refused: [1, exception class] + the n values the object shows afterwards
    (an accepted step's row is just the n values; the unchanged library never refuses an assignment)"""
    return len(row) == n + 2 and row[0] == 1


SETTER_NAMES = {0: "apid", 6: "packet_id.apid", 1: "seq_count", 7: "packet_seq_control.seq_count", 5: "data_len", 2: "seq_flags",
                13: "packet_seq_control.seq_flags", 3: "packet_type", 11: "packet_id.ptype", 4: "sec_header_flag",
                12: "packet_id.sec_header_flag"}


def refused_setter(entry, what, k, v, row, unchanged):
    """An assignment the library REFUSED at once (k1-style validation in a setter).  The property leaves open WHEN an
    out-of-range APID / sequence count / data length is refused (today: by the next pack()), so for a value outside the
    field's range an immediate ValueError that leaves the object as it was is as good as today's behaviour; an in-range
    value must be accepted, the refusal must be a ValueError (for the fields whose ranges the property does not name a
    TypeError is tolerated too) and must not leave the object changed.  `unchanged`: the object still shows the values
    it had before the step."""
    m = HDR_RANGES[k]
    if 0 <= v < m:
        return ("C01/%s.setters/valid-refused" % entry,
                "%s: the in-range assignment %s = %d was refused: %s" % (what, SETTER_NAMES[k], v, core.ERR_NAMES.get(row[1], row[1])))
    if row[1] not in ((1, 2, 3) if k in RANGE_SETTERS else (1, 2, 3, 20)):
        return ("C01/%s.setters/out-of-range-wrong-error" % entry,
                "%s: %s = %d (out of range) was refused with %s, the property prescribes ValueError" % (
                    what, SETTER_NAMES[k], v, core.ERR_NAMES.get(row[1], row[1])))
    if not unchanged:
        return ("C01/%s.setters/refusal-changed-object" % entry,
                "%s: %s = %d was refused (%s), yet the object shows %s afterwards" % (
                    what, SETTER_NAMES[k], v, core.ERR_NAMES.get(row[1], row[1]), row[2:]))
    return None


def oracle_hdr_history(a, ires):
    """after any sequence of setter calls the object reports the assigned values; when APID, sequence count and data
    length are in range it packs to the six octets the standard prescribes for them, reports data length + 7 and equals
    a freshly constructed header with the same values; when one of them is out of range pack() refuses with ValueError
    (nothing is encoded), the object is unchanged by the refusal and a later in-range assignment heals it; the caller's
    PacketId / PacketSeqCtrl are untouched.  An out-of-range value may just as well be refused by the assignment itself
    (ValueError, object unchanged, see refused_setter): then nothing was assigned and the history goes on with the old
    values."""
    l, kind = a[0], a[1][0]
    t, ap, c, d, s, f, v = l
    cur = [v, t, s, ap, f, c, d]
    if not fields_valid(cur):
        return None
    if ires[0] != [0]:
        return ("C01/SpacePacketHeader/valid-refused", "construction path %d refused valid fields %s: %s" % (kind, l, ires))
    rows = ires[1:]
    for n, (o, row) in enumerate(zip(a[2:], rows)):
        k = o[0] if o else 9
        what = "path %d, start %s, operations %s" % (kind, l, a[2:2 + n + 1])
        if k in HDR_FIELD_POS:
            if _refused_step(row, 11):
                shown = row[2:]
                same = shown == expected_view(cur) if range_ok(cur) and others_ok(cur) else shown[:7] == cur and shown[10:] == [6]
                r = refused_setter("SpacePacketHeader", what, k, o[1], row, same)
                if r is not None:
                    return r
                continue
            cur[HDR_FIELD_POS[k]] = o[1]
        if not range_ok(cur):
            # the range checks come before anything is encoded: judged whatever version / type / flags are
            if k == 8:
                r = out_of_range_pack("SpacePacketHeader.pack", what, cur, row)
                if r is not None:
                    return r
            elif k == 10:
                if not _refused(row):
                    return ("C01/SpacePacketHeader.__init__/range", "%s: a header built from the out-of-range values %s was not refused with ValueError: %s" % (what, cur, row))
            elif row[:7] != cur or row[10:] != [6]:
                return ("C01/SpacePacketHeader.setters/fields", "%s: object reports %s, the values assigned are %s" % (what, row, cur))
            continue
        if not others_ok(cur):
            continue
        if k == 8:
            if row != [0] + layout(*cur):
                return ("C01/SpacePacketHeader.setters/pack-layout", "%s: pack() = %s, the standard says %s for %s" % (what, row, layout(*cur), cur))
        elif k == 10:
            if row != [0, 1, 1, 1, 1]:
                return ("C01/SpacePacketHeader.__eq__/after-setters",
                        "%s: the object does not equal a freshly built header with its own values %s: %s" % (what, cur, row))
        elif row != expected_view(cur):
            return ("C01/SpacePacketHeader.setters/fields", "%s: object reports %s, expected %s" % (what, row, expected_view(cur)))
    if rows and rows[-1] != [t, s, ap, f, c]:
        return ("C01/SpacePacketHeader.from_composite_fields/caller-object-modified",
                "the PacketId / PacketSeqCtrl passed in were changed by operations on the header: %s -> %s" % ([t, s, ap, f, c], rows[-1]))
    return None


def mandatory_missing(cur, sec, ud):
    """'If the secondary header flag in the primary header is set, the secondary header in mandatory.  If it is not set,
    the user data is mandatory.'"""
    return sec is None if cur[2] else ud is None


def sp_expected(cur, sec, ud):
    hb = layout(*cur)
    if cur[2]:
        return None if sec is None else hb + sec + (ud or [])
    return None if ud is None else hb + ud


def oracle_space_packet(op, a, ires, err, code):
    t, ap, c, d, s, f, v = a[0]
    cur = [v, t, s, ap, f, c, d]
    sec = a[1][1:] if a[1] and a[1][0] else None
    ud = a[2][1:] if a[2] and a[2][0] else None
    if not fields_valid(cur):
        return None
    if op == 114:
        exp = sp_expected(cur, sec, ud)
        if exp is None:
            if not err or code not in (1, 2, 3):
                return ("C01/SpacePacket.pack/mandatory", "missing mandatory part accepted: %s" % (ires[:1],))
            return None
        if err or ires[1] != exp or ires[2] != exp:
            return ("C01/SpacePacket.pack/layout", "header %s, %s secondary header octets, %s user data octets: packed %d / %d octets, expected %d (first difference at %s)" % (
                a[0], None if sec is None else len(sec), None if ud is None else len(ud), len(ires[1]) if not err else -1,
                len(ires[2]) if not err else -1, len(exp), next((i for i, (x, y) in enumerate(zip(ires[1], exp)) if x != y), None) if not err else None))
        if ires[3] != [1]:
            return ("C01/SpacePacket.pack/caller-buffer-modified", "pack() changed the caller's secondary header / user data buffer")
        return None
    if err:
        if mandatory_missing(cur, sec, ud) and code in (1, 2, 3):
            # the part the header's flag makes mandatory is missing: no packet can ever be packed from these arguments
            # (today pack() refuses); refusing them at construction with ValueError is the same refusal, earlier
            return None
        return ("C01/SpacePacket/valid-refused", "%s -> %s" % (a[:3], ires))
    rows = ires[1:]
    for n, (o, row) in enumerate(zip(a[4:], rows)):
        k = o[0] if o else 9
        what = "start %s, operations %s" % (a[:3], a[4:4 + n + 1])
        if 20 <= k < 30 and (k - 20) in HDR_FIELD_POS:
            if _refused_step(row, 4):
                r = refused_setter("SpacePacket", what, k - 20, o[1], row, row[2:] == [cur[3], cur[5], cur[2], cur[6]])
                if r is not None:
                    return r
                continue
            cur[HDR_FIELD_POS[k - 20]] = o[1]
        elif k in (30, 31):
            new = o[2:] if o[1] else None
            if _refused_step(row, 4):
                # replacing a part: refusable (ValueError, TypeError) only when the packet could not be packed with it -
                # the mandatory part taken away; nothing changes then (the following pack / compare rows show it)
                if not mandatory_missing(cur, new if k == 30 else sec, new if k == 31 else ud):
                    return ("C01/SpacePacket/valid-refused", "%s: replacing the %s was refused: %s" % (
                        what, "secondary header" if k == 30 else "user data", core.ERR_NAMES.get(row[1], row[1])))
                if row[1] not in (1, 2, 3, 20) or row[2:] != [cur[3], cur[5], cur[2], cur[6]]:
                    return ("C01/SpacePacket/refusal-changed-object", "%s: refused with %s, the packet shows %s afterwards" % (
                        what, core.ERR_NAMES.get(row[1], row[1]), row[2:]))
                continue
            if k == 30:
                sec = new
            else:
                ud = new
        if not range_ok(cur):
            # the header is packed first: refused with ValueError whatever the parts are; nothing else changes
            if k == 32:
                r = out_of_range_pack("SpacePacket.pack", what, cur, row)
                if r is not None:
                    return r
            elif k == 33:
                if not _refused(row):
                    return ("C01/SpacePacketHeader.__init__/range", "%s: a header built from the out-of-range values %s was not refused with ValueError: %s" % (what, cur, row))
            elif row != [cur[3], cur[5], cur[2], cur[6]]:
                return ("C01/SpacePacket/fields", "%s: packet reports %s, header values %s" % (what, row, cur))
            continue
        if not others_ok(cur):
            continue
        if k == 32:
            exp = sp_expected(cur, sec, ud)
            if exp is None:
                if row[0] != 1 or row[1] not in (1, 2, 3):
                    return ("C01/SpacePacket.pack/mandatory", "%s: missing mandatory part accepted: %s" % (what, row))
            elif row != [0] + exp:
                return ("C01/SpacePacket.pack/layout", "%s: pack() = %s, expected %s" % (what, row, exp))
        elif k == 33:
            if mandatory_missing(cur, sec, ud) and _refused(row):
                continue    # no second packet can be built without the mandatory part (refused at construction): nothing to compare
            if row != [0, 1, 1, 1, 1]:
                return ("C01/SpacePacket.__eq__", "%s: the packet does not equal an independently built one with the same parts: %s" % (what, row))
        elif row != [cur[3], cur[5], cur[2], cur[6]]:
            return ("C01/SpacePacket/fields", "%s: packet reports %s, header values %s" % (what, row, cur))
    if rows and rows[-1] != [1]:
        return ("C01/SpacePacket.pack/caller-buffer-modified", "a caller-owned secondary header / user data buffer was changed: %s" % (a[:4],))
    return None


def neighbours(case):
    op, a = case
    out = []
    if op in (100, 101):
        for i in range(7):
            for dlt in (-1, 1):
                l = list(a[0]); l[i] += dlt; out.append((op, [l]))
    if op in (102, 113):
        for i in range(min(6, len(a[0]))):
            for bit in range(8):
                l = list(a[0]); l[i] ^= 1 << bit; out.append((op, [l]))
    if op in (103, 104, 105, 106, 108, 109):
        for i in range(len(a[0])):
            for dlt in (-1, 1):
                l = list(a[0]); l[i] += dlt; out.append((op, [l]))
    if op in (120, 123):
        first = 2 if op == 120 else 4
        for i in range(first, len(a)):            # shorter histories, each with a final pack / compare / observe
            out.append((op, a[:i] + a[i + 1:]))
        tail = [[8], [10], [9]] if op == 120 else [[32], [33], [34]]
        out.append((op, a + tail))
        for k in range(first, len(a) + 1):
            out.append((op, a[:k] + tail))
    return out


# ---- registry used by the cross-cutting checks C09 (no over-read) and C10 (total decoding).
# Each entry: decode op taking args [data] + extra; `valid(rng)` yields packed valid units;
# `declared_len(data)` is the length the unit declares (None when not self-delimiting).
def _valid_headers(rng):
    out = []
    for _ in range(40):
        out.append(layout(rng.randrange(8), rng.randrange(2), rng.randrange(2), rng.randrange(2048),
                          rng.randrange(4), rng.randrange(16384), rng.randrange(65536)))
    return out


DECODERS = [
    {"op": 102, "name": "SpacePacketHeader.unpack", "extra": [], "valid": _valid_headers, "declared_len": lambda b: 6},
    {"op": 110, "name": "get_apid_from_raw_space_packet", "extra": [], "valid": _valid_headers, "declared_len": None},
]
