"""C03 — PUS-C telemetry encode/decode for any timestamp length (+ service-17 wrapper)."""
import itertools
from spacepackets.ecss.tm import PusTm, PusTmSecondaryHeader
from spacepackets.ecss.pus_17_test import Service17Tm
from spacepackets.ccsds.spacepacket import SpacePacketHeader, PacketType, SequenceFlags
from harness import pus_common as pc
from harness.props.c02 import fcrc, _crc2, _enum, _mk_sph, _Owned, _canon, PATTERNS, NEAR_256
from harness import core

ID = "C03"
ENUMS = [
    ("spacepackets.ecss.defs:PusVersion.PUS_C", "SP.Model.PusTc.PUS_C"),
    ("spacepackets.ecss.tm:PusTmSecondaryHeader.MIN_LEN", "SP.Model.PusTm.TMSEC_MIN_LEN"),
    ("spacepackets.ecss.tm:PUS_TM_TIMESTAMP_OFFSET", "SP.Model.PusTm.PUS_TM_TIMESTAMP_OFFSET"),
    ("spacepackets.ecss.defs:PusService.S17_TEST", "SP.Model.PusTm.S17_TEST"),
    ("spacepackets.ccsds.spacepacket:SPACE_PACKET_HEADER_SIZE", "SP.Model.SpacePacket.CCSDS_HEADER_LEN"),
    ("spacepackets.ccsds.spacepacket:PacketType.TM", "SP.Model.SpacePacket.PT_TM"),
    ("spacepackets.ccsds.spacepacket:SequenceFlags.UNSEGMENTED", "SP.Model.SpacePacket.SF_UNSEG"),
]
ASSUMPTIONS = [
    "crcmod's C implementation is outside the model (tied by C04's exhaustive byte-update comparison and every packed packet here)",
    "the decoder's timestamp_len argument is a non-negative int",
    "live-object histories (op 620): judged by design, not as defects: assigning tm.pus_tm_sec_header.timestamp (a plain "
    "attribute of the sub-object) leaves the data length field stale until tm_data is assigned; the telemetry keeps "
    "references to the caller's bytearrays / header objects; from_composite_fields keeps the caller's data length; "
    "to_space_packet() omits the secondary header when sec_header_flag was cleared; pack(recalc_crc=False) after a field "
    "change carries the cached CRC (documented); crc16 between a field change and the next pack is only compared with the model",
]
TRUSTED = []
ORACLE_LIMIT = {"quick": 6000, "thorough": 40000}


def _sph_fields(h):
    return [h.ccsds_version, int(h.packet_type), int(h.sec_header_flag), h.apid, int(h.seq_flags), h.seq_count, h.data_len]


def _sec(s):
    return [int(s.pus_version), s.spacecraft_time_ref, s.service, s.subservice, s.message_counter, s.dest_id]


def _fields(t):
    crc = t.crc16
    return [_sph_fields(t.space_packet_header), _sec(t.pus_tm_sec_header), list(t.pus_tm_sec_header.timestamp),
            list(t.tm_data), [0] if crc is None else [1] + list(crc), [t.packet_len]]


def _new(a):
    service, subservice, apid, seq, msgcnt, ref, dest, version = a[0]
    # core.build: by keyword, and for every seventh case of a stream positionally in the documented order
    return core.build(PusTm, service=service, subservice=subservice, timestamp=bytes(a[1]), source_data=bytes(a[2]), apid=apid,
                      seq_count=seq, message_counter=msgcnt, space_time_ref=ref, destination_id=dest, packet_version=version)


def _new17(a):
    apid, subservice, ssc, version, ref, dest = a[0]
    return core.build(Service17Tm, apid=apid, subservice=subservice, timestamp=bytes(a[1]), ssc=ssc, source_data=bytes(a[2]),
                      packet_version=version, space_time_ref=ref, destination_id=dest)


def _unpack(data, tl):
    return core.build(PusTm.unpack, data=data, timestamp_len=tl)


def _unpack17(data, tl):
    return core.build(Service17Tm.unpack, data=data, timestamp_len=tl)


def _sec_hdr(service, subservice, stamp, msgcnt, dest, ref):
    return core.build(PusTmSecondaryHeader, service=service, subservice=subservice, timestamp=stamp, message_counter=msgcnt,
                      dest_id=dest, spacecraft_time_ref=ref)


def impl(op, a):
    if op == 600:
        return _fields(_new(a))
    if op == 601:
        t = _new(a); raw = t.pack(); return [list(raw), [t.packet_len]]
    if op == 602:
        return _fields(_unpack(bytes(a[0]), a[1][0]))
    if op == 603:
        return [list(_unpack(bytes(a[0]), a[1][0]).pack())]
    if op == 604:
        return [list(_new(a).to_space_packet().pack())]
    if op == 605:
        t = _new(a); raw = t.pack(); u = _unpack(bytes(raw), len(a[1]))
        return [[int((u == t) and (t == u))]] + _fields(u)
    if op == 607:
        t = _new(a); t.tm_data = bytes(a[3]); raw = t.pack(); return [list(raw), [t.packet_len]]
    if op == 608:
        s = core.build(PusTmSecondaryHeader.unpack, data=bytes(a[0]), timestamp_len=a[1][0]); return [_sec(s), list(s.timestamp)]
    if op == 609:
        return [[PusTm.service_from_bytes(bytearray(a[0]))]]
    if op == 610:
        t = _new17(a); raw = t.pack(); return [list(raw), [t.pus_tm.packet_len]]
    if op == 611:
        return _fields(_unpack17(bytes(a[0]), a[1][0]).pus_tm)
    if op == 612:
        t = _new(a)
        for o in a[3:]:
            k = o[0]
            if k == 0: t.pack()
            elif k == 2: t.calc_crc()
            elif k == 3: t.tm_data = bytes(o[1:])
            elif k == 5: t.apid = o[1]
            elif k == 7:
                from spacepackets.ccsds.spacepacket import SequenceFlags
                t.seq_flags = SequenceFlags(o[1])
        sp = t.to_space_packet().pack()
        raw = t.pack()
        return [list(sp), list(raw), [t.packet_len]]
    if op in (613, 614):
        # decode from a buffer that may continue behind the packet, then EVERY observable of the decoded object
        # (614: through the Service17Tm wrapper)
        tl = a[1][0]
        if op == 613:
            u = _unpack(bytes(a[0]), tl); packer = u
        else:
            packer = _unpack17(bytes(a[0]), tl); u = packer.pus_tm
        first = _fields(u)
        p1 = u.pack(recalc_crc=False)          # "CRC was previous calculated and no fields were changed"
        p2 = packer.pack()
        w = _unpack(bytes(a[0][:u.packet_len]), tl)
        return first + [list(p1), list(p2), [int(u == w), int(w == u)]] + _fields(u)
    if op == 620:
        return _hist(a)
    raise RuntimeError("bad op")


# ---------------------------------------------------------------- extended histories (op 620)
# a[0] = [path, service, subservice, apid, count, msgcnt, ref, dest, version, bufkind, ptype, shf, flags, dlen]
# a[1] = timestamp, a[2] = source data, a[3:] = operations
def _make(p, stamp, src, owned):
    """returns (PusTm, Service17Tm wrapper or None)"""
    path, service, subservice, apid, count, msgcnt, ref, dest, version, kind, ptype, shf, flags, dlen = p
    if path == 0:
        return core.build(PusTm, service=service, subservice=subservice, timestamp=owned.give(stamp, kind),
                          source_data=owned.give(src, kind), apid=apid, seq_count=count, message_counter=msgcnt,
                          space_time_ref=ref, destination_id=dest, packet_version=version), None
    if path == 2:
        h = _mk_sph(ptype, apid, count, dlen, shf, flags, version)
        sh = _sec_hdr(service, subservice, owned.give(stamp, kind), msgcnt, dest, ref)
        return core.build(PusTm.from_composite_fields, sp_header=h, sec_header=sh, tm_data=owned.give(src, kind)), None
    if path in (3, 5):
        raw = core.build(PusTm, service=service, subservice=subservice, timestamp=bytes(stamp), source_data=bytes(src), apid=apid,
                         seq_count=count, message_counter=msgcnt, space_time_ref=ref, destination_id=dest,
                         packet_version=version).pack()
        buf = bytes(raw) if kind == 0 else bytearray(raw)
        if path == 3:
            t, w = _unpack(buf, len(stamp)), None
        else:
            w = _unpack17(buf, len(stamp)); t = w.pus_tm
        if kind != 0:
            for i in range(len(buf)):
                buf[i] ^= 0xFF
            buf.extend(b"\x5a" * 7)
        return t, w
    if path == 4:
        w = core.build(Service17Tm, apid=apid, subservice=subservice, timestamp=owned.give(stamp, kind), ssc=count,
                       source_data=owned.give(src, kind), packet_version=version, space_time_ref=ref, destination_id=dest)
        return w.pus_tm, w
    if path == 6:
        return PusTm(service, subservice, owned.give(stamp, kind)), None
    if path == 7:
        return PusTm.empty(), None
    if path == 8:
        w = Service17Tm(apid, subservice, owned.give(stamp, kind))
        return w.pus_tm, w
    raise RuntimeError("bad path")


def _inspect(t, w):
    g = w if w is not None else t       # the wrapper's getters where there is a wrapper
    return _fields(t) + [[g.service, g.subservice, g.apid, g.seq_count, g.ccsds_version, int(g.packet_id.raw()),
                          int(g.packet_seq_control.raw()), int(g.packet_type), int(g.sec_header_flag), int(g.seq_flags)],
                         list(g.timestamp), list(g.source_data)]


_HDR_ENUM = {1: PacketType, 4: SequenceFlags}
_SEC_ATTR = ("pus_version", "spacecraft_time_ref", "service", "subservice", "message_counter", "dest_id")


def _set_hdr(t, w, f, v, route):
    x = _enum(_HDR_ENUM[f], v) if f in _HDR_ENUM else (bool(v) if f == 2 and v in (0, 1) else v)
    h = [t.space_packet_header, t.sp_header, w.sp_header if w is not None else t.sp_header][route % 3]
    r = route // 3
    if f == 1:
        if r % 2 == 0: h.packet_type = x
        else: t.packet_id.ptype = x
    elif f == 2:
        if r % 2 == 0: h.sec_header_flag = x
        else: h.packet_id.sec_header_flag = x
    elif f == 3:
        if r % 3 == 0: t.apid = x
        elif r % 3 == 1: h.apid = x
        else: h.packet_id.apid = x
    elif f == 4:
        if r % 3 == 0: t.seq_flags = x
        elif r % 3 == 1: h.seq_flags = x
        else: t.packet_seq_control.seq_flags = x
    elif f == 5:
        if r % 2 == 0: h.seq_count = x
        else: h.packet_seq_control.seq_count = x
    elif f == 6:
        h.data_len = x
    else:
        raise RuntimeError("no public route to header field %d" % f)


def _hist_op(st, o, owned):
    t, w, k = st["t"], st["w"], o[0]
    if k == 0: return [list(owned.handed_out(w.pack() if w is not None and len(o) > 1 and o[1] else t.pack()))]
    if k == 1: return [list(owned.handed_out(t.pack(recalc_crc=False)))]
    if k == 2: t.calc_crc(); return []
    if k == 3: t.tm_data = bytes(o[1:]); return []
    if k == 5: t.apid = o[1]; return []
    if k == 7:
        v = t.to_space_packet()
        owned.handed_out(v.sec_header); owned.handed_out(v.user_data)
        return [list(owned.handed_out(v.pack()))]
    if k == 8: return _inspect(t, w)
    if k == 9: t.tm_data = owned.give(o[1:], 1); return []
    if k == 10:
        cur = t.tm_data
        if not isinstance(cur, bytearray):
            cur = owned.give(cur, 1); t.tm_data = cur
        cur.extend(bytes(o[1:])); owned.refresh(cur)
        t.tm_data = cur
        return []
    if k == 11: t.seq_flags = _enum(SequenceFlags, o[1]); return []
    if k == 22: t.pus_tm_sec_header.timestamp = bytes(o[1:]); return []
    if k == 23: t.space_packet_header = _mk_sph(*o[1:8]); return []
    if k == 24: t.pus_tm_sec_header = _sec_hdr(o[1], o[2], bytes(o[6:]), o[3], o[4], o[5]); return []
    if k == 25: return [[int(t == st["t0"]), int(st["t0"] == t)]]
    if k == 26:
        raw = t.pack(); u = _unpack(bytes(raw), len(t.pus_tm_sec_header.timestamp)); return [[int(u == t)]] + _fields(u)
    if k == 27:
        raw = t.pack(); tl = len(t.pus_tm_sec_header.timestamp)
        buf = bytes(raw) if len(o) < 2 or o[1] % 2 == 0 else bytearray(raw)
        if len(o) > 1 and o[1] >= 2:
            st["w"] = _unpack17(buf, tl); st["t"] = st["w"].pus_tm
        else:
            st["t"], st["w"] = _unpack(buf, tl), None
        return []
    if k == 30: _set_hdr(t, w, o[1], o[2], o[3] if len(o) > 3 else 0); return []
    if k == 31: setattr(t.pus_tm_sec_header, _SEC_ATTR[o[1]], o[2]); return []
    return _inspect(t, w)


CLOSING = [[8], [7], [8], [0], [8]]


def _hist(a):
    owned = _Owned()
    st = {"t0": _make(a[0], a[1], a[2], _Owned())[0]}
    st["t"], st["w"] = _make(a[0], a[1], a[2], owned)
    out = []
    for o in list(a[3:]) + CLOSING:
        try:
            r = _hist_op(st, o, owned)
        except BaseException as e:  # noqa
            if isinstance(e, (KeyboardInterrupt, SystemExit, MemoryError, RuntimeError)):
                raise
            out.append([1, _canon(e)])
            continue
        out.append([0]); out.extend(r)
    out.append([owned.changed(), owned.out_changed()])
    return out


def valid_args(a):
    service, subservice, apid, seq, msgcnt, ref, dest, version = a[0]
    return (0 <= service < 256 and 0 <= subservice < 256 and 0 <= apid < 2048 and 0 <= seq < 16384 and 0 <= msgcnt < 65536
            and 0 <= ref < 16 and 0 <= dest < 65536 and 0 <= version < 8 and len(a[1]) + len(a[2]) <= 65527)


def valid_packets(rng, n=40, ts_len=None):
    out = []
    for _ in range(n):
        a = pc.rand_tm_args(rng, 24, ts_len)
        out.append((pc.tm_layout(*a[0], a[1], a[2]), len(a[1])))
    return out


def streams(tier, rng):
    big = tier == "thorough"
    cases = []
    combos = list(itertools.product([0, 1, 255], [0, 255], [0, 2047], [0, 16383], [0, 256, 65535], [0, 15], [0, 1, 65535], [0, 7]))
    rng.shuffle(combos)
    for c in combos[: (len(combos) if big else 250)]:
        for tl in (0, 7, rng.randrange(1, 17)):
            a = [list(c), pc.rbytes(rng, tl), pc.rbytes(rng, rng.choice([0, 1, 9]))]
            for op in (600, 601, 604, 605):
                cases.append((op, a))
    # every timestamp length 0..16 exhaustively x a few payload lengths
    for tl in range(0, 17):
        for n in (0, 1, 5):
            a = [[17, 2, 0x33, 9, 4, 1, 2, 0], pc.rbytes(rng, tl), pc.rbytes(rng, n)]
            cases.append((601, a)); cases.append((605, a))
    for n in [255, 256, 4096] + ([65520] if big else []):
        a = [[3, 25, 0x42, 7, 3, 0, 0, 0], pc.rbytes(rng, 7), pc.rbytes(rng, n)]
        cases.append((601, a)); cases.append((605, a))
    a = [[3, 25, 0x42, 7, 3, 0, 0, 0], pc.rbytes(rng, 7), pc.rbytes(rng, 65520)]
    cases.append((601, a))
    yield "structured_valid", "exact", cases
    cases = []
    for _ in range(40000 if big else 5000):
        a = pc.rand_tm_args(rng, 64)
        cases.append((rng.choice([601, 601, 605, 604, 600]), a))
    for _ in range(4000 if big else 600):
        a = pc.rand_tm_args(rng, 30)
        cases.append((610, [[a[0][2], a[0][1], a[0][3], a[0][7], a[0][5], a[0][6]], a[1], a[2]]))
    yield "random_valid", "exact", cases
    cases = []
    base = [1, 1, 1, 1, 1, 0, 0, 0]
    for idx, vals in ((0, [-1, 256, 1000]), (1, [-1, 256]), (2, [-1, 2048, 2 ** 64]), (3, [-1, 16384]), (4, [-1, 65536]),
                      (5, [16, 255, 256, -1]), (6, [65536, -1]), (7, [8, 9, -1])):
        for v in vals:
            l = list(base); l[idx] = v
            cases.append((600, [l, [1, 2, 3], []])); cases.append((601, [l, [1, 2, 3], [9]]))
    cases.append((600, [base, [0] * 7, [0] * 65521])); cases.append((600, [base, [0] * 65528, []]))
    yield "refusals", "exact", cases
    # targeted malformed: decode with the right and with wrong timestamp lengths
    cases = []
    for pkt, tl in valid_packets(rng, 60 if big else 25):
        for m in pc.malformed(rng, pkt, 13 + tl):
            cases.append((602, [m, [tl]]))
            if rng.random() < 0.2:
                cases.append((603, [m, [tl]])); cases.append((611, [m, [tl]]))
        for tl2 in range(0, 20):
            if tl2 != tl:
                cases.append((602, [pkt, [tl2]]))
                cases.append((602, [pkt + pc.rbytes(rng, 9), [tl2]]))
    yield "targeted_malformed", "exact", cases
    # declared length too small for header + timestamp + CRC, with a valid CRC over the declared octets
    cases = []
    for tl in (0, 1, 2, 7, 8):
        for dlen in range(0, 6 + tl + 4):
            for _ in range(12 if big else 4):
                first = [0x08 | rng.randrange(8), rng.randrange(256), 0xC0 | rng.randrange(64), rng.randrange(256), 0, 0,
                         0x20 | rng.randrange(16)]
                for total in (dlen + 7, 13 + tl, 15 + tl, 30):
                    if total >= dlen + 7:
                        cases.append((602, [pc.with_valid_crc_prefix(rng, dlen, first, max(total, 7)), [tl]]))
    yield "small_declared_length", "exact", cases
    cases = []
    for _ in range(30000 if big else 4000):
        n = rng.randrange(0, 44)
        b = pc.rbytes(rng, n)
        if n > 6 and rng.random() < 0.7:
            b[0] = 0x08 | (b[0] & 7); b[4] = 0; b[5] = rng.randrange(0, 44); b[6] = 0x20 | (b[6] & 15)
        cases.append((602, [b, [rng.choice([0, 2, 7])]]))
    yield "garbage", "verdict", cases
    cases = []
    for d0 in range(256):
        for n in (7, 9, 14, 20):
            cases.append((608, [[d0] + pc.rbytes(rng, n - 1), [7]]))
    for n in range(0, 16):
        for tl in (0, 1, 7):
            cases.append((608, [[0x20] + pc.rbytes(rng, max(0, n - 1)) if n else [], [tl]]))
        cases.append((609, [pc.rbytes(rng, n)]))
    yield "exh_sec_header_first_octet", "exact", cases
    cases = []
    for _ in range(2000 if big else 300):
        a = pc.rand_tm_args(rng, 20)
        cases.append((607, a + [pc.rbytes(rng, rng.randrange(0, 20))]))
    yield "tm_data_setter", "exact", cases
    cases = []
    for _ in range(6000 if big else 1200):
        a = pc.rand_tm_args(rng, 12)
        ops = []
        for _ in range(rng.randrange(0, 6)):
            k = rng.choice([0, 0, 2, 3, 5])
            if k == 3: ops.append([3] + pc.rbytes(rng, rng.randrange(0, 10)))
            elif k == 5: ops.append([5, pc.pick(rng, pc.BND11, 2048)])
            else: ops.append([k])
        cases.append((612, a + ops))
    yield "setter_histories_then_views", "exact", cases
    yield from hardening_streams(tier, rng)


# ---------------------------------------------------------------- oracle of the extended histories
def tm_octets(S):
    return pc.sph_layout(S["ver"], S["ptype"], S["shf"], S["apid"], S["flags"], S["count"], S["dlen"]) + \
        [S["pusver"] * 16 + S["ref"], S["service"], S["subservice"], S["msgcnt"] // 256, S["msgcnt"] % 256,
         S["dest"] // 256, S["dest"] % 256] + list(S["stamp"]) + list(S["src"])


_RANGES = {"ver": 8, "ptype": 2, "shf": 2, "apid": 2048, "flags": 4, "count": 16384, "dlen": 65536, "pusver": 16, "ref": 16,
           "service": 256, "subservice": 256, "msgcnt": 65536, "dest": 65536}
_HDR_KEYS = ["ver", "ptype", "shf", "apid", "flags", "count", "dlen"]
_SEC_KEYS = ["pusver", "ref", "service", "subservice", "msgcnt", "dest"]


def _in_range(S):
    return all(0 <= S[k] < hi for k, hi in _RANGES.items())


def _initial_state(a):
    path, service, subservice, apid, count, msgcnt, ref, dest, version, kind, ptype, shf, flags, dlen = a[0]
    stamp, src = list(a[1]), list(a[2])
    S = {"ver": version, "ptype": 0, "shf": 1, "apid": apid, "flags": 3, "count": count, "dlen": 8 + len(stamp) + len(src),
         "pusver": 2, "ref": ref, "service": service, "subservice": subservice, "msgcnt": msgcnt, "dest": dest,
         "stamp": stamp, "src": src, "crc": None}
    if path == 2:
        S.update({"ptype": ptype, "shf": shf, "flags": flags, "dlen": dlen})
        if ptype == 1:
            return None
    elif path == 4:
        S.update({"service": 17, "msgcnt": 0})
    elif path == 6:
        S.update({"ver": 0, "apid": 0, "count": 0, "msgcnt": 0, "ref": 0, "dest": 0, "src": [], "dlen": 8 + len(stamp)})
    elif path == 8:
        S.update({"ver": 0, "count": 0, "msgcnt": 0, "ref": 0, "dest": 0, "src": [], "dlen": 8 + len(stamp), "service": 17})
    elif path == 7:
        S.update({"ver": 0, "apid": 0, "count": 0, "msgcnt": 0, "ref": 0, "dest": 0, "src": [], "dlen": 15, "service": 0,
                  "subservice": 0, "stamp": [0x40, 0, 0, 0, 0, 0, 0]})
    if not (0 <= S["apid"] < 2048 and 0 <= S["count"] < 16384 and 0 <= S["dlen"] < 65536 and 0 <= S["service"] < 256
            and 0 <= S["subservice"] < 256 and 0 <= S["msgcnt"] < 65536):
        return None
    if path in (3, 5):
        if not _in_range(S):
            return None
        S["crc"] = _crc2(tm_octets(S)); S["fresh"] = True
    return S


def _hist_oracle(a, ires):
    """on a live telemetry object: pack() = the standard's octets for the current field values, the generic
    space-packet view = the same octets, getters show the current values, reported length = packed length,
    caller-owned buffers untouched"""
    S = _initial_state(a)
    if ires[0][0] == 1:
        if S is not None and _in_range(S):
            if a[0][0] == 2 and (S["shf"] != 1 or S["dlen"] != 8 + len(S["stamp"]) + len(S["src"])) and ires[0][1] in (1, 2, 3):
                # from_composite_fields given a header that cannot be this telemetry's (no secondary header flag, a data
                # length that is not that of the parts): today it is kept and the object packs octets its own decoder
                # refuses; refusing the header at construction with ValueError is as good
                return None
            return ("C03/PusTm/valid-refused", "valid construction (path %d) raised %s: %s" % (a[0][0], ires, a[0]))
        return None
    if S is None:
        return None
    S0 = dict(S)
    obs, pos = ires[1:], 0
    ops = [list(o) for o in a[3:]] + CLOSING
    for n, o in enumerate(ops):
        where = "operation %d %s of %s (path %d, buffer kind %d)" % (n, o[:8], [x[:6] for x in ops], a[0][0], a[0][9])
        if pos >= len(obs) - 1:
            return ("C03/PusTm.history/observations", "observation list too short at " + where)
        st = obs[pos]; pos += 1
        ok = st[0] == 0
        k = o[0]
        good = _in_range(S)
        body = tm_octets(S) if good else None
        if k in pc.SERIALISERS and not pc.hdr_range_ok(S):
            # APID / sequence count / data length were pushed out of range (the setters do not validate): every one of these
            # routes packs the primary header first and must refuse with ValueError; nothing is encoded and nothing -
            # not even the cached CRC - changes
            r = pc.out_of_range_verdict("PusTm", k, where, S, st)
            if r is not None:
                return r
            continue
        if k in (0, 1, 7):
            out = None
            if ok:
                out = obs[pos]; pos += 1
            if not good:
                if ok:
                    S["crc"] = "?"
                continue
            if not ok:
                return ("C11/PusTm.history/raises", "valid state, yet %s raised %s; fields %s" % (where, st, {x: S[x] for x in _RANGES}))
            fresh = _crc2(body)
            if k == 1:
                if S["crc"] == "?":
                    continue
                # documented: the CRC "previously calculated" is reused; a library that refreshes its cache more
                # often than the model is not wrong, so the fresh CRC is acceptable too
                cands = [fresh] if S["crc"] is None else [S["crc"], fresh]
                if out[:-2] != body or out[-2:] not in cands:
                    return ("C03/PusTm.pack/recalc-false", "%s: pack(recalc_crc=False) gives %s ... %s, expected the current fields followed by the CRC cached by the last pack/calc_crc %s" % (where, out[:12], out[-6:], cands))
                S["crc"] = out[-2:]
                S["fresh"] = S["crc"] == fresh
                continue
            S["crc"] = fresh; S["fresh"] = True
            if k == 0 and out != body + fresh:
                return ("C11/PusTm.history/pack-differs-from-fresh", "%s: pack() gives %s, the current field values %s prescribe %s" % (
                    where, out[:28], {x: S[x] for x in _RANGES}, (body + fresh)[:28]))
            if k == 7 and S["shf"] == 1 and out != body + fresh:
                return ("C03/PusTm.to_space_packet/stale-octets", "%s: the space-packet view packs %s ... %s, pack() must give %s ... %s" % (
                    where, out[:14], out[-6:], body[:14], (body + fresh)[-6:]))
            continue
        if k == 2:
            if ok and good: S["crc"] = _crc2(body); S["fresh"] = True
            elif ok: S["crc"] = "?"
            elif good:
                return ("C11/PusTm.history/raises", "valid state, yet calc_crc raised: " + where)
            continue
        if k in (3, 4, 5, 6, 9, 10, 11, 22, 23, 24, 30, 31):
            S["fresh"] = False
        if k in (3, 9, 10):
            new_src = (S["src"] if k == 10 else []) + list(o[1:])
            if not ok:
                if 8 + len(S["stamp"]) + len(new_src) > 65535 and st[1:2] and st[1] in (1, 2, 3):
                    # source data that no longer fits a space packet (today: refused by the next pack): refused by the
                    # assignment with ValueError, nothing assigned.  k == 10 extended the caller's own buffer in place
                    # before handing it over again, so what the object then holds is the caller's doing: not predicted
                    if k == 10:
                        return None
                    continue
                return ("C11/PusTm.tm_data/raises", where + " raised %s" % st)
            S["src"] = new_src
            S["dlen"] = 8 + len(S["stamp"]) + len(S["src"])
            continue
        if k in (5, 11, 22, 30, 31):
            if not ok:
                if k == 22:
                    outside = 8 + len(o[1:]) + len(S["src"]) > 65535          # a timestamp that no longer fits a space packet
                else:
                    key = {5: "apid", 11: "flags"}.get(k) or (_HDR_KEYS[o[1]] if k == 30 else _SEC_KEYS[o[1]])
                    val = o[2] if k in (30, 31) else o[1]
                    outside = not 0 <= val < _RANGES[key] or (key == "pusver" and val != 2)    # PUS-C is version 2
                if outside and st[1:2] and st[1] in (1, 2, 3):
                    # a value the field cannot hold (today: stored, and refused / mis-encoded by the next serialiser): the
                    # setter may refuse it at once with ValueError; nothing is assigned then - the tracked values stay, and
                    # every later getter / pack / view of this history is judged against them (object unchanged)
                    continue
                return ("C11/PusTm.setter/raises", where + " raised %s" % st)
            if k == 5: S["apid"] = o[1]
            elif k == 11: S["flags"] = o[1]
            elif k == 22: S["stamp"] = list(o[1:])
            elif k == 30: S[_HDR_KEYS[o[1]]] = o[2]
            else: S[_SEC_KEYS[o[1]]] = o[2]
            continue
        if k == 23:
            if ok:
                ptype, apid, count, dlen, shf, flags, version = o[1:8]
                S.update({"ver": version, "ptype": ptype, "shf": shf, "apid": apid, "flags": flags, "count": count, "dlen": dlen})
            continue
        if k == 24:
            if ok:
                S.update({"pusver": 2, "service": o[1], "subservice": o[2], "msgcnt": o[3], "dest": o[4], "ref": o[5], "stamp": list(o[6:])})
            continue
        if k == 25:
            if ok:
                out = obs[pos]; pos += 1
                if good and _in_range(S0):
                    e = int(tm_octets(S)[:13] == tm_octets(S0)[:13] and S["stamp"] == S0["stamp"] and S["src"] == S0["src"])
                    if out != [e, e]:
                        return ("C03/PusTm.__eq__", "%s: == with an untouched twin gives %s, the field values say %d" % (where, out, e))
            continue
        if k in (26, 27):
            consistent = good and S["dlen"] == 8 + len(S["stamp"]) + len(S["src"]) and S["pusver"] == 2
            if not ok:
                if consistent:
                    return ("C03/PusTm.unpack/own-output-refused", "%s: the object's own pack() output is refused: %s" % (where, st))
                S["crc"] = "?"
                continue
            if not consistent:
                return None
            S["crc"] = _crc2(body); S["fresh"] = True
            if k == 26:
                out = obs[pos:pos + 7]; pos += 7
                exp = [[1], [S[x] for x in _HDR_KEYS], [S[x] for x in _SEC_KEYS], S["stamp"], S["src"], [1] + S["crc"], [S["dlen"] + 7]]
                if out != exp:
                    return ("C03/PusTm.unpack/fields" if out[0] == [1] else "C03/PusTm.unpack/not-equal",
                            "%s: decoding the object's own pack() gives %s, expected %s" % (where, str(out)[:200], str(exp)[:200]))
            continue
        if not ok:
            return ("C03/PusTm.history/getter-raises", where + " raised %s" % st)
        out = obs[pos:pos + 9]; pos += 9
        exp = [[S[x] for x in _HDR_KEYS], [S[x] for x in _SEC_KEYS], S["stamp"], S["src"],
               [1] + S["crc"] if S.get("fresh") and S["crc"] not in (None, "?") else out[4], [S["dlen"] + 7],
               [S["service"], S["subservice"], S["apid"], S["count"], S["ver"],
                S["ptype"] * 4096 + S["shf"] * 2048 + S["apid"] if good else out[6][5],
                S["flags"] * 16384 + S["count"] if good else out[6][6], S["ptype"], S["shf"], S["flags"]],
               S["stamp"], S["src"]]
        names = ["primary header", "secondary header", "timestamp", "tm_data", "crc16", "packet_len", "getters", "timestamp getter", "source_data getter"]
        for nm, x, y in zip(names, out, exp):
            if x != y:
                return ("C11/PusTm.history/state-differs", "%s: %s reads %s, the operations so far prescribe %s" % (where, nm, x[:24], y[:24]))
    if obs[-1][0] != 0:
        return ("C11/PusTm/caller-buffer-modified", "%d bytearray(s) owned by the caller were changed by the library during %s" % (obs[-1][0], [x[:6] for x in ops]))
    if obs[-1][1] != 0:
        return ("C11/PusTm/returned-octets-changed-later", "%d octet string(s) returned by pack() / to_space_packet() changed when the object was used again: %s" % (obs[-1][1], [x[:6] for x in ops]))
    return None


# ---------------------------------------------------------------- generators of the hardening round
HDR_ROUTES = {1: 6, 2: 6, 3: 9, 4: 9, 5: 6, 6: 3}


def _hist_params(rng, path=None, n=None, tl=None, kind=None, consistent=True):
    b = pc.rand_tm_args(rng, 12)
    service, subservice, apid, count, msgcnt, ref, dest, version = b[0]
    if n is None:
        n = len(b[2]) if rng.random() < 0.9 else rng.choice([250, 255, 256, 506, 511, 512, 513, 520, 1024])
    if tl is None:
        tl = len(b[1]) if rng.random() < 0.95 else rng.choice([255, 256, 512])
    src = pc.rbytes(rng, n) if rng.random() < 0.8 else rng.choice(PATTERNS)(n)
    stamp = pc.rbytes(rng, tl) if rng.random() < 0.8 else rng.choice(PATTERNS)(tl)
    path = rng.choice([0, 0, 0, 2, 2, 2, 3, 3, 3, 4, 4, 5, 5, 6, 7, 8]) if path is None else path
    kind = rng.randrange(2) if kind is None else kind
    ptype, shf, dlen = 0, 1, 8 + tl + n
    if path == 2 and not consistent:
        ptype, shf, dlen = rng.choice([0, 0, 0, 1]), rng.choice([1, 1, 0]), rng.choice([dlen, dlen, 0, dlen - 1, dlen + 1, 65535])
    return [[path, service, subservice, apid, count, msgcnt, ref, dest, version, kind, ptype, shf, rng.choice([3, 3, 0, 1, 2]), dlen],
            stamp, src]


def _rand_setter(rng, cur_len, wild=False):
    r = rng.random()
    if r < 0.45:
        f = rng.choice([1, 2, 2, 3, 3, 4, 5, 5, 6])
        hi = _RANGES[_HDR_KEYS[f]]
        v = pc.pick(rng, [0, 1, hi - 1, hi // 2], hi)
        if f == 2 and rng.random() < 0.7: v = 1
        if f == 6 and rng.random() < 0.7: v = cur_len
        if wild: v = rng.choice([-1, hi, hi + 1, 2 ** 16, 2 ** 32])
        return [30, f, v, rng.randrange(HDR_ROUTES[f])]
    if r < 0.85:
        f = rng.choice([0, 1, 2, 3, 4, 4, 5, 5])
        hi = _RANGES[_SEC_KEYS[f]]
        v = pc.pick(rng, [0, 1, hi - 1, hi // 2], hi)
        if f == 0 and rng.random() < 0.8: v = 2
        if wild: v = rng.choice([-1, hi, hi + 1, 2 ** 16])
        return [31, f, v]
    if r < 0.90:
        return [rng.choice([5, 11]), rng.randrange(4)]
    if r < 0.95:
        return [24, pc.pick(rng, pc.BND8, 256) if not wild else 256, pc.pick(rng, pc.BND8, 256), pc.pick(rng, pc.BND16, 65536),
                pc.pick(rng, pc.BND16, 65536), rng.randrange(16)] + pc.rbytes(rng, rng.choice([0, 7, 7, 2]))
    return [23, rng.choice([0, 0, 1]), pc.pick(rng, pc.BND11, 2048) if not wild else 2048, pc.pick(rng, pc.BND14, 16384),
            rng.choice([cur_len, cur_len, rng.randrange(65536)]), rng.choice([1, 1, 0]), rng.randrange(4), rng.randrange(8)]


def _rand_ops(rng, tl, n0, maxops=10, wild_p=0.0):
    ops, cur = [], n0
    for _ in range(rng.randrange(0, maxops + 1)):
        r = rng.random()
        if r < 0.30:
            ops.append([rng.choice([0, 0, 1, 2, 7, 7, 7, 8, 8])] + [rng.randrange(2)])
        elif r < 0.36:
            ops.append([rng.choice([25, 26, 27, 27]), rng.randrange(4)])
        elif r < 0.52:
            k = rng.choice([3, 9, 9, 10, 10])
            n = rng.randrange(0, 10) if rng.random() < 0.9 else rng.choice([256, 500, 512, 513])
            d = pc.rbytes(rng, n) if rng.random() < 0.8 else rng.choice(PATTERNS)(n)
            cur = cur + n if k == 10 else n
            ops.append([k] + d)
            if rng.random() < 0.15:
                ops.append([k] + d)
                if k == 10: cur += n
        elif r < 0.57:
            tl = rng.choice([0, 7, 7, tl, rng.randrange(12)])
            ops.append([22] + pc.rbytes(rng, tl))
        else:
            o = _rand_setter(rng, 8 + tl + cur, wild=rng.random() < wild_p)
            if o[0] == 24: tl = len(o) - 6
            ops.append(o)
            if o[0] == 30 and o[1] in pc.HDR_LIMIT and not 0 <= o[2] < pc.HDR_LIMIT[o[1]] and rng.random() < 0.6:
                ops.append(rng.choice([[0, 0], [0, 1], [1, 0], [2, 0], [7, 0], [7, 1], [26, 0], [27, rng.randrange(4)]]))   # ... pushed out of range: a serialiser follows
            if rng.random() < 0.15:
                ops.append(list(o))
    return ops


def _all_mutations(rng, tl, cur_len):
    out = [[3] + pc.rbytes(rng, 3), [9] + pc.rbytes(rng, 3), [10] + pc.rbytes(rng, 2), [3], [9],
           [5, pc.pick(rng, pc.BND11, 2048)], [11, rng.randrange(4)], [22] + pc.rbytes(rng, tl), [22] + pc.rbytes(rng, rng.choice([0, tl + 1]))]
    for f, nr in HDR_ROUTES.items():
        hi = _RANGES[_HDR_KEYS[f]]
        for route in range(nr):
            v = rng.randrange(hi) if f != 6 else 8 + tl + cur_len + rng.choice([0, 0, 1])
            out.append([30, f, v, route])
    for f in range(6):
        out.append([31, f, rng.randrange(_RANGES[_SEC_KEYS[f]]) if f else rng.choice([2, 2, 1])])
    out.append([24, rng.randrange(256), rng.randrange(256), rng.randrange(65536), rng.randrange(65536), rng.randrange(16)] + pc.rbytes(rng, tl))
    out.append([23, 0, rng.randrange(2048), rng.randrange(16384), 8 + tl + cur_len, 1, rng.randrange(4), rng.randrange(8)])
    out.append([23, 0, 2048, 1, 8 + tl + cur_len, 1, 3, 0])     # refused: the object must be unchanged afterwards
    out.append([24, 256, 1, 1, 1, 1] + pc.rbytes(rng, tl))
    out.append([24, 1, 1, 65536, 1, 1] + pc.rbytes(rng, tl))
    return out


def _directed(rng, tl, d):
    n = 8 + tl + len(d)
    return [
        [[3] + d, [30, 6, n + 3, 0], [3] + d],
        [[9] + d, [30, 6, 0, 1], [10]],
        [[9] + d, [7], [10, 1], [7], [10, 2], [0]],
        [[3] + d, [0], [3] + d, [1]],
        [[0], [30, 5, 1, 1], [30, 5, 1, 4], [1], [7]],
        [[7], [7], [7], [0, 1]],
        [[2], [31, 4, 513], [7], [31, 4, 513], [7]],
        [[0], [31, 5, 258], [7], [31, 4, 77], [7], [30, 5, 101, 0], [7]],     # the next packet of a stream: counters bumped
        [[27, 1], [7], [8], [27, 2], [7], [10, 5], [7], [27, 3], [31, 5, 9], [7]],
        [[22] + pc.rbytes(rng, tl), [7], [22] + pc.rbytes(rng, tl + 1), [3] + d, [7]],
        [[3] + d, [22] + pc.rbytes(rng, tl + 2), [9] + d, [8], [0, 1], [22], [3] + d, [7]],   # data, timestamp, data again
        [[23, 0, 2048, 0, n, 1, 3, 0], [8], [0]],
    ]


def _layout_fast(service, subservice, apid, seq, msgcnt, ref, dest, version, stamp, src):
    body = pc.sph_layout(version, 0, 1, apid, 3, seq, 7 + len(stamp) + len(src) + 1) + \
        [32 + ref, service, subservice, msgcnt // 256, msgcnt % 256, dest // 256, dest % 256] + list(stamp) + list(src)
    return body + _crc2(body)


def _force_crc(fields, stamp, src, target):
    src = list(src)
    body = _layout_fast(*fields, stamp, src)[:-4]
    s = fcrc(body)
    for x in range(65536):
        if fcrc([x >> 8, x & 255], s) == target:
            return src[:-2] + [x >> 8, x & 255]
    raise RuntimeError("no preimage")


def hardening_streams(tier, rng):
    big = tier == "thorough"
    # A. size sweeps: source data length, and timestamp length (both carry lengths)
    cases = []
    top = 4200 if big else 1100
    for n in range(0, top + 1):
        f = pc.rand_tm_args(rng, 1)[0]
        tl = rng.choice([0, 7, 7, 7, 8, 16])
        a = [f, pc.rbytes(rng, tl), pc.rbytes(rng, n) if n % 5 else rng.choice(PATTERNS)(n)]
        cases.append((605, a))
        if n in NEAR_256 or n % 64 in (0, 1, 63) or big:
            pkt = _layout_fast(*a[0], a[1], a[2])
            cases.append((602, [pkt + pc.rbytes(rng, rng.choice([0, 1, 2, 255, 1000])), [tl]]))
            cases.append((603, [pkt, [tl]])); cases.append((611, [pkt, [tl]]))
            cases.append((604, a))
    for tl in range(0, (2100 if big else 1100) + 1):
        f = pc.rand_tm_args(rng, 1)[0]
        a = [f, pc.rbytes(rng, tl) if tl % 5 else rng.choice(PATTERNS)(tl), pc.rbytes(rng, rng.choice([0, 1, 2, 9]))]
        cases.append((605, a))
        if tl in NEAR_256 or tl % 64 == 0:
            pkt = _layout_fast(*a[0], a[1], a[2])
            cases.append((602, [pkt + pc.rbytes(rng, 3), [tl]])); cases.append((602, [pkt, [tl + 1]])); cases.append((602, [pkt, [max(tl - 1, 0)]]))
            cases.append((604, a))
    for (tl, n) in [(7, 4096), (7, 4089), (4096, 7), (7, 65520), (65527, 0)] + \
            ([(7, 8192), (7, 32768), (16384, 16384), (1, 65526), (0, 65527), (7, 65519), (32768, 32759)] if big else []):
        a = [[3, 25, 0x7FF, 0x3FFF, 0xFFFF, 15, 0xFFFF, 7], pc.rbytes(rng, tl), pc.rbytes(rng, n)]
        cases.append((605, a))
        if big or n != 0:
            cases.append((604, a)); cases.append((603, [_layout_fast(*a[0], a[1], a[2]), [tl]]))
    if big:                                                      # coarse steps up to the field's limit
        for n in range(4200, 65520, 251):
            tl = rng.choice([0, 7, 7, 16])
            cases.append((605, [pc.rand_tm_args(rng, 1)[0], pc.rbytes(rng, tl), pc.rbytes(rng, n - tl)]))
            if n % 4 == 0:
                cases.append((605, [pc.rand_tm_args(rng, 1)[0], pc.rbytes(rng, n - 9), pc.rbytes(rng, 9)]))
    # round-number TOTAL packet lengths (block-wise processing slips show at exact multiples of a block size)
    rounds = sorted({k * 10000 for k in range(1, 7)} | {1 << k for k in range(12, 17)} | {5000, 8192 * 3, 25000, 48000, 65535}
                    | {rng.randrange(4200, 65542) for _ in range(3)})
    for T in rounds:
        for d in ((0,) if not big else (-1, 0, 1)):
            tl = rng.choice([0, 7, 7, 16])
            n = T + d - 15 - tl
            if 0 <= n and tl + n <= 65527:
                cases.append((605, [pc.rand_tm_args(rng, 1)[0], pc.rbytes(rng, tl), pc.rbytes(rng, n)]))
    pkt = _layout_fast(3, 25, 1, 1, 1, 0, 0, 0, pc.rbytes(rng, 7), pc.rbytes(rng, 20))
    cases.append((602, [pkt + pc.rbytes(rng, 70000), [7]])); cases.append((603, [pkt + pkt * 40, [7]]))
    for (tl, n) in ((7, 65521), (0, 65528), (65528, 0), (32768, 32760)):
        cases.append((601, [[3, 25, 1, 1, 1, 0, 0, 0], [0] * tl, [0] * n])); cases.append((604, [[3, 25, 1, 1, 1, 0, 0, 0], [0] * tl, [0] * n]))
    yield "size_sweep_pack_unpack", "exact", cases
    # B. boundary triples and CRC values with special octets
    cases = []
    for ap, sq, mc, de in itertools.product([0, 2047], [0, 16383], [0, 255, 256, 65535], [0, 65535]):
        for (tl, n) in ((0, 0), (0, 248), (7, 241), (7, 242), (8, 240), (7, 497), (16, 489), (255, 0), (248, 0)):
            for ref, ver, sv in ((0, 0, 0), (15, 7, 255)):
                a = [[sv, 255 - sv, ap, sq, mc, ref, de, ver], rng.choice(PATTERNS)(tl), rng.choice(PATTERNS)(n)]
                cases.append((605, a)); cases.append((604, a))
    for (tl, n) in ([(7, 65520)] if not big else [(7, 65520), (65527, 0), (0, 65527), (32767, 32760)]):
        for ap, sq, mc in (((2047, 16383, 65535),) if not big else ((2047, 16383, 65535), (0, 0, 0))):
            a = [[255, 255, ap, sq, mc, 15, 65535, 7], [0xFF] * tl, [0xFF] * n]
            cases.append((605, a)); cases.append((604, a))
    for target in (0x0000, 0xFFFF, 0x00FF, 0xFF00, 0x0001, 0x0100, 0x8000, 0x0080, 0x2000, 0x0020):
        for n in (2, 9, 250):
            a = pc.rand_tm_args(rng, 4, rng.choice([0, 7]))
            a[2] = _force_crc(a[0], a[1], pc.rbytes(rng, n), target)
            cases.append((605, a)); cases.append((604, a))
            cases.append((620, [[3] + a[0] + [1, 0, 1, 3, 0], a[1], a[2], [7], [8], [1]]))
    yield "triple_boundaries_and_crc_patterns", "exact", cases
    # C. every mutation route x every way the CRC cache can have been filled x every view afterwards
    cases = []
    primes = [[], [[0]], [[2]], [[7]], [[0], [1]], [[7], [7]], [[0, 1]]]
    for rep in range(3 if big else 1):
        for path, kind in ((0, 1), (2, 0), (3, 1), (4, 0), (5, 1)) + (((0, 0), (3, 0)) if big else ()):
            for pr in primes:
                base = _hist_params(rng, path=path, kind=kind, n=rng.randrange(0, 9), tl=rng.choice([0, 7, 7, 3]))
                muts = _all_mutations(rng, len(base[1]), len(base[2]))
                for m in muts + [None]:
                    for v in ([7], [0, 1], [1], [26]):           # [0, 1]: pack through the Service17Tm wrapper where there is one
                        ops = [list(x) for x in pr] + ([list(m)] if m is not None else []) + [v, [8]]
                        cases.append((620, base + ops))
                for m in muts:
                    cases.append((620, base + [list(x) for x in pr] + [list(m), list(m), [7], [8]]))
                for seq in _directed(rng, len(base[1]), pc.rbytes(rng, rng.choice([0, 1, 5]))):
                    cases.append((620, base + [list(x) for x in pr] + seq))
    yield "live_object_every_route_then_views", "exact", cases
    # D. random histories up to 10 operations
    cases = []
    for _ in range(12000 if big else 1500):
        base = _hist_params(rng, consistent=rng.random() < 0.85)
        cases.append((620, base + _rand_ops(rng, len(base[1]), len(base[2]), 10, wild_p=0.08)))
    yield "histories_live_object", "exact", cases
    # E. alternate constructors on their own
    cases = []
    for _ in range(3000 if big else 600):
        base = _hist_params(rng, consistent=rng.random() < 0.6)
        if rng.random() < 0.1: base[0][3] = rng.choice([-1, 2048, 2 ** 16])
        if rng.random() < 0.1: base[0][4] = rng.choice([-1, 16384])
        if rng.random() < 0.1: base[0][rng.choice([1, 2])] = rng.choice([-1, 256])
        if rng.random() < 0.05: base[0][5] = rng.choice([-1, 65536])
        if rng.random() < 0.05: base[0][13] = rng.choice([-1, 65536])
        cases.append((620, base))
    for path, kind in ([(0, 1), (5, 1)] if not big else [(p_, k_) for p_ in (0, 2, 3, 4, 5) for k_ in (0, 1)]):
        cases.append((620, _hist_params(rng, path=path, kind=kind, n=65520, tl=7)))
    yield "alternate_construction_paths", "exact", cases
    # E2. a primary-header field pushed out of range through every public route (tm.apid, sp_header.apid,
    #     space_packet_header.packet_id.apid, the Service17Tm wrapper's header, ... data_len), then every serialisation
    #     route (must refuse with ValueError, nothing encoded), healed, serialised again
    cases = []
    views = ((0, 0), (0, 1), (1, 0), (2, 0), (7, 0), (26, 0), (27, 0), (27, 3))
    for path in (0, 2, 3, 4, 5):
        base = _hist_params(rng, path=path, n=rng.randrange(0, 9))
        heal = lambda f, base=base: 8 + len(base[1]) + len(base[2]) if f == 6 else rng.randrange(pc.HDR_LIMIT[f])
        hs = pc.out_of_range_histories(rng, HDR_ROUTES, heal, views=views, primes=((), ((0, 0),), ((2, 0),), ((7, 0),)))
        for ops in (hs if big or path == 0 else rng.sample(hs, len(hs) // 5)):
            cases.append((620, base + ops))
    yield "header_out_of_range_then_serialise", "exact", cases
    # F. size sweep of the setters on a live object
    cases = []
    sizes = sorted(set(NEAR_256) | {0, 1, 2, 63, 64, 65, 127, 128, 129, 255, 1100} | ({2048, 4095, 4096, 4097} if big else set()))
    for i, n in enumerate(sizes):
        for k in ((3, 9, 10, 22) if big or n < 300 else ((3, 9, 10, 22)[i % 4],)):
            base = _hist_params(rng, path=rng.choice([0, 3, 4]), n=rng.randrange(0, 4), tl=rng.choice([0, 7]))
            d = pc.rbytes(rng, n)
            cases.append((620, base + [[7], [k] + d, [7], [8], [0], [10, 1, 2], [7], [8]]))
    for n in sizes:
        if n >= 250 and (big or abs(((n + 128) % 256) - 128) <= 2 or n == 1100):
            cases.append((620, _hist_params(rng, path=rng.choice([3, 5]), kind=1, n=n, tl=rng.choice([0, 7])) + [[8], [7], [8]]))
            cases.append((620, _hist_params(rng, path=rng.choice([0, 2, 4]), kind=1, n=rng.choice([0, n]), tl=rng.choice([7, n])) + [[7], [8], [7]]))
    for n in ((65510, 65518) if big else (65518,)):
        base = _hist_params(rng, path=0, kind=1, n=2, tl=7)
        cases.append((620, base + [[9] + [0xFF] * n, [7], [10, 1, 2], [8]]))
    yield "live_object_size_sweep", "exact", cases
    yield "crc_value_coincidences", "exact", crc_coincidence_cases(rng, big)
    yield "decode_with_suffix_every_observable", "exact", suffix_observable_cases(rng, big)
    yield "decoder_parameter_x_declared_length", "exact", param_length_cases(rng, big)


# G. value coincidences of DERIVED quantities: telemetry SEARCHED (pus_common.tm_crc_coincidences) such that the CRC over
#    the primary header / over every octet boundary up to the end of the secondary header incl. the timestamp / over
#    blocks of the source data / over the whole packet is 0x0000 or 0xFFFF - pushed through every serialisation route
COINCIDENCE_ROUTES = [[2], [8], [1], [7], [8], [1], [2], [1]]     # calc_crc, crc16, pack(recalc_crc=False), view, ...


def crc_coincidence_cases(rng, big):
    cases = []
    found = pc.tm_crc_coincidences(rng, lens=(0, 1, 2, 7, 40, 1100) + ((300, 600, 4200) if big else ()),
                                   stamps=(0, 1, 7, 16) if big else (0, 7))
    found += pc.tm_crc_coincidences(rng, lens=(0, 3), stamps=(2, 8) if big else (1,))
    if big:
        found += pc.tm_crc_coincidences(rng, targets=(0x0001, 0x8000, 0x00FF, 0xFF00, 0x1021, 0x1D0F), lens=(0, 2, 9), stamps=(0, 7))
    for a, p, t in found:
        tl, n = len(a[1]), len(a[2])
        for op in (601, 604, 605):
            cases.append((op, a))
        cases.append((612, a + [[2]]))
        for path, kind in ((0, 1), (3, 0), (2, 0)):
            base = [[path] + a[0] + [kind, 0, 1, 3, 8 + tl + n], a[1], a[2]]
            cases.append((620, base + [list(o) for o in COINCIDENCE_ROUTES]))
        pkt = _layout_fast(*a[0], a[1], a[2])
        cases.append((602, [pkt, [tl]])); cases.append((613, [pkt + pc.rbytes(rng, rng.choice([0, 2, 5])), [tl]]))
    # the same through the Service17Tm wrapper (service 17, message counter 0 are prescribed by the wrapper)
    for a, p, t in pc.tm_crc_coincidences(rng, lens=(0, 2, 40), stamps=(0, 7), service=17, msgcnt=0, fixed=(7, 9)):
        tl, n = len(a[1]), len(a[2])
        cases.append((610, [[a[0][2], a[0][1], a[0][3], a[0][7], a[0][5], a[0][6]], a[1], a[2]]))
        for path, kind in ((4, 1), (5, 0)):
            base = [[path] + a[0] + [kind, 0, 1, 3, 8 + tl + n], a[1], a[2]]
            cases.append((620, base + [list(o) for o in COINCIDENCE_ROUTES] + [[0, 1]]))
        pkt = _layout_fast(*a[0], a[1], a[2])
        cases.append((611, [pkt, [tl]])); cases.append((614, [pkt + pc.rbytes(rng, rng.choice([0, 2, 5])), [tl]]))
    return cases


# H. a valid packet followed by further octets (fill octets of a frame, the next packet): the decoded object must be the
#    same in every observable as when decoded from exactly its own octets
def suffix_observable_cases(rng, big):
    cases = []
    pkts = valid_packets(rng, 120 if big else 40)
    for n in (0, 1, 2, 250, 251, 505, 506, 1100) + ((4096, 65520) if big else ()):
        tl = rng.choice([0, 7, 7, 16])
        f = pc.rand_tm_args(rng, 1)[0]
        pkts.append((_layout_fast(*f, pc.rbytes(rng, tl), pc.rbytes(rng, min(n, 65527 - tl))), tl))
    for target in (0x0000, 0xFFFF, 0x00FF, 0xFF00):
        f = pc.rand_tm_args(rng, 1)[0]
        st = pc.rbytes(rng, 7)
        pkts.append((_layout_fast(*f, st, _force_crc(f, st, pc.rbytes(rng, 6), target)), 7))
    for i, (pkt, tl) in enumerate(pkts):
        other = pkts[(i + 1) % len(pkts)][0]
        sufs = [[], [rng.randrange(256)], [0, 0], [0xFF, 0xFF], pc.rbytes(rng, 2), [0x55] * 7, list(other), list(pkt),
                list(pkt[-2:]), pc.rbytes(rng, rng.choice([3, 16, 300]))]
        for sfx in (sufs if big or len(pkt) < 300 else sufs[:5]):
            cases.append((613 if (i + len(sfx)) % 3 else 614, [pkt + sfx, [tl]]))
    return cases


# I. decoder parameter x declared length x continuation: a telemetry packet with a VALID CRC over its declared length,
#    decoded with every timestamp length 0..18 (matching or not), alone and followed by further octets
def param_length_cases(rng, big):
    cases = []
    for _ in range(40 if big else 12):
        tl = rng.choice([0, 0, 1, 2, 7, 7, 8, 16])
        a = pc.rand_tm_args(rng, 1, tl)
        a[2] = pc.rbytes(rng, rng.choice([0, 0, 1, 2, 3, 5, 9]))
        pkt = _layout_fast(*a[0], a[1], a[2])
        nxt = _layout_fast(*pc.rand_tm_args(rng, 1)[0], pc.rbytes(rng, 7), pc.rbytes(rng, rng.randrange(12)))
        for tl2 in range(0, 19):
            for sfx in ([], nxt, pc.rbytes(rng, 2), pc.rbytes(rng, 24), [0] * 20):
                op = (602, 613, 611, 614)[(tl2 + len(sfx)) % 4]
                cases.append((op, [pkt + sfx, [tl2]]))
        # declared lengths 7 .. 15 + 18 + 2 with the CRC recomputed, so that the mutation reaches the code behind the check
        for L in range(7, 36):
            q = pc.repair_pus_crc(pkt[:4] + [0, L - 7] + pkt[6:], L)
            for tl2 in ((0, 1, 2, 7, 8, 16) if not big else range(0, 19)):
                for sfx in ([], nxt, pc.rbytes(rng, 30)):
                    cases.append(((602, 613, 611, 614)[(tl2 + L + len(sfx)) % 4], [q[:L] + sfx, [tl2]]))
    return cases


_SPEC_SIZES = set(NEAR_256) | {4096, 65520}


def oracle_spec(case, ires):
    op, a = case
    if op in (601, 604, 605) and valid_args(a):
        n = len(a[1]) + len(a[2])
        if n <= 300 or len(a[2]) in _SPEC_SIZES or len(a[1]) in _SPEC_SIZES:
            return [(650, a[:3])]
    return []


def oracle(case, ires, sres):
    op, a = case
    err = ires[0][0] == 1
    code = ires[0][1] if err else None
    if op in (600, 601, 604, 605):
        service, subservice, apid, seq, msgcnt, ref, dest, version = a[0]
        if not (0 <= apid < 2048 and 0 <= seq < 16384 and len(a[1]) + len(a[2]) <= 65527 and 0 <= service < 256
                and 0 <= subservice < 256 and 0 <= msgcnt < 65536):
            if not err or code not in (1, 2, 3):
                return ("C03/PusTm.__init__/range", "out-of-range argument not refused with ValueError: %s -> %s" % (a[0], ires[:1]))
            return None
        if not valid_args(a):
            return None
        if err:
            return ("C03/PusTm/valid-refused", "valid telemetry raised %s: %s" % (ires, a[0]))
        exp = _layout_fast(service, subservice, apid, seq, msgcnt, ref, dest, version, a[1], a[2])
        hdr = [version, 0, 1, apid, 3, seq, 7 + len(a[1]) + len(a[2]) + 1]
        sec = [2, ref, service, subservice, msgcnt, dest]
        if op == 600:
            if ires[1] != hdr or ires[2] != sec or ires[3] != a[1] or ires[4] != a[2] or ires[6] != [len(exp)]:
                return ("C03/PusTm.__init__/fields", "%s -> %s" % (a, ires))
            return None
        if sres and sres[0][1] != exp:
            return ("C03/spec-transcriptions-differ", "Coq tm_layout and the oracle's layout differ for %s" % (a,))
        if op in (601, 604):
            if ires[1] != exp:
                return ("C03/PusTm.pack/layout" if op == 601 else "C03/PusTm.to_space_packet/octets",
                        "packed %s, standard says %s" % (ires[1][:40], exp[:40]))
            if op == 601 and ires[2] != [len(exp)]:
                return ("C03/PusTm.packet_len", "packet_len %s, packed %d octets" % (ires[2], len(exp)))
            return None
        if op == 605:
            if ires[1] != [1]:
                return ("C03/PusTm.unpack/not-equal", "decoded telemetry does not compare equal to the original: %s" % (a,))
            if ires[2] != hdr or ires[3] != sec or ires[4] != a[1] or ires[5] != a[2]:
                return ("C03/PusTm.unpack/fields", "decoded fields differ: %s -> %s" % (a, ires[2:6]))
            return None
    if op == 610:
        apid, subservice, ssc, version, ref, dest = a[0]
        if (0 <= apid < 2048 and 0 <= subservice < 256 and 0 <= ssc < 16384 and 0 <= version < 8 and 0 <= ref < 16 and 0 <= dest < 65536):
            exp = _layout_fast(17, subservice, apid, ssc, 0, ref, dest, version, a[1], a[2])
            if err or ires[1] != exp:
                return ("C03/Service17Tm.pack/layout", "%s -> %s" % (a, ires))
        return None
    if op in (602, 611, 613, 614):
        b, tl = a[0], a[1][0]
        ent = "PusTm.unpack" if op in (602, 613) else "Service17Tm.unpack"
        if err:
            if code in (20, 21, 22, 23, 24, 25, 99):
                return ("C03/PusTm.unpack/undocumented-error", "%s on %s" % (ires, b[:16]))
            n = b[4] * 256 + b[5] + 7 if len(b) >= 6 else None
            if n is not None and 15 + tl <= n <= len(b) and b[6] >> 4 == 2 and fcrc(b[:n]) == 0:
                return ("C03/%s/valid-refused" % ent, "a valid telemetry packet of %d octets (timestamp_len %d) followed by %d further octets is refused: %s" % (
                    n, tl, len(b) - n, ires))
            return None
        n = b[4] * 256 + b[5] + 7
        if n < 6 + 7 + tl + 2:
            return ("C03/PusTm.unpack/small-declared-length",
                    "declared packet length %d < %d (header + %d-octet timestamp + CRC) accepted: %s" % (n, 15 + tl, tl, b[:24]))
        if len(b) < n or fcrc(b[:n]) != 0:
            return ("C03/PusTm.unpack/accepts-invalid", "accepted although short or CRC wrong: %s" % (b[:20],))
        if ires[3] != b[13:13 + tl] or ires[4] != b[13 + tl:n - 2] or ires[6] != [n] or \
                ires[2] != [2, b[6] & 15, b[7], b[8], b[9] * 256 + b[10], b[11] * 256 + b[12]]:
            return ("C03/PusTm.unpack/fields", "decoded %s from %s" % (ires[1:5], b[:24]))
        unit = b[:n]
        where = "telemetry of %d octets (timestamp_len %d) decoded from a buffer of %d octets (%s behind it)" % (n, tl, len(b), b[n:n + 8])
        if ires[5] != [1] + unit[-2:]:
            return ("C03/%s/crc16-not-the-trailer" % ent, "%s: crc16 reads %s, the packet's trailer is %s" % (where, ires[5], unit[-2:]))
        if op in (613, 614):
            if ires[7] != unit:
                return ("C03/%s-pack/recalc-false-differs" % ent, "%s: pack(recalc_crc=False) gives ... %s, the accepted octets end in %s" % (
                    where, ires[7][-4:], unit[-4:]))
            if ires[8] != unit:
                return ("C03/%s-pack/roundtrip" % ent, "%s: re-pack ... %s != accepted octets ... %s" % (where, ires[8][-4:], unit[-4:]))
            if ires[9] != [1, 1]:
                return ("C03/%s/suffix-changes-equality" % ent, "%s: not equal to the telemetry decoded from exactly its octets: %s" % (where, ires[9]))
            if ires[10:16] != ires[1:7]:
                return ("C03/PusTm.pack/changes-decoded-object", "%s: fields after the two packs %s, before %s" % (where, ires[10:16], ires[1:7]))
        return None
    if op == 603:
        b = a[0]
        if not err:
            n = b[4] * 256 + b[5] + 7
            if ires[1] != b[:n]:
                return ("C03/PusTm.unpack-pack/roundtrip", "re-pack %s != accepted octets %s" % (ires[1][:20], b[:n][:20]))
        return None
    if op == 607:
        service, subservice, apid, seq, msgcnt, ref, dest, version = a[0]
        if valid_args(a) and valid_args([a[0], a[1], a[3]]):
            exp = _layout_fast(service, subservice, apid, seq, msgcnt, ref, dest, version, a[1], a[3])
            if err or ires[1] != exp or ires[2] != [len(exp)]:
                return ("C11/PusTm.tm_data/stale-length", "after tm_data := %d octets: %s, fresh TM packs %d octets" % (len(a[3]), str(ires)[:120], len(exp)))
        return None
    if op == 620:
        return _hist_oracle(a, ires)
    if op == 612:
        service, subservice, apid, seq, msgcnt, ref, dest, version = a[0]
        src = list(a[2])
        for o in a[3:]:
            if o[0] == 3: src = list(o[1:])
            elif o[0] == 5: apid = o[1]
        f = [[service, subservice, apid, seq, msgcnt, ref, dest, version], a[1], src]
        if valid_args(a) and valid_args(f):
            exp = _layout_fast(*f[0], f[1], f[2])
            if err:
                return ("C11/PusTm.history/raises", "valid history raised %s" % (ires,))
            if ires[2] != exp or ires[3] != [len(exp)]:
                return ("C11/PusTm.history/pack-differs-from-fresh", "after %s pack gives %s (packet_len %s), fresh gives %s" % (a[3:], ires[2][:20], ires[3], exp[:20]))
            if ires[1] != exp:
                return ("C03/PusTm.to_space_packet/stale-octets", "after %s the space-packet view packs ...%s but pack() gives ...%s" % (a[3:], ires[1][-6:], exp[-6:]))
        return None
    if op == 608:
        b, tl = a[0], a[1][0]
        if not err and ires[2] != b[7:7 + tl] or (not err and len(ires[2]) != tl):
            return ("C03/PusTmSecondaryHeader.unpack/truncated-timestamp",
                    "secondary header of %d octets accepted with timestamp_len=%d: timestamp %s" % (len(b), tl, ires[2]))
        return None
    return None


def neighbours(case):
    op, a = case
    out = []
    if op in (602, 603, 611, 613, 614):
        for i in range(min(15, len(a[0]))):
            for bit in (0, 4, 7):
                l = list(a[0]); l[i] ^= 1 << bit; out.append((op, [l, a[1]]))
    return out


DECODERS = [
    {"op": 602, "name": "PusTm.unpack", "extra": [[7]], "valid": lambda rng: [p for p, _ in valid_packets(rng, 30, 7)],
     "declared_len": lambda b: b[4] * 256 + b[5] + 7},
    {"op": 602, "name": "PusTm.unpack(ts=0)", "extra": [[0]], "valid": lambda rng: [p for p, _ in valid_packets(rng, 20, 0)],
     "declared_len": lambda b: b[4] * 256 + b[5] + 7},
    {"op": 611, "name": "Service17Tm.unpack", "extra": [[7]], "valid": lambda rng: [p for p, _ in valid_packets(rng, 20, 7)],
     "declared_len": lambda b: b[4] * 256 + b[5] + 7},
    {"op": 608, "name": "PusTmSecondaryHeader.unpack", "extra": [[7]],
     "valid": lambda rng: [p[6:20] for p, _ in valid_packets(rng, 10, 7)], "declared_len": lambda b: 14},
    {"op": 609, "name": "PusTm.service_from_bytes", "extra": [], "valid": lambda rng: [p for p, _ in valid_packets(rng, 10, 7)],
     "declared_len": None},
    # every observable of the decoded object (crc16, pack with and without recalculation, equality), see ops 613 / 614
    {"op": 613, "name": "PusTm.unpack+views", "extra": [[7]], "valid": lambda rng: [p for p, _ in valid_packets(rng, 12, 7)],
     "declared_len": lambda b: b[4] * 256 + b[5] + 7},
    {"op": 614, "name": "Service17Tm.unpack+views", "extra": [[2]], "valid": lambda rng: [p for p, _ in valid_packets(rng, 12, 2)],
     "declared_len": lambda b: b[4] * 256 + b[5] + 7},
]
# the units of these decoders end in a CRC-16 trailer over the declared length ("crc": how C09 / C10 repair it after a
# mutation); "param_variants": other values of the decoder's parameter (timestamp_len) the cross-cutting checks try
for _d in DECODERS:
    if _d["op"] in (602, 611, 613, 614):
        _d["crc"] = "pus"
        _d["param_variants"] = [[[k]] for k in range(0, 19)]
