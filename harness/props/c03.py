"""C03 — PUS-C telemetry encode/decode for any timestamp length (+ service-17 wrapper)."""
import itertools
from spacepackets.ecss.tm import PusTm, PusTmSecondaryHeader
from spacepackets.ecss.pus_17_test import Service17Tm
from harness import pus_common as pc

ID = "C03"
ENUMS = [
    ("spacepackets.ecss.defs:PusVersion.PUS_C", "SP.Model.PusTc.PUS_C"),
    ("spacepackets.ecss.tm:PusTmSecondaryHeader.MIN_LEN", "SP.Model.PusTm.TMSEC_MIN_LEN"),
    ("spacepackets.ecss.tm:PUS_TM_TIMESTAMP_OFFSET", "SP.Model.PusTm.PUS_TM_TIMESTAMP_OFFSET"),
    ("spacepackets.ecss.defs:PusService.S17_TEST", "SP.Model.PusTm.S17_TEST"),
    ("spacepackets.ccsds.spacepacket:SPACE_PACKET_HEADER_SIZE", "SP.Model.SpacePacket.CCSDS_HEADER_LEN"),
    ("spacepackets.ccsds.spacepacket:PacketType.TM", "SP.Model.SpacePacket.PT_TM"),
    ("spacepackets.ccsds.spacepacket:SequenceFlags.UNSEGMENTED", "SP.Model.SpacePacket.SF_UNSEG"),
]
ASSUMPTIONS = [
    "crcmod's C implementation is outside the model (tied by C04's exhaustive byte-update comparison and every packed packet here)",
    "the decoder's timestamp_len argument is a non-negative int",
]
TRUSTED = []
ORACLE_LIMIT = {"quick": 6000, "thorough": 40000}


def _sph_fields(h):
    return [h.ccsds_version, int(h.packet_type), int(h.sec_header_flag), h.apid, int(h.seq_flags), h.seq_count, h.data_len]


def _sec(s):
    return [int(s.pus_version), s.spacecraft_time_ref, s.service, s.subservice, s.message_counter, s.dest_id]


def _fields(t):
    crc = t.crc16
    return [_sph_fields(t.space_packet_header), _sec(t.pus_tm_sec_header), list(t.pus_tm_sec_header.timestamp),
            list(t.tm_data), [0] if crc is None else [1] + list(crc), [t.packet_len]]


def _new(a):
    service, subservice, apid, seq, msgcnt, ref, dest, version = a[0]
    return PusTm(service=service, subservice=subservice, timestamp=bytes(a[1]), source_data=bytes(a[2]), apid=apid,
                 seq_count=seq, message_counter=msgcnt, space_time_ref=ref, destination_id=dest, packet_version=version)


def _new17(a):
    apid, subservice, ssc, version, ref, dest = a[0]
    return Service17Tm(apid=apid, subservice=subservice, timestamp=bytes(a[1]), ssc=ssc, source_data=bytes(a[2]),
                       packet_version=version, space_time_ref=ref, destination_id=dest)


def impl(op, a):
    if op == 600:
        return _fields(_new(a))
    if op == 601:
        t = _new(a); raw = t.pack(); return [list(raw), [t.packet_len]]
    if op == 602:
        return _fields(PusTm.unpack(bytes(a[0]), a[1][0]))
    if op == 603:
        return [list(PusTm.unpack(bytes(a[0]), a[1][0]).pack())]
    if op == 604:
        return [list(_new(a).to_space_packet().pack())]
    if op == 605:
        t = _new(a); raw = t.pack(); u = PusTm.unpack(bytes(raw), len(a[1]))
        return [[int((u == t) and (t == u))]] + _fields(u)
    if op == 607:
        t = _new(a); t.tm_data = bytes(a[3]); raw = t.pack(); return [list(raw), [t.packet_len]]
    if op == 608:
        s = PusTmSecondaryHeader.unpack(bytes(a[0]), a[1][0]); return [_sec(s), list(s.timestamp)]
    if op == 609:
        return [[PusTm.service_from_bytes(bytearray(a[0]))]]
    if op == 610:
        t = _new17(a); raw = t.pack(); return [list(raw), [t.pus_tm.packet_len]]
    if op == 611:
        return _fields(Service17Tm.unpack(bytes(a[0]), a[1][0]).pus_tm)
    if op == 612:
        t = _new(a)
        for o in a[3:]:
            k = o[0]
            if k == 0: t.pack()
            elif k == 2: t.calc_crc()
            elif k == 3: t.tm_data = bytes(o[1:])
            elif k == 5: t.apid = o[1]
            elif k == 7:
                from spacepackets.ccsds.spacepacket import SequenceFlags
                t.seq_flags = SequenceFlags(o[1])
        sp = t.to_space_packet().pack()
        raw = t.pack()
        return [list(sp), list(raw), [t.packet_len]]
    raise RuntimeError("bad op")


def valid_args(a):
    service, subservice, apid, seq, msgcnt, ref, dest, version = a[0]
    return (0 <= service < 256 and 0 <= subservice < 256 and 0 <= apid < 2048 and 0 <= seq < 16384 and 0 <= msgcnt < 65536
            and 0 <= ref < 16 and 0 <= dest < 65536 and 0 <= version < 8 and len(a[1]) + len(a[2]) <= 65527)


def valid_packets(rng, n=40, ts_len=None):
    out = []
    for _ in range(n):
        a = pc.rand_tm_args(rng, 24, ts_len)
        out.append((pc.tm_layout(*a[0], a[1], a[2]), len(a[1])))
    return out


def streams(tier, rng):
    big = tier == "thorough"
    cases = []
    combos = list(itertools.product([0, 1, 255], [0, 255], [0, 2047], [0, 16383], [0, 256, 65535], [0, 15], [0, 1, 65535], [0, 7]))
    rng.shuffle(combos)
    for c in combos[: (len(combos) if big else 250)]:
        for tl in (0, 7, rng.randrange(1, 17)):
            a = [list(c), pc.rbytes(rng, tl), pc.rbytes(rng, rng.choice([0, 1, 9]))]
            for op in (600, 601, 604, 605):
                cases.append((op, a))
    # every timestamp length 0..16 exhaustively x a few payload lengths
    for tl in range(0, 17):
        for n in (0, 1, 5):
            a = [[17, 2, 0x33, 9, 4, 1, 2, 0], pc.rbytes(rng, tl), pc.rbytes(rng, n)]
            cases.append((601, a)); cases.append((605, a))
    for n in [255, 256, 4096] + ([65520] if big else []):
        a = [[3, 25, 0x42, 7, 3, 0, 0, 0], pc.rbytes(rng, 7), pc.rbytes(rng, n)]
        cases.append((601, a)); cases.append((605, a))
    a = [[3, 25, 0x42, 7, 3, 0, 0, 0], pc.rbytes(rng, 7), pc.rbytes(rng, 65520)]
    cases.append((601, a))
    yield "structured_valid", "exact", cases
    cases = []
    for _ in range(40000 if big else 5000):
        a = pc.rand_tm_args(rng, 64)
        cases.append((rng.choice([601, 601, 605, 604, 600]), a))
    for _ in range(4000 if big else 600):
        a = pc.rand_tm_args(rng, 30)
        cases.append((610, [[a[0][2], a[0][1], a[0][3], a[0][7], a[0][5], a[0][6]], a[1], a[2]]))
    yield "random_valid", "exact", cases
    cases = []
    base = [1, 1, 1, 1, 1, 0, 0, 0]
    for idx, vals in ((0, [-1, 256, 1000]), (1, [-1, 256]), (2, [-1, 2048, 2 ** 64]), (3, [-1, 16384]), (4, [-1, 65536]),
                      (5, [16, 255, 256, -1]), (6, [65536, -1]), (7, [8, 9, -1])):
        for v in vals:
            l = list(base); l[idx] = v
            cases.append((600, [l, [1, 2, 3], []])); cases.append((601, [l, [1, 2, 3], [9]]))
    cases.append((600, [base, [0] * 7, [0] * 65521])); cases.append((600, [base, [0] * 65528, []]))
    yield "refusals", "exact", cases
    # targeted malformed: decode with the right and with wrong timestamp lengths
    cases = []
    for pkt, tl in valid_packets(rng, 60 if big else 25):
        for m in pc.malformed(rng, pkt, 13 + tl):
            cases.append((602, [m, [tl]]))
            if rng.random() < 0.2:
                cases.append((603, [m, [tl]])); cases.append((611, [m, [tl]]))
        for tl2 in range(0, 20):
            if tl2 != tl:
                cases.append((602, [pkt, [tl2]]))
                cases.append((602, [pkt + pc.rbytes(rng, 9), [tl2]]))
    yield "targeted_malformed", "exact", cases
    # declared length too small for header + timestamp + CRC, with a valid CRC over the declared octets
    cases = []
    for tl in (0, 1, 2, 7, 8):
        for dlen in range(0, 6 + tl + 4):
            for _ in range(12 if big else 4):
                first = [0x08 | rng.randrange(8), rng.randrange(256), 0xC0 | rng.randrange(64), rng.randrange(256), 0, 0,
                         0x20 | rng.randrange(16)]
                for total in (dlen + 7, 13 + tl, 15 + tl, 30):
                    if total >= dlen + 7:
                        cases.append((602, [pc.with_valid_crc_prefix(rng, dlen, first, max(total, 7)), [tl]]))
    yield "small_declared_length", "exact", cases
    cases = []
    for _ in range(30000 if big else 4000):
        n = rng.randrange(0, 44)
        b = pc.rbytes(rng, n)
        if n > 6 and rng.random() < 0.7:
            b[0] = 0x08 | (b[0] & 7); b[4] = 0; b[5] = rng.randrange(0, 44); b[6] = 0x20 | (b[6] & 15)
        cases.append((602, [b, [rng.choice([0, 2, 7])]]))
    yield "garbage", "verdict", cases
    cases = []
    for d0 in range(256):
        for n in (7, 9, 14, 20):
            cases.append((608, [[d0] + pc.rbytes(rng, n - 1), [7]]))
    for n in range(0, 16):
        for tl in (0, 1, 7):
            cases.append((608, [[0x20] + pc.rbytes(rng, max(0, n - 1)) if n else [], [tl]]))
        cases.append((609, [pc.rbytes(rng, n)]))
    yield "exh_sec_header_first_octet", "exact", cases
    cases = []
    for _ in range(2000 if big else 300):
        a = pc.rand_tm_args(rng, 20)
        cases.append((607, a + [pc.rbytes(rng, rng.randrange(0, 20))]))
    yield "tm_data_setter", "exact", cases
    cases = []
    for _ in range(6000 if big else 1200):
        a = pc.rand_tm_args(rng, 12)
        ops = []
        for _ in range(rng.randrange(0, 6)):
            k = rng.choice([0, 0, 2, 3, 5])
            if k == 3: ops.append([3] + pc.rbytes(rng, rng.randrange(0, 10)))
            elif k == 5: ops.append([5, pc.pick(rng, pc.BND11, 2048)])
            else: ops.append([k])
        cases.append((612, a + ops))
    yield "setter_histories_then_views", "exact", cases


def oracle_spec(case, ires):
    op, a = case
    if op in (601, 604, 605) and valid_args(a):
        return [(650, a[:3])]
    return []


def oracle(case, ires, sres):
    op, a = case
    err = ires[0][0] == 1
    code = ires[0][1] if err else None
    if op in (600, 601, 604, 605):
        service, subservice, apid, seq, msgcnt, ref, dest, version = a[0]
        if not (0 <= apid < 2048 and 0 <= seq < 16384 and len(a[1]) + len(a[2]) <= 65527 and 0 <= service < 256
                and 0 <= subservice < 256 and 0 <= msgcnt < 65536):
            if not err or code not in (1, 2, 3):
                return ("C03/PusTm.__init__/range", "out-of-range argument not refused with ValueError: %s -> %s" % (a[0], ires[:1]))
            return None
        if not valid_args(a):
            return None
        if err:
            return ("C03/PusTm/valid-refused", "valid telemetry raised %s: %s" % (ires, a[0]))
        exp = pc.tm_layout(service, subservice, apid, seq, msgcnt, ref, dest, version, a[1], a[2])
        hdr = [version, 0, 1, apid, 3, seq, 7 + len(a[1]) + len(a[2]) + 1]
        sec = [2, ref, service, subservice, msgcnt, dest]
        if op == 600:
            if ires[1] != hdr or ires[2] != sec or ires[3] != a[1] or ires[4] != a[2] or ires[6] != [len(exp)]:
                return ("C03/PusTm.__init__/fields", "%s -> %s" % (a, ires))
            return None
        if sres and sres[0][1] != exp:
            return ("C03/spec-transcriptions-differ", "Coq tm_layout and the oracle's layout differ for %s" % (a,))
        if op in (601, 604):
            if ires[1] != exp:
                return ("C03/PusTm.pack/layout" if op == 601 else "C03/PusTm.to_space_packet/octets",
                        "packed %s, standard says %s" % (ires[1][:40], exp[:40]))
            if op == 601 and ires[2] != [len(exp)]:
                return ("C03/PusTm.packet_len", "packet_len %s, packed %d octets" % (ires[2], len(exp)))
            return None
        if op == 605:
            if ires[1] != [1]:
                return ("C03/PusTm.unpack/not-equal", "decoded telemetry does not compare equal to the original: %s" % (a,))
            if ires[2] != hdr or ires[3] != sec or ires[4] != a[1] or ires[5] != a[2]:
                return ("C03/PusTm.unpack/fields", "decoded fields differ: %s -> %s" % (a, ires[2:6]))
            return None
    if op == 610:
        apid, subservice, ssc, version, ref, dest = a[0]
        if (0 <= apid < 2048 and 0 <= subservice < 256 and 0 <= ssc < 16384 and 0 <= version < 8 and 0 <= ref < 16 and 0 <= dest < 65536):
            exp = pc.tm_layout(17, subservice, apid, ssc, 0, ref, dest, version, a[1], a[2])
            if err or ires[1] != exp:
                return ("C03/Service17Tm.pack/layout", "%s -> %s" % (a, ires))
        return None
    if op in (602, 611):
        b, tl = a[0], a[1][0]
        if err:
            if code in (20, 21, 22, 23, 24, 25, 99):
                return ("C03/PusTm.unpack/undocumented-error", "%s on %s" % (ires, b[:16]))
            return None
        n = b[4] * 256 + b[5] + 7
        if n < 6 + 7 + tl + 2:
            return ("C03/PusTm.unpack/small-declared-length",
                    "declared packet length %d < %d (header + %d-octet timestamp + CRC) accepted: %s" % (n, 15 + tl, tl, b[:24]))
        if len(b) < n or pc.crc16(b[:n]) != 0:
            return ("C03/PusTm.unpack/accepts-invalid", "accepted although short or CRC wrong: %s" % (b[:20],))
        if ires[3] != b[13:13 + tl] or ires[4] != b[13 + tl:n - 2] or ires[6] != [n] or \
                ires[2] != [2, b[6] & 15, b[7], b[8], b[9] * 256 + b[10], b[11] * 256 + b[12]]:
            return ("C03/PusTm.unpack/fields", "decoded %s from %s" % (ires[1:5], b[:24]))
        return None
    if op == 603:
        b = a[0]
        if not err:
            n = b[4] * 256 + b[5] + 7
            if ires[1] != b[:n]:
                return ("C03/PusTm.unpack-pack/roundtrip", "re-pack %s != accepted octets %s" % (ires[1][:20], b[:n][:20]))
        return None
    if op == 607:
        service, subservice, apid, seq, msgcnt, ref, dest, version = a[0]
        if valid_args(a) and valid_args([a[0], a[1], a[3]]):
            exp = pc.tm_layout(service, subservice, apid, seq, msgcnt, ref, dest, version, a[1], a[3])
            if err or ires[1] != exp or ires[2] != [len(exp)]:
                return ("C11/PusTm.tm_data/stale-length", "after tm_data := %d octets: %s, fresh TM packs %d octets" % (len(a[3]), str(ires)[:120], len(exp)))
        return None
    if op == 612:
        service, subservice, apid, seq, msgcnt, ref, dest, version = a[0]
        src = list(a[2])
        for o in a[3:]:
            if o[0] == 3: src = list(o[1:])
            elif o[0] == 5: apid = o[1]
        f = [[service, subservice, apid, seq, msgcnt, ref, dest, version], a[1], src]
        if valid_args(a) and valid_args(f):
            exp = pc.tm_layout(*f[0], f[1], f[2])
            if err:
                return ("C11/PusTm.history/raises", "valid history raised %s" % (ires,))
            if ires[2] != exp or ires[3] != [len(exp)]:
                return ("C11/PusTm.history/pack-differs-from-fresh", "after %s pack gives %s (packet_len %s), fresh gives %s" % (a[3:], ires[2][:20], ires[3], exp[:20]))
            if ires[1] != exp:
                return ("C03/PusTm.to_space_packet/stale-octets", "after %s the space-packet view packs ...%s but pack() gives ...%s" % (a[3:], ires[1][-6:], exp[-6:]))
        return None
    if op == 608:
        b, tl = a[0], a[1][0]
        if not err and ires[2] != b[7:7 + tl] or (not err and len(ires[2]) != tl):
            return ("C03/PusTmSecondaryHeader.unpack/truncated-timestamp",
                    "secondary header of %d octets accepted with timestamp_len=%d: timestamp %s" % (len(b), tl, ires[2]))
        return None
    return None


def neighbours(case):
    op, a = case
    out = []
    if op in (602, 603, 611):
        for i in range(min(15, len(a[0]))):
            for bit in (0, 4, 7):
                l = list(a[0]); l[i] ^= 1 << bit; out.append((op, [l, a[1]]))
    return out


DECODERS = [
    {"op": 602, "name": "PusTm.unpack", "extra": [[7]], "valid": lambda rng: [p for p, _ in valid_packets(rng, 30, 7)],
     "declared_len": lambda b: b[4] * 256 + b[5] + 7},
    {"op": 602, "name": "PusTm.unpack(ts=0)", "extra": [[0]], "valid": lambda rng: [p for p, _ in valid_packets(rng, 20, 0)],
     "declared_len": lambda b: b[4] * 256 + b[5] + 7},
    {"op": 611, "name": "Service17Tm.unpack", "extra": [[7]], "valid": lambda rng: [p for p, _ in valid_packets(rng, 20, 7)],
     "declared_len": lambda b: b[4] * 256 + b[5] + 7},
    {"op": 608, "name": "PusTmSecondaryHeader.unpack", "extra": [[7]],
     "valid": lambda rng: [p[6:20] for p, _ in valid_packets(rng, 10, 7)], "declared_len": lambda b: 14},
    {"op": 609, "name": "PusTm.service_from_bytes", "extra": [], "valid": lambda rng: [p for p, _ in valid_packets(rng, 10, 7)],
     "declared_len": None},
]
