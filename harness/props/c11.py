"""C11 — lengths track mutations, pack is repeatable, caller inputs are not modified.
Aggregates the setter / history / constructor streams of the per-class modules (each with that
module's adapter and oracle): TC application data, TM source data, File Data payload and segment
metadata, USLP data zone and frame-length update, the directive PDUs' setters, and for every PDU
constructor the caller's PduConfig / parameter objects compared before and after."""
import importlib, re

ID = "C11"
_NAMES = ["c02", "c03", "c05", "c07", "c12", "c17", "c06a", "c06b", "c06c", "c01", "c15", "c20", "c08"]
MODS = []
for _n in _NAMES:
    try:
        MODS.append(importlib.import_module("harness.props." + _n))
    except ModuleNotFoundError:
        pass
PAT = re.compile(r"setter|histor|ctor|caller|idempot|twice|structured_valid|exh_configs_pack_roundtrip|mutat|c11", re.I)
ENUMS = []
ASSUMPTIONS = ["Python aliasing is represented only as the explicit caller-config-after component of the constructors' "
               "results; that copy.copy is shallow and nothing else aliases the caller's objects is exercised by the "
               "adapters (caller's objects compared field by field before/after), not proved"]
TRUSTED = []
# explorations outside the model that belong to streams collected here (their modules describe them)
EXPLORED_ONLY = [a for m in MODS for a in getattr(m, "EXPLORED_ONLY", []) if any(PAT.search(w) for w in re.findall(r"stream (\w+)", a))]
ORACLE_LIMIT = {"quick": 100000, "thorough": 1000000}


def _ranges(m):
    if hasattr(m, "OP_RANGE"):
        return [m.OP_RANGE]
    fam = {"c01": 1, "c20": 2, "c02": 5, "c03": 6, "c15": 7, "c08": 10, "c05": 12, "c07": 14, "c12": 15, "c17": 16}[m.__name__.rsplit(".", 1)[1]]
    return [(fam * 100, fam * 100 + 99)]


def _mod(op):
    for m in MODS:
        for lo, hi in _ranges(m):
            if lo <= op <= hi:
                return m
    raise RuntimeError("no module for op %d" % op)


def streams(tier, rng):
    for m in MODS:
        short = m.__name__.rsplit(".", 1)[1]
        for name, mode, cases in m.streams(tier, rng):
            if PAT.search(name):
                yield short + ":" + name, mode, cases


def impl(op, a):
    return _mod(op).impl(op, a)


def oracle_spec(case, ires):
    m = _mod(case[0])
    return m.oracle_spec(case, ires) if hasattr(m, "oracle_spec") else []


def oracle(case, ires, sres):
    m = _mod(case[0])
    return m.oracle(case, ires, sres) if hasattr(m, "oracle") else None
