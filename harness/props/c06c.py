"""C06 part C — the NAK PDU (spacepackets/cfdp/pdu/nak.py).  Streams, implementation adapter, oracle.
Ops 1370-1399 (family 13, Run/DispPduC.v)."""
import itertools
from harness import core
from harness.props import c05 as h5
from spacepackets.cfdp.pdu.nak import NakPdu, get_max_seg_reqs_for_max_packet_size_and_pdu_cfg
from spacepackets.cfdp import defs as D

OP_RANGE = (1370, 1399)
_F = "SP.Model.FileDirective."
_H = "SP.Model.PduHeader."
ENUMS = [
    ("spacepackets.cfdp.pdu.nak:DirectiveType.NAK_PDU", _F + "DT_NAK"),
    ("spacepackets.cfdp.pdu.file_directive:DirectiveType.EOF_PDU", _F + "DT_EOF"),
    ("spacepackets.cfdp.pdu.file_directive:DirectiveType.FINISHED_PDU", _F + "DT_FINISHED"),
    ("spacepackets.cfdp.pdu.file_directive:DirectiveType.ACK_PDU", _F + "DT_ACK"),
    ("spacepackets.cfdp.pdu.file_directive:DirectiveType.METADATA_PDU", _F + "DT_METADATA"),
    ("spacepackets.cfdp.pdu.file_directive:DirectiveType.PROMPT_PDU", _F + "DT_PROMPT"),
    ("spacepackets.cfdp.pdu.file_directive:DirectiveType.KEEP_ALIVE_PDU", _F + "DT_KEEP_ALIVE"),
    ("spacepackets.cfdp.pdu.file_directive:DirectiveType.NONE", _F + "DT_NONE"),
    ("spacepackets.cfdp.pdu.file_directive:FileDirectivePduBase.FILE_DIRECTIVE_PDU_LEN", _F + "FILE_DIRECTIVE_PDU_LEN"),
    ("spacepackets.cfdp.pdu.file_directive:PduType.FILE_DIRECTIVE", _H + "PDU_FILE_DIRECTIVE"),
    ("spacepackets.cfdp.pdu.file_directive:SegmentMetadataFlag.NOT_PRESENT", _H + "SEGMETA_NOT_PRESENT"),
    ("spacepackets.cfdp.pdu.nak:Direction.TOWARDS_SENDER", _H + "DIR_TOWARDS_SENDER"),
    ("spacepackets.cfdp.pdu.nak:CrcFlag.WITH_CRC", _H + "CRC_WITH_CRC"),
    ("spacepackets.cfdp.pdu.nak:LargeFileFlag.NORMAL", _H + "FILE_NORMAL"),
    ("spacepackets.cfdp.pdu.nak:LargeFileFlag.LARGE", _H + "FILE_LARGE"),
] + [e for e in h5.ENUMS if "CFDP_VERSION_2" in e[0] or "FIXED_LENGTH" in e[0]]
ASSUMPTIONS = h5.ASSUMPTIONS + [
    "crcmod's crc-ccitt-false equals the bitwise CRC-16 of Base/Crc16.v (tied exhaustively in family 17 / C04); "
    "here every packed CRC trailer is additionally recomputed bitwise by the oracle",
    "copy.copy(pdu_conf) is shallow and nothing else aliases the caller's PduConfig (its fields are compared after "
    "construction and after every setter history)",
    "segment requests are sequences of (start, end) pairs of Python ints (tuples of other arity are outside the model)",
]
TRUSTED = ["crcmod 1.7 (C extension) as CRC-16/CCITT-FALSE"]
EXPLORED_ONLY = [
    "op 1399 / stream histories_explored_foreign_tlv_items (outside the model: the model's lists hold filestore responses / "
    "generic TLVs and its fault location is an entity-ID TLV; the library takes every object with packet_len and pack()): "
    "TLV objects of the library's other classes (EntityIdTlv in file_store_responses, FileStoreResponseTlv / FlowLabelTlv / "
    "MessageToUserTlv / FaultHandlerOverrideTlv / FileStoreRequestTlv / generic CfdpTlv of any type as fault location, in the "
    "Metadata options or in the responses list; through the setters, and inside FinishedParams at construction) -- an "
    "assignment that raises leaves every view, the packed octets and the caller's objects as they were; one that is accepted "
    "keeps packet_len / the data-field length equal to what pack() emits, pack() repeatable and the caller's objects untouched; "
    "likewise for the ordinary operation that follows",
]

WIDTHS = (1, 2, 4, 8)


# ------------------------------------------------------------------ adapter
def _segs(flat):
    return [(flat[i], flat[i + 1]) for i in range(0, len(flat) - 1, 2)]


def _flat(segs):
    out = []
    for s, e in segs:
        out += [s, e]
    return out


def _pdu(a):
    conf = h5._conf(a[0], a[1])
    return NakPdu(conf, a[2][0], a[2][1], _segs(a[3])), conf


def _fields(p):
    return h5._fields(p.pdu_header) + [[int(p.pdu_file_directive.directive_type), p.pdu_file_directive.header_len, p.packet_len],
                                       [p.start_of_scope, p.end_of_scope], _flat(p.segment_requests)]


def _pack_res(p):
    try:
        return [0] + list(p.pack())
    except Exception as e:  # noqa
        return [1, core.classify_exception(e)]


def _unpack(cls, octs):
    """K.unpack from bytes or -- every third input, and half of the inputs of 512 octets or more -- from a bytearray
    (a receive buffer) that is overwritten after the call: the decoded object must not depend on it any more"""
    if (len(octs) + sum(octs[:8])) % 3 and not (len(octs) >= 512 and sum(octs[:8]) % 2):
        return cls.unpack(bytes(octs))
    buf = bytearray(octs)
    p = cls.unpack(buf)
    buf[:] = b"\xa5" * len(buf)
    return p


def _conf_lists(c):
    return [[c.source_entity_id.value, c.source_entity_id.byte_len, c.dest_entity_id.value, c.dest_entity_id.byte_len,
             c.transaction_seq_num.value, c.transaction_seq_num.byte_len],
            [int(c.trans_mode), int(c.file_flag), int(c.crc_flag), int(c.direction), int(c.seg_ctrl)]]


def impl(op, a):
    if op == 1399:
        from harness.props import c06h
        return c06h.explore(a)
    if op == 1380:
        from harness.props import c06h
        return c06h.impl(op, a)
    if op == 1370:
        p, conf = _pdu(a)
        return _fields(p) + _conf_lists(conf)
    if op == 1371:
        return [list(_pdu(a)[0].pack())]
    if op == 1372:
        return _fields(_unpack(NakPdu, a[0]))
    if op == 1373:
        return [list(_unpack(NakPdu, a[0]).pack())]
    if op == 1374:
        p, _ = _pdu(a)
        b = p.pack()
        p2 = _unpack(NakPdu, list(b) + list(a[4] if len(a) > 4 else []))
        return [[int(p2 == p)]] + _fields(p2) + [_pack_res(p2)]
    if op == 1375:
        return [[get_max_seg_reqs_for_max_packet_size_and_pdu_cfg(a[2][0], h5._conf(a[0], a[1]))]]
    if op == 1376:
        p, conf = _pdu(a)
        for o in a[4:]:
            try:
                if o and o[0] == 0:
                    p.segment_requests = _segs(o[1:])
                elif len(o) >= 2 and o[0] == 1:
                    p.file_flag = h5._e(D.LargeFileFlag, o[1])
                elif len(o) >= 2 and o[0] == 2:
                    p.start_of_scope = o[1]
                elif len(o) >= 2 and o[0] == 3:
                    p.end_of_scope = o[1]
            except ValueError:
                # offsets the file-size width (as it is, or as the step would make it) cannot hold: the unchanged library
                # stores them and refuses at pack(); refused at the assignment instead, the PDU stays as it was (judged
                # on the views / lengths / packs below) and the history goes on.  Every other refusal ends the case.
                large = o[1] if len(o) >= 2 and o[0] == 1 else int(p.file_flag)
                if large not in (0, 1):
                    raise
                vals = [p.start_of_scope, p.end_of_scope] + _flat(p.segment_requests)
                if o[0] == 0: vals = list(o[1:])
                elif o[0] in (2, 3): vals = [o[1]]
                if all(0 <= v < 256 ** (8 if large else 4) for v in vals):
                    raise
        return _fields(p) + [_pack_res(p), _pack_res(p)] + _conf_lists(conf)
    if op == 1377:
        return [[int(_pdu(a[:4])[0] == _pdu(a[4:8])[0])]]
    if op == 1378:
        return [[_pdu(a)[0].get_max_seg_reqs_for_max_packet_size(a[4][0])]]
    if op == 1379:
        e = list(a[1]) + [0] * (len(a[0]) - len(a[1]))
        return _fields(NakPdu.unpack(bytes(x ^ y for x, y in zip(a[0], e))))
    raise RuntimeError("bad op")


# ------------------------------------------------------------------ independent transcription
def nak_layout(ids, flags, start, end, flat, direction=1, meta=0):
    """CCSDS 727.0-B-5 table 5-10, arithmetic only (the Coq Spec.nak_layout is evaluated too, op 1390)."""
    mode, large, crc, _, seg = flags
    w = 8 if large else 4
    body = [8] + list(start.to_bytes(w, "big")) + list(end.to_bytes(w, "big"))
    for v in flat:
        body += list(v.to_bytes(w, "big"))
    dlen = len(body) + (2 if crc else 0)
    pre = h5.layout(ids, [mode, large, crc, direction, seg], [0, meta, dlen]) + body
    if crc:
        c = h5.crc16_bitwise(pre)
        pre = pre + [c >> 8, c & 0xFF]
    return pre


def lay(a):
    return nak_layout(a[0], a[1], a[2][0], a[2][1], a[3])


def dlen_of(flags, nseg):
    return 1 + (16 if flags[1] else 8) * (1 + nseg) + (2 if flags[2] else 0)


def valid_nak(a):
    ids, flags, se, flat = a[:4]
    if not h5.valid_args(ids, flags, [0, 0, 0]) or len(flat) % 2:
        return False
    lim = 256 ** (8 if flags[1] else 4)
    if not all(0 <= v < lim for v in list(se) + list(flat)):
        return False
    return dlen_of(flags, len(flat) // 2) <= 65535


def _rand_conf(rng, sl=None, ql=None, crc=None, large=None):
    sl = sl or rng.choice(WIDTHS); ql = ql or rng.choice(WIDTHS)
    ids = [rng.randrange(256 ** sl), sl, rng.randrange(256 ** sl), sl, rng.randrange(256 ** ql), ql]
    flags = [rng.randrange(2) for _ in range(5)]
    if crc is not None: flags[2] = crc
    if large is not None: flags[1] = large
    return ids, flags


def _rand_off(rng, large):
    w = 8 if large else 4
    return rng.choice([0, 0, 1, 255, 256, 2 ** (8 * w - 1), 256 ** w - 1, rng.randrange(256 ** w), rng.randrange(1 << 16)])


def _rand_segs(rng, large, n=None):
    if n is None:
        n = rng.choice([0, 0, 1, 1, 2, 3, 5, rng.randrange(0, 12)])
    return [_rand_off(rng, large) for _ in range(2 * n)]


def _rand_pdu(rng, n=None, **kw):
    ids, flags = _rand_conf(rng, **kw)
    return [ids, flags, [_rand_off(rng, flags[1]), _rand_off(rng, flags[1])], _rand_segs(rng, flags[1], n)]


def _with_crc(q, hl):
    """recompute the CRC trailer of q for its declared length (if the CRC flag is set and it fits)"""
    dl = q[1] * 256 + q[2]
    if q[0] & 2 and 2 <= hl + dl <= len(q):
        c = h5.crc16_bitwise(q[:hl + dl - 2]); q = list(q); q[hl + dl - 2:hl + dl] = [c >> 8, c & 0xFF]
    return q


def streams(tier, rng):
    big = tier == "thorough"
    # 1. every header configuration (CRC x large x segctrl x mode x direction x 16 width pairs) x 0/1/2 segment requests
    cases = []
    for crc, large, seg, mode, direction in itertools.product((0, 1), repeat=5):
        for sl, ql in itertools.product(WIDTHS, WIDTHS):
            for n in (0, 1, 2):
                ids = [rng.choice(h5.bnd(sl)), sl, rng.choice(h5.bnd(sl)), sl, rng.choice(h5.bnd(ql)), ql]
                flags = [mode, large, crc, direction, seg]
                a = [ids, flags, [_rand_off(rng, large), _rand_off(rng, large)], _rand_segs(rng, large, n)]
                cases.append((1371, a)); cases.append((1374, a + [[]]))
                if big or n == 1:
                    cases.append((1370, a))
    yield "exh_nak_configs_pack_roundtrip", "exact", cases
    # 2. every number of segment requests 0..40, CRC on/off, normal/large; the 65535 data-field limit
    cases = []
    for n in range(0, 41):
        for crc, large in itertools.product((0, 1), (0, 1)):
            a = _rand_pdu(rng, n, crc=crc, large=large)
            cases.append((1371, a)); cases.append((1374, a + [[]])); cases.append((1370, a))
    for crc, large in itertools.product((0, 1), (0, 1)):
        w2 = 16 if large else 8
        lim = (65535 - 1 - (2 if crc else 0)) // w2 - 1
        for n in (lim, lim + 1):            # constructor at the limit (the packed form only in the thorough tier:
            a = _rand_pdu(rng, n, crc=crc, large=large)   # the model's bytearray.extend chain is quadratic)
            cases.append((1370, a))
            if big and n <= lim and large == 1:
                cases.append((1374, a + [[]]) if crc == 0 else (1371, a))
            if big and n <= lim and large == 0 and crc == 1:
                cases.append((1371, a))          # 8190 requests packed (about 30 s in the model)
        a = _rand_pdu(rng, 300, crc=crc, large=large)
        cases.append((1371, a)); cases.append((1374, a + [[]]))
    yield "exh_nak_segment_counts", "exact", cases
    # 2b. size sweep: every number of segment requests 0..100; then the counts that put the packet length next to
    #     every multiple of 512 octets up to 8 KiB (32-bit offsets) / 16 KiB (64-bit); thorough: every count up to
    #     300, every eighth up to 1100.  (The model's pack is quadratic in the count: beyond 100 only pack, not the round trip.)
    cases = []
    for n in range(0, 101):
        if big or n <= 40 or n % 2 == 0:
            a = _rand_pdu(rng, n)
            cases.append((1374, a + [[]]))
    for j in ((2, 3, 4, 8, 16) if not big else range(2, 17)):
        for n in (64 * j - 3, 64 * j - 2, 64 * j - 1, 64 * j):
            a = _rand_pdu(rng, n, large=0 if j > 4 else rng.randrange(2))
            cases.append((1371, a))
            if j in (2, 4, 8):
                cases.append((1374, a + [[]]))
    if big:
        for n in list(range(101, 301)) + list(range(304, 1101, 8)):
            a = _rand_pdu(rng, n)
            cases.append((1374, a + [[]]) if n % 64 == 0 or n <= 300 and n % 8 == 0 else (1371, a))
    yield "sizes_nak_segment_requests", "exact", cases
    # 3. offsets at and beyond the 32/64-bit range in every position
    cases = []
    vals = [0, 1, 2 ** 31 - 1, 2 ** 31, 2 ** 32 - 1, 2 ** 32, 2 ** 32 + 1, 2 ** 63, 2 ** 64 - 1, 2 ** 64, 2 ** 65, -1, -2 ** 31]
    for large in (0, 1):
        for v in vals:
            for pos in range(6):
                for crc in (0, 1):
                    ids, flags = _rand_conf(rng, crc=crc, large=large)
                    se = [rng.randrange(1000), rng.randrange(1000)]
                    flat = [rng.randrange(1000) for _ in range(4)]
                    if pos < 2: se[pos] = v
                    else: flat[pos - 2] = v
                    a = [ids, flags, se, flat]
                    cases.append((1371, a)); cases.append((1374, a + [[]]))
                    if pos in (0, 3):
                        cases.append((1370, a))
    yield "nak_offset_boundaries", "exact", cases
    # 4. random PDUs: pack, round trip, round trip with suffix (look-alike continuations), decode of pack ++ suffix
    cases = []
    for _ in range(20000 if big else 2200):
        a = _rand_pdu(rng)
        w2 = 16 if a[1][1] else 8
        cases.append((1371, a)); cases.append((1374, a + [[]]))
        sfx = rng.choice([[rng.randrange(256) for _ in range(rng.randrange(1, 18))],
                          [0] * w2, [rng.randrange(256) for _ in range(w2)], [rng.randrange(256) for _ in range(2 * w2)],
                          [rng.randrange(256) for _ in range(w2 + 2)],
                          lay(_rand_pdu(rng)), [rng.randrange(256)], [0, 0]])
        cases.append((1374, a + [sfx]))
        if valid_nak(a):
            cases.append((1372, [lay(a) + sfx])); cases.append((1373, [lay(a)]))
    yield "nak_random_roundtrip_suffix", "exact", cases
    # 5. targeted malformed: every truncation; substitutions in header / length / directive octets;
    #    length field set to other values (CRC made right for the altered PDU)
    cases = []
    for _ in range(300 if big else 58):
        a = _rand_pdu(rng, rng.choice([0, 1, 2, 3]))
        p = lay(a)
        hl = 4 + 2 * a[0][1] + a[0][5]
        w = 8 if a[1][1] else 4
        for n in range(len(p) + 1):
            cases.append((1372, [p[:n]]))
            if n >= 4 and rng.random() < 0.3:       # truncated, but the length field (and CRC) say so
                q = list(p[:n]); dl = n - hl
                if dl >= 0:
                    q[1] = dl >> 8; q[2] = dl & 0xFF
                    cases.append((1372, [_with_crc(q, hl)]))
        for i in list(range(4)) + [hl]:
            for v in {0, 1, 4, 5, 6, 7, 8, 9, 10, 12, 0x7F, 0x80, 0xFF, (p[i] + 1) % 256, (p[i] - 1) % 256, p[i] ^ 0x08, p[i] ^ 0x02, p[i] ^ 0x01, p[i] ^ 0x10}:
                q = list(p); q[i] = v
                cases.append((1372, [_with_crc(q, hl)])); cases.append((1372, [q + [rng.randrange(256) for _ in range(3)]]))
        for dl in set([0, 1, 2, 3, 4, 5, 8, 9, 10, 11, 12, 16, 17, 18, 19, 2 * w, 2 * w + 1, 2 * w + 2, 2 * w + 3, 4 * w + 1, 4 * w + 3,
                       len(p) - hl - 1, len(p) - hl + 1, len(p) - hl - w, len(p) - hl - 2 * w, len(p) - hl + 2 * w, 65535]):
            if dl < 0:
                continue
            q = list(p); q[1] = dl >> 8; q[2] = dl & 0xFF
            cases.append((1372, [q])); cases.append((1372, [_with_crc(q, hl)])); cases.append((1373, [_with_crc(q, hl)]))
            if hl + dl <= len(q):
                cases.append((1372, [_with_crc(q, hl)[:hl + dl]])); cases.append((1373, [_with_crc(q, hl)[:hl + dl]]))
    # minimal packets: header + directive octet + 0..40 further octets, length field consistent, correct CRC
    for crc, large, dl in itertools.product((0, 1), (0, 1), range(0, 42)):
        ids, flags = _rand_conf(rng, crc=crc, large=large)
        hdr = h5.layout(ids, [flags[0], large, crc, rng.randrange(2), flags[4]], [0, 0, dl])
        body = ([8] + [rng.choice([0, 1, 0xFF, rng.randrange(256)]) for _ in range(dl)])[:dl]
        q = _with_crc(hdr + body, len(hdr))
        cases.append((1372, [q])); cases.append((1373, [q]))
    yield "nak_targeted_malformed", "exact", cases
    # 6. get_max_seg_reqs_for_max_packet_size_and_pdu_cfg: every size 0..200 for every (crc, large) and
    #    several width combinations (PduConfig.header_len adds the three widths), the method on a PDU
    cases = []
    combos = [(1, 1, 1), (2, 2, 2), (1, 1, 8), (8, 8, 1), (4, 4, 4), (8, 8, 8), (0, 0, 0), (1, 2, 1), (4, 1, 2), (0, 8, 0)]
    for crc, large in itertools.product((0, 1), (0, 1)):
        for sl, dl, ql in combos:
            for mx in range(0, 201, 1 if (big or (sl, dl, ql) in ((1, 1, 1), (8, 8, 8))) else 7):
                ids = [0, sl, 0, dl, 0, ql]
                cases.append((1375, [ids, [rng.randrange(2), large, crc, rng.randrange(2), rng.randrange(2)], [mx]]))
    for _ in range(1500 if big else 300):
        ids, flags = _rand_conf(rng)
        base = 4 + ids[1] + ids[3] + ids[5] + 1 + (2 if flags[2] else 0) + (16 if flags[1] else 8)
        mx = rng.choice([base - 1, base, base + 1, base + 7, base + 8, base + 15, base + 16, base + 17, 0, -1, -17, 512, 1024, 4096, 65535, 2 ** 32])
        cases.append((1375, [ids, flags, [mx]]))
        cases.append((1378, _rand_pdu(rng)[:0] + [ids, flags, [0, 0], [], [mx]]))
    for large in (2, 3, -1, 255):            # non-member file flag
        for mx in (0, 10, 100):
            ids, flags = _rand_conf(rng); flags[1] = large
            cases.append((1375, [ids, flags, [mx]]))
    for crc in (2, 3, -1):
        ids, flags = _rand_conf(rng); flags[2] = crc
        cases.append((1375, [ids, flags, [100]]))
    yield "exh_nak_max_seg_reqs", "exact", cases
    # 7. histories of setter calls (segment requests, file flag, scopes); the caller's PduConfig afterwards
    cases = []
    for _ in range(5000 if big else 900):
        a = _rand_pdu(rng)
        ops = []
        large = a[1][1]
        for _ in range(rng.randrange(0, 6)):
            k = rng.randrange(4)
            if k == 0:
                ops.append([0] + _rand_segs(rng, large))
            elif k == 1:
                large = rng.choice([0, 1, 1 - large]); ops.append([1, large])
            else:
                ops.append([k, _rand_off(rng, rng.randrange(2))])
        cases.append((1376, a + ops))
    for v in (2, 3, -1, 255):               # non-member file flag through the setter / the constructor
        a = _rand_pdu(rng); cases.append((1376, a + [[1, v]]))
        a = _rand_pdu(rng); a[1][1] = v; cases.append((1370, a)); cases.append((1371, a))
    for f in (0, 2, 3, 4):                    # other non-member flag values are not validated
        for v in (2, 3, 255):
            a = _rand_pdu(rng); a[1][f] = v; cases.append((1370, a)); cases.append((1371, a))
    for sl, dl, ql in itertools.product((0, 1, 2, 4, 8), repeat=3):   # constructor refusals of the header
        ids = [0, sl, 0, dl, 0, ql]
        cases.append((1370, [ids, [0, rng.randrange(2), rng.randrange(2), 0, 0], [0, 0], []]))
    yield "nak_setter_histories_ctor", "exact", cases
    # 8. __eq__: identical arguments, one field changed
    cases = []
    for _ in range(3000 if big else 500):
        a = _rand_pdu(rng, rng.choice([0, 1, 2]))
        b = [list(x) for x in a]
        k = rng.randrange(9)
        w = 8 if a[1][1] else 4
        if k == 0: b[2][0] = (b[2][0] + 1) % 256 ** w
        elif k == 1: b[2][1] = (b[2][1] + 1) % 256 ** w
        elif k == 2 and b[3]: i = rng.randrange(len(b[3])); b[3][i] = (b[3][i] + 1) % 256 ** w
        elif k == 3: b[3] = b[3] + [1, 2]
        elif k == 4: b[1][2] ^= 1
        elif k == 5: b[0][0] = (b[0][0] + 1) % 256 ** b[0][1]
        elif k == 6: b[0][2] = (b[0][2] + 1) % 256 ** b[0][3]
        elif k == 7 and a[1][1] == 0: b[1][1] = 1
        cases.append((1377, a + b))
    yield "nak_equality", "exact", cases
    # 9b. C04: CRC-flagged packed PDUs with every single-bit flip and bursts of 2..16 bits at every bit offset
    #     outside the length-determining octets 1..3 and the CRC flag bit
    cases = []
    for _ in range(40 if big else 4):
        a = _rand_pdu(rng, rng.choice([0, 1, 2]), crc=1)
        p = lay(a)
        nbits = 8 * len(p)
        for start in range(nbits):
            for blen in ([1, 2, 3, 8, 15, 16] if not big else range(1, 17)):
                if start + blen > nbits:
                    continue
                bits = [start] + [b for b in range(start + 1, start + blen - 1) if rng.random() < 0.5] + ([start + blen - 1] if blen > 1 else [])
                if any(8 <= b < 32 or b == 6 for b in bits):
                    continue
                e = [0] * len(p)
                for b in bits:
                    e[b // 8] |= 0x80 >> (b % 8)
                while e and e[-1] == 0:
                    e.pop()
                cases.append((1379, [p, e]))
    yield "nak_crc_corruption", "exact", cases
    # PDUs whose (correct) CRC-16 trailer is 0x0000 / 0xFFFF / has a zero octet / a single bit (a derived quantity random
    # packets hit once in 65536; found by steering the sequence number, c05.steer_crc): decode, re-pack, round trip
    cases = []
    for sl, ql in (itertools.product(WIDTHS, WIDTHS) if big else [(1, 1), (1, 2), (2, 1), (2, 4), (4, 8), (8, 8)]):
        for target in h5.crc_targets(rng):
            for _ in range(50):
                a = _rand_pdu(rng, rng.choice([0, 1, 2, 5]), sl=sl, ql=ql, crc=1)
                if valid_nak(a):
                    break
            b2 = h5.steer_crc(lay(a), target)
            a2 = [list(x) for x in a]; a2[0] = h5.ids_of(b2)
            if lay(a2) != b2:
                raise RuntimeError("steered PDU is not the layout of its arguments")
            cases.append((1372, [b2])); cases.append((1373, [b2])); cases.append((1374, a2 + [[]])); cases.append((1371, a2))
            cases.append((1372, [b2 + [rng.randrange(256) for _ in range(rng.choice([1, 3]))]]))
            q = list(b2); q[-1 - rng.randrange(2)] ^= 1 << rng.randrange(8)
            cases.append((1372, [q]))
    yield "nak_crc_trailer_special_values", "exact", cases
    # 9. garbage: random octets biased to NAK-like headers with valid widths and consistent lengths
    cases = []
    for _ in range(30000 if big else 4000):
        n = rng.randrange(0, 64)
        d = [rng.randrange(256) for _ in range(n)]
        if d and rng.random() < 0.85:
            d[0] = 0x20 | (d[0] & 0x0F)
        if len(d) > 3 and rng.random() < 0.85:
            d[3] = (d[3] & 0x88) | rng.choice([0, 1, 3, 7]) << 4 | rng.choice([0, 1, 3, 7])
            hl = 4 + 2 * (((d[3] >> 4) & 7) + 1) + (d[3] & 7) + 1
            if len(d) > hl and rng.random() < 0.85:
                d[hl] = 8
            if rng.random() < 0.85 and len(d) >= hl:
                dl = len(d) - hl - rng.choice([0, 0, 0, 0, 1, 2, 8, 16])
                if dl >= 0:
                    d[1] = dl >> 8; d[2] = dl & 0xFF
                    if rng.random() < 0.85:
                        d = _with_crc(d, hl)
        cases.append((1372, [d]))
        if rng.random() < 0.3:
            cases.append((1373, [d]))
    yield "nak_garbage", "verdict", cases
    # 10. operation histories (harness/props/c06h.py, model Run/DirHist.v)
    from harness.props import c06h
    for st in c06h.streams_for(["nak"], tier, rng, "c"):
        yield st
    yield "histories_limit_c", "exact", c06h.limit_cases("nak", rng, big)
    # 11. outside the model (op 1399, see EXPLORED_ONLY): TLV objects of other classes handed to the list / fault-location
    #     setters and the constructor of the Finished, EOF and Metadata PDUs
    yield "histories_explored_foreign_tlv_items", "exact", c06h.explore_cases(tier, rng)


# ------------------------------------------------------------------ oracle
VALUE_CODES = (1, 2, 3)
DOC = lambda code: code not in core.UNDOCUMENTED and code != 97


def oracle_spec(case, ires):
    op, a = case
    if op in (1371, 1374) and valid_nak(a):
        return [(1390, a[:4])]
    return []


def _check_decoded(b, ires, what):
    """A decoded NAK PDU must be exactly what the octets b[:packet_len] say: laying the decoded values out again
    gives those octets (nothing beyond the declared length, and not the CRC trailer, folded into segment requests)."""
    hd, ids, flags, lens, dt, (start, end), flat = ires[1:8]
    if hd[0] != 0:
        return None     # a file-data header decoded as NAK: the caller's responsibility (docstring)
    hl = 4 + 2 * ids[1] + ids[5]
    pl = hl + b[1] * 256 + b[2]
    try:
        exp = nak_layout(ids, flags, start, end, flat, direction=flags[3], meta=hd[1])   # the decoder keeps direction and metadata-flag bits
    except (OverflowError, ValueError):
        exp = None
    if lens != [hl, pl] or dt != [8, hl + 1, pl] or hd != [0, hd[1], pl - hl] or exp != list(b[:pl]):
        return ("C06/NakPdu.unpack/%s" % what,
                "octets %s (declared packet length %d, %d octets given) decoded to lengths %s %s, scope (%d, %d), segment requests %s, "
                "which is the encoding of %s" % (list(b[:48]), pl, len(b), lens, dt, start, end, flat[:12], None if exp is None else exp[:48]))
    return None


def oracle(case, ires, sres):
    """The property itself, evaluated on the implementation's observable behaviour."""
    op, a = case
    if op == 1399:
        from harness.props import c06h
        return c06h.explore_oracle(case, ires)
    if op == 1380:
        from harness.props import c06h
        return c06h.oracle(case, ires, sres)
    err = ires[0][0] == 1
    code = ires[0][1] if err else None
    if op == 1371:
        ids, flags, se, flat = a[:4]
        if not h5.valid_args(ids, flags, [0, 0, 0]) or len(flat) % 2 or dlen_of(flags, len(flat) // 2) > 65535:
            return None
        lim = 256 ** (8 if flags[1] else 4)
        if not all(0 <= v < lim for v in list(se) + list(flat)):
            if not err:
                return ("C06/NakPdu.pack/too-large-not-refused", "scope %s / offsets %s packed with large=%d: %s" % (se, flat, flags[1], ires[1][:40]))
            return None
        exp = lay(a)
        if err or ires[1] != exp or not sres or sres[0][1] != exp:
            return ("C06/NakPdu.pack/layout", "pack%s = %s, standard says %s" % ([x[:12] for x in a[:4]], ires[1][:48] if not err else ires, exp[:48]))
        return None
    if op == 1370:
        ids, flags, se, flat = a[:4]
        if not valid_nak(a):
            return None
        if err:
            return ("C06/NakPdu.__init__/refuses-valid", "valid parameters refused: %s" % ires)
        hl = 4 + 2 * ids[1] + ids[5]
        n = len(lay(a))
        if ires[4] != [hl, n] or ires[1] != [0, 0, n - hl] or ires[5] != [8, hl + 1, n]:
            return ("C06/NakPdu/data-field-len", "header_len/packet_len %s %s, data field length %d; packed length would be %d" % (ires[4], ires[5], ires[1][2], n))
        if ires[3][3] != 1 or ires[6] != list(se) or ires[7] != list(flat):
            return ("C06/NakPdu.__init__/fields", "direction %d scope %s segment requests %s" % (ires[3][3], ires[6], ires[7][:12]))
        if ires[8:10] != [ids, flags]:
            return ("C06/NakPdu.__init__/caller-conf-modified", "caller's PduConfig %s -> %s" % ([ids, flags], ires[8:10]))
        return None
    if op == 1374:
        ids, flags, se, flat = a[:4]
        sfx = a[4] if len(a) > 4 else []
        if not valid_nak(a):
            return None
        exp = lay(a)
        if err:
            if sfx and DOC(code):
                return None         # C09: a PDU followed by further octets may be refused with a documented error
            return ("C06/NakPdu.unpack/roundtrip-refused" + ("-suffix" if sfx else ("-crc" if flags[2] else "")),
                    "own output%s refused (%s): %s" % (" + suffix" if sfx else "", core.ERR_NAMES.get(code), exp[:48]))
        eq, hd, idsr, flagsr, lens, dt, ser, flatr, repack = ires[1:10]
        hl = 4 + 2 * ids[1] + ids[5]
        tag = "-suffix" if sfx else ""
        if flatr != list(flat) or ser != list(se):
            return ("C06/NakPdu.unpack/segment-requests" + tag, "scope %s requests %s decoded as %s %s (crc=%d, %d suffix octets)" % (se, flat[:12], ser, flatr[:16], flags[2], len(sfx)))
        if lens != [hl, len(exp)] or hd != [0, 0, len(exp) - hl] or dt != [8, hl + 1, len(exp)]:
            return ("C06/NakPdu.unpack/length" + tag, "decoded header %s lens %s %s, packed PDU has %d octets (header %d)" % (hd, lens, dt, len(exp), hl))
        if idsr != ids or flagsr != [flags[0], flags[1], flags[2], 1, flags[4]]:
            return ("C06/NakPdu.unpack/header-fields" + tag, "%s %s decoded as %s %s" % (ids, flags, idsr, flagsr))
        if eq != [1]:
            return ("C06/NakPdu.__eq__/roundtrip" + tag, "decoded PDU not equal to the original")
        if repack != [0] + exp:
            return ("C06/NakPdu.pack/repack" + tag, "re-packed %s, original %s" % (repack[:48], exp[:48]))
        if sres and sres[0][1] != exp:
            return ("C06/NakPdu.pack/layout", "Coq spec layout differs from the packed octets")
        return None
    if op == 1372:
        b = a[0]
        if err:
            if not DOC(code):
                return ("C06/NakPdu.unpack/undocumented-error", "unpack(%s) escaped with %s" % (b[:40], core.ERR_NAMES.get(code, code)))
            return None
        return _check_decoded(b, ires, "fold-in")
    if op == 1379:
        if not err or not DOC(code):
            return ("C06/NakPdu.unpack/corrupted-accepted", "packed CRC-flagged NAK PDU %s with error pattern %s: %s" % (a[0][:40], a[1][:40], ires[:1]))
        return None
    if op == 1373:
        b = a[0]
        if err:
            return None
        pl = h5._declared(b) + b[1] * 256 + b[2]
        if ires[1] != list(b[:pl]):
            return ("C06/NakPdu.unpack-pack/repack", "unpack(%s).pack() = %s" % (b[:40], ires[1][:40]))
        return None
    if op in (1375, 1378):
        if op == 1378:
            ids, flags, mx = a[0], a[1], a[4][0]
            if not h5.valid_args(ids, flags, [0, 0, 0]):
                return None
        else:
            ids, flags, (mx,) = a
        if not (h5.ubf_ok(ids[0], ids[1]) and h5.ubf_ok(ids[2], ids[3]) and h5.ubf_ok(ids[4], ids[5])) or flags[1] not in (0, 1) or flags[2] not in (0, 1):
            return None
        if err and code in VALUE_CODES and not h5.valid_args(ids, flags, [0, 0, 0]):
            return None     # IDs of different widths / of width 0, a flag outside its enum: no PDU has such a configuration;
            #                 PduConfig may refuse to be built (the unchanged one is a plain record and just adds the widths)
        w2 = 16 if flags[1] else 8
        base = 4 + ids[1] + ids[3] + ids[5] + 1 + (2 if flags[2] else 0) + w2
        if mx < base:
            if not err or code not in VALUE_CODES:
                return ("C06/get_max_seg_reqs/too-small", "max packet size %d < base %d accepted: %s" % (mx, base, ires))
            return None
        if err:
            return ("C06/get_max_seg_reqs/value", "max %d base %d refused: %s" % (mx, base, ires))
        n = ires[1][0]
        # the PDU with n segment requests fits, the one with n + 1 does not
        if not (base + n * w2 <= mx < base + (n + 1) * w2) or n < 0:
            return ("C06/get_max_seg_reqs/value", "max %d base %d request size %d -> %s" % (mx, base, w2, ires))
        return None
    if op == 1376:
        if err:
            return None
        ids, flags = a[0], a[1]
        hd, idsr, flagsr, lens, dt, ser, flatr, p1, p2, cids, cflags = ires[1:12]
        if flagsr[1] in (0, 1) and h5.valid_args(ids, flags, [0, 0, 0]) and [cids, cflags] != [ids, flags]:
            return ("C06/NakPdu.__init__/caller-conf-modified", "caller's PduConfig %s -> %s after constructor and setters %s" % ([ids, flags], [cids, cflags], [o[:4] for o in a[4:]]))
        if p1 != p2:
            return ("C06/NakPdu.pack/not-repeatable", "two packs differ")
        final = [ids, [flags[0], flagsr[1], flags[2], flags[3], flags[4]], ser, flatr]
        if p1[0] == 0:
            if dt[2] != len(p1) - 1 or lens[1] != len(p1) - 1:
                return ("C06/NakPdu.setters/length", "packet_len %s after %s, %d octets packed" % (dt[2], [o[:6] for o in a[4:]], len(p1) - 1))
            if valid_nak(final) and p1[1:] != lay(final):
                return ("C06/NakPdu.setters/fresh", "octets after setters differ from a fresh PDU with the same values")
        elif valid_nak(final):
            return ("C06/NakPdu.setters/pack-refused", "valid final values refused by pack: %s" % p1)
        return None
    if op == 1377:
        if err:
            return None
        x, y = a[:4], a[4:8]
        if not (valid_nak(x) and valid_nak(y)):
            return None
        if x == y and ires[1] != [1]:
            return ("C06/NakPdu.__eq__/reflexive", "identically built PDUs compare unequal")
        differs = (x[2] != y[2] or x[3] != y[3] or x[1][1] != y[1][1] or x[1][2] != y[1][2] or x[0][0:4] != y[0][0:4])
        if differs and ires[1] != [0]:
            return ("C06/NakPdu.__eq__/distinguishes", "PDUs %s and %s compare equal" % (x, y))
        return None
    return None


def neighbours(case):
    op, a = case
    out = []
    if op in (1372, 1373):
        for n in range(min(len(a[0]), 48)):
            out.append((op, [a[0][:n]]))
        for i in range(min(4, len(a[0]))):
            for bit in range(8):
                l = list(a[0]); l[i] ^= 1 << bit; out.append((op, [l]))
    if op in (1371, 1374, 1370):
        for crc in (0, 1):
            b = [list(x) for x in a]; b[1][2] = crc; out.append((op, b))
        b = [list(x) for x in a]; b[3] = []; out.append((op, b))
        b = [list(x) for x in a]; b[3] = [1, 2, 3, 4]; out.append((1374, b[:4] + [[]]))
        b = [list(x) for x in a]; out.append((1374, b[:4] + [[0] * 16])); out.append((1370, b[:4]))
    return out


# ---- registry for the cross-cutting checks C09 / C10
def _valid_pdus(rng):
    out = []
    while len(out) < 40:
        a = _rand_pdu(rng)
        if valid_nak(a):
            out.append(lay(a))
    return out


def _declared(b):
    return h5._declared(b) + b[1] * 256 + b[2]


DECODERS = [
    {"op": 1372, "name": "NakPdu.unpack", "extra": [], "valid": _valid_pdus, "declared_len": _declared},
]
