"""C15 — request IDs and service-1 verification reports.  Streams, implementation adapter, oracle."""
import itertools
from spacepackets.ccsds import spacepacket as sp
from spacepackets.ecss.req_id import RequestId
from spacepackets.ecss.fields import PacketFieldEnum, PacketFieldU8, PacketFieldU16, PacketFieldU32
from spacepackets.ecss import pus_1_verification as s1
from spacepackets.ecss.tc import PusTc
from spacepackets.ecss.tm import PusTm
from harness import pus_common as pc
from harness import core

ID = "C15"
ENUMS = [
    ("spacepackets.ecss.defs:PusService.S1_VERIFICATION", "SP.Model.Srv1.S1_VERIFICATION"),
    ("spacepackets.ecss.pus_1_verification:Subservice.INVALID", "SP.Model.Srv1.SUB_INVALID"),
    ("spacepackets.ecss.pus_1_verification:Subservice.TM_ACCEPTANCE_SUCCESS", "SP.Model.Srv1.SUB_ACC_OK"),
    ("spacepackets.ecss.pus_1_verification:Subservice.TM_ACCEPTANCE_FAILURE", "SP.Model.Srv1.SUB_ACC_FAIL"),
    ("spacepackets.ecss.pus_1_verification:Subservice.TM_START_SUCCESS", "SP.Model.Srv1.SUB_START_OK"),
    ("spacepackets.ecss.pus_1_verification:Subservice.TM_START_FAILURE", "SP.Model.Srv1.SUB_START_FAIL"),
    ("spacepackets.ecss.pus_1_verification:Subservice.TM_STEP_SUCCESS", "SP.Model.Srv1.SUB_STEP_OK"),
    ("spacepackets.ecss.pus_1_verification:Subservice.TM_STEP_FAILURE", "SP.Model.Srv1.SUB_STEP_FAIL"),
    ("spacepackets.ecss.pus_1_verification:Subservice.TM_COMPLETION_SUCCESS", "SP.Model.Srv1.SUB_COMPL_OK"),
    ("spacepackets.ecss.pus_1_verification:Subservice.TM_COMPLETION_FAILURE", "SP.Model.Srv1.SUB_COMPL_FAIL"),
    ("spacepackets.ecss.fields:Ptc.ENUMERATED", "SP.Model.Fields.PTC_ENUMERATED"),
    ("spacepackets.ccsds.spacepacket:PacketType.TM", "SP.Model.SpacePacket.PT_TM"),
    ("spacepackets.ccsds.spacepacket:PacketType.TC", "SP.Model.SpacePacket.PT_TC"),
    ("spacepackets.ccsds.spacepacket:SequenceFlags.CONTINUATION_SEGMENT", "SP.Model.SpacePacket.SF_CONT"),
    ("spacepackets.ccsds.spacepacket:SequenceFlags.UNSEGMENTED", "SP.Model.SpacePacket.SF_UNSEG"),
    ("spacepackets.ccsds.spacepacket:SEQ_FLAG_MASK", "SP.Model.SpacePacket.SEQ_FLAG_MASK"),
    ("spacepackets.ccsds.spacepacket:APID_MASK", "SP.Model.SpacePacket.APID_MASK"),
    ("spacepackets.ecss.tm:PusTmSecondaryHeader.MIN_LEN", "SP.Model.PusTm.TMSEC_MIN_LEN"),
    ("spacepackets.ecss.defs:PusVersion.PUS_C", "SP.Model.PusTc.PUS_C"),
]
ASSUMPTIONS = [
    "crcmod's C implementation is outside the model (tied by C04's exhaustive byte-update comparison and every packed packet here)",
    "UnpackParams fields, PFC values and FailureNotice.unpack's num_bytes_data are ints (num_bytes_data None or >= 0)",
    "hash(int) of CPython on a 64-bit build (value mod 2^61-1) as written in Model/ReqId.v py_int_hash",
    "the two 16-bit words of the request ID are enumerated completely on the implementation; their independence is a "
    "theorem of the model and sampled on the implementation (2^32 cannot be enumerated)",
]
TRUSTED = []
# streams whose statement is evaluated by the adapter on the implementation alone (op 799, no model behind it)
EXPLORED_ONLY = ["explore_telecommand_stand_ins"]
ORACLE_LIMIT = {"quick": 30000, "thorough": 200000}
UNDOC = (20, 21, 22, 23, 24, 25, 99)
WIDTHS = (1, 2, 4, 8)


# ------------------------------------------------------------------ adapters
def _b(s):
    return bool(s) if s in (0, 1) else s


def _ptype(t):
    # the library's enum member - or, for every fifth case of a stream, the equal plain int
    return core.enum_or_int(sp.PacketType, t)


def _flags(f):
    return core.enum_or_int(sp.SequenceFlags, f)


def _reqid(l):
    # core.build: by keyword, and for every seventh case of a stream positionally in the documented order
    v, t, s, ap, f, c = l
    pid = core.build(sp.PacketId, ptype=_ptype(t), sec_header_flag=_b(s), apid=ap)
    psc = core.build(sp.PacketSeqCtrl, seq_flags=_flags(f), seq_count=c)
    return core.build(RequestId, tc_packet_id=pid, tc_psc=psc, ccsds_version=v)


def _pfe(pfc, val):
    return core.build(PacketFieldEnum, pfc=pfc, val=val)


def _unpack_params(tl, ws, we):
    return core.build(s1.UnpackParams, timestamp_len=tl, bytes_step_id=ws, bytes_err_code=we)


def _s1_unpack(data, params):
    return core.build(s1.Service1Tm.unpack, data=data, params=params)


def _tm_unpack(data, tl):
    return core.build(PusTm.unpack, data=data, timestamp_len=tl)


def _rq_fields(r):
    return [r.ccsds_version, int(r.tc_packet_id.ptype), int(r.tc_packet_id.sec_header_flag), r.tc_packet_id.apid,
            int(r.tc_psc.seq_flags), r.tc_psc.seq_count]


def _hdr(l):
    t, a, c, d, s, f, v = l
    return core.build(sp.SpacePacketHeader, packet_type=_ptype(t), apid=a, seq_count=c, data_len=d, sec_header_flag=_b(s),
                      seq_flags=_flags(f), ccsds_version=v)


def _tc(a0, a1):
    service, subservice, apid, seq, source_id, ack = a0
    return core.build(PusTc, service=service, subservice=subservice, apid=apid, app_data=bytes(a1), seq_count=seq,
                      source_id=source_id, ack_flags=ack)


_HELPERS = {8: PacketFieldU8, 16: PacketFieldU16, 32: PacketFieldU32}


def _opt_pfe(l):
    """odd values of 8/16/32-bit fields are built with the PacketFieldU8/U16/U32 helper classes,
    which the library documents as the same field (so both ways of building one are exercised)"""
    if not (l and l[0] == 1):
        return None
    if l[1] in _HELPERS and l[2] % 2 == 1 and 0 <= l[2] < 2 ** l[1]:
        return _HELPERS[l[1]](l[2])
    return _pfe(l[1], l[2])


def _of_opt_pfe(f):
    return [0] if f is None else [1, f.pfc, f.val]


def _opt_fn(code, data):
    c = _opt_pfe(code)
    return None if c is None else core.build(s1.FailureNotice, code=c, data=bytes(data))


def _vp(a, i):
    req = _reqid(a[i])
    step = _opt_pfe(a[i + 1])
    fn = _opt_fn(a[i + 2], a[i + 3])
    return core.build(s1.VerificationParams, req_id=req, step_id=step, failure_notice=fn)


def _vp_fields_raw(req, step, fn):
    return [_rq_fields(req), _of_opt_pfe(step), _of_opt_pfe(None if fn is None else fn.code),
            [0] if fn is None else [1] + list(fn.data)]


def _sph_fields(h):
    return [h.ccsds_version, int(h.packet_type), int(h.sec_header_flag), h.apid, int(h.seq_flags), h.seq_count, h.data_len]


def _tm_fields(t):
    s = t.pus_tm_sec_header
    crc = t.crc16
    return [_sph_fields(t.space_packet_header),
            [int(s.pus_version), s.spacecraft_time_ref, s.service, s.subservice, s.message_counter, s.dest_id],
            list(s.timestamp), list(t.tm_data), [0] if crc is None else [1] + list(crc), [t.packet_len]]


def _srv1_fields(s):
    # observed through the public accessors the property names
    return _tm_fields(s.pus_tm) + _vp_fields_raw(s.tc_req_id, s.step_id, s.failure_notice)


def _srv1(a):
    apid, sub, seq, ver, ref, dest, has_vp = a[0]
    vp = _vp(a, 2) if has_vp else None
    if (seq, ver, ref, dest) == (0, 0, 0, 0):     # the constructor's defaults
        return s1.Service1Tm(apid, sub, bytes(a[1]), vp) if has_vp else s1.Service1Tm(apid, sub, bytes(a[1]))
    return core.build(s1.Service1Tm, apid=apid, subservice=sub, timestamp=bytes(a[1]), verif_params=vp, seq_count=seq,
                      packet_version=ver, space_time_ref=ref, destination_id=dest)


def _params(l):
    if l[1] == 1 and l[2] == 1:
        return s1.UnpackParams(l[0])          # the documented defaults: one-octet step ID and error code
    return _unpack_params(l[0], l[1], l[2])


def _tm(a):
    service, subservice, apid, seq, msgcnt, ref, dest, version = a[0]
    return core.build(PusTm, service=service, subservice=subservice, timestamp=bytes(a[1]), source_data=bytes(a[2]), apid=apid,
                      seq_count=seq, message_counter=msgcnt, space_time_ref=ref, destination_id=dest, packet_version=version)



def _row(fn):
    """one observation row of a history: [0] + values, or [1, exception class]"""
    from harness import core
    try:
        return [0] + [int(x) for x in fn()]
    except BaseException as e:  # noqa
        if isinstance(e, (KeyboardInterrupt, SystemExit, MemoryError)):
            raise
        return [1, core.canon_code(core.classify_exception(e))]


def _err_row(e):
    from harness import core
    if isinstance(e, (KeyboardInterrupt, SystemExit, MemoryError)):
        raise e
    return [1, core.canon_code(core.classify_exception(e))]


def _snap(o, depth=0):
    """caller-visible state of an object the caller handed in: its public attributes and public properties,
    recursively (private caches a class may fill lazily are not part of it)"""
    import enum
    if isinstance(o, enum.Enum):
        return ("enum", type(o).__name__, o.value)
    if isinstance(o, (int, float, str, bool, type(None))):
        return o
    if isinstance(o, (bytes, bytearray, memoryview)):
        return ("octets", bytes(o))
    if depth > 6:
        return ("deep",)
    if isinstance(o, (list, tuple)):
        return [_snap(x, depth + 1) for x in o]
    d = getattr(o, "__dict__", None)
    if d is None:
        return ("obj", type(o).__name__)
    out = [(k, _snap(v, depth + 1)) for k, v in sorted(d.items()) if not k.startswith("_")]
    for name in sorted(dir(type(o))):
        if name.startswith("_") or "crc" in name or not isinstance(getattr(type(o), name, None), property):
            continue
        try:
            v = getattr(o, name)
        except Exception as e:  # noqa
            v = ("raises", type(e).__name__)
        out.append((name, _snap(v, depth + 1)))
    return (type(o).__name__, out)


def _pfe_build(l):
    """[kind, pfc, val]: 0 PacketFieldEnum, 1 PacketFieldU8/U16/U32 where one exists, 2 with_byte_size, 3 unpack(pack() + 1 octet)"""
    kind, pfc, val = l
    if kind == 1 and pfc in _HELPERS:
        return _HELPERS[pfc](val)
    if kind == 2:
        return core.build(PacketFieldEnum.with_byte_size, num_bytes=pfc // 8, val=val)
    if kind == 3:
        return core.build(PacketFieldEnum.unpack, data=bytearray(_pfe(pfc, val).pack()) + b"\x07", pfc=pfc)
    return _pfe(pfc, val)


def _rq_build(kind, l):
    v, t, s, ap, f, c = l
    if kind == 1:
        return RequestId.unpack(bytearray(_reqid(l).pack()) + b"\xa5")
    if kind == 2:
        return RequestId.from_sp_header(core.build(sp.SpacePacketHeader, packet_type=_ptype(t), apid=ap, seq_count=c, data_len=0,
                                                   sec_header_flag=_b(s), seq_flags=_flags(f), ccsds_version=v))
    if kind == 3:
        return RequestId.empty()
    return _reqid(l)


def _rq_eq_fresh(r):
    fresh = core.build(RequestId, tc_packet_id=core.build(sp.PacketId, ptype=r.tc_packet_id.ptype,
                                                          sec_header_flag=r.tc_packet_id.sec_header_flag, apid=r.tc_packet_id.apid),
                       tc_psc=core.build(sp.PacketSeqCtrl, seq_flags=r.tc_psc.seq_flags, seq_count=r.tc_psc.seq_count),
                       ccsds_version=r.ccsds_version)
    u = RequestId.unpack(r.pack())
    return [r == fresh, fresh == r, hash(r) == hash(fresh), r == u]


def _rq_op(r, o):
    k = o[0] if o else 7
    v = o[1] if len(o) > 1 else 0
    try:
        if k == 0:
            r.ccsds_version = v
        elif k == 1:
            r.tc_packet_id.ptype = _ptype(v)
        elif k == 2:
            r.tc_packet_id.sec_header_flag = _b(v)
        elif k == 3:
            r.tc_packet_id.apid = v
        elif k == 4:
            r.tc_psc.seq_flags = _flags(v)
        elif k == 5:
            r.tc_psc.seq_count = v
    except BaseException as e:  # noqa
        # an assignment the library refuses is one row of the history ([1, class] + what the object shows afterwards;
        # the unchanged library never refuses one, so its rows keep their format), not the end of the case
        return _err_row(e) + _rq_fields(r) + [r.as_u32(), hash(r)]
    if k == 6:
        return _row(r.pack)
    if k == 8:
        return _row(lambda: _rq_eq_fresh(r))
    return [0] + _rq_fields(r) + [r.as_u32(), hash(r)]


def _pfe_op(f, o):
    k = o[0] if o else 4
    try:
        if k == 0:
            f.val = o[1]
        elif k == 1:
            f.pfc = o[1]
    except BaseException as e:  # noqa
        return _err_row(e) + [f.pfc, f.val]      # a refused assignment: one row, the history goes on
    if k == 2:
        return _row(f.pack)
    if k == 3:
        return _row(lambda: [f.len()])
    if k == 5:
        def eq():
            g = _pfe(f.pfc, f.val)
            return [f == g, g == f]
        return _row(eq)
    return [0, f.pfc, f.val]


def _vp_op(v, o):
    """one operation on a VerificationParams object; returns the rows it emits"""
    k = o[0] if o else 9
    try:
        if k == 0:
            v.req_id = _reqid(o[1:7])
        elif k == 1:
            v.step_id = _opt_pfe(o[1:])
        elif k == 2:
            v.failure_notice = _opt_fn(o[1:4], bytearray(o[4:]) if len(o) % 2 else bytes(o[4:]))
        elif k == 3:
            v.step_id.val = o[1]
        elif k == 4:
            v.failure_notice.data = bytes(o[1:])
        elif k == 5:
            v.failure_notice.code.val = o[1]
    except BaseException as e:  # noqa
        return [_err_row(e)]
    if k == 6:
        return [_row(v.pack)]
    if k == 7:
        return [_row(lambda: [v.len()])]
    if k == 8:
        def ver():
            v.verify_against_subservice(o[1])
            return []
        return [_row(ver)]
    return _vp_fields_raw(v.req_id, v.step_id, v.failure_notice)


def _s1_build(a):
    """a6 = [kind, ws, we]: 0 constructor, 1 Service1Tm.unpack(pack()), 2 from_tm(PusTm.unpack(pack())),
    3 the create_*_tm helper of the subservice (the generator supplies arguments the helper can express)"""
    kind, ws, we = a[6]
    if kind == 3:
        apid, k = a[0][0], a[0][1]
        rq = a[2]
        tc = core.build(PusTc, service=17, subservice=1, apid=rq[3], app_data=bytes(), seq_count=rq[5])
        step = _opt_pfe(a[3]); fn = _opt_fn(a[4], a[5]); ts = bytes(a[1])
        return _create(k, apid, tc, step, fn, ts)
    s = _srv1(a)
    if kind == 0:
        return s
    raw = s.pack()
    if kind == 1:
        return _s1_unpack(bytes(raw), _unpack_params(len(a[1]), ws, we))
    return core.build(s1.Service1Tm.from_tm, tm=_tm_unpack(bytes(raw), len(a[1])), params=_unpack_params(len(a[1]), ws, we))


def _create(k, apid, tc, step, fn, ts):
    """the helper of subservice k: called positionally as documented, and by the documented parameter names for every third
    APID (a property of the case, so that a replay makes the same call)"""
    if k in (1, 3, 7):
        fnc = {1: s1.create_acceptance_success_tm, 3: s1.create_start_success_tm, 7: s1.create_completion_success_tm}[k]
        names, vals = ("apid", "pus_tc", "timestamp"), (apid, tc, ts)
    elif k in (2, 4, 8):
        fnc = {2: s1.create_acceptance_failure_tm, 4: s1.create_start_failure_tm, 8: s1.create_completion_failure_tm}[k]
        names, vals = ("apid", "pus_tc", "failure_notice", "timestamp"), (apid, tc, fn, ts)
    elif k == 5:
        fnc, names, vals = s1.create_step_success_tm, ("apid", "pus_tc", "step_id", "timestamp"), (apid, tc, step, ts)
    else:
        fnc = s1.create_step_failure_tm
        names, vals = ("apid", "pus_tc", "step_id", "failure_notice", "timestamp"), (apid, tc, step, fn, ts)
    if isinstance(apid, int) and apid % 3 == 0 and not core.POSITIONAL:
        return fnc(**dict(zip(names, vals)))
    return fnc(*vals)


def _s1_redecode(s, ws, we):
    raw = s.pack()
    return _s1_unpack(bytearray(raw) + b"\xa5\x5a", _unpack_params(len(s.pus_tm.timestamp), ws, we))


def _s1_op(cur, o):
    s = cur[0]
    k = o[0] if o else 1
    try:
        if k == 0:
            return [[0] + list(s.pack())]
        if k == 2:
            return [[0] + _of_opt_pfe(s.error_code)]
        if k == 3:
            s.tc_req_id = _reqid(o[1:7])
        elif k == 4:
            s.pus_tm.space_packet_header.seq_count = o[1]
        elif k == 5:
            s.pus_tm.apid = o[1]
        elif k == 6:
            cur[0] = s = _s1_redecode(s, o[1], o[2])
        elif k == 7:
            u = _s1_redecode(s, o[1], o[2])
            e1 = u == s; e2 = s == u
            return [[0, int(e1), int(e2)]] + _srv1_fields(u)
    except BaseException as e:  # noqa
        return [_err_row(e)]
    return [[0]] + _srv1_fields(s)


def impl(op, a):
    if op == 700:
        return [list(_reqid(a[0]).pack())]
    if op == 701:
        r = _reqid(a[0]); return [[r.as_u32(), hash(r)]]
    if op == 702:
        return [_rq_fields(RequestId.unpack(bytes(a[0])))]
    if op == 703:
        r = RequestId.unpack(bytes(a[0])); return [list(r.pack()), [r.as_u32()]]
    if op == 704:
        r = RequestId.from_sp_header(_hdr(a[0])); return [_rq_fields(r), list(r.pack()), [r.as_u32()]]
    if op == 705:
        x = _reqid(a[0]); y = _reqid(a[1]); return [[int(x == y), int(hash(x) == hash(y))]]
    if op == 706:
        r = RequestId.from_pus_tc(_tc(a[0], a[1])); return [_rq_fields(r), list(r.pack())]
    if op == 710:
        f = _pfe(a[0][0], a[0][1]); return [[f.pfc, f.val, f.len()]]
    if op == 711:
        return [list(_pfe(a[0][0], a[0][1]).pack())]
    if op == 712:
        f = core.build(PacketFieldEnum.unpack, data=bytes(a[0]), pfc=a[1][0]); return [[f.pfc, f.val]]
    if op == 713:
        return [[PacketFieldEnum.check_pfc(a[0][0])]]
    if op == 714:
        f = core.build(PacketFieldEnum.with_byte_size, num_bytes=a[0][0], val=a[0][1]); b = f.pack(); return [list(b), [f.len()]]
    if op == 715:
        x = _pfe(a[0][0], a[0][1]); y = _pfe(a[0][2], a[0][3]); return [[int(x == y)]]
    if op == 716:
        return [list(core.build(PacketFieldEnum.unpack, data=bytes(a[0]), pfc=a[1][0]).pack())]
    if op == 717:
        cls = {1: PacketFieldU8, 2: PacketFieldU16, 4: PacketFieldU32}[a[0][0]]
        f = cls(a[0][1]); b = f.pack(); return [list(b), [f.len()]]
    if op == 732:
        x = _vp(a, 0); y = _vp(a, 4); return [[int(x == y)]]
    if op == 749:
        x = _srv1(a[:6]); y = _srv1(a[6:]); return [[int(x == y)]]
    if op == 720:
        f = core.build(s1.FailureNotice, code=_pfe(a[0][0], a[0][1]), data=bytes(a[1])); b = f.pack(); return [list(b), [f.len()]]
    if op == 721:
        f = core.build(s1.FailureNotice.unpack, data=bytes(a[0]), num_bytes_err_code=a[1][0],
                       num_bytes_data=None if a[2][0] == 0 else a[2][1])
        return [[f.code.pfc, f.code.val], list(f.data)]
    if op == 722:
        f = core.build(s1.FailureNotice, code=_pfe(a[0][0], a[0][1]), data=bytes(a[1])); b = f.pack()
        g = core.build(s1.FailureNotice.unpack, data=bytes(b), num_bytes_err_code=a[2][0])
        return [[int((g == f) and (f == g))], [g.code.pfc, g.code.val], list(g.data)]
    if op == 730:
        _vp(a, 0).verify_against_subservice(a[4][0]); return [[0]]
    if op == 731:
        v = _vp(a, 0); b = v.pack(); return [list(b), [v.len()]]
    if op == 740:
        return _srv1_fields(_srv1(a))
    if op == 741:
        s = _srv1(a); raw = s.pack()
        return [list(raw), [s.pus_tm.packet_len]] + _vp_fields_raw(s.tc_req_id, s.step_id, s.failure_notice)
    if op == 742:
        s = _srv1(a); raw = s.pack()
        u = _s1_unpack(bytes(raw), _unpack_params(len(a[1]), a[6][0], a[6][1]))
        e1 = u == s; e2 = s == u
        q = u.pack()
        return [[int(e1 and e2)], list(q)] + _srv1_fields(u)
    if op == 743:
        return _srv1_fields(_s1_unpack(bytes(a[0]), _params(a[1])))
    if op == 744:
        return _srv1_fields(core.build(s1.Service1Tm.from_tm, tm=_tm(a), params=_unpack_params(0, a[3][0], a[3][1])))
    if op == 745:
        k, apid = a[0]
        tc = _tc(a[1], a[2]); step = _opt_pfe(a[4]); fn = _opt_fn(a[5], a[6]); ts = bytes(a[3])
        s = _create(k, apid, tc, step, fn, ts)
        raw = s.pack()
        return [list(raw)] + _vp_fields_raw(s.tc_req_id, s.step_id, s.failure_notice)
    if op == 746:
        return [list(_s1_unpack(bytes(a[0]), _params(a[1])).pack())]
    if op == 747:
        return [_of_opt_pfe(_srv1(a).error_code)]
    if op == 748:
        return [_of_opt_pfe(_s1_unpack(bytes(a[0]), _params(a[1])).error_code)]
    if op == 718:
        x = _pfe_build(a[0]); y = _pfe_build(a[1]); return [[int(x == y), int(y == x)]]
    if op == 760:
        r = _rq_build(a[1][0], a[0])
        return [_rq_op(r, o) for o in a[2:]]
    if op == 761:
        f = _pfe_build(a[0])
        return [_pfe_op(f, o) for o in a[1:]]
    if op == 762:
        v = _vp(a, 0)
        rows = []
        for o in a[4:]:
            rows.extend(_vp_op(v, o))
        return rows + [[1]]
    if op == 763:
        cur = [_s1_build(a)]
        rows = []
        for o in a[7:]:
            rows.extend(_s1_op(cur, o))
        return rows + [[1]]
    if op == 764:
        mode = a[4][0]
        dec = (lambda d, p: _s1_unpack(d, p)) if mode == 0 else \
              (lambda d, p: core.build(s1.Service1Tm.from_tm, tm=_tm_unpack(d, p.timestamp_len), params=p))
        u = dec(bytes(a[0]), _params(a[1]))
        before = _srv1_fields(u)
        if mode == 2:
            s1.Service1Tm(apid=1, subservice=s1.Subservice.TM_ACCEPTANCE_SUCCESS, timestamp=b"")     # default parameters in between
        try:
            w = dec(bytearray(a[2]), _params(a[3]))
            e1 = u == w; e2 = w == u
            tail = [[0, int(e1), int(e2)]] + _srv1_fields(w)
        except BaseException as e:  # noqa
            tail = [_err_row(e)]
        after = _srv1_fields(u)
        return after + [_row(lambda: _of_opt_pfe(u.error_code))] + tail + [[int(after == before)]]
    if op == 765:
        ts = bytearray(a[1]); data = bytearray(a[5])
        apid, sub, seq, ver, ref, dest, has_vp = a[0]
        vp = core.build(s1.VerificationParams, req_id=_reqid(a[2]), step_id=_opt_pfe(a[3]), failure_notice=_opt_fn(a[4], data))
        keep = _snap(vp)
        s = core.build(s1.Service1Tm, apid=apid, subservice=sub, timestamp=ts, verif_params=vp, seq_count=seq,
                       packet_version=ver, space_time_ref=ref, destination_id=dest)
        raw = s.pack()
        buf = bytearray(raw) + bytes(a[7] if len(a) > 7 else [])
        u = _s1_unpack(buf, _unpack_params(len(a[1]), a[6][0], a[6][1]))
        for i in range(len(buf)):
            buf[i] ^= 0xFF
        raw.extend(b"\x00")
        e1 = u == s; e2 = s == u
        q = u.pack()
        unchanged = _snap(vp) == keep and bytes(ts) == bytes(a[1]) and bytes(data) == bytes(a[5])
        return [[int(e1 and e2)], list(q)] + _srv1_fields(u) + [[int(unchanged)]]
    if op == 766:
        k, apid = a[0]
        tc = _tc(a[1], a[2]); step = _opt_pfe(a[4]); fn = _opt_fn(a[5], a[6]); ts = bytes(a[3])
        keep = (_snap(tc), _snap(step), _snap(fn))
        s = _create(k, apid, tc, step, fn, ts)
        raw = s.pack()
        u = _s1_unpack(bytes(raw), _unpack_params(len(a[3]), a[7][0], a[7][1]))
        e1 = u == s; e2 = s == u
        q = u.pack()
        return [[int(e1 and e2)], list(q)] + _srv1_fields(u) + [[int((_snap(tc), _snap(step), _snap(fn)) == keep)]]
    if op == 767:
        # decode from a buffer that may continue behind the packet, then EVERY observable of the decoded report
        pr = _params(a[1])
        u = _s1_unpack(bytes(a[0]), pr)
        first = _srv1_fields(u)
        p1 = u.pus_tm.pack(recalc_crc=False)
        p2 = u.pack()
        w = _s1_unpack(bytes(a[0][:u.pus_tm.packet_len]), pr)
        e1 = u == w; e2 = w == u
        return first + [list(p1), list(p2), [int(e1), int(e2)]] + _srv1_fields(u)
    if op == 799:
        return _explore_stand_in(a)
    raise RuntimeError("bad op")


# ------------------------------------------------------------------ exploration outside the model (op 799)
# "The request ID of a telecommand is exactly the first four octets of its space packet header ... every service-1 report
# built for a telecommand carries that request ID."  RequestId.from_pus_tc and the eight create_*_tm helpers take "the
# telecommand"; callers hand them a PusTc, a subclass, any object with an sp_header - and, where an application only
# kept them, a stored RequestId / a SpacePacketHeader / the packed octets.  Statement evaluated here: whatever stands in
# for the telecommand is either REFUSED (any exception) or the request ID obtained is exactly the four octets that
# identify it.  (The unchanged library refuses the last three kinds with AttributeError.)
class _MyTc(PusTc):
    pass


STAND_INS = ("PusTc", "PusTc-subclass", "object-with-sp_header", "RequestId", "SpacePacketHeader", "packed-octets")


def _explore_stand_in(a):
    import types
    kind, helper, apid = a[0]
    v, t, s_, ap, f, c = a[1]
    ts = bytes(a[2])
    hdr = sp.SpacePacketHeader(packet_type=_ptype(t), apid=ap, seq_count=c, data_len=6, sec_header_flag=_b(s_),
                               seq_flags=_flags(f), ccsds_version=v)
    expected = list(hdr.pack()[:4])
    if kind in (0, 1):
        x = (PusTc if kind == 0 else _MyTc)(service=17, subservice=1, apid=ap, seq_count=c)
        x.sp_header = hdr
    elif kind == 2:
        x = types.SimpleNamespace(sp_header=hdr)
    elif kind == 3:
        x = RequestId(sp.PacketId(_ptype(t), _b(s_), ap), sp.PacketSeqCtrl(_flags(f), c), v)
    elif kind == 4:
        x = hdr
    else:
        y = PusTc(service=17, subservice=1, apid=ap, seq_count=c); y.sp_header = hdr
        x = bytes(y.pack())
    step = PacketFieldEnum(8, 3); fn = s1.FailureNotice(PacketFieldEnum(8, 9), b"\x01\x02")
    try:
        if helper == 0:
            rid = RequestId.from_pus_tc(x); rep = None
        else:
            rep = _create(helper, apid, x, step, fn, ts); rid = rep.tc_req_id
    except Exception:  # noqa: a refusal of the argument is one of the two admissible outcomes
        return [[1]]
    got = list(rid.pack())
    if got != expected:
        return [[0, kind, helper, 1] + got]
    if rep is not None:
        raw = rep.pack()
        if list(raw[13 + len(ts):17 + len(ts)]) != expected:
            return [[0, kind, helper, 2] + list(raw[13 + len(ts):17 + len(ts)])]
        u = s1.Service1Tm.unpack(bytes(raw), s1.UnpackParams(len(ts), 1, 1))
        if list(u.tc_req_id.pack()) != expected:
            return [[0, kind, helper, 3] + list(u.tc_req_id.pack())]
    return [[1]]


# ------------------------------------------------------------------ independent layouts (oracle side)
def be(n, v):
    return [(v >> (8 * (n - 1 - i))) & 0xFF for i in range(n)]


def reqid_layout(l):
    v, t, s, ap, f, c = l
    return pc.sph_layout(v, t, s, ap, f, c, 0)[:4]


def reqid_ok(l):
    v, t, s, ap, f, c = l
    return 0 <= v < 8 and t in (0, 1) and s in (0, 1) and 0 <= ap < 2048 and 0 <= f < 4 and 0 <= c < 16384


def pfe_ok(l):
    """[flag, pfc, val] present, octet-aligned width, value fits"""
    return l[0] == 1 and l[1] in (8, 16, 32, 64) and 0 <= l[2] < 256 ** (l[1] // 8)


def src_layout(rq, step, code, data):
    out = reqid_layout(rq)
    if step[0] == 1:
        out += be(step[1] // 8, step[2])
    if code[0] == 1:
        out += be(code[1] // 8, code[2]) + list(data)
    return out


def shape_ok(k, step, code):
    return (code[0] == 1) == (k % 2 == 0) and (step[0] == 1) == (k in (5, 6))


# ------------------------------------------------------------------ generators
def bnd(w):
    m = 256 ** w
    return sorted({0, 1, 2, 0x7F, 0x80, 0xFF % m, m // 2 - 1, m // 2, m - 2, m - 1})


def rand_reqid(rng):
    return [rng.randrange(8), rng.randrange(2), rng.randrange(2), pc.pick(rng, pc.BND11, 2048), rng.randrange(4),
            pc.pick(rng, pc.BND14, 16384)]


def rand_val(rng, w):
    return rng.choice(bnd(w)) if rng.random() < 0.4 else rng.randrange(256 ** w)


def rand_report(rng, k=None, ws=None, we=None, tl=None, nd=None):
    """Arguments of op 740/741/742 for a valid report of subservice k."""
    k = k or rng.randrange(1, 9)
    ws = ws or rng.choice(WIDTHS); we = we or rng.choice(WIDTHS)
    tl = rng.choice([0, 0, 1, 2, 7, 7, 7, 8, 16]) if tl is None else tl
    nd = rng.choice([0, 0, 1, 2, 3, 7, 16, rng.randrange(40)]) if nd is None else nd
    step = [1, ws * 8, rand_val(rng, ws)] if k in (5, 6) else [0]
    code = [1, we * 8, rand_val(rng, we)] if k % 2 == 0 else [0]
    data = pc.rbytes(rng, nd) if k % 2 == 0 else []
    a0 = [pc.pick(rng, pc.BND11, 2048), k, pc.pick(rng, pc.BND14, 16384), rng.randrange(8), rng.randrange(16),
          pc.pick(rng, pc.BND16, 65536), 1]
    return [a0, pc.rbytes(rng, tl), rand_reqid(rng), step, code, data, [ws, we]]


def report_octets(a):
    apid, k, seq, ver, ref, dest, _ = a[0]
    return pc.tm_layout(1, k, apid, seq, 0, ref, dest, ver, a[1], src_layout(a[2], a[3], a[4], a[5]))


def wrap_tm(rng, k, src, tl=7, service=1):
    """a valid PUS TM (valid CRC) of the given subservice with arbitrary source data"""
    return pc.tm_layout(service, k, rng.randrange(2048), rng.randrange(16384), rng.randrange(65536), rng.randrange(16),
                        rng.randrange(65536), 0, pc.rbytes(rng, tl), src)


def streams(tier, rng):
    big = tier == "thorough"
    # 1./2. both 16-bit words of the request ID, exhaustively, through unpack / pack / as_u32 / constructor
    for wi in range(2):
        cases = []
        for w in range(65536):
            d = pc.rbytes(rng, 4); d[2 * wi] = w >> 8; d[2 * wi + 1] = w & 0xFF
            cases.append((702, [d + ([0x55] if w % 2 else [])]))
            cases.append((703, [d]))
            if big or w % 3 == 0 or w < 64 or w > 65472:
                o = rand_reqid(rng)
                if wi == 0:
                    l = [w >> 13, w >> 12 & 1, w >> 11 & 1, w & 0x7FF, o[4], o[5]]
                else:
                    l = [o[0], o[1], o[2], o[3], w >> 14, w & 0x3FFF]
                cases.append((700, [l])); cases.append((701, [l]))
        yield "exh_reqid_word%d" % wi, "exact", cases
    # 3. request ID constructors, equality, hash, from_sp_header, from_pus_tc
    cases = []
    for _ in range(20000 if big else 3000):
        x = rand_reqid(rng)
        r = rng.random()
        if r < 0.3:
            y = list(x)
        elif r < 0.7:
            y = list(x); i = rng.randrange(6)
            y[i] = x[i] ^ (1 << rng.randrange([3, 1, 1, 11, 2, 14][i]))
        else:
            y = rand_reqid(rng)
        cases.append((705, [x, y]))
    for x in ([8, 0, 0, 0, 0, 0], [0, 0, 0, 0, 0, 0], [9, 1, 1, 5, 3, 7], [-1, 0, 0, 0, 0, 0], [2 ** 61, 1, 0, 3, 1, 2],
              [-(2 ** 61), 1, 0, 3, 1, 2], [2 ** 45 - 1, 1, 1, 2047, 3, 16383], [0, 2, 0, 0, 0, 0], [0, 0, 0, 0, 4, 0]):
        for y in ([0, 0, 0, 0, 0, 0], [1, 0, 0, 0, 0, 0], x):
            cases.append((705, [x, y]))
        cases.append((700, [x])); cases.append((701, [x]))
    for ap in (-1, 2048, 2 ** 16):
        cases.append((700, [[0, 1, 1, ap, 3, 0]])); cases.append((701, [[0, 1, 1, ap, 3, 0]]))
    for c in (-1, 16384, 2 ** 16):
        cases.append((700, [[0, 1, 1, 5, 3, c]])); cases.append((705, [[0, 1, 1, 5, 3, c], [0, 0, 0, 0, 0, 0]]))
    for _ in range(10000 if big else 2000):
        v, t, s, ap, f, c = rand_reqid(rng)
        cases.append((704, [[t, ap, c, pc.pick(rng, pc.BND16, 65536), s, f, v]]))
    for v in (8, 9, -1):
        cases.append((704, [[1, 5, 6, 7, 1, 3, v]]))
    for _ in range(3000 if big else 500):
        cases.append((706, pc.rand_tc_args(rng, 12)))
    for ln in range(0, 8):
        for _ in range(20):
            cases.append((702, [pc.rbytes(rng, ln)])); cases.append((703, [pc.rbytes(rng, ln)]))
    yield "reqid_ctor_eq_hash", "exact", cases
    # 4. check_pfc over a whole window of PFC values + PacketFieldEnum with every PFC of the window
    cases = []
    for pfc in list(range(-80, 700)) + [2 ** 31, 2 ** 31 + 4, 2 ** 40 + 8, -2 ** 40, 2 ** 52]:
        cases.append((713, [[pfc]]))
    for pfc in range(-16, 80):
        cases.append((710, [[pfc, 1]])); cases.append((711, [[pfc, 1]])); cases.append((711, [[pfc, 300]]))
        cases.append((712, [pc.rbytes(rng, 9), [pfc]])); cases.append((712, [pc.rbytes(rng, 1), [pfc]]))
        cases.append((716, [pc.rbytes(rng, 9), [pfc]]))
    for n in range(-2, 12):
        cases.append((714, [[n, 1]])); cases.append((714, [[n, 256]]))
    yield "exh_pfc_window", "exact", cases
    # 5. values: one- and two-octet enumerations exhaustively, boundaries for 4 and 8
    cases = []
    for v in range(256):
        cases.append((711, [[8, v]])); cases.append((712, [[v] + pc.rbytes(rng, v % 3), [8]]))
    for v in range(65536):
        if big or v % 2 == 0 or v < 300 or v > 65200:
            cases.append((711, [[16, v]]))
        cases.append((712, [[v >> 8, v & 255] + ([7] if v % 5 == 0 else []), [16]]))
    yield "exh_pfe_u8_u16", "exact", cases
    cases = []
    for w in WIDTHS:
        m = 256 ** w
        vals = bnd(w) + [m, m + 1, -1, -2, -m, 2 ** 64, 2 ** 64 + 1] + [rng.randrange(m) for _ in range(300 if big else 60)]
        for v in vals:
            cases.append((710, [[8 * w, v]])); cases.append((711, [[8 * w, v]])); cases.append((714, [[w, v]]))
        for _ in range(300 if big else 60):
            for ln in {0, 1, w - 1, w, w + 1, w + 5}:
                d = pc.rbytes(rng, ln)
                cases.append((712, [d, [8 * w]])); cases.append((716, [d, [8 * w]]))
        for v in bnd(w):
            cases.append((712, [be(w, v), [8 * w]]))
    for _ in range(2000 if big else 400):
        w1, w2 = rng.choice(WIDTHS), rng.choice(WIDTHS)
        v1 = rng.randrange(4); v2 = rng.randrange(4)
        cases.append((715, [[8 * w1, v1, 8 * w2, v2]]))
    for w in (1, 2, 4):
        for v in bnd(w) + [256 ** w, -1]:
            cases.append((717, [[w, v]]))
    yield "pfe_values", "exact", cases
    # 5b. whole-object equality of VerificationParams / Service1Tm built independently
    cases = []
    for _ in range(8000 if big else 1500):
        a = rand_report(rng)
        b = [list(x) for x in a]
        r = rng.random()
        if r < 0.25:
            pass
        elif r < 0.5:
            i = rng.randrange(6); b[2][i] = a[2][i] ^ (1 << rng.randrange([3, 1, 1, 11, 2, 14][i]))
        elif r < 0.6 and b[3][0]:
            b[3][2] = (b[3][2] + 1) % 256
        elif r < 0.7 and b[4][0]:
            b[4][2] = (b[4][2] + 1) % 256
        elif r < 0.8 and b[4][0]:
            b[5] = b[5] + [1] if rng.random() < 0.5 else pc.rbytes(rng, len(b[5]))
        elif r < 0.9:
            b[3] = [0] if b[3][0] else [1, 8, 1]
        else:
            b[4] = [0] if b[4][0] else [1, 8, 1]; b[5] = [] if not b[4][0] else b[5]
        cases.append((732, a[2:6] + b[2:6]))
        b2 = rand_report(rng, a[0][1]) if rng.random() < 0.3 else b
        if shape_ok(b2[0][1], b2[3], b2[4]):
            cases.append((749, a[:6] + b2[:6]))
    yield "whole_object_equality", "exact", cases
    # 6. FailureNotice
    cases = []
    for w in WIDTHS:
        for nd in list(range(0, 6)) + [17, 64]:
            for _ in range(8 if big else 3):
                v = rand_val(rng, w); d = pc.rbytes(rng, nd)
                cases.append((720, [[8 * w, v], d])); cases.append((722, [[8 * w, v], d, [w]]))
                raw = be(w, v) + d
                cases.append((721, [raw, [w], [0]]))
                for k in {0, 1, nd - 1, nd, nd + 1, nd + 9} - {-1}:
                    cases.append((721, [raw, [w], [1, k]]))
                for cut in range(0, w + 1):
                    cases.append((721, [raw[:cut], [w], [0]])); cases.append((721, [raw[:cut], [w], [1, 0]]))
    for n in (-1, 0, 3, 5, 6, 7, 9, 16):
        cases.append((721, [pc.rbytes(rng, 20), [n], [0]])); cases.append((721, [pc.rbytes(rng, 20), [n], [1, 2]]))
        cases.append((722, [[16, 5], [1, 2], [n]]))
    cases.append((720, [[8, 256], [1]])); cases.append((720, [[8, -1], [1]])); cases.append((720, [[4, 2], []]))
    yield "failure_notice", "exact", cases
    # 7. every subservice x parameter shape through verify_against_subservice and the constructor
    cases = []
    for k in list(range(0, 12)) + [255]:
        for hs, hf in itertools.product((0, 1), (0, 1)):
            rq = rand_reqid(rng)
            step = [1, 8, 3] if hs else [0]
            code = [1, 16, 9] if hf else [0]
            data = [1, 2, 3] if hf else []
            cases.append((730, [rq, step, code, data, [k]]))
            cases.append((731, [rq, step, code, data]))
            a0 = [5, k, 6, 0, 0, 0, 1]
            cases.append((740, [a0, [1, 2], rq, step, code, data]))
            cases.append((741, [a0, [1, 2], rq, step, code, data]))
    for k in range(0, 10):
        cases.append((740, [[5, k, 6, 0, 0, 0, 0], [1, 2]])); cases.append((741, [[5, k, 6, 0, 0, 0, 0], [1, 2]]))
        cases.append((747, [[5, k, 6, 0, 0, 0, 0], [1, 2]]))
    yield "exh_subservice_x_shape", "exact", cases
    # 8. structured valid reports: 8 subservices x step widths x code widths x boundary values
    cases = []
    for k in range(1, 9):
        for ws, we in itertools.product(WIDTHS, WIDTHS):
            for rep in range(3 if big else 1):
                a = rand_report(rng, k, ws, we)
                if k in (5, 6):
                    a[3][2] = rng.choice(bnd(ws))
                if k % 2 == 0:
                    a[4][2] = rng.choice(bnd(we))
                cases.append((741, a[:6])); cases.append((742, a)); cases.append((747, a[:6]))
    for tl in range(0, 17):
        for k in (1, 5, 6, 8):
            a = rand_report(rng, k, tl=tl)
            cases.append((742, a))
    for nd in (255, 256, 4096):
        a = rand_report(rng, rng.choice((2, 4, 6, 8)), nd=nd)
        cases.append((742, a))
    a = rand_report(rng, 6, nd=65500); cases.append((741, a[:6]))
    a = rand_report(rng, 6, 8, 8, tl=7, nd=65502); cases.append((741, a[:6]))   # one octet too long for the length field
    a = rand_report(rng, 6, 8, 8, tl=7, nd=65501); cases.append((741, a[:6]))
    yield "structured_valid_reports", "exact", cases
    cases = []
    for _ in range(30000 if big else 4000):
        a = rand_report(rng)
        op = rng.choice([741, 742, 742, 740])
        cases.append((op, a if op == 742 else a[:6]))
    yield "random_valid_reports", "exact", cases
    # 9. constructor refusals / out-of-range parameters
    cases = []
    base = rand_report(rng, 6, 2, 2, tl=3, nd=2)
    for idx, vals in ((0, [-1, 2048, 2 ** 64]), (1, [-1, 256, 9, 0, 10, 12]), (2, [-1, 16384]), (3, [8, 9, -1]), (4, [16, -1, 255]),
                      (5, [65536, -1])):
        for v in vals:
            a = [list(x) for x in base[:6]]; a[0][idx] = v
            cases.append((740, a)); cases.append((741, a))
    for bad in ([1, 16, 65536], [1, 16, -1], [1, 12, 5], [1, 4, 1], [1, 0, 0], [1, 24, 1], [1, 72, 1]):
        a = [list(x) for x in base[:6]]; a[3] = list(bad); cases.append((741, a))
        a = [list(x) for x in base[:6]]; a[4] = list(bad); cases.append((741, a))
    for rq in ([8, 1, 1, 5, 3, 7], [0, 1, 1, 2048, 3, 7], [0, 1, 1, 5, 3, 16384], [-1, 1, 1, 5, 3, 7]):
        a = [list(x) for x in base[:6]]; a[2] = list(rq); cases.append((741, a))
    yield "refusals", "exact", cases
    # 10. decode with every width pair (matching and not), and invalid widths
    cases = []
    for _ in range(60 if big else 15):
        a = rand_report(rng)
        pkt = report_octets(a)
        tl = len(a[1])
        for ws, we in itertools.product(WIDTHS, WIDTHS):
            cases.append((743, [pkt, [tl, ws, we]]))
        for w in (-8, -1, 0, 3, 5, 16, 1000):
            cases.append((743, [pkt, [tl, w, a[6][1]]])); cases.append((743, [pkt, [tl, a[6][0], w]]))
        for tl2 in (0, tl + 1, tl + 4):
            cases.append((743, [pkt, [tl2, a[6][0], a[6][1]]]))
        cases.append((746, [pkt, [tl] + a[6]])); cases.append((748, [pkt, [tl] + a[6]]))
    yield "decode_width_pairs", "exact", cases
    # 11. every subservice octet, every source-data truncation, inside a TM with a valid CRC
    cases = []
    for k in range(256):
        for n in (0, 3, 4, 5, 6, 13):
            cases.append((743, [wrap_tm(rng, k, pc.rbytes(rng, n)), [7, rng.choice(WIDTHS), rng.choice(WIDTHS)]]))
    yield "exh_subservice_octet", "exact", cases
    cases = []
    for _ in range(120 if big else 30):
        a = rand_report(rng)
        src = src_layout(a[2], a[3], a[4], a[5])
        k = a[0][1]
        for n in range(0, len(src) + 1):
            p = wrap_tm(rng, k, src[:n])
            cases.append((743, [p, [7] + a[6]]))
            if rng.random() < 0.3:
                cases.append((748, [p, [7] + a[6]])); cases.append((746, [p, [7] + a[6]]))
        cases.append((743, [wrap_tm(rng, k, src + pc.rbytes(rng, 3)), [7] + a[6]]))
        cases.append((743, [wrap_tm(rng, k, src, service=rng.choice([0, 2, 17, 255])), [7] + a[6]]))
    yield "source_data_truncations", "exact", cases
    # 12. whole-packet targeted malformed
    cases = []
    for _ in range(40 if big else 10):
        a = rand_report(rng, tl=rng.choice([0, 7]))
        pkt = report_octets(a); tl = len(a[1])
        for m in pc.malformed(rng, pkt, 13 + tl):
            cases.append((743, [m, [tl] + a[6]]))
    yield "targeted_malformed", "exact", cases
    # 13. from_tm on arbitrary telemetry objects
    cases = []
    for _ in range(6000 if big else 1200):
        t = pc.rand_tm_args(rng, 24)
        if rng.random() < 0.7:
            t[0][0] = 1; t[0][1] = rng.randrange(0, 10)
        cases.append((744, t + [[rng.choice(WIDTHS + (0, 3)), rng.choice(WIDTHS + (0, 3))]]))
    yield "from_tm", "exact", cases
    # 14. create_*_tm helpers
    cases = []
    for _ in range(6000 if big else 1000):
        k = rng.randrange(1, 9)
        ws, we = rng.choice(WIDTHS), rng.choice(WIDTHS)
        step = ([1, ws * 8, rand_val(rng, ws)] if rng.random() < 0.95 else [0]) if k in (5, 6) else [0]
        code = ([1, we * 8, rand_val(rng, we)] if rng.random() < 0.95 else [0]) if k % 2 == 0 else [0]
        data = pc.rbytes(rng, rng.randrange(6)) if code[0] else []
        tc = pc.rand_tc_args(rng, 10)
        cases.append((745, [[k, pc.pick(rng, pc.BND11, 2048)], tc[0], tc[1], pc.rbytes(rng, rng.choice([0, 7])), step, code, data]))
    yield "create_helpers", "exact", cases
    # 15. garbage
    cases = []
    for _ in range(30000 if big else 4000):
        n = rng.randrange(0, 44)
        b = pc.rbytes(rng, n)
        if n > 8 and rng.random() < 0.7:
            b[0] = 0x08 | (b[0] & 7); b[4] = 0; b[5] = rng.randrange(0, 44); b[6] = 0x20 | (b[6] & 15); b[7] = 1; b[8] = rng.randrange(10)
        cases.append((743, [b, [rng.choice([0, 2, 7]), rng.choice(WIDTHS + (0, 3)), rng.choice(WIDTHS + (0, 3))]]))
    for _ in range(3000 if big else 600):
        cases.append((712, [pc.rbytes(rng, rng.randrange(12)), [rng.randrange(-8, 80)]]))
        cases.append((721, [pc.rbytes(rng, rng.randrange(12)), [rng.randrange(-1, 10)], [0]]))
        cases.append((702, [pc.rbytes(rng, rng.randrange(8))]))
    yield "garbage", "verdict", cases
    yield from harden_streams(tier, rng)


# ------------------------------------------------------------------ hardening: histories, re-inspection, sizes
RQ_RANGES = [8, 2, 2, 2048, 4, 16384]
RQ_BAD = [[8, 9, -1], [2], [2], [2048, 4096, -1, 65536], [4], [16384, 65536, -1]]


def rand_rq_ops(rng, n, bad=0.08):
    ops, last = [], None
    for _ in range(n):
        r = rng.random()
        if r < 0.5:
            k = rng.randrange(6)
            if rng.random() < bad:
                o = [k, rng.choice(RQ_BAD[k])]
            else:
                o = [k, rng.choice([0, 1, RQ_RANGES[k] - 1, RQ_RANGES[k] // 2]) if rng.random() < 0.4 else rng.randrange(RQ_RANGES[k])]
            if last is not None and rng.random() < 0.1:
                o = list(last)
            last = o
        elif r < 0.7:
            o = [6]
        elif r < 0.85:
            o = [8]
        else:
            o = [7]
        ops.append(o)
    return ops


def helper_report(rng, k=None, ws=None, we=None, tl=None, nd=None):
    """arguments of a report that a create_*_tm helper can express (defaults everywhere, request ID of a PusTc)"""
    a = rand_report(rng, k, ws, we, tl, nd)
    a[0][2:6] = [0, 0, 0, 0]
    a[2] = [0, 1, 1, a[2][3], 3, a[2][5]]
    return a


def rand_s1_ops(rng, a, n):
    ws, we = a[6][1], a[6][2]
    ops = []
    for _ in range(n):
        r = rng.random()
        if r < 0.3:
            o = [0]
        elif r < 0.45:
            o = [1]
        elif r < 0.55:
            o = [2]
        elif r < 0.63:
            o = [3] + rand_reqid(rng)
        elif r < 0.73:
            o = [4, pc.pick(rng, pc.BND14, 16384) if rng.random() < 0.88 else rng.choice(pc.HDR_OUT_OF_RANGE[5])]
        elif r < 0.83:
            o = [5, pc.pick(rng, pc.BND11, 2048) if rng.random() < 0.88 else rng.choice(pc.HDR_OUT_OF_RANGE[3])]
        elif r < 0.91:
            o = [6, ws, we]
        else:
            o = [7, ws, we]
        ops.append(o)
        if o[0] in (4, 5) and not 0 <= o[1] < (16384 if o[0] == 4 else 2048) and rng.random() < 0.7:
            ops.append(rng.choice([[0], [0], [6, ws, we], [7, ws, we]]))      # header pushed out of range: a serialiser follows
    return ops


def harden_streams(tier, rng):
    big = tier == "thorough"
    # 16. request ID objects: attribute assignments (own and through the PacketId / PacketSeqCtrl they hold), all four
    #     construction paths, pack / as_u32 / hash / == in between; every single bit of a request ID flipped by assignment
    cases = []
    for _ in range(12000 if big else 2500):
        cases.append((760, [rand_reqid(rng), [rng.randrange(4)]] + rand_rq_ops(rng, rng.randrange(1, 11))))
    for _ in range(40 if big else 10):
        x = rand_reqid(rng)
        for i, w in enumerate([3, 1, 1, 11, 2, 14]):
            for b in range(w):
                cases.append((760, [x, [rng.randrange(3)], [7], [i, x[i] ^ (1 << b)], [6], [8], [i, x[i]], [7], [8]]))
    for k, m, step in ((3, 2048, 1), (5, 16384, 1 if big else 4)):
        vals = list(range(0, m, step)) + list(range(m - 40, m))
        for i in range(0, len(vals), 5):
            ops = []
            for v in vals[i:i + 5]:
                ops += [[k, v], [6]]
            cases.append((760, [rand_reqid(rng), [rng.randrange(4)]] + ops))
    yield "reqid_histories", "exact", cases
    # 17. request IDs differing in exactly one bit (all 32 positions), and identical ones: == and hash
    cases = []
    for _ in range(120 if big else 40):
        x = rand_reqid(rng)
        cases.append((705, [x, list(x)]))
        for i, w in enumerate([3, 1, 1, 11, 2, 14]):
            for b in range(w):
                y = list(x); y[i] ^= 1 << b
                cases.append((705, [x, y])); cases.append((705, [y, x]))
    yield "exh_reqid_one_bit_apart", "exact", cases
    # 18. PacketFieldEnum objects built in every way (base class, PacketFieldU8/U16/U32, with_byte_size, decoded),
    #     attribute assignments, == across the ways of building (both directions)
    cases = []
    for pfc in (8, 16, 32, 64):
        w = pfc // 8
        for kx, ky in itertools.product(range(4), range(4)):
            for v in bnd(w)[:6] + [rng.randrange(256 ** w)]:
                cases.append((718, [[kx, pfc, v], [ky, pfc, v]]))
                cases.append((718, [[kx, pfc, v], [ky, pfc, (v + 1) % 256 ** w]]))
                p2 = rng.choice([p for p in (8, 16, 32, 64) if p != pfc])
                cases.append((718, [[kx, pfc, v % 256], [ky, p2, v % 256]]))
    for _ in range(6000 if big else 1200):
        w = rng.choice(WIDTHS)
        ops = []
        for _ in range(rng.randrange(1, 11)):
            r = rng.random()
            if r < 0.35:
                ops.append([0, rand_val(rng, w) if rng.random() < 0.9 else rng.choice([256 ** w, -1, 2 ** 64])])
            elif r < 0.45:
                w = rng.choice(WIDTHS) if rng.random() < 0.8 else rng.choice([0, 3, 5, 16])
                ops.append([1, 8 * w if rng.random() < 0.9 else 8 * w + 4])
                w = w if w in WIDTHS else 1
            elif r < 0.7:
                ops.append([2])
            elif r < 0.8:
                ops.append([3])
            elif r < 0.9:
                ops.append([5])
            else:
                ops.append([4])
        w0 = rng.choice(WIDTHS)
        cases.append((761, [[rng.randrange(4), 8 * w0, rand_val(rng, w0)]] + ops))
    yield "pfe_kinds_and_histories", "exact", cases
    # 19. VerificationParams objects: fields replaced / edited in place, pack / len / verify in between
    cases = []
    for _ in range(6000 if big else 1200):
        a = rand_report(rng)
        ops = []
        for _ in range(rng.randrange(1, 11)):
            r = rng.random()
            w = rng.choice(WIDTHS)
            if r < 0.1:
                q = rand_reqid(rng)
                if rng.random() < 0.15:
                    q[rng.choice([3, 5])] = rng.choice([-1, 2 ** 16])     # refused by PacketId / PacketSeqCtrl: nothing changes
                ops.append([0] + q)
            elif r < 0.2:
                ops.append([1] + ([1, 8 * w, rand_val(rng, w)] if rng.random() < 0.8 else [0, 0, 0]))
            elif r < 0.3:
                ops.append([2] + ([1, 8 * w, rand_val(rng, w)] + pc.rbytes(rng, rng.choice([0, 1, 5, 40])) if rng.random() < 0.8 else [0, 0, 0]))
            elif r < 0.4:
                ops.append([3, rng.randrange(256)])
            elif r < 0.5:
                ops.append([4] + pc.rbytes(rng, rng.choice([0, 1, 2, 9, 300])))
            elif r < 0.58:
                ops.append([5, rng.randrange(256)])
            elif r < 0.78:
                ops.append([6])
            elif r < 0.86:
                ops.append([7])
            elif r < 0.94:
                ops.append([8, rng.randrange(0, 10)])
            else:
                ops.append([9])
        cases.append((762, a[2:6] + ops))
    yield "verification_params_histories", "exact", cases
    # 20. Service1Tm objects from every construction path (constructor, create_*_tm helper, unpack, from_tm):
    #     pack repeatedly, edit the telemetry header through the public attributes, set the request ID, decode the
    #     object's own output and go on with the decoded object
    cases = []
    for _ in range(5000 if big else 900):
        kind = rng.randrange(4)
        a = helper_report(rng) if kind == 3 else rand_report(rng)
        a = a[:6] + [[kind] + a[6]]
        cases.append((763, a + rand_s1_ops(rng, a, rng.randrange(1, 11))))
    for k in range(1, 9):
        for ws, we in itertools.product(WIDTHS, WIDTHS):
            kind = rng.randrange(4)
            a = helper_report(rng, k, ws, we) if kind == 3 else rand_report(rng, k, ws, we)
            a = a[:6] + [[kind, ws, we]]
            cases.append((763, a + [[0], [7, ws, we], [4, rng.randrange(16384)], [0], [6, ws, we], [2], [5, rng.randrange(2048)], [0], [7, ws, we], [1]]))
    # the telemetry header pushed out of range through the report's public attributes: pack / decoding of the own output
    # must refuse with ValueError (nothing encoded), the object keeps the values, an in-range assignment heals it
    for f, lim in ((4, 16384), (5, 2048)):
        for v in pc.HDR_OUT_OF_RANGE[5 if f == 4 else 3]:
            kind = rng.randrange(4)
            a = helper_report(rng) if kind == 3 else rand_report(rng)
            a = a[:6] + [[kind] + a[6]]
            ws, we = a[6][1], a[6][2]
            cases.append((763, a + [[0], [f, v], [0], [1], [7, ws, we], [6, ws, we], [2], [f, rng.randrange(lim)], [0], [7, ws, we], [1]]))
    yield "service1_histories", "exact", cases
    # 21. two reports decoded in a row (unpack / from_tm, a default-constructed report in between), the first one
    #     inspected again afterwards; also when the second one is refused
    cases = []
    for _ in range(5000 if big else 1000):
        a = rand_report(rng); b = rand_report(rng, tl=len(a[1]) if rng.random() < 0.5 else None)
        pa, pb = report_octets(a), report_octets(b)
        r = rng.random()
        if r < 0.1:
            pb, b = list(pa), a
        elif r < 0.2:
            pb = pb[:rng.randrange(len(pb))]
        cases.append((764, [pa + pc.rbytes(rng, rng.randrange(3)), [len(a[1])] + a[6], pb, [len(b[1])] + b[6], [rng.randrange(3)]]))
    for ka, kb in itertools.product(range(1, 9), range(1, 9)):
        a = rand_report(rng, ka); b = rand_report(rng, kb)
        cases.append((764, [report_octets(a), [len(a[1])] + a[6], report_octets(b), [len(b[1])] + b[6], [rng.randrange(3)]]))
    yield "two_reports_in_a_row", "exact", cases
    # 22. sizes: every failure-data length 0..1100, every timestamp length 0..300 and around the multiples of 256,
    #     4 KiB; bytearray arguments (overwritten afterwards), decoded from a buffer with >= 512 foreign octets behind
    cases = []
    for nd in list(range(0, 1101)) + [4095, 4096, 4097]:
        a = rand_report(rng, rng.choice((2, 4, 6, 8)), nd=nd, tl=rng.choice([0, 7]))
        if nd % 4 == 0:
            a[5] = [rng.choice([0, 0x80, 0xFF])] * nd
        cases.append((765, a + ([pc.rbytes(rng, rng.choice([1, 512, 700]))] if nd % 3 == 0 else [])))
    tls = sorted(set(range(0, 301)) | {m + d for m in (512, 768, 1024) for d in range(-8, 9)} | {1100})
    for tl in tls:
        a = rand_report(rng, tl=tl)
        cases.append((765 if tl % 2 else 742, a))
    yield "exh_report_sizes", "exact", cases
    # 23. three limits at once: widest step ID and error code, timestamp, and failure data that make the packet
    #     exactly as long as the length field allows / one octet more
    cases = []
    for ws, we, tl in ((8, 8, 16), (1, 1, 0), (2, 4, 7)):
        for d in (-1, 0, 1):
            nd = 65536 - 7 - tl - 4 - ws - we - 2 + d
            a = rand_report(rng, 6, ws, we, tl=tl, nd=nd)
            a[5] = [0xFF] * nd
            cases.append((741, a[:6]))
    yield "report_length_limit_triples", "exact", cases
    # 24. every create_*_tm helper x widths: packed, decoded with matching widths, compared, re-packed; the
    #     telecommand and parameter objects handed in are unchanged
    cases = []
    for rep in range(12 if big else 3):
        for k in range(1, 9):
            for ws, we in itertools.product(WIDTHS, WIDTHS):
                step = [1, ws * 8, rand_val(rng, ws)] if k in (5, 6) else [0]
                code = [1, we * 8, rand_val(rng, we)] if k % 2 == 0 else [0]
                data = pc.rbytes(rng, rng.choice([0, 1, 5, 260])) if code[0] else []
                tc = pc.rand_tc_args(rng, 10)
                cases.append((766, [[k, pc.pick(rng, pc.BND11, 2048)], tc[0], tc[1], pc.rbytes(rng, rng.choice([0, 7, 16])), step, code, data, [ws, we]]))
    yield "create_helpers_roundtrip", "exact", cases
    yield "decode_with_suffix_every_observable", "exact", suffix_observable_cases(rng, big)
    yield "crc_value_coincidences", "exact", crc_coincidence_cases(rng, big)
    # what stands in for "the telecommand" x every entry point that takes one (exploration outside the model, op 799)
    cases = []
    for kind in range(len(STAND_INS)):
        for helper in range(0, 9):
            for _ in range(6 if big else 2):
                rq = rand_reqid(rng)
                if rng.random() < 0.7:
                    rq[0] = rng.randrange(1, 8)            # version bits other than the default
                cases.append((799, [[kind, helper, pc.pick(rng, pc.BND11, 2048)], rq, pc.rbytes(rng, rng.choice([0, 7]))]))
    yield "explore_telecommand_stand_ins", "exact", cases


# a valid report followed by further octets (fill octets of a frame, the next packet): the decoded object must be the
# same in every observable as when decoded from exactly its own octets
def suffix_observable_cases(rng, big):
    cases = []
    reps = [rand_report(rng) for _ in range(120 if big else 40)]
    reps += [rand_report(rng, 6, 8, 8, tl=7, nd=n) for n in (0, 230, 231, 232, 1100)]
    pkts = [(report_octets(a), [len(a[1])] + a[6]) for a in reps]
    for i, (pkt, pr) in enumerate(pkts):
        other = pkts[(i + 1) % len(pkts)][0]
        sufs = [[], [rng.randrange(256)], [0, 0], [0xFF, 0xFF], pc.rbytes(rng, 2), [0x55] * 7, list(other), list(pkt),
                list(pkt[-2:]), pc.rbytes(rng, rng.choice([3, 16, 300]))]
        for sfx in sufs:
            cases.append((767, [pkt + sfx, pr]))
    return cases


def report_with_crc_coincidence(rng, a, p, target):
    """the report arguments with sequence count / destination ID / two timestamp octets rewritten such that the CRC over
    the first p octets of the packed report is `target`; None when no admissible window exists"""
    body = report_octets(a)[:-2]
    tl = len(a[1])
    wins = ([p - 2] if 13 <= p - 2 and p <= 13 + tl else []) + [11, 2]
    if rng.random() < 0.5:
        wins = [2, 11] + wins
    b2 = pc._force_prefix(body, min(p, len(body)), target, wins)
    if b2 is None:
        return None
    out = [list(x) for x in a]
    out[0][2] = (b2[2] & 0x3F) * 256 + b2[3]
    out[0][5] = b2[11] * 256 + b2[12]
    out[1] = list(b2[13:13 + tl])
    assert report_octets(out)[:-2] == b2
    return out


def crc_coincidence_cases(rng, big):
    """reports SEARCHED such that the CRC over the primary header, over every boundary of the secondary header, over the
    source data and over the whole packet (= the trailer) is 0x0000 / 0xFFFF: packed, decoded, every observable"""
    cases = []
    for k in range(1, 9):
        for tl in (0, 7):
            a0 = rand_report(rng, k, tl=tl)
            n = len(report_octets(a0)) - 2
            for p in pc.boundaries(13 + tl, n):
                for t in pc.CRC_TARGETS:
                    a = None
                    for _ in range(100):
                        a = report_with_crc_coincidence(rng, rand_report(rng, k, a0[6][0], a0[6][1], tl=tl, nd=len(a0[5])), p, t)
                        if a is not None:
                            break
                    if a is None:
                        continue
                    pkt = report_octets(a)
                    pr = [tl] + a[6]
                    cases.append((741, a[:6])); cases.append((742, a))
                    cases.append((743, [pkt, pr])); cases.append((767, [pkt + pc.rbytes(rng, rng.choice([0, 2, 9])), pr]))
    return cases


# ------------------------------------------------------------------ oracle
def oracle_spec(case, ires):
    op, a = case
    if ires[0] != [0]:
        return []
    if op in (700, 701) and reqid_ok(a[0]):
        return [(750, [a[0]])]
    if op in (702, 703):
        b = a[0][:4]
        return [(753, [[int.from_bytes(bytes(b), "big")]])]
    if op in (741, 742, 765) and len(a) >= 6 and a[0][6]:
        return [(752, [a[0][:6], a[1], a[2], _spec_opt(a[3]), _spec_opt(a[4]), a[5]])]
    return []


def _spec_opt(l):
    return [1, l[1] // 8, l[2]] if l and l[0] == 1 else [0]


def _undoc(name, ires, what):
    if ires[0][0] == 1 and ires[0][1] in UNDOC:
        return ("C15/%s/undocumented-error" % name, "%s on %s" % (ires, what))
    return None


def oracle(case, ires, sres):
    """The property itself on the implementation's observable behaviour."""
    op, a = case
    err = ires[0][0] == 1
    code = ires[0][1] if err else None
    if op in (700, 701):
        l = a[0]
        if not reqid_ok(l):
            return None
        exp = reqid_layout(l)
        if sres and (sres[0][1] != exp or sres[0][2] != [int.from_bytes(bytes(exp), "big")]):
            return ("C15/spec-transcriptions-differ", "Coq reqid_layout and the oracle's differ on %s" % (l,))
        if op == 700 and (err or ires[1] != exp):
            return ("C15/RequestId.pack/layout", "pack%s = %s, first four header octets are %s" % (l, ires, exp))
        if op == 701 and (err or ires[1][0] != int.from_bytes(bytes(exp), "big")):
            return ("C15/RequestId.as_u32/bits", "as_u32%s = %s, header octets %s" % (l, ires, exp))
        return None
    if op in (702, 703):
        b = a[0]
        if len(b) < 4:
            if not err or code not in (1, 2, 3):
                return ("C15/RequestId.unpack/short", "short input not refused with ValueError: %s" % (ires,))
            return None
        if err:
            return ("C15/RequestId.unpack/refuses", ">= 4 octets refused: %s -> %s" % (b[:4], ires))
        if op == 702:
            l = ires[1]
            if not reqid_ok(l) or reqid_layout(l) != b[:4] or (sres and sres[0][1] != b[:4]):
                return ("C15/RequestId.unpack/fields", "decoded %s does not encode to %s" % (l, b[:4]))
        else:
            if ires[1] != b[:4] or ires[2] != [int.from_bytes(bytes(b[:4]), "big")]:
                return ("C15/RequestId.unpack-pack/roundtrip", "%s -> %s" % (b[:4], ires))
        return None
    if op == 704:
        t, ap, c, d, s, f, v = a[0]
        l = [v, t, s, ap, f, c]
        if reqid_ok(l) and 0 <= d < 65536:
            exp = pc.sph_layout(v, t, s, ap, f, c, d)[:4]
            if err or ires[1] != l or ires[2] != exp or ires[3] != [int.from_bytes(bytes(exp), "big")]:
                return ("C15/RequestId.from_sp_header/octets", "%s -> %s, header begins %s" % (a[0], ires, exp))
        return None
    if op == 705:
        x, y = a
        if reqid_ok(x) and reqid_ok(y):
            same = reqid_layout(x) == reqid_layout(y)
            if err or ires[1] != [int(same), int(same)]:
                return ("C15/RequestId.__eq__/32-bits", "eq/hash-eq of %s and %s = %s, same 32 bits: %s" % (x, y, ires, same))
        return None
    if op == 706:
        service, subservice, apid, seq, source_id, ack = a[0]
        if 0 <= apid < 2048 and 0 <= seq < 16384 and 0 <= service < 256 and 0 <= subservice < 256 and 0 <= source_id < 65536 and 0 <= ack < 16:
            exp = pc.tc_layout(service, subservice, apid, seq, source_id, ack, a[1])[:4]
            if err or ires[2] != exp:
                return ("C15/RequestId.from_pus_tc/octets", "%s -> %s, telecommand begins %s" % (a[0], ires, exp))
        return None
    if op == 713:
        pfc = a[0][0]
        if pfc in (8, 16, 32, 64):
            if err or ires[1] != [pfc // 8]:
                return ("C15/PacketFieldEnum.check_pfc/refuses-valid", "check_pfc(%d) = %s" % (pfc, ires))
        elif not err:
            return ("C15/PacketFieldEnum.check_pfc/non-octet-width",
                    "check_pfc(%d) accepted a width that is not 8/16/32/64 bits and answered %s octets" % (pfc, ires[1]))
        elif code not in (1, 2, 3):
            return ("C15/PacketFieldEnum.check_pfc/error-class", "check_pfc(%d) raised %s" % (pfc, ires))
        return None
    if op in (710, 711, 714):
        pfc, val = (a[0][0] * 8, a[0][1]) if op == 714 else a[0]
        if pfc not in (8, 16, 32, 64):
            if not err:
                return ("C15/PacketFieldEnum.__init__/non-octet-width", "PacketFieldEnum(pfc=%d) accepted: %s" % (pfc, ires))
            return None
        n = pfc // 8
        if op == 710:
            if err and code in (1, 2, 3) and not 0 <= val < 256 ** n:
                # a value the declared width cannot hold is never encoded (pack() refuses it); refusing it when the field
                # is built, with ValueError, is the same refusal earlier
                return None
            if err or ires[1] != [pfc, val, n]:
                return ("C15/PacketFieldEnum/fields", "%s -> %s" % (a[0], ires))
            return None
        if 0 <= val < 256 ** n:
            if err or ires[1] != be(n, val) or (op == 714 and ires[2] != [n]):
                return ("C15/PacketFieldEnum.pack/layout", "pack(pfc=%d, val=%d) = %s" % (pfc, val, ires))
        elif not err:
            return ("C15/PacketFieldEnum.pack/range", "value %d packed in %d octets: %s" % (val, n, ires))
        return None
    if op in (712, 716):
        b, pfc = a[0], a[1][0]
        u = _undoc("PacketFieldEnum.unpack", ires, (b, pfc))
        if u:
            return u
        if pfc not in (8, 16, 32, 64):
            if not err:
                return ("C15/PacketFieldEnum.unpack/non-octet-width", "unpack(pfc=%d) accepted: %s" % (pfc, ires))
            return None
        n = pfc // 8
        if len(b) < n:
            if not err:
                return ("C15/PacketFieldEnum.unpack/short", "%d octets accepted for pfc %d" % (len(b), pfc))
            return None
        if err or (op == 712 and ires[1] != [pfc, int.from_bytes(bytes(b[:n]), "big")]) or (op == 716 and ires[1] != b[:n]):
            return ("C15/PacketFieldEnum.unpack/value", "unpack(%s, %d) = %s" % (b[:n], pfc, ires))
        return None
    if op == 720:
        pfc, val = a[0]
        if pfc in (8, 16, 32, 64) and 0 <= val < 256 ** (pfc // 8):
            exp = be(pfc // 8, val) + a[1]
            if err or ires[1] != exp or ires[2] != [len(exp)]:
                return ("C15/FailureNotice.pack/layout", "%s -> %s" % (a, ires))
        return None
    if op == 721:
        b, n = a[0], a[1][0]
        u = _undoc("FailureNotice.unpack", ires, (b, n))
        if u:
            return u
        if n not in WIDTHS or len(b) < n:
            if not err:
                return ("C15/FailureNotice.unpack/accepts-invalid", "%s" % (a,))
            return None
        nd = len(b) - n if a[2][0] == 0 else a[2][1]
        if err or ires[1] != [8 * n, int.from_bytes(bytes(b[:n]), "big")] or ires[2] != b[n:n + nd]:
            return ("C15/FailureNotice.unpack/fields", "%s -> %s" % (a, ires))
        return None
    if op == 722:
        pfc, val = a[0]
        n = a[2][0]
        if pfc in (8, 16, 32, 64) and 0 <= val < 256 ** (pfc // 8) and n == pfc // 8:
            if err or ires[2] != [pfc, val] or ires[3] != a[1]:
                return ("C15/FailureNotice.unpack/roundtrip", "%s -> %s" % (a, ires))
            if ires[1] != [1]:
                return ("C15/FailureNotice.__eq__/identity",
                        "a decoded failure notice does not compare equal to the original with the same code and data: %s" % (a,))
        return None
    if op == 717:
        w, val = a[0]
        if 0 <= val < 256 ** w:
            if err or ires[1] != be(w, val) or ires[2] != [w]:
                return ("C15/PacketFieldU.pack/layout", "%s -> %s" % (a[0], ires))
        elif not err:
            return ("C15/PacketFieldEnum.pack/range", "value %d packed in %d octets: %s" % (val, w, ires))
        return None
    if op == 718:
        x, y = a
        if err:
            return ("C15/PacketFieldEnum/valid-refused", "%s -> %s" % (a, ires))
        same = int(x[1:] == y[1:])
        if ires[1] != [same, same]:
            return ("C15/PacketFieldEnum.__eq__/construction-path",
                    "fields built as kind %d and kind %d with (pfc, val) %s / %s: == answered %s (kinds: 0 base class, 1 PacketFieldU8/16/32, "
                    "2 with_byte_size, 3 decoded)" % (x[0], y[0], x[1:], y[1:], ires[1]))
        return None
    if op == 760:
        return oracle_rq_history(a, ires)
    if op == 761:
        return oracle_pfe_history(a, ires)
    if op == 762:
        return oracle_vp_history(a, ires)
    if op == 763:
        return oracle_s1_history(a, ires)
    if op == 764:
        return oracle_two_reports(a, ires, sres)
    if op == 765:
        if not err and ires[-1] != [1]:
            return ("C15/Service1Tm/caller-object-modified",
                    "building, packing or decoding the report changed the caller's VerificationParams / timestamp / failure data objects: %s" % (a[:6],))
        r = oracle((742, a[:7]), ires if err else ires[:-1], sres)
        if r and not err:
            return (r[0], "(bytearray arguments, decoded from a bytearray that was overwritten afterwards) " + r[1])
        return r
    if op == 766:
        k, apid = a[0]
        service, subservice, tcapid, seq, source_id, ack = a[1]
        if not (0 <= tcapid < 2048 and 0 <= seq < 16384):
            return None
        b = [[apid, k, 0, 0, 0, 0, 1], a[3], [0, 1, 1, tcapid, 3, seq], a[4], a[5], a[6], a[7]]
        if not err and ires[-1] != [1]:
            return ("C15/create_tm/caller-object-modified", "the helper changed the telecommand / step / failure notice it was given: %s" % (a,))
        r = oracle((742, b), ires if err else ires[:-1], [])
        if r:
            return (r[0].replace("Service1Tm", "create_tm"), "(built by the create_*_tm helper of subservice %d) %s" % (k, r[1]))
        return None
    if op in (732, 749):
        x, y = (a[0:4], a[4:8]) if op == 732 else (a[2:6], a[8:12])
        if not all(reqid_ok(v[0]) and (v[1][0] == 0 or pfe_ok(v[1])) and (v[2][0] == 0 or pfe_ok(v[2])) for v in (x, y)):
            return None
        if x[1][0] != y[1][0]:
            return None     # comparing a present step ID with an absent one is outside the property
        same = reqid_layout(x[0]) == reqid_layout(y[0]) and x[1] == y[1] and x[2] == y[2] and (x[3] == y[3] or not x[2][0])
        if op == 749:
            same = same and a[0][:6] == a[6][:6] and a[1] == a[7]
        if err or ires[1] != [int(same)]:
            return ("C15/%s.__eq__/whole-object" % ("VerificationParams" if op == 732 else "Service1Tm"),
                    "== answered %s for %s vs %s (same parameters: %s)" % (ires, x, y, same))
        return None
    if op == 730:
        k = a[4][0]
        if 1 <= k <= 8:
            ok = shape_ok(k, a[1], a[2])
            if ok and err:
                return ("C15/VerificationParams.verify/refuses-matching", "subservice %d, %s -> %s" % (k, a[1:3], ires))
            if not ok and (not err or code != 7):
                return ("C15/VerificationParams.verify/accepts-mismatch",
                        "subservice %d with step=%s failure=%s not refused with InvalidVerifParams: %s" % (k, a[1], a[2], ires))
        return None
    if op == 731:
        if reqid_ok(a[0]) and (a[1][0] == 0 or pfe_ok(a[1])) and (a[2][0] == 0 or pfe_ok(a[2])):
            exp = src_layout(a[0], a[1], a[2], a[3])
            if err or ires[1] != exp or ires[2] != [len(exp)]:
                return ("C15/VerificationParams.pack/layout", "%s -> %s expected %s" % (a, ires, exp))
        return None
    if op in (740, 741, 742, 747):
        apid, k, seq, ver, ref, dest, has_vp = a[0]
        if not has_vp or not (1 <= k <= 8):
            return None
        rq, step, fcode, data = a[2], a[3], a[4], a[5]
        args_ok = (0 <= apid < 2048 and 0 <= seq < 16384 and 0 <= ver < 8 and 0 <= ref < 16 and 0 <= dest < 65536 and reqid_ok(rq)
                   and (step[0] == 0 or pfe_ok(step)) and (fcode[0] == 0 or pfe_ok(fcode)))
        if not args_ok:
            return None
        if not shape_ok(k, step, fcode):
            if not err or code != 7:
                return ("C15/Service1Tm.__init__/accepts-mismatch",
                        "subservice %d with step=%s failure=%s not refused with InvalidVerifParams: %s" % (k, step, fcode, ires[:1]))
            return None
        src = src_layout(rq, step, fcode, data)
        if len(a[1]) + len(src) > 65527:
            return None
        if err:
            return ("C15/Service1Tm/valid-refused", "valid report raised %s: %s" % (ires, a[:5]))
        exp = report_octets(a)
        if sres and sres[0][1] != exp:
            return ("C15/spec-transcriptions-differ", "Coq srv1_layout and the oracle's layout differ for %s" % (a,))
        vpf = [rq, step, fcode, ([1] + data) if fcode[0] else [0]]
        if op == 740:
            if ires[4] != src or ires[7:11] != vpf:
                return ("C15/Service1Tm.__init__/fields", "%s -> %s" % (a, ires))
            return None
        if op == 747:
            if ires[1] != fcode:
                return ("C15/Service1Tm.error_code", "%s -> %s" % (a, ires))
            return None
        if op == 741:
            if ires[1] != exp:
                return ("C15/Service1Tm.pack/source-data-layout",
                        "packed %s, expected request ID ++ step ++ code ++ data inside the TM: %s" % (ires[1][:48], exp[:48]))
            if ires[2] != [len(exp)] or ires[3:7] != vpf:
                return ("C15/Service1Tm.pack/fields", "%s -> %s" % (a, ires[2:]))
            return None
        # 742: decode with matching widths
        if ires[2] != exp:
            return ("C15/Service1Tm.unpack/re-pack", "re-packed %s != original %s" % (ires[2][:48], exp[:48]))
        if ires[6] != src or ires[9:13] != vpf:
            return ("C15/Service1Tm.unpack/fields", "decoded request ID / step / code / data %s, original %s" % (ires[9:13], vpf))
        if ires[1] != [1]:
            return ("C15/Service1Tm.__eq__/decoded-not-equal",
                    "the decoded report has the same request ID, step, code and data but does not compare equal to the original: %s" % (a[:6],))
        return None
    if op == 799:
        if ires != [[0], [1]]:
            kind, helper, apid = a[0]
            ent = "RequestId.from_pus_tc" if helper == 0 else "create_tm(%d)" % helper
            stage = {1: "request ID returned", 2: "request ID in the packed source data", 3: "request ID of the decoded report"}
            d = ires[1] if len(ires) > 1 else []
            return ("C15/%s/stand-in-request-id-differs" % ent.split("(")[0],
                    "%s given a %s for the telecommand neither refuses it nor identifies it: %s is %s, the four octets that "
                    "identify the telecommand are %s (fields %s)" % (ent, STAND_INS[kind] if 0 <= kind < len(STAND_INS) else kind,
                                                                     stage.get(d[3] if len(d) > 3 else 0, "result"), d[4:], reqid_layout(a[1]), a[1]))
        return None
    if op == 767:
        r = oracle((743, a), ires[:11], sres)
        if r is not None:
            return r
        b = a[0]; tl = a[1][0]
        n = b[4] * 256 + b[5] + 7 if len(b) >= 6 else None
        if err:
            if n is not None and n < len(b) and core.run_impl(impl, 767, [b[:n], a[1]])[0] == [0]:
                return ("C15/Service1Tm.unpack/suffix-refused", "a report accepted on its own is refused when %d further octets follow: %s" % (len(b) - n, ires))
            return None
        unit = b[:n]
        where = "report of %d octets decoded from a buffer of %d octets (%s behind it)" % (n, len(b), b[n:n + 8])
        if ires[5] != [1] + unit[-2:]:
            return ("C15/Service1Tm.unpack/crc16-not-the-trailer", "%s: crc16 reads %s, the packet's trailer is %s" % (where, ires[5], unit[-2:]))
        if ires[6] != [n] or ires[3] != b[13:13 + tl] or ires[4] != b[13 + tl:n - 2]:
            return ("C15/Service1Tm.unpack/telemetry-fields", "%s: packet_len %s, timestamp %s, source data %s" % (where, ires[6], ires[3], ires[4][:16]))
        if ires[11] != unit:
            return ("C15/Service1Tm.unpack-pack/recalc-false-differs", "%s: pus_tm.pack(recalc_crc=False) gives ... %s, the accepted octets end in %s" % (
                where, ires[11][-4:], unit[-4:]))
        if ires[12] != unit:
            return ("C15/Service1Tm.unpack/re-pack", "%s: re-pack ... %s != accepted octets ... %s" % (where, ires[12][-4:], unit[-4:]))
        if ires[13] != [1, 1]:
            return ("C15/Service1Tm.unpack/suffix-changes-equality", "%s: not equal to the report decoded from exactly its octets: %s" % (where, ires[13]))
        if ires[14:24] != ires[1:11]:
            return ("C15/Service1Tm.pack/changes-decoded-object", "%s: fields after the two packs differ from the fields before" % where)
        return None
    if op in (743, 746, 748, 744):
        name = "Service1Tm.from_tm" if op == 744 else "Service1Tm.unpack"
        u = _undoc(name, ires, a[0][:24])
        if u:
            return u
        if err:
            return None
        if op == 744:
            src = a[2]; k = a[0][1]; ws, we = a[3]
            f = ires
        else:
            b = a[0]; tl, ws, we = a[1]
            n = b[4] * 256 + b[5] + 7
            src = b[13 + tl:n - 2]; k = b[8]
            if op == 746:
                if ires[1] != b[:n]:
                    return ("C15/Service1Tm.unpack/re-pack", "re-pack %s != accepted octets %s" % (ires[1][:24], b[:24]))
                return None
            f = ires
        if op == 748:
            expc = [1, 8 * we, int.from_bytes(bytes(src[4 + (ws if k == 6 else 0):][:we]), "big")] if k % 2 == 0 else [0]
            if ires[1] != expc:
                return ("C15/Service1Tm.error_code", "%s, source data %s" % (ires, src[:16]))
            return None
        # an accepted report: 1..8, source data long enough, fields are what the source data says
        if not (1 <= k <= 8) or ws not in WIDTHS and k in (5, 6) or we not in WIDTHS and k % 2 == 0:
            return ("C15/%s/accepts-invalid" % name, "subservice %d widths (%s, %s) accepted" % (k, ws, we))
        need = 4 + (ws if k in (5, 6) else 0) + (we if k % 2 == 0 else 0)
        if len(src) < need:
            return ("C15/%s/short-source-data" % name, "source data of %d octets accepted, %d needed" % (len(src), need))
        rqf, stepf, codef, dataf = f[7:11]
        pos = 4
        exp_step = [0]
        if k in (5, 6):
            exp_step = [1, 8 * ws, int.from_bytes(bytes(src[4:4 + ws]), "big")]; pos += ws
        exp_code, exp_data = [0], [0]
        if k % 2 == 0:
            exp_code = [1, 8 * we, int.from_bytes(bytes(src[pos:pos + we]), "big")]; exp_data = [1] + src[pos + we:]
        if reqid_layout(rqf) != src[:4] or stepf != exp_step or codef != exp_code or dataf != exp_data:
            return ("C15/%s/fields" % name, "decoded %s from source data %s" % (f[7:11], src[:24]))
        return None
    if op == 745:
        k, apid = a[0]
        service, subservice, tcapid, seq, source_id, ack = a[1]
        step, fcode, data = a[4], a[5], a[6]
        if not shape_ok(k, step, fcode):
            if not err or code != 7:
                return ("C15/create_tm/accepts-mismatch", "%s -> %s" % (a, ires[:1]))
            return None
        rq = [0, 1, 1, tcapid, 3, seq]
        exp = pc.tm_layout(1, k, apid, 0, 0, 0, 0, 0, a[3], src_layout(rq, step, fcode, data))
        if pc.tc_layout(service, subservice, tcapid, seq, source_id, ack, a[2])[:4] != reqid_layout(rq):
            return ("C15/oracle-inconsistent", "%s" % (a,))
        if err or ires[1] != exp:
            return ("C15/create_tm/source-data-layout", "%s -> %s expected %s" % (a, ires[:2], exp))
        return None
    return None



def oracle_rq_history(a, ires):
    """a request ID object after attribute assignments: while its values are in range it reports them, packs to the first
    four header octets they encode, as_u32 / hash are those 32 bits, and it equals (and hashes like) a fresh one"""
    l, kind = list(a[0]), a[1][0]
    if kind == 3:
        l = [0, 0, 0, 0, 0, 0]
    if not reqid_ok(l):
        return None
    if ires[0] != [0]:
        return ("C15/RequestId/valid-refused", "construction path %d refused %s: %s" % (kind, a[0], ires))
    cur = list(l)
    for n, (o, row) in enumerate(zip(a[2:], ires[1:])):
        k = o[0] if o else 7
        what = "path %d, start %s, operations %s" % (kind, l, a[2:3 + n])
        if 0 <= k <= 5:
            if row[0] == 1:
                # the assignment itself was refused (row = [1, class] + fields, as_u32, hash afterwards): fine for a value
                # the field cannot hold, with ValueError (TypeError tolerated for the enum / flag fields), object unchanged
                u32 = (((cur[0] * 2 + cur[1]) * 2 + cur[2]) * 2048 + cur[3]) * 65536 + cur[4] * 16384 + cur[5]
                if 0 <= o[1] < RQ_RANGES[k]:
                    return ("C15/RequestId.attributes/valid-refused", "%s: an in-range assignment was refused: %s" % (what, row[:2]))
                if row[1] not in ((1, 2, 3) if k in (0, 3, 5) else (1, 2, 3, 20)):
                    return ("C15/RequestId.attributes/refusal-class", "%s: out-of-range value refused with %s instead of ValueError" % (
                        what, core.ERR_NAMES.get(row[1], row[1])))
                if row[2:8] != cur or (reqid_ok(cur) and row[8:] != [u32, u32]):
                    return ("C15/RequestId.attributes/refusal-changed-object", "%s: refused, yet the object reports %s, before %s" % (what, row[2:], cur))
                continue
            cur[k] = o[1]
        if not reqid_ok(cur):
            continue
        exp = reqid_layout(cur)
        u32 = int.from_bytes(bytes(exp), "big")
        if k == 6:
            if row != [0] + exp:
                return ("C15/RequestId.attributes/pack", "%s: pack() = %s, the header octets of %s are %s" % (what, row, cur, exp))
        elif k == 8:
            if row != [0, 1, 1, 1, 1]:
                return ("C15/RequestId.attributes/equality", "%s: ==, ==, hash ==, == decoded answered %s for an ID with the same 32 bits" % (what, row))
        elif row != [0] + cur + [u32, u32]:
            return ("C15/RequestId.attributes/fields", "%s: object reports %s, expected %s" % (what, row, [0] + cur + [u32, u32]))
    return None


def oracle_pfe_history(a, ires):
    kind, pfc, val = a[0]
    if pfc not in (8, 16, 32, 64) or not 0 <= val < 2 ** pfc:
        return None
    if ires[0] != [0]:
        return ("C15/PacketFieldEnum/valid-refused", "%s -> %s" % (a[0], ires))
    for n, (o, row) in enumerate(zip(a[1:], ires[1:])):
        k = o[0] if o else 4
        what = "field %s after %s" % (a[0], a[1:2 + n])
        if k in (0, 1) and row[0] == 1:
            # the assignment itself was refused (row = [1, class, pfc, val afterwards]).  Fine when the field could not be
            # packed with the new value (width not 8/16/32/64, value outside the width): ValueError, object unchanged
            npfc, nval = (pfc, o[1]) if k == 0 else (o[1], val)
            if npfc in (8, 16, 32, 64) and 0 <= nval < 2 ** npfc:
                return ("C15/PacketFieldEnum.attributes/valid-refused", "%s: a representable (pfc %d, val %d) was refused: %s" % (what, npfc, nval, row))
            if row[1] not in (1, 2, 3) or row[2:] != [pfc, val]:
                return ("C15/PacketFieldEnum.attributes/refusal", "%s: refused with %s, the field reports %s afterwards (before: pfc %d, val %d)" % (
                    what, core.ERR_NAMES.get(row[1], row[1]), row[2:], pfc, val))
            continue
        if k == 0:
            val = o[1]
        elif k == 1:
            pfc = o[1]
        if pfc not in (8, 16, 32, 64):
            if k in (2, 3) and row[0] != 1:
                return ("C15/PacketFieldEnum.attributes/non-octet-width", "%s: width %d packed / measured: %s" % (what, pfc, row))
            continue
        w = pfc // 8
        if k == 2:
            if 0 <= val < 256 ** w:
                if row != [0] + be(w, val):
                    return ("C15/PacketFieldEnum.attributes/pack", "%s: pack() = %s for (pfc %d, val %d)" % (what, row, pfc, val))
            elif row[0] != 1:
                return ("C15/PacketFieldEnum.pack/range", "%s: value %d packed in %d octets: %s" % (what, val, w, row))
        elif k == 3:
            if row != [0, w]:
                return ("C15/PacketFieldEnum.attributes/len", "%s: len() = %s" % (what, row))
        elif k == 5:
            if not 0 <= val < 256 ** w and row[0] == 1 and row[1] in (1, 2, 3):
                continue    # no fresh field can be built with a value the width cannot hold (refused at construction): nothing to compare
            if row != [0, 1, 1]:
                return ("C15/PacketFieldEnum.__eq__/after-assignment", "%s: not equal to a fresh field (pfc %d, val %d): %s" % (what, pfc, val, row))
        elif row != [0, pfc, val]:
            return ("C15/PacketFieldEnum.attributes/fields", "%s: reports %s" % (what, row))
    return None


def oracle_vp_history(a, ires):
    rq, step, code, data = [list(x) for x in a[:4]]
    if not (reqid_ok(rq) and (step[0] == 0 or pfe_ok(step)) and (code[0] == 0 or pfe_ok(code))):
        return None
    if ires[0] != [0]:
        return ("C15/VerificationParams/valid-refused", "%s -> %s" % (a[:4], ires))
    rows = ires[1:]
    pos = 0
    for n, o in enumerate(a[4:]):
        if pos >= len(rows):
            return None
        row = rows[pos]
        k = o[0] if o else 9
        what = "parameters %s after %s" % (a[:4], [x[:12] for x in a[4:5 + n]])
        if k <= 5 and row[0] == 1 and len(row) == 2 and len(rows[pos:pos + 4]) >= 1 and (pos + 1 >= len(rows) or True):
            # a refused assignment (bad request ID / field width, or no object to edit): nothing may have changed
            #   (also a step ID / failure code value its declared width cannot hold: pack() would refuse it, an earlier
            #   refusal - at construction of the field or by a validating .val setter - is the same refusal)
            refused_ok = (k == 0 and not reqid_ok(o[1:7])) or (k == 1 and o[1] and not pfe_ok([1, o[2], o[3]])) or \
                (k == 2 and o[1] and not pfe_ok([1, o[2], o[3]])) or (k == 3 and not (step[0] and pfe_ok([1, step[1], o[1]]))) or \
                (k == 4 and not code[0]) or (k == 5 and not (code[0] and pfe_ok([1, code[1], o[1]])))
            if refused_ok:
                pos += 1
                continue
        if k == 0:
            rq = list(o[1:7])
        elif k == 1:
            step = [1, o[2], o[3]] if o[1] else [0]
        elif k == 2:
            code = [1, o[2], o[3]] if o[1] else [0]; data = list(o[4:]) if o[1] else []
        elif k == 3:
            step = [1, step[1], o[1]]
        elif k == 4:
            data = list(o[1:])
        elif k == 5:
            code = [1, code[1], o[1]]
        valid = reqid_ok(rq) and (step[0] == 0 or pfe_ok(step)) and (code[0] == 0 or pfe_ok(code))
        if not valid:
            return None
        if k == 6:
            exp = src_layout(rq, step, code, data)
            if row != [0] + exp:
                return ("C15/VerificationParams.attributes/pack", "%s: pack() = %s, expected request ID ++ step ++ code ++ data = %s" % (what, row[:40], exp[:40]))
            pos += 1
        elif k == 7:
            if row != [0, len(src_layout(rq, step, code, data))]:
                return ("C15/VerificationParams.attributes/len", "%s: len() = %s" % (what, row))
            pos += 1
        elif k == 8:
            sub = o[1]
            if 1 <= sub <= 8:
                ok = shape_ok(sub, step, code)
                if ok and row != [0]:
                    return ("C15/VerificationParams.verify/refuses-matching", "%s: subservice %d -> %s" % (what, sub, row))
                if not ok and row != [1, 7]:
                    return ("C15/VerificationParams.verify/accepts-mismatch", "%s: subservice %d -> %s" % (what, sub, row))
            pos += 1
        else:
            exp = [rq, step, code, ([1] + data) if code[0] else [0]]
            if rows[pos:pos + 4] != exp:
                return ("C15/VerificationParams.attributes/fields", "%s: object reports %s, expected %s" % (what, rows[pos:pos + 4], exp))
            pos += 4
    if rows and rows[-1] != [1]:
        return ("C15/VerificationParams/caller-object-modified", "%s" % (a[:4],))
    return None


def oracle_s1_history(a, ires):
    """a report object through pack / header edits / request-ID setter / decoding of its own output.  The source data are
    those built at construction (the tc_req_id setter stores the ID without rebuilding them); apart from that every
    pack() is the report layout for the current APID and sequence count, decoding it with matching widths gives the
    same request ID / step / code / data, and (unless the request ID was overridden) an equal object."""
    apid, k, seq, ver, ref, dest, has_vp = a[0]
    kind, ws, we = a[6]
    rq, step, fcode, data = a[2], a[3], a[4], a[5]
    if not (0 <= apid < 2048 and 0 <= seq < 16384 and reqid_ok(rq) and shape_ok(k, step, fcode) and 1 <= k <= 8
            and (step[0] == 0 or pfe_ok(step)) and (fcode[0] == 0 or pfe_ok(fcode))):
        return None
    if (step[0] and step[1] != 8 * ws) or (fcode[0] and fcode[1] != 8 * we):
        return None
    if ires[0] != [0]:
        return ("C15/Service1Tm/valid-refused", "construction path %d refused a valid report: %s -> %s" % (kind, a[:6], ires))
    src = src_layout(rq, step, fcode, data)
    vp0 = [list(rq), list(step), list(fcode), ([1] + list(data)) if fcode[0] else [0]]
    cur_rq = list(rq)
    rows = ires[1:]
    pos = 0
    for n, o in enumerate(a[7:]):
        if pos >= len(rows):
            return None
        row = rows[pos]
        op = o[0] if o else 1
        what = "path %d, report %s, operations %s" % (kind, a[:6], a[7:8 + n])
        if op == 3 and not reqid_ok(o[1:7]):
            return None
        if op in (4, 5) and row[0] == 1:
            # the setter refused the assignment at once: fine for a value outside the field's range (today: stored, and
            # refused by the next pack), with ValueError; nothing is assigned - the following rows are judged against the
            # old APID / count
            if 0 <= o[1] < (16384 if op == 4 else 2048) or row[1] not in (1, 2, 3):
                return ("C15/Service1Tm.history/valid-refused", "%s: raised %s" % (what, row))
            pos += 1
            continue
        if op == 4 and row[0] == 0:
            seq = o[1]
        elif op == 5 and row[0] == 0:
            apid = o[1]
        if not (0 <= apid < 2048 and 0 <= seq < 16384) and op in (0, 6, 7):
            # the report's telemetry header was pushed out of range (the setters do not validate): pack(), also the one
            # inside the decoding of the own output, must refuse with ValueError; nothing is encoded, nothing changes
            r = pc.out_of_range_verdict("Service1Tm", 0, what, {"apid": apid, "count": seq, "dlen": 0}, row)
            if r is not None:
                return r
            pos += 1
            continue
        if row[0] == 1:
            return ("C15/Service1Tm.history/valid-refused", "%s: raised %s" % (what, row))
        if op == 3:
            cur_rq = list(o[1:7])
        exp = pc.tm_layout(1, k, apid, seq, 0, ref, dest, ver, a[1], src)
        if op == 0:
            if row != [0] + exp:
                return ("C15/Service1Tm.history/pack", "%s: pack() = %s, expected %s" % (what, row[:48], exp[:48]))
            pos += 1
            continue
        if op == 2:
            if row != [0] + fcode:
                return ("C15/Service1Tm.error_code", "%s: %s, expected %s" % (what, row, fcode))
            pos += 1
            continue
        if op in (6, 7):
            if o[1:3] != [ws, we]:
                return None
            f = rows[pos + 1:pos + 11]
            if len(f) < 10 or f[3] != src or f[6:10] != vp0:
                return ("C15/Service1Tm.unpack/own-output-fields", "%s: decoding the object's own output gave %s, the report was built from %s" % (what, f[6:10], vp0))
            if op == 7 and cur_rq == rq and row != [0, 1, 1]:
                return ("C15/Service1Tm.__eq__/decoded-not-equal", "%s: the decoded report does not compare equal to the object it was packed from: %s" % (what, row))
            if op == 6:
                cur_rq = list(rq)
            pos += 11
            continue
        f = rows[pos + 1:pos + 11]
        vp = [cur_rq] + vp0[1:]
        if len(f) < 10 or f[3] != src or f[6:10] != vp or f[0][3] != apid or f[0][5] != seq or f[5] != [len(exp)]:
            return ("C15/Service1Tm.history/fields", "%s: object reports header %s, source data %s, parameters %s; expected APID %d, count %d, %s" % (
                what, f[0] if f else None, f[3][:24] if len(f) > 3 else None, f[6:10], apid, seq, vp))
        pos += 11
    return None


def oracle_two_reports(a, ires, sres):
    if ires[0] != [0]:
        return None
    rows = ires[1:]
    ra = oracle((743, [a[0], a[1]]), [[0]] + rows[0:10], [])
    if ra:
        return ("C15/Service1Tm.unpack/first-report-after-second",
                "a report decoded first and inspected after another one was decoded: " + ra[1])
    if rows[-1] != [1]:
        return ("C15/Service1Tm.unpack/shared-state", "decoding a second report changed the first one (modes: 0 unpack, 1 from_tm, 2 a default-"
                "constructed report in between; mode %d): first %s" % (a[4][0], a[0][:32]))
    b = a[0]
    k = b[8]; tl, ws, we = a[1]
    n = b[4] * 256 + b[5] + 7
    src = b[13 + tl:n - 2]
    expc = [0, 1, 8 * we, int.from_bytes(bytes(src[4 + (ws if k == 6 else 0):][:we]), "big")] if k % 2 == 0 else [0, 0]
    if rows[10] != expc:
        return ("C15/Service1Tm.error_code", "first of two reports: %s, source data %s" % (rows[10], src[:16]))
    tail = rows[11:-1]
    if tail and tail[0][0] == 0:
        rb = oracle((743, [a[2], a[3]]), [[0]] + tail[1:11], [])
        if rb:
            return rb
        if a[1] == a[3]:
            n2 = a[2][4] * 256 + a[2][5] + 7
            same = int(a[0][:n] == a[2][:n2])
            if tail[0] != [0, same, same]:
                return ("C15/Service1Tm.__eq__/two-decoded", "reports %s and %s decoded with the same parameters: == answered %s" % (a[0][:24], a[2][:24], tail[0]))
    return None


def neighbours(case):
    op, a = case
    out = []
    if op in (702, 703):
        for i in range(min(4, len(a[0]))):
            for bit in range(8):
                l = list(a[0]); l[i] ^= 1 << bit; out.append((op, [l]))
    if op in (700, 701):
        for i in range(6):
            for dlt in (-1, 1):
                l = list(a[0]); l[i] += dlt; out.append((op, [l]))
    if op == 713:
        for dlt in range(-8, 9):
            out.append((713, [[a[0][0] + dlt]]))
    if op in (710, 711):
        for dlt in (-1, 1):
            out.append((op, [[a[0][0] + dlt, a[0][1]]])); out.append((op, [[a[0][0], a[0][1] + dlt]]))
    if op in (741, 742, 740):
        for k in range(1, 9):
            l = [list(x) for x in a]; l[0][1] = k; out.append((op, l))
    if op in (743, 746, 748):
        for i in range(min(24, len(a[0]))):
            for bit in (0, 4, 7):
                l = list(a[0]); l[i] ^= 1 << bit; out.append((op, [l, a[1]]))
    return out


def search_cases(broken, rng):
    """Inputs on which the property is evaluated when an obligation broke without a disagreeing case."""
    out = [(713, [[p]]) for p in range(0, 72)]
    for k in range(1, 9):
        for ws, we in itertools.product(WIDTHS, WIDTHS):
            out.append((742, rand_report(rng, k, ws, we)))
    for w in range(0, 65536, 97):
        out.append((703, [[w >> 8, w & 255, 0x12, 0x34]])); out.append((703, [[0x12, 0x34, w >> 8, w & 255]]))
    return out


# ------------------------------------------------------------------ decoder registry (C09 / C10)
def _valid_reports(rng, n=30, tl=7, ws=1, we=1):
    return [report_octets(rand_report(rng, None, ws, we, tl=tl)) for _ in range(n)]


def _valid_reqids(rng):
    return [reqid_layout(rand_reqid(rng)) for _ in range(30)]


DECODERS = [
    {"op": 702, "name": "RequestId.unpack", "extra": [], "valid": _valid_reqids, "declared_len": lambda b: 4},
    {"op": 712, "name": "PacketFieldEnum.unpack(16)", "extra": [[16]], "valid": lambda rng: [pc.rbytes(rng, 2) for _ in range(20)],
     "declared_len": lambda b: 2},
    {"op": 712, "name": "PacketFieldEnum.unpack(64)", "extra": [[64]], "valid": lambda rng: [pc.rbytes(rng, 8) for _ in range(20)],
     "declared_len": lambda b: 8},
    {"op": 721, "name": "FailureNotice.unpack", "extra": [[2], [0]], "valid": lambda rng: [pc.rbytes(rng, 2 + rng.randrange(6)) for _ in range(20)],
     "declared_len": None},
    {"op": 743, "name": "Service1Tm.unpack", "extra": [[7, 1, 1]], "valid": lambda rng: _valid_reports(rng, 30, 7, 1, 1),
     "declared_len": lambda b: b[4] * 256 + b[5] + 7},
    {"op": 743, "name": "Service1Tm.unpack(2,4)", "extra": [[0, 2, 4]], "valid": lambda rng: _valid_reports(rng, 30, 0, 2, 4),
     "declared_len": lambda b: b[4] * 256 + b[5] + 7},
    # every observable of the decoded report (crc16, pack with and without recalculation, equality), see op 767
    {"op": 767, "name": "Service1Tm.unpack+views", "extra": [[7, 2, 1]], "valid": lambda rng: _valid_reports(rng, 16, 7, 2, 1),
     "declared_len": lambda b: b[4] * 256 + b[5] + 7},
]
# the units of these decoders end in a CRC-16 trailer over the declared length ("crc": how C09 / C10 repair it after a
# mutation); "param_variants": other values of the decoder's parameters the cross-cutting checks try
for _d in DECODERS:
    if _d["op"] in (743, 767):
        _d["crc"] = "pus"
        _d["param_variants"] = [[[tl, _d["extra"][0][1], _d["extra"][0][2]]] for tl in range(0, 19)] + \
                               [[[_d["extra"][0][0], ws, we]] for ws in (1, 2, 4, 8) for we in (1, 2, 4, 8)]
