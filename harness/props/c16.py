"""C16 — PUS verification tracker state machine.

op 800: one case = a whole history, every argument one call (see Run/DispVerif.v):
  [0, id6] add_tc   [1, id6, sub, has_step, step] add_tm   [2, id6] remove_entry   [3] remove_completed_entries
  id6 = [ccsds_version, packet type, sec-header flag, apid, sequence flags, sequence count]
op 801: one transition: a0 = status [recvd, accepted, started, step, completed, step_list...] installed directly
  in the dictionary, a1 = [sub, has_step, step] fed through the real add_tm.
Observed after every call: the return value and the whole dictionary (insertion order)."""
import itertools
from spacepackets.ccsds.spacepacket import PacketId, PacketSeqCtrl, PacketType, SequenceFlags
from spacepackets.ecss import PusTc
from spacepackets.ecss.fields import PacketFieldEnum
from spacepackets.ecss.pus_1_verification import (Service1Tm, VerificationParams, RequestId, Subservice,
                                                  FailureNotice)
from spacepackets.ecss.pus_verificator import PusVerificator, VerificationStatus, StatusField
from harness.core import classify_exception

ID = "C16"
_PV = "spacepackets.ecss.pus_verificator:"
_P1 = "spacepackets.ecss.pus_1_verification:"
_M = "SP.Model.Verificator."
ENUMS = [
    (_PV + "StatusField.UNSET", _M + "UNSET"),
    (_PV + "StatusField.FAILURE", _M + "FAILURE"),
    (_PV + "StatusField.SUCCESS", _M + "SUCCESS"),
    (_P1 + "Subservice.TM_ACCEPTANCE_SUCCESS", _M + "TM_ACCEPTANCE_SUCCESS"),
    (_P1 + "Subservice.TM_ACCEPTANCE_FAILURE", _M + "TM_ACCEPTANCE_FAILURE"),
    (_P1 + "Subservice.TM_START_SUCCESS", _M + "TM_START_SUCCESS"),
    (_P1 + "Subservice.TM_START_FAILURE", _M + "TM_START_FAILURE"),
    (_P1 + "Subservice.TM_STEP_SUCCESS", _M + "TM_STEP_SUCCESS"),
    (_P1 + "Subservice.TM_STEP_FAILURE", _M + "TM_STEP_FAILURE"),
    (_P1 + "Subservice.TM_COMPLETION_SUCCESS", _M + "TM_COMPLETION_SUCCESS"),
    (_P1 + "Subservice.TM_COMPLETION_FAILURE", _M + "TM_COMPLETION_FAILURE"),
]
ASSUMPTIONS = [
    "Python dict keyed by RequestId (__hash__/__eq__ = as_u32) behaves as an insertion-ordered association list "
    "keyed by the 32-bit value; VerificationStatus objects are mutated in place",
    "the documented state machine is the transition table of DESIGN.md 5.C16 (Spec/VerificatorSpec.v): 'all "
    "verifications received' is evaluated at the report that terminates the sequence, with the fields as they "
    "are at that moment",
]
TRUSTED = []
TS = bytes(7)


def _reqid(i):
    v, t, s, ap, fl, c = i
    return RequestId(PacketId(PacketType(t), bool(s), ap), PacketSeqCtrl(SequenceFlags(fl), c), v)


def _tc(i):
    v, t, s, ap, fl, c = i
    assert (v, t, s, fl) == (0, 1, 1, 3), "PusTc always has version 0, type TC, secondary header, unsegmented"
    return PusTc(apid=ap, seq_count=c, service=17, subservice=1)


def _step(val):
    return PacketFieldEnum.with_byte_size(1 if val < 256 else 2 if val < 65536 else 4, val)


def _tm(i, sub, has_step, step):
    rid = _reqid(i)
    sv = Subservice(sub) if 0 <= sub <= 8 else sub
    if sub in (5, 6) and not has_step:
        # a report object without step id (constructor default parameters, request id set afterwards)
        tm = Service1Tm(apid=i[3], subservice=sv, timestamp=TS)
        tm.tc_req_id = rid
        return tm
    assert sub in (5, 6) or not has_step
    fn = FailureNotice(PacketFieldEnum.with_byte_size(1, 8), data=bytes([0, 1])) if sub % 2 == 0 else None
    return Service1Tm(apid=i[3], subservice=sv, timestamp=TS,
                      verif_params=VerificationParams(rid, step_id=_step(step) if has_step else None, failure_notice=fn))


def _st(s):
    return [int(s.all_verifs_recvd), int(s.accepted), int(s.started), int(s.step), int(s.completed)] + [int(x) for x in s.step_list]


def _dict(v):
    items = list(v.verif_dict.items())
    return [[len(items)]] + [[k.as_u32()] + _st(s) for k, s in items]


def _call(v, o):
    try:
        if o and o[0] == 0:
            return [0, int(v.add_tc(_tc(o[1:7])))]
        if o and o[0] == 1:
            r = v.add_tm(_tm(o[1:7], o[7], o[8], o[9]))
            if r is None:
                return [1]
            assert r.status is v.verif_dict[_reqid(o[1:7])]
            return [2, int(r.completed)] + _st(r.status)
        if o and o[0] == 2:
            return [0, int(v.remove_entry(_reqid(o[1:7])))]
        r = v.remove_completed_entries()
        assert r is None
        return [1]
    except AssertionError:
        raise
    except Exception as e:  # the exception class is part of the observation, the history goes on
        return [3, classify_exception(e)]


FIXED_ID = [0, 1, 1, 5, 3, 7]


def impl(op, a):
    if op == 800:
        v = PusVerificator()
        out = []
        for o in a:
            out += [_call(v, o)] + _dict(v)
        return out
    if op == 801:
        s = a[0]
        v = PusVerificator()
        v._verif_dict[_reqid(FIXED_ID)] = VerificationStatus(
            all_verifs_recvd=bool(s[0]), accepted=StatusField(s[1]), started=StatusField(s[2]),
            step=StatusField(s[3]), step_list=list(s[5:]), completed=StatusField(s[4]))
        sub, hs, st = a[1]
        return [_call(v, [1] + FIXED_ID + [sub, hs, st])] + _dict(v)
    raise RuntimeError("bad op")


# ------------------------------------------------------------------ reference (documented table)
def key_of(i):
    """RequestId.as_u32 by arithmetic: 3 + 1 + 1 + 11 + 2 + 14 bits"""
    v, t, s, ap, fl, c = i
    return v * 2 ** 29 + t * 2 ** 28 + s * 2 ** 27 + ap * 2 ** 16 + fl * 2 ** 14 + c


def table(sub, k, st):
    """DESIGN.md 5.C16.  st = [recvd, acc, sta, step, comp, steps...] -> (st', done) or None (ValueError)"""
    r, ac, sa, sp_, co = st[:5]
    steps = list(st[5:])
    both = ac != -1 and sa != -1
    if sub == 1:
        ac, done = 1, False
    elif sub == 2:
        r, ac, done = 1, 0, True
    elif sub == 3:
        sa, done = 1, False
    elif sub == 4:
        r, sa, done = (1 if ac != -1 else r), 0, True
    elif sub == 5:
        sp_, done = (1 if sp_ == -1 else sp_), False
        steps.append(k)
    elif sub == 6:
        r, sp_, done = (1 if both else r), 0, True
        steps.append(k)
    elif sub == 7:
        r, co, done = (1 if both else r), 1, True
    elif sub == 8:
        r, co, done = (1 if both else r), 0, True
    else:
        return None
    return [r, ac, sa, sp_, co] + steps, done


# ------------------------------------------------------------------ generators
TCS = [[0, 1, 1, 5, 3, 7], [0, 1, 1, 5, 3, 8], [0, 1, 1, 0x7FF, 3, 0x3FFF]]
# never registered: differ from TCS[0] in exactly one field
STRANGERS = [[1, 1, 1, 5, 3, 7], [0, 0, 1, 5, 3, 7], [0, 1, 0, 5, 3, 7], [0, 1, 1, 6, 3, 7], [0, 1, 1, 5, 2, 7], [0, 1, 1, 5, 3, 6],
             [0, 0, 0, 0, 0, 0]]


def tm(i, sub, step=None):
    return [1] + i + [sub, 1 if step is not None else 0, step if step is not None else 0]


def tm_auto(i, sub, rng):
    return tm(i, sub, rng.choice([0, 1, 2, 255, 256, 70000]) if sub in (5, 6) else None)


def streams(tier, rng):
    big = tier == "thorough"
    # 1. the complete transition table: 162 statuses x subservices 0..9 (+ 255), through the real add_tm
    cases = []
    for r, ac, sa, sp_, co in itertools.product((0, 1), (-1, 0, 1), (-1, 0, 1), (-1, 0, 1), (-1, 0, 1)):
        for sub in list(range(0, 10)) + [255]:
            for steps in ([], [3], [1, 1, 2]):
                k = rng.choice([0, 1, 4, 255, 300])
                cases.append((801, [[r, ac, sa, sp_, co] + steps, [sub, 1 if sub in (5, 6) else 0, k if sub in (5, 6) else 0]]))
    yield "exh_transition_table_162x11", "exact", cases
    # 2. every report sequence of length <= 3 (4 in thorough) for one telecommand, then remove_completed
    cases = []
    for n in range(0, 5 if big else 4):
        for seq in itertools.product(range(1, 9), repeat=n):
            ops = [[0] + TCS[0]] + [tm(TCS[0], s, j + 1 if s in (5, 6) else None) for j, s in enumerate(seq)] + [[3]]
            cases.append((800, ops))
    yield "exh_report_sequences", "exact", cases
    # 3. all interleavings of two telecommands' report chains (isolation)
    cases = []
    chains = [(1, 3, 5, 7), (1, 3, 6), (2,), (1, 4), (3, 1, 8), (7, 3, 1)]
    for ca, cb in itertools.product(chains, chains):
        n, m = len(ca), len(cb)
        for pos in itertools.combinations(range(n + m), n):
            ia, ib, ops = 0, 0, [[0] + TCS[0], [0] + TCS[1]]
            for p in range(n + m):
                if p in pos:
                    ops.append(tm(TCS[0], ca[ia], ia if ca[ia] in (5, 6) else None)); ia += 1
                else:
                    ops.append(tm(TCS[1], cb[ib], 10 + ib if cb[ib] in (5, 6) else None)); ib += 1
            ops.append([3])
            cases.append((800, ops))
    yield "interleavings_two_tcs", "exact", cases
    # 4. random histories over 3 telecommands + never-registered request ids
    cases = []
    for _ in range(40000 if big else 5000):
        ops = []
        for _ in range(rng.randrange(1, 40)):
            x = rng.random()
            if x < 0.15:
                ops.append([0] + rng.choice(TCS))
            elif x < 0.80:
                i = rng.choice(TCS + TCS + TCS + STRANGERS) if rng.random() < 0.5 else rng.choice(TCS)
                sub = rng.choice([1, 2, 3, 4, 5, 6, 7, 8] * 6 + [0, 9, 10, 255])
                ops.append(tm_auto(i, sub, rng))
            elif x < 0.90:
                ops.append([2] + rng.choice(TCS + STRANGERS[:3]))
            else:
                ops.append([3])
        cases.append((800, ops))
    yield "random_histories", "exact", cases
    # 5. reports without step id for step subservices (AttributeError escapes after a partial update)
    cases = []
    for sub in (5, 6):
        for pre in ([], [1], [1, 3], [3], [1, 3, 5]):
            ops = [[0] + TCS[0]] + [tm(TCS[0], s, 9 if s in (5, 6) else None) for s in pre] + [tm(TCS[0], sub, None), tm(TCS[0], 7)]
            cases.append((800, ops))
        cases.append((800, [tm(TCS[0], sub, None)]))   # unknown id: no attribute access at all
    yield "step_reports_without_step_id", "exact", cases


# ------------------------------------------------------------------ oracle
def split_obs(ires, nops):
    out, i = [], 1
    for _ in range(nops):
        ret = ires[i]
        n = ires[i + 1][0]
        out.append((ret, ires[i + 2:i + 2 + n]))
        i += 2 + n
    return out


def _in_spec(ops):
    return all(not (o and o[0] == 1 and o[7] in (5, 6) and not o[8]) for o in ops)


def _spec_ops(ops):
    out = []
    for o in ops:
        if o and o[0] == 0:
            out.append([0, key_of(o[1:7])])
        elif o and o[0] == 1:
            out.append([1, key_of(o[1:7]), o[7], o[9]])
        elif o and o[0] == 2:
            out.append([2, key_of(o[1:7])])
        else:
            out.append([3])
    return out


def _keys(ops):
    return sorted({key_of(o[1:7]) for o in ops if o and o[0] in (0, 1, 2)})


def oracle_spec(case, ires):
    op, a = case
    if ires[0] != [0]:
        return []
    if op == 801 and (a[1][0] not in (5, 6) or a[1][1]):
        return [(850, [a[0], [a[1][0], a[1][2]]])]
    if op == 800 and _in_spec(a):
        return [(851, [_keys(a)] + _spec_ops(a))]
    return []


def oracle(case, ires, sres):
    op, a = case
    if ires[0] != [0]:
        return ("C16/PusVerificator/adapter", "history could not be driven: %s" % (ires,))
    if op == 801:
        st, (sub, hs, k) = a[0], a[1]
        if sub in (5, 6) and not hs:
            return None
        (ret, d), = split_obs(ires, 1)
        exp = table(sub, k, st)
        if exp is None:
            if ret[0] != 3 or ret[1] not in (1, 2, 3):
                return ("C16/add_tm/invalid-subservice", "subservice %d on a known request id: %s, expected ValueError" % (sub, ret))
            if d != [[key_of(FIXED_ID)] + st]:
                return ("C16/add_tm/invalid-subservice", "status changed by a refused report: %s -> %s" % (st, d))
            if sres and sres[0][1] != [1]:
                return ("C16/spec/table", "Coq table disagrees with the reference table on sub %d" % sub)
            return None
        st2, done = exp
        if ret[0] != 2:
            return ("C16/add_tm/no-result", "report %d on a known request id returned %s" % (sub, ret))
        if bool(ret[1]) != (sub in (2, 4, 6, 7, 8)) or bool(ret[1]) != done:
            return ("C16/add_tm/completed-flag", "completed flag %d for subservice %d" % (ret[1], sub))
        if st[3] == 0 and ret[5] != 0:
            return ("C16/add_tm/failed-step-overwritten", "failed step overwritten: %s -> %s" % (st, ret[2:]))
        if st[0] == 1 and ret[2] != 1:
            return ("C16/add_tm/all-verifs-recvd", "all_verifs_recvd reverted: %s -> %s" % (st, ret[2:]))
        if ret[2:] != st2 or d != [[key_of(FIXED_ID)] + st2]:
            what = "all-verifs-recvd" if ret[2] != st2[0] else "step-list" if ret[7:] != st2[5:] else "status-fields"
            return ("C16/add_tm/" + what, "status %s, report %d (step %d) -> %s, state machine says %s" % (st, sub, k, ret[2:], st2))
        if sres and sres[0][1] != [0, int(done)] + st2:
            return ("C16/spec/table", "Coq table %s disagrees with the reference table %s" % (sres[0][1], st2))
        return None
    if op != 800 or not _in_spec(a):
        return None
    obs = split_obs(ires, len(a))
    # reference tracker: total map key -> status, driven by the table
    ref, order = {}, []
    prev = []
    for o, (ret, d) in zip(a, obs):
        kind = o[0] if o else 3
        k = key_of(o[1:7]) if kind in (0, 1, 2) else None
        before = dict(ref)
        if kind == 0:
            if k in ref:
                exp_ret = [0, 0]
            else:
                ref[k] = [0, -1, -1, -1, -1]; order.append(k); exp_ret = [0, 1]
        elif kind == 1:
            if k not in ref:
                exp_ret = [1]
            else:
                t = table(o[7], o[9], ref[k])
                if t is None:
                    exp_ret = [3, 1]
                else:
                    ref[k] = t[0]; exp_ret = [2, int(t[1])] + t[0]
        elif kind == 2:
            if k in ref:
                del ref[k]; order.remove(k); exp_ret = [0, 1]
            else:
                exp_ret = [0, 0]
        else:
            for kk in [kk for kk in order if ref[kk][0]]:
                del ref[kk]; order.remove(kk)
            exp_ret = [1]
        got_ret = [3, 1] if ret[0] == 3 and ret[1] in (1, 2, 3) else ret
        exp_d = [[kk] + ref[kk] for kk in order]
        if got_ret != exp_ret or d != exp_d:
            if kind == 1 and k not in before:
                sig = "unknown-request-id"
            elif kind == 0:
                sig = "add_tc"
            elif kind == 2:
                sig = "remove_entry"
            elif kind == 3:
                sig = "remove_completed_entries"
            elif any(x[0] != k and x not in d for x in prev):
                sig = "isolation"
            else:
                sig = "state-machine"
            return ("C16/PusVerificator/" + sig, "call %s returned %s, dictionary %s; documented state machine: %s, %s" % (o, ret, d, exp_ret, exp_d))
        prev = d
    # the same history through the Coq spec (total map + table)
    if sres:
        keys = _keys(a)
        s, i = sres[0], 1
        for o, (ret, d) in zip(a, obs):
            sret = s[i]
            smap = {l[0]: l[2:] for l in s[i + 1:i + 1 + len(keys)] if l[1] == 1}
            i += 1 + len(keys)
            got_ret = [3, 1] if ret[0] == 3 and ret[1] in (1, 2, 3) else ret
            if got_ret != sret or {l[0]: l[1:] for l in d} != smap:
                return ("C16/PusVerificator/spec-tracker", "call %s: implementation %s %s, Spec.spec_step %s %s" % (o, ret, d, sret, smap))
    return None


def neighbours(case):
    op, a = case
    out = []
    if op == 800:
        for i in range(len(a)):
            if len(a) > 1:
                out.append((800, a[:i] + a[i + 1:]))
        for i in range(1, len(a) + 1):
            out.append((800, a[:i]))
    if op == 801:
        for i in range(5):
            for v in ((0, 1) if i == 0 else (-1, 0, 1)):
                s = list(a[0]); s[i] = v
                out.append((801, [s, a[1]]))
    return out


def search_cases(broken, rng):
    out = []
    for r, ac, sa, sp_, co in itertools.product((0, 1), (-1, 0, 1), (-1, 0, 1), (-1, 0, 1), (-1, 0, 1)):
        for sub in range(0, 10):
            out.append((801, [[r, ac, sa, sp_, co, 2], [sub, 1 if sub in (5, 6) else 0, 4 if sub in (5, 6) else 0]]))
    return out


DECODERS = []   # the tracker has no decode entry point
