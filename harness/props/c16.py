"""C16 — PUS verification tracker state machine.

op 800: one case = a whole history, every argument one step (see Run/DispVerif.v):
  [0, id6, path] add_tc   [1, id6, sub, has_step, step, path] add_tm   [2, id6, path] remove_entry
  [3] remove_completed_entries   [4, id6, what, value] the caller edits the telecommand objects it built with
  that header (seq_count / apid / sequence flags / packet type / secondary header flag setters): no tracker call
  id6 = [ccsds_version, packet type, sec-header flag, apid, sequence flags, sequence count]
  path (optional, default 0) = how the caller builds the object: PusTc(...), PusTc.from_sp_header,
  from_composite_fields, unpack of the packed telecommand, sp_header assignment, setters; Service1Tm(...) with
  RequestId(...) / RequestId.unpack, the create_*_tm helpers, Service1Tm.unpack / from_tm of the packed report,
  helper + the telecommand edited before the report is fed; RequestId(...), unpack, from_sp_header, from_pus_tc.
  Every TmCheckResult handed out is kept and re-read after every later step and at the end of the history.
  path // 6 (ignored by the model: the state machine sees the request id only) selects every field of the telecommand
  that does NOT enter the request id: ack flags (all 16 values), service / subservice, source id, application data
  (_tc_fields); the caller edits [4, ...] also reach the secondary header (ack flags, source id) and the application data.
op 802: the same steps on ONE tracker for tens of thousands of operations (dependence on the NUMBER of earlier calls):
  observed are the return value of every step and the dictionary once, at the end.
op 801: one transition: a0 = status [recvd, accepted, started, step, completed, step_list...] installed directly
  in the dictionary, a1 = [sub, has_step, step] fed through the real add_tm.
Observed after every call: the return value and the whole dictionary (insertion order)."""
import itertools, sys
from spacepackets.ccsds.spacepacket import PacketId, PacketSeqCtrl, PacketType, SequenceFlags, SpacePacketHeader
from spacepackets.ecss import PusTc, PusTm
from spacepackets.ecss.tc import PusTcDataFieldHeader
from spacepackets.ecss.fields import PacketFieldEnum
from spacepackets.ecss import pus_1_verification as p1
from spacepackets.ecss.pus_1_verification import (Service1Tm, VerificationParams, RequestId, Subservice,
                                                  FailureNotice, UnpackParams)
from spacepackets.ecss.pus_verificator import PusVerificator, VerificationStatus, StatusField
from harness.core import classify_exception
from harness import core
from harness.props.c13 import _Clock     # simulated pauses between calls (see c13.py)

ID = "C16"
_PV = "spacepackets.ecss.pus_verificator:"
_P1 = "spacepackets.ecss.pus_1_verification:"
_M = "SP.Model.Verificator."
ENUMS = [
    (_PV + "StatusField.UNSET", _M + "UNSET"),
    (_PV + "StatusField.FAILURE", _M + "FAILURE"),
    (_PV + "StatusField.SUCCESS", _M + "SUCCESS"),
    (_P1 + "Subservice.TM_ACCEPTANCE_SUCCESS", _M + "TM_ACCEPTANCE_SUCCESS"),
    (_P1 + "Subservice.TM_ACCEPTANCE_FAILURE", _M + "TM_ACCEPTANCE_FAILURE"),
    (_P1 + "Subservice.TM_START_SUCCESS", _M + "TM_START_SUCCESS"),
    (_P1 + "Subservice.TM_START_FAILURE", _M + "TM_START_FAILURE"),
    (_P1 + "Subservice.TM_STEP_SUCCESS", _M + "TM_STEP_SUCCESS"),
    (_P1 + "Subservice.TM_STEP_FAILURE", _M + "TM_STEP_FAILURE"),
    (_P1 + "Subservice.TM_COMPLETION_SUCCESS", _M + "TM_COMPLETION_SUCCESS"),
    (_P1 + "Subservice.TM_COMPLETION_FAILURE", _M + "TM_COMPLETION_FAILURE"),
]
ASSUMPTIONS = [
    "Python dict keyed by RequestId (__hash__/__eq__ = as_u32) behaves as an insertion-ordered association list "
    "keyed by the 32-bit value; VerificationStatus objects are mutated in place",
    "the documented state machine is the transition table of DESIGN.md 5.C16 (Spec/VerificatorSpec.v): 'all "
    "verifications received' is evaluated at the report that terminates the sequence, with the fields as they "
    "are at that moment",
    "object identity is modelled where the property speaks about answers: a TmCheckResult is a fresh object per call "
    "(completed flag never rewritten) whose status is the dictionary's own VerificationStatus object until remove_entry / "
    "remove_completed_entries detach it (Model.Verificator.hrun / refresh); handing out the dictionary's status object and "
    "the verif_dict getter returning the internal dictionary are design decisions, not checked as defects",
    "the tracker and the reports own their request ids (copies since /repo 1eb149b): a caller editing its telecommand "
    "objects afterwards is not a tracker operation (HCallerEdit)",
]
TRUSTED = []
TS = bytes(7)
LONG_PROBE_PREFIX = 300
core.NO_THREAD_OPS.add(802)     # seconds per history: concurrent callers are probed on the short histories (op 800)
core.NO_LIVE_PROBE_OPS.add(802)


def _hdr(i, data_len=0):
    v, t, s, ap, fl, c = i
    return SpacePacketHeader(PacketType(t), ap, c, data_len, bool(s), SequenceFlags(fl), v)


_SERVICES = [(17, 1), (3, 25), (8, 128), (255, 255), (0, 0), (1, 1)]
_SOURCES = [0, 1, 0xFFFF, 0x1234]
_APP_DATA = [b"", b"\x00", bytes(range(16)), b"\xff" * 300]
N_TC_VARIANTS = 16 * len(_SERVICES) * len(_SOURCES) * len(_APP_DATA)


def _tc_fields(var):
    """the fields of a telecommand that do not enter its request id; variant 0 = the constructor defaults"""
    ack = 15 - var % 16
    var //= 16
    svc, sub = _SERVICES[var % len(_SERVICES)]
    var //= len(_SERVICES)
    src = _SOURCES[var % len(_SOURCES)]
    var //= len(_SOURCES)
    return ack, svc, sub, src, _APP_DATA[var % len(_APP_DATA)]


def _tc(i, path=0):
    """a telecommand object whose space packet header carries id6, built along the requested path
    (or, where that path cannot produce the header, by assigning the header)"""
    v, t, s, ap, fl, c = i
    std = (v, t, s, fl) == (0, 1, 1, 3)   # what PusTc(...) always produces
    ack, svc, sub, src, app = _tc_fields(path // 6)
    dflt = path // 6 == 0
    path %= 6
    if path == 0 and std:
        if dflt:
            return PusTc(apid=ap, seq_count=c, service=17, subservice=1)
        return core.build(PusTc, service=svc, subservice=sub, apid=ap, app_data=app, seq_count=c, source_id=src, ack_flags=ack)
    if path == 1 and (t, s) == (1, 1):    # from_sp_header forces packet type TC and the secondary header flag
        if dflt:
            return PusTc.from_sp_header(_hdr(i), service=17, subservice=1)
        return core.build(PusTc.from_sp_header, sp_header=_hdr(i), service=svc, subservice=sub, app_data=app, source_id=src, ack_flags=ack)
    if path == 2 and t == 1:              # from_composite_fields refuses packet type TM
        if dflt:
            return PusTc.from_composite_fields(_hdr(i, 6), PusTcDataFieldHeader(17, 1))
        return PusTc.from_composite_fields(_hdr(i, 6 + len(app)), core.build(PusTcDataFieldHeader, service=svc, subservice=sub, source_id=src, ack_flags=ack), app)
    if path == 5 and std:                 # setters on an empty telecommand
        tc = PusTc.empty()
        tc.apid = ap
        tc.seq_count = c
        if not dflt:
            tc.pus_tc_sec_header.ack_flags = ack
            tc.pus_tc_sec_header.service, tc.pus_tc_sec_header.subservice = svc, sub
            tc.source_id = src
            tc.app_data = app
        return tc
    tc = PusTc(service=17, subservice=1) if dflt else PusTc(service=svc, subservice=sub, source_id=src, ack_flags=ack, app_data=app)
    tc.sp_header = _hdr(i, tc.sp_header.data_len)
    if path == 3:                         # through the wire format
        raw = tc.pack()
        return PusTc.unpack(bytes(raw) if c % 2 else raw)
    return tc


def _reqid(i, path=0, caller=None):
    v, t, s, ap, fl, c = i
    path %= 4
    if path == 1:
        return RequestId.unpack(bytes(RequestId(PacketId(PacketType(t), bool(s), ap), PacketSeqCtrl(SequenceFlags(fl), c), v).pack()))
    if path == 2:
        return RequestId.from_sp_header(_hdr(i))
    if path == 3:
        tc = _tc(i, 4 + 6 * ((i[5] * 31 + i[3]) % N_TC_VARIANTS))
        if caller is not None:
            caller.tcs.setdefault(tuple(i), []).append(tc)
        return RequestId.from_pus_tc(tc)
    return RequestId(PacketId(PacketType(t), bool(s), ap), PacketSeqCtrl(SequenceFlags(fl), c), v)


def _step(val):
    return PacketFieldEnum.with_byte_size(1 if val < 256 else 2 if val < 65536 else 4, val)


def _notice(kind=0):
    if kind:
        return FailureNotice(PacketFieldEnum.with_byte_size(2, 0xABCD), data=bytes(range(40)))
    return FailureNotice(PacketFieldEnum.with_byte_size(1, 8), data=bytes([0, 1]))


_TM_STAMPS = [TS, b"\xff" * 7, b"\x01\x02"]
N_TM_VARIANTS = 3 * 3 * len(_TM_STAMPS) * 2 * 2


def _tm_fields(i, var):
    """the fields of a report that the tracker's documented behaviour does not depend on: APID, sequence count and
    destination id of the report itself, its time stamp, the failure notice; variant 0 = what the harness always used"""
    apid = (i[3], 0, 0x7FF)[var % 3]
    var //= 3
    seq = (0, 16383, 1)[var % 3]
    var //= 3
    ts = _TM_STAMPS[var % len(_TM_STAMPS)]
    var //= len(_TM_STAMPS)
    return apid, seq, ts, (0, 0xFFFF)[var % 2], (var // 2) % 2


_HELPERS = {1: "create_acceptance_success_tm", 2: "create_acceptance_failure_tm", 3: "create_start_success_tm",
            4: "create_start_failure_tm", 5: "create_step_success_tm", 6: "create_step_failure_tm",
            7: "create_completion_success_tm", 8: "create_completion_failure_tm"}


def _tm(i, sub, has_step, step, path=0, caller=None):
    apid, seq, ts, dest, nk = _tm_fields(i, path // 6)
    path %= 6
    sv = Subservice(sub) if 0 <= sub <= 8 else sub
    if sub in (5, 6) and not has_step:
        # a report object without step id (constructor default parameters, request id set afterwards)
        tm = Service1Tm(apid=apid, subservice=sv, timestamp=ts)
        tm.tc_req_id = _reqid(i, path, caller)
        return tm
    assert sub in (5, 6) or not has_step
    if path in (2, 5) and 1 <= sub <= 8:
        # the helper functions read the request id from a telecommand object
        tc = _tc(i, 4 + 6 * ((sub * 37 + step * 5 + i[5]) % N_TC_VARIANTS))
        if caller is not None:
            caller.tcs.setdefault(tuple(i), []).append(tc)
        args = [apid, tc] + ([_step(step)] if sub in (5, 6) else []) + ([_notice(nk)] if sub % 2 == 0 else []) + [ts]
        tm = getattr(p1, _HELPERS[sub])(*args)
        if path == 5:
            # the caller goes on using its telecommand object (next sequence count, other APID) before it
            # feeds the report: the report is about the telecommand as it was
            tc.seq_count = (i[5] + 1) % 16384
            tc.apid = (i[3] + 1) % 2048
            tc.sp_header.seq_flags = SequenceFlags((i[4] + 1) % 4)
        return tm
    fn = _notice(nk) if sub % 2 == 0 else None
    tm = core.build(Service1Tm, apid=apid, subservice=sv, timestamp=ts,
                    verif_params=VerificationParams(_reqid(i, 1 if path == 1 else 0), step_id=_step(step) if has_step else None, failure_notice=fn),
                    seq_count=seq, packet_version=0, space_time_ref=0, destination_id=dest)
    if path in (3, 4) and 1 <= sub <= 8:
        raw = tm.pack()
        up = UnpackParams(len(ts), bytes_step_id=_step(step).len() if has_step else 1, bytes_err_code=2 if nk else 1)
        if path == 3:
            return Service1Tm.unpack(bytes(raw) if step % 2 else raw, up)
        return Service1Tm.from_tm(PusTm.unpack(raw, len(ts)), up)
    return tm


def _st(s):
    return [int(s.all_verifs_recvd), int(s.accepted), int(s.started), int(s.step), int(s.completed)] + [int(x) for x in s.step_list]


def _dict(v):
    items = list(v.verif_dict.items())
    return [[len(items)]] + [[k.as_u32()] + _st(s) for k, s in items]


class _Caller:
    """the user of one tracker: keeps the telecommand objects it built and every answer it was given"""
    def __init__(self, v=None):
        self.v = v if v is not None else PusVerificator()
        self.tcs = {}        # id6 -> telecommand objects built with that header
        self.kept = []       # (result object, completed flag when handed out, status object when handed out)
        self.rewritten = 0

    def recheck(self):
        for r, c, st in self.kept:
            if bool(r.completed) != bool(c) or r.status is not st:
                self.rewritten += 1

    def call(self, o):
        v = self.v
        try:
            if o and o[0] == 0:
                tc = _tc(o[1:7], o[7] if len(o) > 7 else 0)
                self.tcs.setdefault(tuple(o[1:7]), []).append(tc)
                return [0, int(v.add_tc(tc))]
            if o and o[0] == 1:
                r = v.add_tm(_tm(o[1:7], o[7], o[8], o[9], o[10] if len(o) > 10 else 0, self))
                if r is None:
                    return [1]
                self.kept.append((r, r.completed, r.status))
                return [2, int(r.completed)] + _st(r.status)
            if o and o[0] == 2:
                return [0, int(v.remove_entry(_reqid(o[1:7], o[7] if len(o) > 7 else 0, self)))]
            if o and o[0] == 4:
                for tc in self.tcs.get(tuple(o[1:7]), []):
                    what, val = o[7], o[8]
                    if what == 0:
                        tc.seq_count = val % 16384
                    elif what == 1:
                        tc.apid = val % 2048
                    elif what == 2:
                        tc.sp_header.seq_flags = SequenceFlags(val % 4)
                    elif what == 3:
                        tc.sp_header.packet_type = PacketType(val % 2)
                    elif what == 4:
                        tc.sp_header.sec_header_flag = bool(val % 2)
                    elif what == 5:
                        tc.pus_tc_sec_header.ack_flags = val % 16
                    elif what == 6:
                        tc.app_data = bytes(val % 9)
                    elif what == 7:
                        tc.source_id = val % 65536
                    else:
                        tc.pus_tc_sec_header.service, tc.pus_tc_sec_header.subservice = val % 256, (val // 256) % 256
                return [1]
            r = v.remove_completed_entries()
            assert r is None
            return [1]
        except AssertionError:
            raise
        except Exception as e:  # the exception class is part of the observation, the history goes on
            return [3, classify_exception(e)]

    def final(self):
        out = [[len(self.kept)]]
        for r, c, st in self.kept:
            live = any(r.status is s for s in self.v.verif_dict.values())
            out.append([int(r.completed), int(live)] + _st(r.status))
        return out + [[self.rewritten]]


FIXED_ID = [0, 1, 1, 5, 3, 7]


def impl(op, a):
    if op == 800:
        # two histories out of three: pauses (simulated, see c13._Clock) of seconds .. minutes / of hours .. years between
        # consecutive tracker calls; the documented state machine has no notion of time
        with _Clock((len(a) + sum(len(o) for o in a[:3])) % 3) as clock:
            c = _Caller()
            out = []
            for k, o in enumerate(a):
                clock.advance(k)
                out += [c.call(o)] + _dict(c.v)
                c.recheck()
            return out + c.final()
    if op == 802:
        c = _Caller()
        if sys.getprofile() is not None:
            # the live-object probe (harness/liveprobe.py) snapshots every object created during the call and compares
            # them pairwise with every buffer handed out: quadratic in the history length.  Under its profiler only the
            # first steps are driven (the probe looks at objects, not at results); the full history runs unprofiled.
            a = a[:LONG_PROBE_PREFIX]
        with _Clock(1 + len(a) % 2) as clock:
            out = []
            for k, o in enumerate(a):
                if k % 64 == 0:
                    clock.advance(k // 64)
                out.append(c.call(o))
            return out + _dict(c.v)
    if op == 801:
        s = a[0]
        v = PusVerificator()
        v._verif_dict[_reqid(FIXED_ID)] = VerificationStatus(
            all_verifs_recvd=bool(s[0]), accepted=StatusField(s[1]), started=StatusField(s[2]),
            step=StatusField(s[3]), step_list=list(s[5:]), completed=StatusField(s[4]))
        sub, hs, st = a[1]
        return [_Caller(v).call([1] + FIXED_ID + [sub, hs, st])] + _dict(v)
    raise RuntimeError("bad op")


# ------------------------------------------------------------------ reference (documented table)
def key_of(i):
    """RequestId.as_u32 by arithmetic: 3 + 1 + 1 + 11 + 2 + 14 bits"""
    v, t, s, ap, fl, c = i
    return v * 2 ** 29 + t * 2 ** 28 + s * 2 ** 27 + ap * 2 ** 16 + fl * 2 ** 14 + c


def table(sub, k, st):
    """DESIGN.md 5.C16.  st = [recvd, acc, sta, step, comp, steps...] -> (st', done) or None (ValueError)"""
    r, ac, sa, sp_, co = st[:5]
    steps = list(st[5:])
    both = ac != -1 and sa != -1
    if sub == 1:
        ac, done = 1, False
    elif sub == 2:
        r, ac, done = 1, 0, True
    elif sub == 3:
        sa, done = 1, False
    elif sub == 4:
        r, sa, done = (1 if ac != -1 else r), 0, True
    elif sub == 5:
        sp_, done = (1 if sp_ == -1 else sp_), False
        steps.append(k)
    elif sub == 6:
        r, sp_, done = (1 if both else r), 0, True
        steps.append(k)
    elif sub == 7:
        r, co, done = (1 if both else r), 1, True
    elif sub == 8:
        r, co, done = (1 if both else r), 0, True
    else:
        return None
    return [r, ac, sa, sp_, co] + steps, done


# ------------------------------------------------------------------ generators
TCS = [[0, 1, 1, 5, 3, 7], [0, 1, 1, 5, 3, 8], [0, 1, 1, 0x7FF, 3, 0x3FFF]]
# never registered: differ from TCS[0] in exactly one field
STRANGERS = [[1, 1, 1, 5, 3, 7], [0, 0, 1, 5, 3, 7], [0, 1, 0, 5, 3, 7], [0, 1, 1, 6, 3, 7], [0, 1, 1, 5, 2, 7], [0, 1, 1, 5, 3, 6],
             [0, 0, 0, 0, 0, 0]]


def tm(i, sub, step=None, path=None):
    return [1] + i + [sub, 1 if step is not None else 0, step if step is not None else 0] + ([path] if path is not None else [])


def tm_auto(i, sub, rng, path=None):
    return tm(i, sub, rng.choice([0, 1, 2, 255, 256, 70000]) if sub in (5, 6) else None, path)


def id_of_key(k):
    return [k >> 29 & 7, k >> 28 & 1, k >> 27 & 1, k >> 16 & 0x7FF, k >> 14 & 3, k & 0x3FFF]


def bit_neighbours(i):
    """the 32 request ids that differ from i in exactly one bit of the 32-bit value (3 version bits, packet
    type, secondary header flag, 11 APID bits, 2 sequence flag bits, 14 sequence count bits)"""
    k = key_of(i)
    return [id_of_key(k ^ (1 << b)) for b in range(32)]


BASES = [[0, 1, 1, 5, 3, 7], [0, 1, 1, 0x7FF, 3, 0x3FFF], [0, 1, 1, 0, 3, 0], [3, 1, 1, 0x2AA, 3, 0x1555],
         [7, 1, 0, 0x400, 0, 0x2000], [0, 0, 0, 1, 1, 1]]


def random_op(rng, pool, strangers, p_edit=0.0):
    """one step over the telecommands of pool (registered now and then) and strangers (never registered)"""
    x = rng.random()
    if x < 0.22:
        return [0] + rng.choice(pool) + [rng.randrange(6) + 6 * rng.choice([0, rng.randrange(N_TC_VARIANTS)])]
    if x < 0.80:
        i = rng.choice(pool * 3 + strangers) if strangers else rng.choice(pool)
        sub = rng.choice([1, 2, 3, 4, 5, 6, 7, 8] * 6 + [0, 9, 255])
        return tm_auto(i, sub, rng, rng.randrange(5) + 6 * rng.choice([0, rng.randrange(N_TM_VARIANTS)]))
    if x < 0.80 + p_edit:
        return [4] + rng.choice(pool) + [rng.randrange(9), rng.randrange(16384)]
    if x < 0.93:
        return [2] + rng.choice(pool + strangers[:2]) + [rng.randrange(4)]
    return [3]



def _variant(rng):
    """construction path + fields outside the request id (half of the time the constructor defaults)"""
    return rng.randrange(6) + 6 * rng.choice([0, rng.randrange(N_TC_VARIANTS)])


def long_history(rng, n, kind):
    """one tracker, six early telecommands in different states, then n further registrations (kind 0: they stay
    registered, 1: a small pool registered and removed over and over, 2: n further calls of every other kind), then
    the early ones are registered again (duplicates: refused whatever their state and age), reported on, removed
    when finished and registered once more"""
    E = [[0, 1, 1, 5, 3, c] for c in range(6)]
    ops = [[0] + e + [_variant(rng)] for e in E]
    ops += [tm(E[0], 1), tm(E[0], 3), tm(E[0], 7),                      # finished
            tm(E[1], 2),                                                # finished by an acceptance failure
            tm(E[2], 1), tm(E[2], 3),                                   # started, not finished
            tm(E[4], 1), tm(E[4], 3), tm(E[4], 5, 2), tm(E[4], 6, 3),   # finished by a failed step
            tm(E[5], 7)]                                                # completion report alone: not finished
    stranger = [0, 1, 1, 4, 3, 0]
    if kind == 0:
        for j in range(n):
            i = [0, 1, 1, 5 + (6 + j) // 16384, 3, (6 + j) % 16384]
            ops.append([0] + i + [_variant(rng)])
            if j % 997 == 3:
                ops.append(tm(i, 1, None, j % 5))
            if j % 2503 == 7:
                ops.append([0] + i + [_variant(rng)])                   # duplicate of a recent one
            if j % 1999 == 11:
                ops += [tm(i, 1), tm(i, 3), tm(i, 8)]                   # finished, stays registered
            if j % 3001 == 13:
                ops.append([2] + i + [j % 4])
            if j % 4001 == 17:
                ops.append([0] + E[(j // 4001) % 6] + [_variant(rng)])  # an early one again, at any point
    elif kind == 1:
        pool = [[0, 1, 1, 6, 3, c] for c in range(7)]
        for j in range(n):
            i = pool[j % 7]
            ops.append([0] + i + [_variant(rng)])
            if j % 5 == 0:
                ops += [tm(i, 1), tm(i, 3), tm(i, 7)]
            if j % 1013 == 5:
                ops.append([0] + E[(j // 1013) % 6] + [_variant(rng)])
            ops.append([2] + i + [j % 4])
    else:
        for j in range(n):
            x = j % 11
            if x < 3:
                ops.append(tm(E[3], (1, 3, 1)[x], None, j % 5))
            elif x < 5:
                ops.append([0] + E[j % 6] + [_variant(rng)])            # refused: counts attempts
            elif x == 5:
                ops.append(tm(stranger, 1 + j % 8, j % 300 if 1 + j % 8 in (5, 6) else None))
            elif x == 6:
                ops.append([2] + stranger + [j % 4])
            elif x == 7:
                ops.append([4] + E[j % 6] + [j % 9, j])
            elif x == 8 and j % 1100 == 8:
                ops.append(tm(E[2], 5, j % 70000))
            else:
                ops.append(tm(E[0], 1 + 2 * (j % 2)))
    ops += [[0] + e + [_variant(rng)] for e in E]
    ops += [tm(E[0], 7), tm(E[2], 5, 9), tm(E[3], 1), [3]]
    ops += [[0] + e + [_variant(rng)] for e in E]
    ops += [tm(E[0], 1), [2] + E[2], [0] + E[2], tm(E[1], 4), [3], [0] + E[1]]
    return (802, ops)


def streams(tier, rng):
    big = tier == "thorough"
    # 1. the complete transition table: 162 statuses x subservices 0..9 (+ 255), through the real add_tm
    cases = []
    for r, ac, sa, sp_, co in itertools.product((0, 1), (-1, 0, 1), (-1, 0, 1), (-1, 0, 1), (-1, 0, 1)):
        for sub in list(range(0, 10)) + [255]:
            for steps in ([], [3], [1, 1, 2]):
                k = rng.choice([0, 1, 4, 255, 300])
                cases.append((801, [[r, ac, sa, sp_, co] + steps, [sub, 1 if sub in (5, 6) else 0, k if sub in (5, 6) else 0]]))
    yield "exh_transition_table_162x11", "exact", cases
    # 2. every report sequence of length <= 3 (4 in thorough) for one telecommand, then remove_completed
    cases = []
    for n in range(0, 5 if big else 4):
        for seq in itertools.product(range(1, 9), repeat=n):
            ops = [[0] + TCS[0]] + [tm(TCS[0], s, j + 1 if s in (5, 6) else None) for j, s in enumerate(seq)] + [[3]]
            cases.append((800, ops))
    yield "exh_report_sequences", "exact", cases
    # 3. all interleavings of two telecommands' report chains (isolation)
    cases = []
    chains = [(1, 3, 5, 7), (1, 3, 6), (2,), (1, 4), (3, 1, 8), (7, 3, 1)]
    for ca, cb in itertools.product(chains, chains):
        n, m = len(ca), len(cb)
        for pos in itertools.combinations(range(n + m), n):
            ia, ib, ops = 0, 0, [[0] + TCS[0], [0] + TCS[1]]
            for p in range(n + m):
                if p in pos:
                    ops.append(tm(TCS[0], ca[ia], ia if ca[ia] in (5, 6) else None)); ia += 1
                else:
                    ops.append(tm(TCS[1], cb[ib], 10 + ib if cb[ib] in (5, 6) else None)); ib += 1
            ops.append([3])
            cases.append((800, ops))
    yield "interleavings_two_tcs", "exact", cases
    # 4. random histories over 3 telecommands + never-registered request ids
    cases = []
    for _ in range(40000 if big else 5000):
        ops = []
        for _ in range(rng.randrange(1, 40)):
            x = rng.random()
            if x < 0.15:
                ops.append([0] + rng.choice(TCS))
            elif x < 0.80:
                i = rng.choice(TCS + TCS + TCS + STRANGERS) if rng.random() < 0.5 else rng.choice(TCS)
                sub = rng.choice([1, 2, 3, 4, 5, 6, 7, 8] * 6 + [0, 9, 10, 255])
                ops.append(tm_auto(i, sub, rng))
            elif x < 0.90:
                ops.append([2] + rng.choice(TCS + STRANGERS[:3]))
            else:
                ops.append([3])
        cases.append((800, ops))
    yield "random_histories", "exact", cases
    # 5. reports without step id for step subservices (AttributeError escapes after a partial update)
    cases = []
    for sub in (5, 6):
        for pre in ([], [1], [1, 3], [3], [1, 3, 5]):
            ops = [[0] + TCS[0]] + [tm(TCS[0], s, 9 if s in (5, 6) else None) for s in pre] + [tm(TCS[0], sub, None), tm(TCS[0], 7)]
            cases.append((800, ops))
        cases.append((800, [tm(TCS[0], sub, None)]))   # unknown id: no attribute access at all
    yield "step_reports_without_step_id", "exact", cases
    # 6. telecommands that differ in ONE bit of the request id (each of the 32 bits: version, packet type,
    #    secondary header flag, APID, sequence flags, sequence count), for several base ids, every way of
    #    building the objects: the neighbour is unknown until it is registered, is not a duplicate, is tracked
    #    and removed independently
    cases = []
    for bi, base in enumerate(BASES):
        for b, nb in enumerate(bit_neighbours(base)):
            p = (b + bi) % 6
            ops = [[0] + base + [p], tm(nb, 1, None, p % 5), [2] + nb + [p % 4], [0] + nb + [(p + 3) % 6], [0] + nb + [p],
                   tm(base, 2, None, (p + 1) % 5), tm(nb, 3, None, (p + 2) % 5), tm(nb, 5, b, (p + 3) % 5), tm(base, 1, None, p % 5),
                   [3], tm(nb, 7, None, (p + 4) % 5), [2] + base + [(p + 1) % 4], [2] + nb + [(p + 2) % 4]]
            cases.append((800, ops))
    yield "exh_single_bit_neighbours", "exact", cases
    # 6b. random histories (<= 12 steps) over a base telecommand and several of its one-bit neighbours
    cases = []
    for _ in range(20000 if big else 2500):
        base = rng.choice(BASES)
        nbs = bit_neighbours(base)
        pool = [base] + rng.sample(nbs, rng.randrange(1, 4))
        strangers = rng.sample([n for n in nbs if n not in pool], 3)
        cases.append((800, [random_op(rng, pool, strangers) for _ in range(rng.randrange(2, 13))]))
    yield "random_histories_bit_neighbours", "exact", cases
    # 7. every construction path of telecommand x report x request id, on ordinary and unusual headers
    cases = []
    for i in [[0, 1, 1, 5, 3, 7], [2, 1, 1, 5, 3, 7], [0, 1, 0, 5, 3, 7], [0, 1, 1, 5, 1, 7], [5, 0, 0, 0x7FF, 0, 0x3FFF]]:
        j = list(i); j[5] ^= 1
        for pt, pr, pq in itertools.product(range(6), range(6), range(4)):
            ops = [[0] + i + [pt], [0] + i + [(pt + 1) % 6], tm(i, 1, None, pr), tm(j, 1, None, pr), tm(i, 3, None, pr), tm(i, 5, 300, pr),
                   tm(i, 6, 70000, pr), [2] + j + [pq], [0] + j + [pt], tm(j, 8, None, pr), tm(i, 7, None, pr), [2] + i + [pq], [3]]
            cases.append((800, ops))
    yield "construction_paths", "exact", cases
    # 8. answers kept and re-read later: several reports per telecommand, removal and re-registration in
    #    between (the old answers keep the state their telecommand had when it was removed)
    cases = []
    for _ in range(20000 if big else 2500):
        pool = rng.sample(TCS + [[1, 1, 1, 5, 3, 7], [0, 1, 1, 5, 3, 9]], rng.randrange(1, 4))
        ops = [[0] + t + [rng.randrange(6)] for t in pool]
        for _ in range(rng.randrange(2, 11)):
            x = rng.random()
            t = rng.choice(pool)
            if x < 0.7:
                ops.append(tm_auto(t, rng.randrange(1, 9), rng, rng.randrange(5)))
            elif x < 0.8:
                ops += [[2] + t + [rng.randrange(4)], [0] + t + [rng.randrange(6)]]
            elif x < 0.9:
                ops += [[3], [0] + t + [rng.randrange(6)]]
            else:
                ops.append([0] + t)
        cases.append((800, ops))
    yield "kept_results_reread", "exact", cases
    # 9. the caller goes on using its telecommand objects (setters) after registering them / after building
    #    a report from them: the tracker and the report keep the request id they were given
    cases = []
    for _ in range(12000 if big else 1500):
        pool = rng.sample(TCS + [[0, 1, 1, 6, 3, 7], [0, 1, 1, 5, 3, 6]], rng.randrange(1, 4))
        ops = []
        for _ in range(rng.randrange(2, 13)):
            o = random_op(rng, pool, STRANGERS[:3], p_edit=0.12)
            if o[0] == 1 and 1 <= o[7] <= 8 and rng.random() < 0.3:
                o[-1] = 5
            ops.append(o)
        cases.append((800, ops))
    for i in TCS[:2]:
        for what, val in itertools.product(range(5), (0, 1, 8, 16383)):
            for pt in range(6):
                ops = [[0] + i + [pt], [4] + i + [what, val], tm(i, 1), [0] + i + [pt], tm(i, 7, None, 5), [4] + i + [what, val + 1], [2] + i, [3]]
                cases.append((800, ops))
    yield "caller_edits_its_telecommands", "exact", cases
    # 10. the fields of a telecommand that do not enter its request id: all 16 ack-flag values x every report
    #     sequence of length <= 2 (thorough 3) x construction paths; then random histories in which every
    #     registration has its own ack flags / service / subservice / source id / application data and the
    #     caller goes on editing those fields.  The state machine depends on the request id only.
    cases = []
    for ack in range(16):
        for n in range(0, 4 if big else 3):
            for seq in itertools.product(range(1, 9), repeat=n):
                var = (15 - ack) + 16 * (len(cases) % (N_TC_VARIANTS // 16) if len(cases) % 3 == 0 else 0)
                ops = [[0] + TCS[0] + [len(cases) % 6 + 6 * var]] + [tm(TCS[0], s_, j + 1 if s_ in (5, 6) else None) for j, s_ in enumerate(seq)] + [[3]]
                cases.append((800, ops))
    yield "exh_ack_flags_x_report_sequences", "exact", cases
    # 10b. the fields of a report other than (request id, subservice, step): its own APID / sequence count / destination
    #      id, time stamp, failure notice - every variant x every construction path of the report, four report chains
    cases = []
    chains = [(1, 3, 5, 7), (2,), (1, 4), (1, 3, 6, 8), (3, 8), (5, 6)]
    for var in range(N_TM_VARIANTS):
        for pr in range(6):
            ch = chains[(var + pr) % len(chains)]
            p_ = pr + 6 * var
            ops = [[0] + TCS[0] + [pr]] + [tm(TCS[0], s_, 300 * j + 7 if s_ in (5, 6) else None, p_) for j, s_ in enumerate(ch)] + \
                  [tm(STRANGERS[var % len(STRANGERS)], 1, None, p_), [3]]
            cases.append((800, ops))
    yield "exh_report_fields_outside_request_id", "exact", cases
    cases = []
    for _ in range(16000 if big else 2000):
        pool = rng.sample(TCS + [[0, 1, 1, 6, 3, 7], [0, 1, 1, 5, 3, 6]], rng.randrange(1, 4))
        ops = [[0] + t + [rng.randrange(6) + 6 * rng.randrange(N_TC_VARIANTS)] for t in pool]
        for _ in range(rng.randrange(2, 12)):
            x = rng.random()
            t = rng.choice(pool)
            if x < 0.6:
                ops.append(tm_auto(t, rng.randrange(1, 9), rng, rng.randrange(6) + 6 * rng.randrange(N_TM_VARIANTS)))
            elif x < 0.75:
                ops.append([4] + t + [rng.randrange(4, 9), rng.randrange(65536)])
            elif x < 0.85:
                ops += [[2] + t + [rng.randrange(4)], [0] + t + [rng.randrange(6) + 6 * rng.randrange(N_TC_VARIANTS)]]
            elif x < 0.93:
                ops.append([0] + t + [rng.randrange(6) + 6 * rng.randrange(N_TC_VARIANTS)])
            else:
                ops.append([3])
        cases.append((800, ops))
    yield "tc_fields_outside_request_id", "exact", cases
    # 11. dependence on the NUMBER of earlier operations: one tracker, 16384 .. 20000 (thorough 70000) registrations
    #     (all kept / a small pool registered and removed again / further calls of every other kind), early telecommands
    #     finished and unfinished registered again at the end
    cases = [long_history(rng, 16384 + rng.randrange(0, 64), 0),
             long_history(rng, rng.randrange(16400, 20001), 1),
             long_history(rng, 20000, 2)]
    if big:
        cases += [long_history(rng, 70000, 1), long_history(rng, 66000 + rng.randrange(0, 4001), 0), long_history(rng, 32768 + rng.randrange(8), 1),
                  long_history(rng, 70000, 2)]
    yield "long_histories_one_tracker", "exact", cases


# ------------------------------------------------------------------ oracle
def split_obs(ires, nops):
    """[(return value, dictionary)] per step, and what follows them (the kept results)"""
    out, i = [], 1
    for _ in range(nops):
        ret = ires[i]
        n = ires[i + 1][0]
        out.append((ret, ires[i + 2:i + 2 + n]))
        i += 2 + n
    return out, ires[i:]


def _in_spec(ops):
    return all(not (o and o[0] == 1 and o[7] in (5, 6) and not o[8]) for o in ops)


def _spec_ops(ops):
    out = []
    for o in ops:
        if o and o[0] == 0:
            out.append([0, key_of(o[1:7])])
        elif o and o[0] == 1:
            out.append([1, key_of(o[1:7]), o[7], o[9]])
        elif o and o[0] == 2:
            out.append([2, key_of(o[1:7])])
        elif o and o[0] == 4:
            pass        # not a tracker operation: the documented state machine does not see it
        else:
            out.append([3])
    return out


def _keys(ops):
    return sorted({key_of(o[1:7]) for o in ops if o and o[0] in (0, 1, 2)})


def oracle_spec(case, ires):
    op, a = case
    if ires[0] != [0]:
        return []
    if op == 801 and (a[1][0] not in (5, 6) or a[1][1]):
        return [(850, [a[0], [a[1][0], a[1][2]]])]
    if op == 800 and _in_spec(a):
        return [(851, [_keys(a)] + _spec_ops(a))]
    return []


def oracle_long(a, ires):
    """op 802: the documented state machine (table) on a total map, return value by return value, and the
    dictionary at the end; independent of the Coq model"""
    n = len(a)
    if len(ires) < n + 2:
        return ("C16/PusVerificator/adapter", "long history: %d result lines for %d steps" % (len(ires), n))
    ref = {}
    regs = 0
    for j, (o, ret) in enumerate(zip(a, ires[1:1 + n])):
        kind = o[0] if o else 3
        k = key_of(o[1:7]) if kind in (0, 1, 2) else None
        sig = None
        if kind == 0:
            exp, sig = ([0, 0] if k in ref else [0, 1]), "add_tc"
            if k not in ref:
                ref[k] = [0, -1, -1, -1, -1]
                regs += 1
        elif kind == 1:
            if k not in ref:
                exp, sig = [1], "unknown-request-id"
            else:
                t = table(o[7], o[9], ref[k])
                sig = "state-machine"
                if t is None:
                    exp = [3, 1]
                else:
                    ref[k] = t[0]
                    exp = [2, int(t[1])] + t[0]
        elif kind == 2:
            exp, sig = [0, int(k in ref)], "remove_entry"
            ref.pop(k, None)
        elif kind == 4:
            exp, sig = [1], "caller-edit-reaches-tracker"
        else:
            for kk in [kk for kk, st in ref.items() if st[0]]:
                del ref[kk]
            exp, sig = [1], "remove_completed_entries"
        got = [3, 1] if ret[0] == 3 and ret[1] in (1, 2, 3) else ret
        if kind == 1 and exp == [1] and got == [3, 1] and not 1 <= o[7] <= 8:
            continue        # a report of no service-1 subservice for an unknown request id: "no result", or refused like for a known one
        if got != exp:
            return ("C16/PusVerificator/" + sig, "step %d of one tracker's history (%d telecommands registered so far, %d entries): call %s "
                    "returned %s, documented state machine: %s" % (j, regs, len(ref), o, ret, exp))
    exp_d = [[len(ref)]] + [[kk] + st for kk, st in ref.items()]
    if ires[1 + n:] != exp_d:
        got = ires[1 + n:]
        bad = next((x for x, y in zip(got, exp_d) if x != y), got[-1:] or None)
        return ("C16/PusVerificator/state-machine", "after %d steps on one tracker (%d registrations) the dictionary has %s entries, first "
                "difference %s; documented state machine: %d entries" % (n, regs, got[0] if got else None, bad, len(ref)))
    return None


def oracle(case, ires, sres):
    op, a = case
    if ires[0] != [0]:
        return ("C16/PusVerificator/adapter", "history could not be driven: %s" % (ires,))
    if op == 801:
        st, (sub, hs, k) = a[0], a[1]
        if sub in (5, 6) and not hs:
            return None
        (ret, d), = split_obs(ires, 1)[0]
        exp = table(sub, k, st)
        if exp is None:
            if ret[0] != 3 or ret[1] not in (1, 2, 3):
                return ("C16/add_tm/invalid-subservice", "subservice %d on a known request id: %s, expected ValueError" % (sub, ret))
            if d != [[key_of(FIXED_ID)] + st]:
                return ("C16/add_tm/invalid-subservice", "status changed by a refused report: %s -> %s" % (st, d))
            if sres and sres[0][1] != [1]:
                return ("C16/spec/table", "Coq table disagrees with the reference table on sub %d" % sub)
            return None
        st2, done = exp
        if ret[0] != 2:
            return ("C16/add_tm/no-result", "report %d on a known request id returned %s" % (sub, ret))
        if bool(ret[1]) != (sub in (2, 4, 6, 7, 8)) or bool(ret[1]) != done:
            return ("C16/add_tm/completed-flag", "completed flag %d for subservice %d" % (ret[1], sub))
        if st[3] == 0 and ret[5] != 0:
            return ("C16/add_tm/failed-step-overwritten", "failed step overwritten: %s -> %s" % (st, ret[2:]))
        if st[0] == 1 and ret[2] != 1:
            return ("C16/add_tm/all-verifs-recvd", "all_verifs_recvd reverted: %s -> %s" % (st, ret[2:]))
        if ret[2:] != st2 or d != [[key_of(FIXED_ID)] + st2]:
            what = "all-verifs-recvd" if ret[2] != st2[0] else "step-list" if ret[7:] != st2[5:] else "status-fields"
            return ("C16/add_tm/" + what, "status %s, report %d (step %d) -> %s, state machine says %s" % (st, sub, k, ret[2:], st2))
        if sres and sres[0][1] != [0, int(done)] + st2:
            return ("C16/spec/table", "Coq table %s disagrees with the reference table %s" % (sres[0][1], st2))
        return None
    if op == 802:
        return oracle_long(a, ires)
    if op != 800 or not _in_spec(a):
        return None
    obs, rest = split_obs(ires, len(a))
    # reference tracker: total map key -> status, driven by the table.  A status is one list object per
    # registration, updated in place; an answer refers to the status object of its telecommand
    ref, order = {}, []
    prev = []
    answers = []       # (status object, completed flag, key)
    for o, (ret, d) in zip(a, obs):
        kind = o[0] if o else 3
        k = key_of(o[1:7]) if kind in (0, 1, 2) else None
        before = dict(ref)
        if kind == 0:
            if k in ref:
                exp_ret = [0, 0]
            else:
                ref[k] = [0, -1, -1, -1, -1]; order.append(k); exp_ret = [0, 1]
        elif kind == 1:
            if k not in ref:
                exp_ret = [1]
            else:
                t = table(o[7], o[9], ref[k])
                if t is None:
                    exp_ret = [3, 1]
                else:
                    ref[k][:] = t[0]; exp_ret = [2, int(t[1])] + t[0]
                    answers.append((ref[k], int(t[1]), k))
        elif kind == 4:
            exp_ret = [1]
        elif kind == 2:
            if k in ref:
                del ref[k]; order.remove(k); exp_ret = [0, 1]
            else:
                exp_ret = [0, 0]
        else:
            for kk in [kk for kk in order if ref[kk][0]]:
                del ref[kk]; order.remove(kk)
            exp_ret = [1]
        got_ret = [3, 1] if ret[0] == 3 and ret[1] in (1, 2, 3) else ret
        exp_d = [[kk] + ref[kk] for kk in order]
        if kind == 1 and exp_ret == [1] and got_ret == [3, 1] and not 1 <= o[7] <= 8:
            # a report of no service-1 subservice (outside 1..8) for an unknown request id: the unchanged tracker looks the
            # id up first and answers "no result"; refusing the report with ValueError, as it does for a known id, is as good
            exp_ret = [3, 1]
        if got_ret != exp_ret or d != exp_d:
            if kind == 1 and k not in before:
                sig = "unknown-request-id"
            elif kind == 0:
                sig = "add_tc"
            elif kind == 2:
                sig = "remove_entry"
            elif kind == 3:
                sig = "remove_completed_entries"
            elif kind == 4:
                sig = "caller-edit-reaches-tracker"
            elif any(x[0] != k and x not in d for x in prev):
                sig = "isolation"
            else:
                sig = "state-machine"
            return ("C16/PusVerificator/" + sig, "call %s returned %s, dictionary %s; documented state machine: %s, %s" % (o, ret, d, exp_ret, exp_d))
        prev = d
    # every answer handed out, re-read at the end of the history (and watched after every step)
    if not rest or rest[0] != [len(answers)] or len(rest) != len(answers) + 2:
        return ("C16/add_tm/result-kept", "%d answers expected at the end of the history, got %s" % (len(answers), rest[:1]))
    for n, ((st, done, k), got) in enumerate(zip(answers, rest[1:-1])):
        if got[0] != done:
            return ("C16/add_tm/result-rewritten-later", "answer %d (request id %d) was handed out with completed=%d and reads completed=%d at the end of the history %s" % (n, k, done, got[0], a))
        if got[2:] != st or got[1] != int(ref.get(k) is st):
            return ("C16/add_tm/result-status-object", "answer %d (request id %d) reads status %s (dictionary's object: %d) at the end of the history, its telecommand's status is %s (dictionary's object: %d) %s" % (n, k, got[2:], got[1], st, int(ref.get(k) is st), a))
    if rest[-1] != [0]:
        return ("C16/add_tm/result-rewritten-later", "the completed flag or the status reference of an answer handed out earlier changed during a later step (%s step/answer pairs) %s" % (rest[-1], a))
    # the same history through the Coq spec (total map + table)
    if sres:
        keys = _keys(a)
        s, i = sres[0], 1
        smap = {}
        for o, (ret, d) in zip(a, obs):
            if o and o[0] == 4:       # no tracker operation: the dictionary must read as after the previous step
                if {l[0]: l[1:] for l in d} != smap:
                    return ("C16/PusVerificator/caller-edit-reaches-tracker", "step %s changed the dictionary to %s" % (o, d))
                continue
            sret = s[i]
            smap = {l[0]: l[2:] for l in s[i + 1:i + 1 + len(keys)] if l[1] == 1}
            i += 1 + len(keys)
            got_ret = [3, 1] if ret[0] == 3 and ret[1] in (1, 2, 3) else ret
            if o and o[0] == 1 and sret == [1] and got_ret == [3, 1] and not 1 <= o[7] <= 8:
                got_ret = [1]       # (see above: no service-1 subservice, unknown request id)
            if got_ret != sret or {l[0]: l[1:] for l in d} != smap:
                return ("C16/PusVerificator/spec-tracker", "call %s: implementation %s %s, Spec.spec_step %s %s" % (o, ret, d, sret, smap))
    return None


def neighbours(case):
    op, a = case
    out = []
    if op == 800:
        for i in range(len(a)):
            if len(a) > 1:
                out.append((800, a[:i] + a[i + 1:]))
        for i in range(1, len(a) + 1):
            out.append((800, a[:i]))
    if op == 801:
        for i in range(5):
            for v in ((0, 1) if i == 0 else (-1, 0, 1)):
                s = list(a[0]); s[i] = v
                out.append((801, [s, a[1]]))
    return out


def search_cases(broken, rng):
    out = []
    for r, ac, sa, sp_, co in itertools.product((0, 1), (-1, 0, 1), (-1, 0, 1), (-1, 0, 1), (-1, 0, 1)):
        for sub in range(0, 10):
            out.append((801, [[r, ac, sa, sp_, co, 2], [sub, 1 if sub in (5, 6) else 0, 4 if sub in (5, 6) else 0]]))
    return out


DECODERS = []   # the tracker has no decode entry point
